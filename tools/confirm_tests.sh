#!/bin/sh
# tools/confirm_tests.sh <patch.diff> <test files...>: the repository's own tests that reach the touched code, on a clean scratch
# worktree and on one with the change: prints both summaries and whether the sets of passing test ids are identical.
patch=$(readlink -f "$1"); shift
wt=$(mktemp -d /tmp/ct_wt.XXXXXX); rmdir "$wt"; git -C /repo worktree add -q --detach "$wt" HEAD || exit 3
run() { (cd "$wt" && NUMBA_NUM_THREADS=2 OMP_NUM_THREADS=2 MPLBACKEND=Agg timeout 3000 /venv/bin/python -m pytest -q -p no:cacheprovider --timeout=900 -rA "$@" 2>&1 | grep -E '^(PASSED|[0-9]+ (passed|failed)|=+ .*(passed|failed))' ); }
run "$@" > "$wt.clean"; git -C "$wt" apply "$patch" || { echo "patch does not apply"; git -C /repo worktree remove --force "$wt"; exit 3; }
run "$@" > "$wt.mut"; git -C /repo worktree remove --force "$wt"
grep '^PASSED' "$wt.clean" | sort > "$wt.c"; grep '^PASSED' "$wt.mut" | sort > "$wt.m"
echo "clean: $(tail -1 $wt.clean) | changed: $(tail -1 $wt.mut) | passing sets identical: $(cmp -s $wt.c $wt.m && echo yes || echo NO)"
rm -f "$wt".*
