#!/bin/sh
# tools/run_seeds.sh <seed> [<seed> ...] — run every quick check under the given VERIF_SEED values (flakiness probe).
for s in "$@"; do
  echo "=== VERIF_SEED=$s"
  VERIF_SEED=$s VERIF_EVIDENCE_DIR=/tmp/seed_probe_evidence_$s /verif/tools/run_all.sh quick 2>&1 | sed "s/^/seed$s /"
  rm -rf /tmp/seed_probe_evidence_$s
done
