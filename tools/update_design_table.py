#!/usr/bin/env python3
"""Replace the seeded-changes table of DESIGN.md section 11.4 by the current one (tools/seeded_table.py)."""
import os, re, subprocess
root = os.path.join(os.path.dirname(os.path.abspath(__file__)), "..")
table = subprocess.run(["python3", os.path.join(root, "tools", "seeded_table.py")], capture_output=True, text=True, check=True).stdout.rstrip("\n")
p = os.path.join(root, "DESIGN.md")
s = open(p).read()
head = "| property | seeded change | needs, to manifest | outcome |"
i = s.index(head)
lines = s[i:].split("\n")
n = 0
while n < len(lines) and lines[n].startswith("|"):
    n += 1
s = s[:i] + table + "\n" + "\n".join(lines[n:])
open(p, "w").write(s)
print("table rows:", table.count("\n") - 1)
