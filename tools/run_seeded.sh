#!/bin/sh
# tools/run_seeded.sh [PAR=4] — regression of the checks themselves: every stored seeded change (seeded/<ID>-<name>/patch.diff)
# (except those marked superseded: they stopped being defects when a later fix: commit went in)
# is applied to a scratch worktree and the check of its property must report a violation (exit 1).  One line per change.
cd /verif
par=${PAR:-4}
ls -d seeded/*/ | sed 's#/$##' | while read d; do grep -q '"status": "superseded"' "$d/meta.json" || echo "$d"; done | xargs -P "$par" -I{} sh -c '
  d={}; id=$(basename "$d" | cut -d- -f1)
  r=$(tools/try_patch.sh "$d/patch.diff" "$id" 2>&1 | grep "^RESULT" | head -1)
  case "$r" in *"rc=1 "*) echo "CAUGHT  $d $r";; *) echo "MISSED  $d $r";; esac'
