#!/venv/bin/python
"""tools/mutsweep.py — first-order mutation sweep of py-tdgl against the quick checks.

A regression tool for the checks themselves (complements tools/run_seeded.sh, whose changes are
hand-written): it makes AST-level single-point mutants of chosen source files in scratch worktrees
of /repo (outside /repo and /verif), runs the quick checks of the properties anchored in the mutated
file (properties.jsonl anchors) against each mutant (VERIF_REPO), stops at the first check that
reports a violation, and for mutants no check reports runs the repository's own tests of that area
to see whether the test suite would have caught them.  Output: one JSON line per mutant.

usage: tools/mutsweep.py --files tdgl/solver/runner.py[,..] --n 30 --seed 7 --par 3 --out /tmp/mut.jsonl
Nothing here is part of a registered check; results are summarised by hand in DESIGN.md 11.6.
"""
import argparse, ast, copy, json, os, random, subprocess, sys, tempfile, shutil, time
from concurrent.futures import ThreadPoolExecutor

REPO = os.environ.get("MUT_REPO", "/repo")
VERIF = os.path.dirname(os.path.dirname(os.path.abspath(__file__)))

FILE_PROPS = {}
for line in open(os.path.join(VERIF, "properties.jsonl")):
    d = json.loads(line)
    for f in d["anchors"]["files"]:
        FILE_PROPS.setdefault(f, []).append(d["id"])

# tests of the repository that exercise each area (used only for mutants the checks miss)
FILE_TESTS = {
    "tdgl/solver": ["tdgl/test/test_solve.py", "tdgl/test/test_solution.py"],
    "tdgl/solution": ["tdgl/test/test_solution.py", "tdgl/test/test_solve.py"],
    "tdgl/finite_volume": ["tdgl/test/test_finite_volume.py", "tdgl/test/test_solve.py"],
    "tdgl/device": ["tdgl/test/test_device.py", "tdgl/test/test_polygon.py"],
    "tdgl/parameter.py": ["tdgl/test/test_parameter.py"],
    "tdgl/em.py": ["tdgl/test/test_em.py", "tdgl/test/test_solution.py"],
    "tdgl/geometry.py": ["tdgl/test/test_geometry.py", "tdgl/test/test_polygon.py"],
    "tdgl/sources": ["tdgl/test/test_sources.py", "tdgl/test/test_parameter.py"],
    "tdgl/distance.py": ["tdgl/test/test_distance.py"],
}

SKIP_FUNCS = ("plot", "__repr__", "__str__", "_repr_", "draw", "animate", "tqdm", "print_", "mesh_stats")


class Site:
    def __init__(self, kind, lineno, desc, apply):
        self.kind, self.lineno, self.desc, self.apply = kind, lineno, desc, apply



def replace_node(tree, i, make):
    """Replace the i-th node (ast.walk order) of tree by make(node)."""
    target = None
    for j, n in enumerate(ast.walk(tree)):
        if j == i:
            target = n
            break
    for n in ast.walk(tree):
        for name, val in ast.iter_fields(n):
            if val is target:
                setattr(n, name, make(target))
                return
            if isinstance(val, list):
                for q, item in enumerate(val):
                    if item is target:
                        val[q] = make(target)
                        return
    raise RuntimeError("node not found")

def collect(tree):
    """All mutation sites of a module: (kind, lineno, description, function mutating a deep copy)."""
    sites = []
    parents = {}
    for node in ast.walk(tree):
        for ch in ast.iter_child_nodes(node):
            parents[ch] = node

    def in_skipped(node):
        n = node
        while n in parents:
            n = parents[n]
            if isinstance(n, (ast.FunctionDef, ast.AsyncFunctionDef)) and any(s in n.name for s in SKIP_FUNCS):
                return True
        return False

    def is_annotation(node):
        n = node
        while n in parents:
            p = parents[n]
            if isinstance(p, ast.AnnAssign) and p.annotation is n:
                return True
            if isinstance(p, ast.arg) and p.annotation is n:
                return True
            if isinstance(p, (ast.FunctionDef,)) and p.returns is n:
                return True
            n = p
        return False

    idx = {id(n): i for i, n in enumerate(ast.walk(tree))}

    def at(i):
        def get(t):
            for j, n in enumerate(ast.walk(t)):
                if j == i:
                    return n
        return get

    for node in ast.walk(tree):
        if not hasattr(node, "lineno") or in_skipped(node) or is_annotation(node):
            continue
        i = idx[id(node)]
        g = at(i)
        if isinstance(node, ast.BinOp):
            swaps = {ast.Add: ast.Sub, ast.Sub: ast.Add, ast.Mult: ast.Div, ast.Div: ast.Mult}
            for a, b in swaps.items():
                if isinstance(node.op, a):
                    if isinstance(node.left, ast.Constant) and isinstance(node.left.value, str):
                        continue
                    sites.append(Site("binop", node.lineno, f"{a.__name__}->{b.__name__}",
                                      lambda t, g=g, b=b: setattr(g(t), "op", b())))
        elif isinstance(node, ast.AugAssign):
            swaps = {ast.Add: ast.Sub, ast.Sub: ast.Add, ast.Mult: ast.Div, ast.Div: ast.Mult}
            for a, b in swaps.items():
                if isinstance(node.op, a):
                    sites.append(Site("augop", node.lineno, f"{a.__name__}=->{b.__name__}=",
                                      lambda t, g=g, b=b: setattr(g(t), "op", b())))
        elif isinstance(node, ast.Compare) and len(node.ops) == 1:
            swaps = {ast.Lt: ast.LtE, ast.LtE: ast.Lt, ast.Gt: ast.GtE, ast.GtE: ast.Gt, ast.Eq: ast.NotEq,
                     ast.NotEq: ast.Eq, ast.Is: ast.IsNot, ast.IsNot: ast.Is}
            for a, b in swaps.items():
                if isinstance(node.ops[0], a):
                    sites.append(Site("cmp", node.lineno, f"{a.__name__}->{b.__name__}",
                                      lambda t, g=g, b=b: setattr(g(t), "ops", [b()])))
        elif isinstance(node, ast.BoolOp):
            b = ast.Or if isinstance(node.op, ast.And) else ast.And
            sites.append(Site("boolop", node.lineno, f"->{b.__name__}",
                              lambda t, g=g, b=b: setattr(g(t), "op", b())))
        elif isinstance(node, ast.UnaryOp) and isinstance(node.op, (ast.Not, ast.USub)):
            sites.append(Site("neg", node.lineno, "drop unary " + type(node.op).__name__,
                              lambda t, i=i: replace_node(t, i, lambda n: n.operand)))
        elif isinstance(node, ast.Constant) and type(node.value) in (int, float, bool) and not isinstance(parents.get(node), ast.Expr):
            v = node.value
            if isinstance(v, bool):
                sites.append(Site("const", node.lineno, f"{v}->{not v}", lambda t, g=g, v=v: setattr(g(t), "value", not v)))
            elif isinstance(v, int) and abs(v) <= 3:
                sites.append(Site("const", node.lineno, f"{v}->{v + 1}", lambda t, g=g, v=v: setattr(g(t), "value", v + 1)))
                if v != 0:
                    sites.append(Site("const", node.lineno, f"{v}->{v - 1}", lambda t, g=g, v=v: setattr(g(t), "value", v - 1)))
            elif isinstance(v, float) and v not in (0.0,):
                sites.append(Site("const", node.lineno, f"{v}->{v * 2}", lambda t, g=g, v=v: setattr(g(t), "value", v * 2)))
        elif isinstance(node, (ast.Assign, ast.AugAssign, ast.Expr)) and isinstance(parents.get(node), (ast.FunctionDef, ast.If, ast.For, ast.While, ast.With, ast.Try)):
            if isinstance(node, ast.Expr) and isinstance(node.value, ast.Constant):
                continue  # docstring
            if isinstance(node, ast.Expr) and isinstance(node.value, ast.Call):
                f = node.value.func
                nm = getattr(f, "attr", getattr(f, "id", ""))
                if nm in ("debug", "info", "warning", "warn", "error", "set_description", "update", "close") and "logger" in ast.dump(f):
                    continue
            if isinstance(node, ast.Assign) and len(node.targets) == 1 and isinstance(node.targets[0], ast.Name):
                continue  # dropping the definition of a local usually only crashes
            sites.append(Site("dropstmt", node.lineno, "statement -> pass",
                              lambda t, i=i: replace_node(t, i, lambda n: ast.Pass())))
        elif isinstance(node, ast.If) and not node.orelse:
            def neg(t, g=g):
                n = g(t)
                n.test = ast.UnaryOp(op=ast.Not(), operand=n.test)
            sites.append(Site("ifneg", node.lineno, "if c -> if not c", neg))
    return sites


def make_mutant(src, site):
    tree = ast.parse(src)
    site.apply(tree)
    ast.fix_missing_locations(tree)
    return ast.unparse(tree)


def run(cmd, env=None, timeout=1800, cwd=None):
    e = dict(os.environ)
    e.update(env or {})
    try:
        p = subprocess.run(cmd, shell=True, env=e, cwd=cwd, capture_output=True, text=True, timeout=timeout)
        return p.returncode, p.stdout + p.stderr
    except subprocess.TimeoutExpired:
        return 124, "timeout"


def work(args):
    k, wt, relfile, src, site, ids, with_tests = args
    rec = {"k": k, "file": relfile, "line": site.lineno, "kind": site.kind, "desc": site.desc}
    try:
        mut = make_mutant(src, site)
    except Exception as e:
        rec["outcome"] = "gen-error " + repr(e)
        return rec
    orig_line = src.splitlines()[site.lineno - 1].strip()
    rec["src"] = orig_line[:160]
    path = os.path.join(wt, relfile)
    open(path, "w").write(mut)
    try:
        rc, out = run(f"/venv/bin/python -c 'import sys; sys.path.insert(0, \"{wt}\"); import tdgl'", timeout=300)
        if rc != 0:
            rec["outcome"] = "import-fails"
            return rec
        sev = tempfile.mkdtemp(prefix="mut_ev.")
        srp = tempfile.mkdtemp(prefix="mut_rp.")
        rec["checks"] = {}
        caught = None
        for cid in ids:
            t0 = time.time()
            rc, out = run(f"./check {cid} --tier quick", env={"VERIF_REPO": wt, "VERIF_EVIDENCE_DIR": sev, "VERIF_REPLAY_DIR": srp},
                          cwd=VERIF, timeout=1500)
            nv = sum(1 for l in out.splitlines() if l.startswith("VIOLATION"))
            rec["checks"][cid] = {"rc": rc, "violations": nv, "s": round(time.time() - t0)}
            if rc == 1 and nv:
                caught = cid
                break
            if rc not in (0, 1):
                rec["checks"][cid]["tail"] = out[-300:]
        shutil.rmtree(sev, ignore_errors=True)
        shutil.rmtree(srp, ignore_errors=True)
        if caught:
            rec["outcome"] = "caught:" + caught
        else:
            rec["outcome"] = "missed" if all(c["rc"] == 0 for c in rec["checks"].values()) else "machinery"
            if with_tests:
                tests = []
                for pref, ts in FILE_TESTS.items():
                    if relfile.startswith(pref):
                        tests = [t for t in ts if os.path.exists(os.path.join(wt, t))]
                if tests:
                    rc, out = run("NUMBA_NUM_THREADS=2 OMP_NUM_THREADS=2 /venv/bin/python -m pytest -q -x -p no:cacheprovider --timeout=900 "
                                  + " ".join(tests) + " 2>&1 | tail -3", cwd=wt, timeout=2400)
                    rec["tests_tail"] = out[-300:]
        return rec
    finally:
        subprocess.run(["git", "-C", wt, "checkout", "--", "."], capture_output=True)
        # a mutant of the runner can switch the live monitor on: `python -m tdgl.visualize ... monitor` is started in its own
        # session and, on a backend without a window, never exits (DESIGN.md 11.5, observation 1) - do not leave orphans behind
        subprocess.run(["pkill", "-9", "-f", "tdgl.visualize --input /tmp/verif_"], capture_output=True)


def main():
    ap = argparse.ArgumentParser()
    ap.add_argument("--files", required=True)
    ap.add_argument("--n", type=int, default=20, help="mutants per file")
    ap.add_argument("--seed", type=int, default=1)
    ap.add_argument("--par", type=int, default=3)
    ap.add_argument("--out", required=True)
    ap.add_argument("--kinds", default="")
    ap.add_argument("--only", default="", help="restrict the checks to these ids (comma separated)")
    ap.add_argument("--tests", action="store_true")
    a = ap.parse_args()
    rnd = random.Random(a.seed)
    jobs = []
    for relfile in a.files.split(","):
        src = open(os.path.join(REPO, relfile)).read()
        sites = collect(ast.parse(src))
        if a.kinds:
            sites = [s for s in sites if s.kind in a.kinds.split(",")]
        rnd.shuffle(sites)
        pri = ["C02", "C12", "C05", "C03", "C13", "C06", "C01", "C10", "C15", "C17", "C04", "C14", "C16", "C18", "C07", "C11", "C19", "C20", "C08", "C09"]
        ids = sorted(FILE_PROPS.get(relfile, []), key=pri.index)
        if a.only:
            ids = [i for i in a.only.split(",")]
        for s in sites[: a.n]:
            jobs.append((relfile, src, s, ids))
    wts = []
    for i in range(a.par):
        wt = tempfile.mkdtemp(prefix="mutwt.")
        os.rmdir(wt)
        subprocess.run(["git", "-C", REPO, "worktree", "add", "-q", "--detach", wt, "HEAD"], check=True)
        wts.append(wt)
    import queue
    free = queue.Queue()
    for w in wts:
        free.put(w)

    def go(kj):
        k, (relfile, src, s, ids) = kj
        wt = free.get()
        try:
            rec = work((k, wt, relfile, src, s, ids, a.tests))
        finally:
            free.put(wt)
        with open(a.out, "a") as f:
            f.write(json.dumps(rec) + "\n")
        print(rec.get("outcome"), relfile, s.lineno, s.kind, s.desc, flush=True)

    try:
        with ThreadPoolExecutor(a.par) as ex:
            list(ex.map(go, enumerate(jobs)))
    finally:
        for w in wts:
            subprocess.run(["git", "-C", REPO, "worktree", "remove", "--force", w])


if __name__ == "__main__":
    main()
