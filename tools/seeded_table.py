#!/usr/bin/env python3
"""Print the table of seeded changes (seeded/*/meta.json) for DESIGN.md section 11.4."""
import glob, json, os
rows = []
for f in sorted(glob.glob(os.path.join(os.path.dirname(__file__), "..", "seeded", "*", "meta.json"))):
    m = json.load(open(f))
    rows.append(f"| {m['property']} | `{m['name']}` | {m['needs_to_manifest']} | {m['outcome']} |")
print("| property | seeded change | needs, to manifest | outcome |\n|---|---|---|---|")
print("\n".join(rows))
