#!/usr/bin/env python3
"""Print the table of seeded changes (seeded/*/meta.json) for DESIGN.md section 11.4."""
import glob, json, os
rows = []
for f in sorted(glob.glob(os.path.join(os.path.dirname(__file__), "..", "seeded", "*", "meta.json"))):
    m = json.load(open(f))
    extra = (" — " + m["ported"]) if m.get("ported") else ""
    extra += (" — SUPERSEDED: " + m["superseded"]) if m.get("superseded") else ""
    rows.append(f"| {m['property']} | `{m['name']}` | {m['needs_to_manifest']} | {m['outcome']}{extra} |")
print("| property | seeded change | needs, to manifest | outcome |\n|---|---|---|---|")
print("\n".join(rows))
