#!/usr/bin/env python3
"""tools/import_round.py <round> <triage.out> <delivery root>: store confirmed deliveries of an adversary round under seeded/<ID>-<name>/
(patch.diff, demo.py, notes.md, meta.json).  Only deliveries whose demonstration was confirmed (clean rc 0, changed rc != 0) are stored."""
import json, os, re, shutil, subprocess, sys
rnd, tri, root = sys.argv[1], sys.argv[2], sys.argv[3]
head = subprocess.run(["git", "-C", "/repo", "rev-parse", "--short", "HEAD"], capture_output=True, text=True).stdout.strip()
for line in open(tri):
    m = re.match(r"TRIAGE (\S+) (\S+) demo=(\d+)/(\d+) RESULT check=\S+ rc=(\d+) violations=(\d+)", line)
    if not m:
        if line.startswith("TRIAGE"):
            print("not stored:", line.strip()[:160])
        continue
    pid, name, rc_clean, rc_mut, rc, nv = m.group(1), m.group(2), int(m.group(3)), int(m.group(4)), int(m.group(5)), int(m.group(6))
    if rc_clean != 0 or rc_mut == 0:
        print("demo not confirmed:", line.strip()[:160])
        continue
    src = os.path.join(root, pid, name)
    dst = os.path.join("/verif/seeded", f"{pid}-{name}")
    if os.path.exists(dst):
        dst += "_r" + rnd
    os.makedirs(dst, exist_ok=True)
    for f in ("patch.diff", "demo.py", "notes.md"):
        if os.path.exists(os.path.join(src, f)):
            shutil.copy(os.path.join(src, f), os.path.join(dst, f))
    notes = open(os.path.join(src, "notes.md")).read() if os.path.exists(os.path.join(src, "notes.md")) else ""
    need = ""
    mm = re.search(r"(?is)(needs?[^\n]*manifest[^\n]*\n)(.{0,600})", notes)
    if mm:
        need = " ".join((mm.group(2) or "").split())[:400]
    meta = {"property": pid, "name": name, "needs_to_manifest": need or "see notes.md",
            "repo_base_commit": head,
            "confirmed": f"tools/triage.sh: demo exits {rc_clean} on the unchanged tree and {rc_mut} with the patch (scratch worktree); "
                         "the author's full-suite run did not finish on the loaded machine (first 147 tests identical to the clean tree); see meta 'tests'",
            "checks_run": f"tools/try_patch.sh seeded/{os.path.basename(dst)}/patch.diff {pid}",
            "outcome": f"round {rnd} (only the property text given); " + ("caught at first run" if rc == 1 and nv else f"MISSED at first (rc={rc})")}
    json.dump(meta, open(os.path.join(dst, "meta.json"), "w"), indent=1)
    print("stored", dst, meta["outcome"])
