#!/bin/sh
# tools/confirm_seed.sh <dir with patch.diff and demo.py>: confirm in a scratch worktree that the
# demonstration passes on the unchanged tree and fails with the change applied.
d=$(readlink -f "$1")
wt=$(mktemp -d /tmp/wt_w2_w3_confirm.XXXXXX); rmdir "$wt"
git -C /repo worktree add -q --detach "$wt" HEAD || exit 3
mkdir -p "$wt/mutants/x" && cp "$d/demo.py" "$wt/mutants/x/demo.py"
(cd "$wt" && MPLBACKEND=Agg timeout 900 /venv/bin/python mutants/x/demo.py >/tmp/confirm_clean.log 2>&1); rc_clean=$?
git -C "$wt" apply "$d/patch.diff" || { echo "patch does not apply"; git -C /repo worktree remove --force "$wt"; exit 3; }
(cd "$wt" && MPLBACKEND=Agg timeout 900 /venv/bin/python mutants/x/demo.py >/tmp/confirm_mut.log 2>&1); rc_mut=$?
git -C /repo worktree remove --force "$wt"
echo "demo on unchanged tree: rc=$rc_clean ; with change: rc=$rc_mut ($(tail -1 /tmp/confirm_mut.log | cut -c1-160))"
[ $rc_clean -eq 0 ] && [ $rc_mut -ne 0 ]
