#!/bin/sh
# tools/try_patch.sh <patch.diff> <ID> [<ID> ...]   [TIER=quick]
# Applies a seeded change to a scratch worktree of /repo (outside /repo and /verif), runs the named
# checks against it (VERIF_REPO), prints one line per check, removes the worktree.
# With IN_REPO=1 the patch is applied to /repo itself and undone afterwards (git checkout -- .).
set -u
patch=$(readlink -f "$1"); shift
tier=${TIER:-quick}
if [ "${IN_REPO:-0}" = "1" ]; then
  git -C /repo apply "$patch" || { echo "patch does not apply"; exit 3; }
  target=/repo
else
  target=$(mktemp -d /tmp/seedwt.XXXXXX); rmdir "$target"
  git -C /repo worktree add -q --detach "$target" HEAD || exit 3
  git -C "$target" apply "$patch" 2>/dev/null || git -C "$target" apply -3 "$patch" || { echo "patch does not apply"; git -C /repo worktree remove --force "$target"; exit 3; }
fi
cd /verif
sev=$(mktemp -d /tmp/seed_evidence.XXXXXX); srp=$(mktemp -d /tmp/seed_replays.XXXXXX)     # per invocation: runs may be concurrent
for id in "$@"; do
  out=$(VERIF_EVIDENCE_DIR=$sev VERIF_REPLAY_DIR=$srp VERIF_REPO=$target timeout 1800 ./check "$id" --tier "$tier" 2>&1); rc=$?
  nv=$(printf '%s\n' "$out" | grep -c '^VIOLATION')
  echo "RESULT check=$id rc=$rc violations=$nv"
  printf '%s\n' "$out" | grep -E '^(VIOLATION|  what|MACHINERY|KNOWN)' | cut -c1-400 | head -6
done
rm -rf "$sev" "$srp"
if [ "${IN_REPO:-0}" = "1" ]; then git -C /repo checkout -- .; else git -C /repo worktree remove --force "$target"; fi
