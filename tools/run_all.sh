#!/bin/sh
# tools/run_all.sh [quick|thorough] — run every registered check once against /repo, one line per check.
tier=${1:-quick}
cd /verif
# the registered checks of the listed properties, then the extensions beyond them (X.., DESIGN.md 11.5)
for id in $(python3 -c "import json; print(' '.join(c['property_id'] for c in json.load(open('MANIFEST.json'))['checks']))") X01; do
  t0=$(date +%s)
  timeout 3600 ./check "$id" --tier "$tier" > /tmp/run_all_$id.log 2>&1; rc=$?
  t1=$(date +%s)
  echo "$id rc=$rc wall=$((t1-t0))s violations=$(grep -c '^VIOLATION' /tmp/run_all_$id.log) known=$(grep -c '^KNOWN-FINDING' /tmp/run_all_$id.log)"
done
