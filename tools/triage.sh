#!/bin/sh
# tools/triage.sh <ID> <delivered dir with patch.diff + demo.py>: confirm the author's demonstration in a scratch worktree
# (passes on the unchanged tree, fails with the change), then run the property's quick check against the change.
# Prints one line: TRIAGE <ID> <name> demo=<clean rc>/<changed rc> check=<rc> violations=<n>
id=$1; d=$(readlink -f "$2"); name=$(basename "$d")
wt=$(mktemp -d /tmp/triage_wt.XXXXXX); rmdir "$wt"; log=$(mktemp /tmp/triage_log.XXXXXX)
git -C /repo worktree add -q --detach "$wt" HEAD || exit 3
mkdir -p "$wt/mutants/x" && cp "$d/demo.py" "$wt/mutants/x/demo.py"
(cd "$wt" && MPLBACKEND=Agg timeout 1200 /venv/bin/python mutants/x/demo.py >"$log.clean" 2>&1); rc_clean=$?
if ! git -C "$wt" apply "$d/patch.diff" 2>"$log.apply"; then echo "TRIAGE $id $name patch-does-not-apply: $(head -2 $log.apply)"; git -C /repo worktree remove --force "$wt"; rm -f $log*; exit 3; fi
(cd "$wt" && MPLBACKEND=Agg timeout 1200 /venv/bin/python mutants/x/demo.py >"$log.mut" 2>&1); rc_mut=$?
git -C /repo worktree remove --force "$wt"
r=$(/verif/tools/try_patch.sh "$d/patch.diff" "$id" 2>&1)
echo "TRIAGE $id $name demo=$rc_clean/$rc_mut $(echo "$r" | grep '^RESULT' | head -1) | demo-tail: $(tail -1 $log.mut | cut -c1-120)"
echo "$r" | grep -E '^(VIOLATION|MACHINERY)' | head -2 | cut -c1-300
rm -f $log*
