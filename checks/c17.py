"""C17 — the uniform superconducting state psi = 1, mu = 0 is exactly stationary.
Model: spec/OneStep.tla (RowSumsZero, NoGradientOfConstant, UniformStateStationary through PsiUpdate!Accept,
ZeroPotentialSolves, AdaptiveStepGrowsToMax) on exact mesh instances.
Binding: natural undriven runs of the REAL solver; every recorded frame is an event of spec/RunObs.tla
(exact-equality flags, step-size classes); TLC validates ExactlyStationary / StepGrowsToMax."""
import copy
import json

from harness import core, runfamily as rf, runobs as ro

LEVEL = "model_checking"
C17_INV = ["TypeOK", "InstancesWellFormed", "RowSumsZero", "NoGradientOfConstant", "UniformStateStationary", "ZeroPotentialSolves",
           "AdaptiveStepGrowsToMax", "LapIsDivGrad"]


def matrix(ctx):
    base = dict(solve_time=2.0, terminal_psi=None, k=3, dt=2.0 ** -6, window=3)
    runs = [
        dict(label="bar/fixed-step", dev="bar", smooth=0, adaptive=False, solve_time=0.6),
        dict(label="barhole/smoothed/unpinned-terminals/adaptive", dev="barhole", smooth=30, adaptive=True, dt_max=0.25, solve_time=3.0),
        dict(label="ring/smoothed/screening/adaptive", dev="ring", smooth=10, mel=0.6, adaptive=True, dt_max=0.125, screening=True),
        dict(label="film/irregular/gamma=1,u=1/adaptive", dev="film", mel=0.5, gamma=1.0, u=1.0, adaptive=True, dt_max=0.125),
        dict(label="tee/smoothed/screening/fixed-step", dev="tee", smooth=5, mel=0.6, adaptive=False, screening=True, solve_time=0.4),
        dict(label="barhole/adaptive/window=1", dev="barhole", smooth=0, adaptive=True, dt_max=0.125, window=1),
        dict(label="cross/gamma=0/adaptive", dev="cross", smooth=2, gamma=0.0, adaptive=True, dt_max=0.125),
    ]
    if not ctx.quick:
        for dev in ("film", "bar", "barhole", "tee", "cross", "ring"):
            for smooth in (0, 20):
                for adaptive, dt_max in ((False, None), (True, 0.0625), (True, 1.0)):
                    for screening in (False, True):
                        for gamma, u in ((10.0, None), (0.0, 1.0), (2.0, 0.5)):
                            if screening and (smooth or gamma != 10.0):
                                continue
                            runs.append(dict(label=f"{dev}/smooth={smooth}/adaptive={adaptive}/dt_max={dt_max}/screening={screening}/gamma={gamma}/u={u}",
                                             dev=dev, smooth=smooth, mel=0.7, adaptive=adaptive, dt_max=dt_max or 0.125, screening=screening,
                                             gamma=gamma, u=u, solve_time=(6.0 if dt_max == 1.0 else 1.0)))
    return [dict(base, **r) for r in runs]


def run(ctx):
    ctx.cov["bounds"] = {"OneStep": "4 mesh instances (2-triangle square, 4-triangle strip, square with interior site, annulus) x 3 weight variants; "
                                    "gamma^2/2 in {0, 1/2, 2, 8}; dt/u in {1/4, 1, 4}; 8 steps of the adaptive rule",
                         "runs": "devices film/bar/barhole/tee/cross/ring, smooth 0..30, adaptive on/off, screening on/off, gamma, u"}
    # 1. design
    ctx.model_check("OneStep", ro.onestep_cfg(C17_INV), name="OneStep[C17]", required_actions=["PickUniform", "StepUniform"])
    ctx.model_check("OneStep", ro.onestep_cfg(["UniformStateStationary"], MEpsMinus=False), name="OneStep[(eps + |psi|^2) mechanism]",
                    expect_violation="UniformStateStationary", count=False)
    # 2./3. natural undriven runs, validated by TLC
    runs = matrix(ctx)
    jobs = [("call", dict(module="harness.runobs", func="stationary_run", args=a)) for a in runs]
    traces = rf.replay_all(ctx, jobs)
    for a, t in zip(runs, traces):
        if len(t["ev"]) < 2:
            raise core.MachineryFailure(f"C17: run {a['label']} recorded fewer than two frames")
        ctx.note_case(a["label"], nontrivial=t["nsteps"] >= 5)
    accepted, rejected, clauses, norm = ro.validate(ctx, traces, "C17", None)
    for n in sorted(accepted)[:4]:
        t = traces[n]
        ctx.sample({"run": runs[n]["label"], "sites": t["nsites"], "steps": t["nsteps"], "frames": len(t["ev"]), "last_dt": t["dt_last"],
                    "max_deviation": t["worst"], "last_event": t["ev"][-1]})
    for n in rejected:
        t, a = traces[n], runs[n]
        cl = ",".join(clauses.get(n, ["?"]))
        first = next((e for e in t["ev"] if not (e["psi1"] and e["mu0"] and e["js0"] and e["jn0"] and e["ind0"])), None)
        ctx.violation(f"C17:{cl}:{a['label']}",
                      f"C17 {cl}: undriven run '{a['label']}' ({t['nsites']} sites, {t['nsteps']} steps, last dt {t['dt_last']}) is not a behaviour of RunObs: "
                      f"max deviations {t['worst']}; first non-stationary frame: {json.dumps(first)[:300]}",
                      {"module": "RunObs", "args": a, "trace": norm[n], "worst": t["worst"], "clauses": cl})
    # canaries
    if accepted:
        n = sorted(accepted)[0]
        bad = []
        b = copy.deepcopy(norm[n]); b["ev"][-1]["psi1"] = False; bad.append(b)
        b = copy.deepcopy(norm[n]); b["ev"][1]["jn0"] = False; bad.append(b)
        b = copy.deepcopy(norm[n]); b["ev"][1]["dev"] = ro.TOL + 1; bad.append(b)
        ad = [m for m in sorted(accepted) if runs[m]["adaptive"] and "max" in norm[m]["ev"][-1]["dts"]]
        if not ad and not ctx.violations:
            raise core.MachineryFailure("C17: no accepted adaptive run reached dt_max (vacuous)")
        if ad:
            b = copy.deepcopy(norm[ad[0]]); b["ev"][-1]["dts"][-1] = "other"; bad.append(b)              # step shrinks again
            b = copy.deepcopy(norm[ad[0]])
            for e in b["ev"]:
                e["dts"] = ["init"] * len(e["dts"])                                                     # never grows
            bad.append(b)
        acc, _ = ro.tlc_traces(ctx, bad, ro.cfg(True), "canary[C17]", count=False)
        if acc:
            raise core.MachineryFailure(f"C17: corrupted traces {sorted(acc)} accepted")
        ctx.cov["canaries_rejected"] += len(bad)
    elif not ctx.violations:
        raise core.MachineryFailure("C17: no run accepted and no violation")
    ctx.cov["rule"] = ("one case = one undriven run of the real solver (psi = 1, mu = 0, no field, no current, epsilon = 1); every recorded frame is "
                       "checked for bitwise psi = 1, mu = 0, zero currents, zero induced potential, and the recorded step sizes for dt_init during "
                       "warm-up then dt_max; non-trivial = at least 5 steps")
    ctx.assume("warm-up length window + 2 steps (docs: the rule applies when step > window) is part of RunObs.StepHistoryOK")
