"""C17 — the uniform superconducting state psi = 1, mu = 0 is exactly stationary.
Model: spec/OneStep.tla (RowSumsZero, NoGradientOfConstant, UniformStateStationary through PsiUpdate!Accept,
ZeroPotentialSolves, AdaptiveStepGrowsToMax) on exact mesh instances.
Binding: natural undriven runs of the REAL solver; every recorded frame is an event of spec/RunObs.tla
(exact-equality flags, step-size classes); TLC validates ExactlyStationary / StepGrowsToMax."""
import copy
import json

from harness import core, runfamily as rf, runobs as ro

LEVEL = "model_checking"
C17_INV = ["TypeOK", "InstancesWellFormed", "RowSumsZero", "NoGradientOfConstant", "UniformStateStationary", "ZeroPotentialSolves",
           "AdaptiveStepGrowsToMax", "LapIsDivGrad"]


def matrix(ctx):
    base = dict(solve_time=2.0, terminal_psi=None, k=3, dt=2.0 ** -6, window=3)
    runs = [
        dict(label="bar/fixed-step", dev="bar", smooth=0, adaptive=False, solve_time=0.6),
        dict(label="barhole/smoothed/unpinned-terminals/adaptive", dev="barhole", smooth=30, adaptive=True, dt_max=0.25, solve_time=3.0),
        dict(label="ring/smoothed/screening/adaptive", dev="ring", smooth=10, mel=0.6, adaptive=True, dt_max=0.125, screening=True),
        dict(label="film/irregular/gamma=1,u=1/adaptive", dev="film", mel=0.5, gamma=1.0, u=1.0, adaptive=True, dt_max=0.125),
        dict(label="tee/smoothed/screening/fixed-step", dev="tee", smooth=5, mel=0.6, adaptive=False, screening=True, solve_time=0.4),
        dict(label="barhole/adaptive/window=1", dev="barhole", smooth=0, adaptive=True, dt_max=0.125, window=1),
        dict(label="cross/gamma=0/adaptive", dev="cross", smooth=2, gamma=0.0, adaptive=True, dt_max=0.125),
        # terminals pinned AT the uniform value (terminal_psi = 1): still psi = 1, mu = 0, no field, no bias, epsilon = 1
        dict(label="bar/terminals-pinned-at-1/fixed-step/dt=2^-10", dev="bar", smooth=0, terminal_psi=1.0, adaptive=False, dt=2.0 ** -10, solve_time=0.03),
        dict(label="tee/terminals-pinned-at-1/smoothed/adaptive", dev="tee", smooth=5, mel=0.6, terminal_psi=1.0, adaptive=True, dt_max=0.125),
        dict(label="barhole/terminals-pinned-at-1/screening/adaptive/gamma=1", dev="barhole", smooth=0, gamma=1.0, terminal_psi=1.0, adaptive=True,
             screening=True, dt=2.0 ** -10, dt_max=2.0 ** -8, solve_time=0.05),
        # default-like step control (dt_init = 1e-6, dt_max = 0.1) on devices with terminals, pinned at the uniform value and unpinned: after the
        # warm-up window the step must jump to dt_max and STAY there (a controller fed a phantom change of |psi|^2 settles near sqrt(dt_init/rate))
        dict(label="bar/terminals-pinned-at-1/adaptive/dt_init=1e-6/dt_max=0.1", dev="bar", smooth=0, terminal_psi=1.0, adaptive=True, dt=1e-6, dt_max=0.1,
             solve_time=2.0),
        dict(label="tee/terminals-pinned-at-1/smoothed/adaptive/window=10/dt_init=1e-6/dt_max=0.1", dev="tee", smooth=5, mel=0.6, terminal_psi=1.0,
             adaptive=True, dt=1e-6, dt_max=0.1, window=10, solve_time=1.5),
        dict(label="cross/terminals-unpinned/adaptive/dt_init=1e-6/dt_max=0.1", dev="cross", smooth=0, terminal_psi=None, adaptive=True, dt=1e-6, dt_max=0.1,
             solve_time=1.5),
        # ONE SolverOptions object with a history: used with adaptive = False first, then options.adaptive = True on the uniform state;
        # the step clause is judged against the dt_init / dt_max literals the harness constructed the options with
        dict(label="options-history/fixed-step-solve-then-adaptive/bar", adaptive=True, func="stationary_options_history", options_history="fixed-step-solve", dev="bar",
             dt=2.0 ** -7, dt_max=2.0 ** -4, solve_time=1.0),
        dict(label="options-history/validate()-then-adaptive/ring/screening", adaptive=True, func="stationary_options_history", options_history="validate", dev="ring",
             mel=0.6, dt=2.0 ** -8, dt_max=2.0 ** -5, screening=True, solve_time=0.4),
        dict(label="options-history/options-of-a-loaded-fixed-step-Solution-then-adaptive/tee/unpinned", adaptive=True, func="stationary_options_history",
             options_history="loaded-solution", dev="tee", dt=2.0 ** -7, dt_max=2.0 ** -4, solve_time=1.0),
        # histories in one process: a solver was built for a TWIN mesh (same triangulation, other geometry) before the observed run
        dict(label="history/film/raw-mesh-then-smoothed-twin/screening", func="stationary_history", dev="film", twin="smooth", order="AB", screening=True,
             adaptive=True, dt_max=0.125, solve_time=1.0),
        dict(label="history/film/smoothed-mesh-then-raw-twin/screening", func="stationary_history", dev="film", twin="smooth", order="BA", screening=True,
             adaptive=False, solve_time=0.4),
        dict(label="history/tee/xi=1-then-xi=2-twin/screening/unpinned", func="stationary_history", dev="tee", twin="xi", order="AB", screening=True,
             adaptive=True, dt_max=0.125, solve_time=1.0),
        dict(label="history/ring/xi=2-then-xi=1-twin/screening/warm-up-with-screening", func="stationary_history", dev="ring", twin="xi", order="BA",
             screening=True, warm_screening=True, adaptive=False, solve_time=0.4),
        # how "epsilon = 1 everywhere on the film" is expressed: constant / per-site callable (also argument-reducing ones) / vectorized /
        # time-dependent (keyword t), with values != 1 OFF the film, for coherence lengths 0.5, 1, 2 and two mesh sizes (new devices)
        dict(label="eps=per-site-norm/film/xi=0.5/mel=0.5", func="stationary_eps_run", eps_form="per-site-norm", dev="film", xi=0.5, mel=0.5,
             adaptive=True, dt_max=0.125, solve_time=1.0),
        dict(label="eps=per-site-sum/bar/xi=1/mel=0.8/unpinned", func="stationary_eps_run", eps_form="per-site-sum", dev="bar", xi=1.0, mel=0.8,
             adaptive=False, solve_time=0.3),
        dict(label="eps=per-site/ring/xi=2/mel=0.8", func="stationary_eps_run", eps_form="per-site", dev="ring", xi=2.0, mel=0.8, adaptive=True,
             dt_max=0.125, solve_time=1.0),
        dict(label="eps=vectorized/tee/xi=0.5/mel=0.8/screening", func="stationary_eps_run", eps_form="vectorized", dev="tee", xi=0.5, mel=0.8,
             adaptive=False, screening=True, solve_time=0.2),
        dict(label="eps=time-dependent/film/xi=0.5/mel=0.8", func="stationary_eps_run", eps_form="time-dependent", dev="film", xi=0.5, mel=0.8,
             adaptive=True, dt_max=0.125, solve_time=1.0),
        dict(label="eps=time-dependent/ring/xi=2/mel=0.5", func="stationary_eps_run", eps_form="time-dependent", dev="ring", xi=2.0, mel=0.5,
             adaptive=False, solve_time=0.3),
        dict(label="eps=time-dependent-vectorized/bar/xi=0.5/mel=0.5/unpinned", func="stationary_eps_run", eps_form="time-dependent-vectorized", dev="bar",
             xi=0.5, mel=0.5, adaptive=True, dt_max=0.125, solve_time=1.0),
        dict(label="eps=constant/ring/xi=2/mel=0.5", func="stationary_eps_run", eps_form="constant", dev="ring", xi=2.0, mel=0.5, adaptive=False,
             solve_time=0.3),
        # small rounding seed (small fixed step, low gamma): bit-exactness is demanded on these whatever the known finding says
        dict(label="bar/gamma=0/fixed-step/dt=2^-9", dev="bar", smooth=0, gamma=0.0, adaptive=False, dt=2.0 ** -9, solve_time=0.06),
        dict(label="barhole/smoothed/gamma=1/fixed-step/dt=2^-10", dev="barhole", smooth=30, gamma=1.0, adaptive=False, dt=2.0 ** -10, solve_time=0.03),
        dict(label="tee/gamma=10/unpinned/fixed-step/dt=2^-11", dev="tee", smooth=5, mel=0.6, adaptive=False, dt=2.0 ** -11, solve_time=0.015),
        dict(label="ring/gamma=0/adaptive/dt=2^-11..2^-9", dev="ring", smooth=10, mel=0.6, gamma=0.0, adaptive=True, dt=2.0 ** -11, dt_max=2.0 ** -9,
             solve_time=0.03),
        dict(label="cross/gamma=2/u=1/screening/fixed-step/dt=2^-11", dev="cross", smooth=0, gamma=2.0, u=1.0, adaptive=False, screening=True,
             dt=2.0 ** -11, solve_time=0.012),
    ]
    if not ctx.quick:
        for dev in ("bar", "barhole", "tee", "cross"):
            for tpsi in (1.0, None):
                for dt0, dtm in ((1e-6, 0.1), (1e-4, 0.05), (1e-3, 0.1)):
                    for screening in ((False, True) if dt0 == 1e-4 else (False,)):
                        runs.append(dict(label=f"{dev}/terminal_psi={tpsi}/adaptive/dt_init={dt0:g}/dt_max={dtm:g}/screening={screening}", dev=dev, smooth=0,
                                         terminal_psi=tpsi, adaptive=True, dt=dt0, dt_max=dtm, window=(10 if dt0 == 1e-3 else 3), screening=screening,
                                         solve_time=(0.6 if screening else 1.5)))
        for form in ro.EPS_FORMS:
            for xi in (0.5, 1.0, 2.0):
                for mel in (0.8, 0.5):
                    for dev in (("film", "ring") if mel == 0.8 else ("bar", "ring")):
                        runs.append(dict(label=f"eps={form}/{dev}/xi={xi}/mel={mel}", func="stationary_eps_run", eps_form=form, dev=dev, xi=xi, mel=mel,
                                         adaptive=(xi != 1.0), dt_max=0.125, screening=(form == "vectorized" and mel == 0.8),
                                         solve_time=(1.0 if xi != 1.0 else 0.3)))
        for dev in ("film", "bar", "tee", "cross", "ring"):
            for twin in ("smooth", "xi"):
                for order in ("AB", "BA"):
                    for screening in (True, False):
                        runs.append(dict(label=f"history/{dev}/twin={twin}/order={order}/screening={screening}", func="stationary_history", dev=dev, twin=twin,
                                         order=order, screening=screening, warm_screening=(order == "BA"), adaptive=(twin == "xi"), dt_max=0.125,
                                         mel=0.7, smooth=25, solve_time=(1.0 if twin == "xi" else 0.4)))
        for dev in ("film", "bar", "barhole", "tee", "cross", "ring"):
            for smooth in (0, 20):
                for adaptive, dt_max in ((False, None), (True, 0.0625), (True, 1.0)):
                    for screening in (False, True):
                        for gamma, u in ((10.0, None), (0.0, 1.0), (2.0, 0.5)):
                            if screening and (smooth or gamma != 10.0):
                                continue
                            runs.append(dict(label=f"{dev}/smooth={smooth}/adaptive={adaptive}/dt_max={dt_max}/screening={screening}/gamma={gamma}/u={u}",
                                             dev=dev, smooth=smooth, mel=0.7, adaptive=adaptive, dt_max=dt_max or 0.125, screening=screening,
                                             gamma=gamma, u=u, solve_time=(6.0 if dt_max == 1.0 else 1.0)))
    return [dict(base, **r) for r in runs]


def run(ctx):
    ctx.cov["bounds"] = {"OneStep": "4 mesh instances (2-triangle square, 4-triangle strip, square with interior site, annulus) x 3 weight variants; "
                                    "gamma^2/2 in {0, 1/2, 2, 8}; dt/u in {1/4, 1, 4}; 8 steps of the adaptive rule",
                         "runs": "devices film/bar/barhole/tee/cross/ring, smooth 0..30, adaptive on/off, screening on/off, gamma, u"}
    # 1. design
    ctx.model_check("OneStep", ro.onestep_cfg(C17_INV), name="OneStep[C17]", required_actions=["PickUniform", "StepUniform"])
    ctx.model_check("OneStep", ro.onestep_cfg(["UniformStateStationary"], MEpsMinus=False), name="OneStep[(eps + |psi|^2) mechanism]",
                    expect_violation="UniformStateStationary", count=False)
    # 2./3. natural undriven runs, validated by TLC
    runs = matrix(ctx)
    jobs = [("call", dict(module="harness.runobs", func=a.get("func", "stationary_run"), args=a)) for a in runs]
    traces = rf.replay_all(ctx, jobs)
    skipped = [a["label"] for a, t in zip(runs, traces) if t.get("skipped")]
    ctx.cov["twin_mesh_histories"] = {"planned": sum(1 for a in runs if a.get("func") == "stationary_history"), "skipped_not_twins": skipped}
    if ctx.cov["twin_mesh_histories"]["planned"] - len(skipped) < 2:
        raise core.MachineryFailure(f"C17: fewer than 2 twin-mesh histories could be built (skipped: {skipped})")
    # vacuity guard of the step-control clause on pinned-at-1 devices: enough adaptive steps after the warm-up window, with dt_max >> dt_init
    after = [sum(e["dts"].count("max") + e["dts"].count("other") for e in t["ev"] if e.get("kind") == "stat") - 0
             for a, t in zip(runs, traces) if a.get("terminal_psi") == 1.0 and a.get("adaptive") and a.get("dt_max", 0) >= 1e3 * a.get("dt", 1) and not t.get("skipped")]
    ctx.cov["pinned_at_1_default_step_control"] = {"runs": len(after), "steps_after_warm_up": after}
    step_guard_failed = (not after or max(after) < 10 or sum(1 for n in after if n >= 5) < 2)     # judged after the verdicts (below)
    oh = {t["options_history"]: t["steps_at_dt_max"] for t in traces if t.get("options_history")}
    ctx.cov["options_object_histories"] = {"steps_at_the_dt_max_literal": oh}
    # vacuity guard of the epsilon-form dimension
    ef = [t for t in traces if t.get("eps_form")]
    forms = sorted({t["eps_form"] for t in ef})
    ctx.cov["epsilon_forms"] = {"runs": len(ef), "forms": forms, "xi": sorted({t["xi"] for t in ef}), "mesh_sizes": sorted({t["mel"] for t in ef}),
                                "argument_reducing_functions_that_discriminate": sum(1 for t in ef if t["eps_form"].startswith("per-site-") and t["discriminates"]),
                                "time_dependent_functions_that_tell_length_units_from_mesh_units":
                                    sum(1 for t in ef if t["eps_form"].startswith("time-dependent") and t["discriminates"])}
    need = {"constant", "per-site", "vectorized", "time-dependent"}
    if (not need <= set(forms) or not any(f.startswith("per-site-") for f in forms) or not {0.5, 1.0, 2.0} <= set(ctx.cov["epsilon_forms"]["xi"])
            or len(ctx.cov["epsilon_forms"]["mesh_sizes"]) < 2 or ctx.cov["epsilon_forms"]["argument_reducing_functions_that_discriminate"] < 1
            or ctx.cov["epsilon_forms"]["time_dependent_functions_that_tell_length_units_from_mesh_units"] < 2):
        raise core.MachineryFailure(f"C17: the epsilon-form dimension is not covered: {ctx.cov['epsilon_forms']}")
    keep = [n for n, t in enumerate(traces) if not t.get("skipped")]
    runs, traces = [runs[n] for n in keep], [traces[n] for n in keep]
    for a, t in zip(runs, traces):
        if len(t["ev"]) < 2 and not t.get("raised"):
            raise core.MachineryFailure(f"C17: run {a['label']} recorded fewer than two frames")
        ctx.note_case(a["label"], nontrivial=t["nsteps"] >= 5)
    # pass 1: every clause, the bitwise one modulo the open known finding (ExactlyStationaryModKnown == seeded \\/ ExactlyStationary):
    # bit-exactness is DEMANDED wherever the rounding seed of `psi_laplacian @ psi` cannot move psi off 1.0 (seeded = FALSE)
    accepted, rejected, clauses, norm = ro.validate(ctx, traces, "C17", None, known=True)
    unseeded = [n for n in range(len(runs)) if not traces[n]["seeded"]]
    ctx.cov["runs"] = len(runs)
    ctx.cov["runs_seeded_false_bit_exactness_demanded"] = len(unseeded)
    ctx.cov["runs_seeded_true"] = len(runs) - len(unseeded)
    ctx.cov["seed_over_half_ulp"] = {runs[n]["label"]: round(traces[n]["seed_over_half_ulp"], 3) for n in range(len(runs))} if ctx.quick else \
        {"min": min(t["seed_over_half_ulp"] for t in traces), "max": max(t["seed_over_half_ulp"] for t in traces)}
    for n in sorted(accepted)[:4]:
        t = traces[n]
        ctx.sample({"run": runs[n]["label"], "sites": t["nsites"], "steps": t["nsteps"], "frames": len(t["ev"]), "last_dt": t["dt_last"],
                    "seeded": t["seeded"], "seed_over_half_ulp": t["seed_over_half_ulp"], "max_deviation": t["worst"], "last_event": t["ev"][-1]})
    for n in rejected:
        t, a = traces[n], runs[n]
        cl = ",".join(clauses.get(n, ["?"]))
        if t.get("raised"):
            ctx.violation(f"C17:solver-raised:{a['label']}", f"C17: the undriven run '{a['label']}' raised instead of staying stationary (no action of "
                          f"RunObs matches): {t['raised'][:300]}", {"module": "RunObs", "args": a, "raised": t["raised"]})
            continue
        first = next((e for e in t["ev"] if not (e["psi1"] and e["mu0"] and e["js0"] and e["jn0"] and e["ind0"])), None)
        ctx.violation(f"C17:{cl}:{'seeded' if t['seeded'] else 'unseeded'}:{a['label']}",
                      f"C17 {cl}: undriven run '{a['label']}' ({t['nsites']} sites, {t['nsteps']} steps, last dt {t['dt_last']}, rounding seed "
                      f"{t['seed_over_half_ulp']:.3g} half-ulp, seeded={t['seeded']}) is not a behaviour of RunObs: "
                      f"max deviations {t['worst']}; first non-stationary frame: {json.dumps(first)[:300]}",
                      {"module": "RunObs", "args": a, "trace": norm[n], "worst": t["worst"], "clauses": cl, "seeded": t["seeded"]})
    # pass 2 (protocol of c15.confirm_known): the seeded runs accepted modulo the finding are validated against the UN-WEAKENED
    # clause; each one TLC rejects is the known finding C17:rounding-seed:<run>, reproduced on the real code in this very run
    seeded_acc = [n for n in sorted(accepted) if traces[n]["seeded"]]
    reproduced = []
    if seeded_acc:
        acc_strict, _ = ro.tlc_traces(ctx, [norm[n] for n in seeded_acc], ro.cfg(True, known=False), "RunObs[C17 un-weakened clause on seeded runs]",
                                      count=False)
        for m, n in enumerate(seeded_acc):
            if m in acc_strict:
                continue
            t, a = traces[n], runs[n]
            reproduced.append(a["label"])
            first = next((e for e in t["ev"] if not (e["psi1"] and e["mu0"] and e["js0"] and e["jn0"] and e["ind0"])), None)
            ctx.violation(f"C17:rounding-seed:{a['label']}",
                          f"C17 ExactlyStationary (bitwise clause only; StationaryToRounding and StepGrowsToMax hold): undriven run '{a['label']}' "
                          f"({t['nsites']} sites, {t['nsteps']} steps, largest dt {a['dt_max'] if a['adaptive'] else a['dt']}): the rows of the assembled psi_laplacian "
                          f"do not sum to exactly zero; seed max|(dt/u) sqrt(1+gamma^2) (psi_laplacian @ 1)| = {t['seed']:.3e} = "
                          f"{t['seed_over_half_ulp']:.3g} half-ulp of 1.0 moves psi off 1.0: max deviations {t['worst']}; first frame: {json.dumps(first)[:200]}",
                          {"module": "RunObs", "args": a, "trace": norm[n], "worst": t["worst"], "seed": t["seed"]})
    ctx.cov["known_finding_rounding_seed_reproduced_on"] = reproduced
    if any(f.get("status") == "open" and f["key"].startswith("C17:rounding-seed") for f in ctx.findings) and not reproduced and not ctx.violations:
        raise core.MachineryFailure("open finding C17:rounding-seed no longer reproduces on the real code (no seeded run violates the un-weakened "
                                    "clause ExactlyStationary): update known_findings.json")
    if step_guard_failed and not ctx.violations:
        raise core.MachineryFailure(f"C17: step-control clause on terminal_psi = 1 devices not exercised after the window: {after}")
    if (not {"fixed-step-solve", "validate", "loaded-solution"} <= set(oh) or min(oh.values()) < 5) and not ctx.violations:
        raise core.MachineryFailure(f"C17: options-object histories not exercised (steps at the dt_max literal): {oh}")
    if len(unseeded) < 3 and not ctx.violations:
        raise core.MachineryFailure(f"C17: only {len(unseeded)} runs have a rounding seed below half an ulp (bit-exactness demanded); need >= 3")
    # canaries
    demanded = [n for n in sorted(accepted) if not traces[n]["seeded"]]
    if demanded:
        n = demanded[0]
        bad = []
        b = copy.deepcopy(norm[n]); b["ev"][-1]["psi1"] = False; bad.append(b)
        b = copy.deepcopy(norm[n]); b["ev"][1]["jn0"] = False; bad.append(b)
        b = copy.deepcopy(norm[n]); b["ev"][1]["dev"] = ro.TOL + 1; bad.append(b)
        ad = [m for m in sorted(accepted) if runs[m]["adaptive"] and "max" in norm[m]["ev"][-1]["dts"]]
        if not ad and not ctx.violations:
            raise core.MachineryFailure("C17: no accepted adaptive run reached dt_max (vacuous)")
        if ad:
            b = copy.deepcopy(norm[ad[0]]); b["ev"][-1]["dts"][-1] = "other"; bad.append(b)              # step shrinks again
            b = copy.deepcopy(norm[ad[0]])
            for e in b["ev"]:
                e["dts"] = ["init"] * len(e["dts"])                                                     # never grows
            bad.append(b)
        acc, _ = ro.tlc_traces(ctx, bad, ro.cfg(True, known=True), "canary[C17]", count=False)
        if acc:
            raise core.MachineryFailure(f"C17: corrupted traces {sorted(acc)} accepted")
        ctx.cov["canaries_rejected"] += len(bad)
    elif not ctx.violations:
        raise core.MachineryFailure("C17: no run with bit-exactness demanded was accepted and no violation")
    ctx.cov["rule"] = ("one case = one undriven run of the real solver (psi = 1, mu = 0, no field, no current, epsilon = 1); every recorded frame is "
                       "checked for bitwise psi = 1, mu = 0, zero currents, zero induced potential, and the recorded step sizes for dt_init during "
                       "warm-up then dt_max; non-trivial = at least 5 steps")
    ctx.assume("explored region: gamma in {0, 1, 2, 10}, u in {0.5, 1, 5.79}, runs of at most a few hundred steps (<= ~3 tau); the step is capped at the linear "
               "stability limit of the explicit part for amplitude perturbations (dt_max <= u sqrt(1+gamma^2)/lambda_max), so that the presence of a spurious "
               "source is observed, not its amplification.  Outside it (observed on the unmodified tree by a reviewer, not claimed here): gamma <= 1 with "
               "dt_max = 0.1 destabilises the uniform state (explicit Euler), gamma >= 1000 loses precision (~2e-5), and a 20 tau barhole run at "
               "dt_max = 0.05 accumulates 3e-10 -- StationaryToRounding (1e-9) is stated for the short runs of this matrix")
    ctx.assume("epsilon forms: the callables return 1 at every film site (asserted by the harness at t = 0, 0.3, 5) and values != 1 off the film")
    ctx.assume("warm-up length window + 2 steps (docs: the rule applies when step > window) is part of RunObs.StepHistoryOK")
