"""C04 — observables are invariant under gauge transformations.
Decided with spec/FVOps.tla (+ FVOpsTrace.tla) at the operator level and spec/Twin.tla at the run level: DESIGN.md 3.3, 3.9, 5/C04.

1. design: TLC checks GaugeCovariant / SupercurrentGaugeInvariant for every single-site gauge generator chi in Z4 on every
   instance (mesh x weights x link configuration) of the FVOps universe and exports the instances with their generator;
2. spec -> code: each exported instance is injected into the real code (A.e = q pi/2, then A.e + chi_j - chi_i through
   MeshOperators.set_link_exponents, psi -> psi i^chi); explicit instances use random multi-site chi;
3. code -> spec: TLC (FVOpsTrace) checks the code's transformed operators entry by entry, the covariance relation between the
   code's own matrices and the equality of the supercurrents; float meshes with random real chi through residual facts;
4. run level: pairs of REAL solver runs related by a gauge change (rigid translate under a uniform field; A vs A + c with the
   second run started from psi exp(i c.r)) validated with the Twin specification on quantised gauge-invariant observables."""
import copy
import random

from harness import core, fvops, runfamily as rf, twin

LEVEL = "model_checking"
INV = fvops.INV_TRACE_C04 + ["TrCovLapHermitian"]
TOL = 5      # quanta of 1e-6 of the scale of each observable


def bounds(ctx):
    if ctx.quick:
        return dict(MeshIds=list(range(1, 10)), Patterns=[13], MaxFree=2)
    return dict(MeshIds=list(range(1, 10)), Patterns=[0, 5, 13, 22, 26], MaxFree=3)     # 150k states with MaxFree=4: 19 CPU-minutes


def run_pairs(ctx):
    rnd = random.Random(ctx.seed + 4)
    pairs = [
        dict(mode="translate", dev="film", field=0.5, offset=(2.5, -1.25), steps=80, warm=20),
        dict(mode="translate", dev="bar", field=0.4, current=3.0, offset=(-8.0, 0.5), steps=80, warm=20),
        dict(mode="translate", dev="barhole", field=0.3, current=4.0, offset=(0.375, 16.0), steps=80, warm=20),
        dict(mode="shift", dev="film", field=0.5, shift=(0.3, -0.2), steps=100, warm=30),
        dict(mode="shift", dev="film", field=0.0, shift=(0.2, 0.1), steps=60, warm=10),
        dict(mode="shift", dev="bar", field=0.4, current=3.0, shift=(0.25, 0.4), steps=100, warm=30),
        dict(mode="shift", dev="bar", field=0.3, current=0.0, shift=(-0.3, 0.15), steps=80, warm=30),
        dict(mode="shift", dev="barhole", field=0.0, current=4.0, shift=(-0.5, 0.3), steps=100, warm=30),
        dict(mode="shift", dev="ring", field=0.6, shift=(1.0, 1.0), steps=100, warm=30),
        dict(mode="shift", dev="tee", field=0.2, current=4.0, shift=(0.4, -0.6), steps=100, warm=30),
        dict(mode="shift", dev="cross", field=0.3, current=3.0, shift=(0.1, 0.7), steps=80, warm=20, k=7),
        # coherence length != 1 length unit: the gauge phase is computed from SI constants and the REQUESTED xi (fvops.physical_gauge_phase)
        dict(mode="shift", dev="film", xi=0.5, field=0.3, shift=(0.15, -0.09), steps=80, warm=20),
        dict(mode="shift", dev="bar", xi=2.0, field=0.1, current=2.0, shift=(0.1, 0.2), steps=80, warm=20, dt=2.0 ** -9),
        dict(mode="translate", dev="barhole", xi=0.5, field=0.3, current=2.0, offset=(1.5, -0.75), steps=60, warm=10),
        # the same with a history: the device was used at xi = 1, its coherence length then assigned in place, re-meshed
        dict(mode="shift", dev="film", xi=0.5, history="xi edited in place", field=0.3, shift=(0.15, -0.09), steps=40, warm=10),
        # time-dependent applied potential (field ramped over many steps; the link variables are refreshed during the run)
        dict(mode="shift", dev="film", field=0.0, ramp=(0.0, 0.1, 2.0), shift=(1.0, 1.0), steps=128, warm=0, k=8),
        dict(mode="shift", dev="bar", field=0.0, current=2.0, ramp=(0.05, 0.15, 3.0), shift=(1.2, -0.8), steps=160, warm=10, k=16),
        dict(mode="translate", dev="barhole", field=0.0, current=2.0, ramp=(0.0, 0.3, 1.0), offset=(3.0, -1.5), steps=64, warm=0, k=8),
        # with screening: the self-consistency loop (Polyak iteration, convergence criterion) must not see the gauge either;
        # fixed step, so the clean twins follow the same iteration path (measured: <= 2e-10 of the scale, equal iteration counts)
        dict(mode="shift", dev="film", field=0.4, shift=(0.6, -0.4), steps=20, warm=6, k=4, screening=True, screening_tol=1e-3),
        dict(mode="shift", dev="film", field=0.1, shift=(0.5, 0.3), steps=12, warm=0, k=4, screening=True, screening_tol=1e-4),
        dict(mode="shift", dev="bar", field=0.3, current=3.0, shift=(0.5, 0.8), steps=20, warm=6, k=4, screening=True, screening_tol=1e-6),
        dict(mode="translate", dev="barhole", field=0.4, current=2.0, offset=(3.0, -1.5), steps=16, warm=4, k=4, screening=True, screening_tol=1e-6),
    ]
    if not ctx.quick:
        for n in range(40):
            dev = rnd.choice(["film", "bar", "barhole", "ring", "tee", "cross"])
            a = dict(dev=dev, field=round(rnd.uniform(0.0, 0.6), 3), steps=rnd.choice([60, 120, 200]), warm=rnd.choice([0, 10, 40]),
                     k=rnd.choice([5, 10, 20]))
            if dev not in ("film", "ring"):
                a["current"] = round(rnd.choice([0.0, rnd.uniform(0.5, 5.0)]), 3)
            if n % 4 == 0:
                a.update(mode="translate", offset=(rnd.randint(-64, 64) / 8, rnd.randint(-64, 64) / 8))
            else:
                a.update(mode="shift", shift=(round(rnd.uniform(-1, 1), 3), round(rnd.uniform(-1, 1), 3)))
            if n % 5 in (1, 3):
                a["xi"] = rnd.choice([0.5, 2.0, 1.5])
                if a["xi"] > 1:      # finer mesh in units of xi and a smaller Bc2: smaller fixed step, field below Bc2
                    a.update(dt=2.0 ** -9, field=min(a["field"], 0.3 / a["xi"] ** 2))
            if n % 3 == 1:
                a.update(ramp=(round(rnd.uniform(0.0, 0.1), 3), round(rnd.uniform(0.1, 0.5), 3), rnd.choice([0.5, 1.0, 2.0, 3.0])), field=0.0)
            if n % 3 == 0:
                # (not exactly at rest: see REST_PAIR)
                a.update(screening=True, screening_tol=rnd.choice([1e-3, 1e-4, 1e-6]), steps=rnd.choice([12, 24, 40]), warm=rnd.choice([0, 4, 8]), k=4,
                         field=max(a["field"], 0.05))
            pairs.append(a)
    return pairs


# Known deviation of the unchanged tree (run only when listed as an open known finding, see the report): a film AT REST
# (zero field, psi = 1) with screening converges at once in the gauge A = 0, but in the gauge A = c, psi = exp(i c.r) the
# currents are rounding noise, the RELATIVE error |dA|/|A_induced| of the screening loop is noise/noise and the run raises
# "Screening calculation failed to converge".  Violation key: "C04/runs:shift/film/B=0.0/I=-/c=(0.5, 0.3)/screening tol=0.001:outcome..."
REST_PAIR = dict(mode="shift", dev="film", field=0.0, shift=(0.5, 0.3), steps=12, warm=0, k=4, screening=True, screening_tol=1e-3)


# Open known finding of the unchanged tree (same root as the open C17 finding: rounding noise amplified by large adaptive steps):
# the film of harness.devices ("film": box(5, 3, points=48), max_edge_length 0.8, xi=1, lambda=2, d=0.1) in the pure gauge
# A = c = (0.3, -0.2) mT um, psi_0 = exp(i (2 pi/Phi_0) c.r), zero field, no screening, DEFAULT adaptive stepping (dt_init=2^-6,
# dt_max=0.1), solve_time=10: max|Js| grows to ~3 and ||psi|-1| to ~0.08 by t ~ 2.7 while the twin A = 0, psi = 1 stays exactly at
# rest.  With dt_max=0.02 or a fixed step both stay at rest (1e-14).  It is the stability limit of the scheme, recorded, not repaired.
# The pair is run in both tiers; it MUST still differ (else the finding is stale: machinery failure).
# Violation key: "C04/runs:gauge-adaptive-amplification/film/c=(0.3, -0.2)/dt_max=0.1:<first observation that differs>"
AMPLIFICATION_LABEL = "gauge-adaptive-amplification/film/c=(0.3, -0.2)/dt_max=0.1"
AMPLIFICATION_PAIR = dict(mode="shift", dev="film", field=0.0, shift=(0.3, -0.2), steps=640, warm=0, k=20, adaptive=True, label=AMPLIFICATION_LABEL)


def describe(a):
    if a.get("label"):
        return a["label"]
    return "%s/%s%s/B=%s/I=%s/%s%s" % (a["mode"], a["dev"], ("/xi=%s%s" % (a["xi"], " (edited in place after use)" if a.get("history") else ""))
                                      if a.get("xi") else "", ("ramp%s" % (a["ramp"],)) if a.get("ramp") else a["field"], a.get("current", "-"),
                                    ("offset=%s" % (a["offset"],)) if a["mode"] == "translate" else ("c=%s" % (a["shift"],)),
                                    "/screening tol=%g" % a["screening_tol"] if a.get("screening") else "")


def run(ctx):
    b = bounds(ctx)
    ctx.cov["bounds"] = {"FVOps": dict(b, meshes=fvops.MESH_NAMES, gauge="single-site generators chi_s = c pi/2, c in 1..3, every site s",
                                       links="first MaxFree links over 0..3, the others (e+mi)%4"),
                         "runs": "<= 200 fixed steps of 2^-6, devices of ~110 sites; with screening (tolerance 1e-3..1e-6): <= 48 steps"}
    # 1. the design
    r = ctx.model_check("FVOps", fvops.model_cfg(b["MeshIds"], b["Patterns"], b["MaxFree"], True, fvops.INV_MODEL_C04, emit="gauge"),
                        name="FVOps[C04]", timeout=3000)
    ctx.cov["exhaustive"] = True
    # vacuity guard (TLC -coverage is slow, so on a small configuration; the main run is guarded by the number of exported instances)
    ctx.model_check("FVOps", fvops.model_cfg([2, 8], [13], 1, True, fvops.INV_MODEL_C04), name="FVOps[C04, action coverage]",
                    required_actions=["PickPattern", "PickLink", "FillLinks", "PickGauge"], count=False)
    ctx.model_check("FVOps", fvops.model_cfg([2, 5], [5], 2, True, ["WrongSignIsCovariant"]),
                    name="FVOps[sanity: psi -> psi exp(-i chi) must not be a symmetry]", expect_violation="WrongSignIsCovariant", count=False)
    # 2. spec -> code
    insts = fvops.export_instances(r)
    if len(insts) < 3 * 16 * len(b["MeshIds"]):
        raise core.MachineryFailure(f"C04: TLC exported only {len(insts)} instances with a gauge generator")
    ctx.cov["instances_exported"] = len(insts)
    rnd = random.Random(ctx.seed)
    rnd.shuffle(insts)
    jobs = []
    for i in insts[: (170 if ctx.quick else 5000)]:
        jobs.append(("call", dict(module="harness.fvops", func="replay_exact",
                                  args=dict(profile="gauge", mi=i["mi"], pat=i["pat"], geo=i["geo"], q=i["q"], mesh=i["mesh"], chi=i["chi"],
                                            heavy=False, seed=rnd.randint(0, 10 ** 6), label=i["name"]))))
    for k in range(30 if ctx.quick else 400):
        jobs.append(("call", dict(module="harness.fvops", func="replay_exact",
                                  args=dict(fvops.random_instance(rnd, rnd.choice(sorted(fvops.TOPOLOGIES))), profile="gauge"))))
    jobs.append(("call", dict(module="harness.fvops", func="replay_exact", args=dict(fvops.lattice_instance(rnd, 4, 3), profile="gauge"))))
    nexact = len(jobs)
    fm = fvops.float_meshes(ctx)
    for m in (fm[:5] + fm[6:7] if ctx.quick else fm):
        jobs.append(("call", dict(module="harness.fvops", func="float_trace", args=dict(m, nA=3))))
    nfloat = len(jobs) - nexact
    pairs = run_pairs(ctx)
    pairs.append(AMPLIFICATION_PAIR)
    if not {0.5, 2.0} <= {a.get("xi") for a in pairs if a["mode"] == "shift"}:
        raise core.MachineryFailure("C04: no shift pair on a device with xi = 0.5 and xi = 2 length units (vacuous physical gauge phase)")
    if any(f.get("status") == "open" and "B=0.0" in f.get("key", "") and "screening" in f.get("key", "") for f in ctx.findings):
        pairs.append(REST_PAIR)
    for a in pairs:
        jobs.append(("call", dict(module="harness.fvops", func="gauge_run_pair", args=a)))
    # the uniform-field potential on position arrays of any length (one gauge constant for the whole array)
    pot = [dict(source=src, B=B, N=N, seed=ctx.seed + k)
           for k, (src, B, N) in enumerate([("constant", 0.4, 100), ("constant", 0.4, 2 ** 14 + 1), ("constant", -0.7, 40000),
                                            ("ramp", 0.8, 2 ** 14 + 1), ("ramp", 0.8, 40000)]
                                           + ([] if ctx.quick else [("constant", 1.3, 100000), ("ramp", -0.2, 70001), ("constant", 0.05, 16384)]))]
    for a in pot:
        jobs.append(("call", dict(module="harness.fvops", func="potential_gauge_trace", args=a)))
    control = dict(mode="shift", dev="bar", field=0.4, current=3.0, shift=(0.25, 0.4), steps=40, warm=30, break_seed=True)
    jobs.append(("call", dict(module="harness.fvops", func="gauge_run_pair", args=control)))
    res = rf.replay_all(ctx, jobs, nproc=8 if ctx.quick else None)
    nrefused = sum(1 for t in res[nexact: nexact + nfloat] if t["kind"] == "refused")
    res = [t for k, t in enumerate(res) if not (nexact <= k < nexact + nfloat and t["kind"] == "refused")]
    nfloat -= nrefused
    traces, runs, potres, ctl = (res[: nexact + nfloat], res[nexact + nfloat: nexact + nfloat + len(pairs)],
                                 res[nexact + nfloat + len(pairs): -1], res[-1])
    if len(potres) != len(pot) or max(p["info"]["N"] for p in potres) <= 2 ** 14 or not any(a.get("history") for a in pairs):
        raise core.MachineryFailure("C04: large-array potential family or device-history pair missing (vacuous)")
    # 3. code -> spec, operator level
    for t in traces:
        if t["kind"] == "exact":
            c = next(e["c"] for e in t["ev"] if e["ev"] == "gauge")
            q = next(e["q"] for e in t["ev"] if e["ev"] == "op" and e["op"] == "covlap")
            ctx.note_case((t["label"], t["mi"], t["pat"], tuple(q), tuple(c), str(t["mesh"]["len"]) if t["mi"] == 0 else ""), any(c))
        else:
            ctx.note_case(("float", t["label"], t["sites"]), True)
    accepted = set()
    for lo in range(0, nexact, 300):
        accepted |= {lo + n for n in fvops.validate(ctx, traces[lo:lo + 300], "C04", INV)}
    accf = fvops.validate(ctx, traces[nexact:], "C04/float", INV)
    accepted |= {nexact + n for n in accf}
    # canaries (binding self-test); when nothing was accepted the violations above are the verdict
    if not ctx.violations and (not accf or not any(traces[n]["kind"] == "exact" for n in accepted)):
        raise core.MachineryFailure("C04: nothing accepted and no violation reported")
    fvops.canaries(ctx, traces, accepted, INV, "C04", ["covlap_covariant", "supercurrent_invariant"])
    for n in sorted(accepted)[:2]:
        t = traces[n]
        ctx.sample({"label": t["label"], "mi": t["mi"], "pat": t["pat"], "chi": next(e["c"] for e in t["ev"] if e["ev"] == "gauge"),
                    "events": [(e["ev"], e.get("op"), e.get("src"), e.get("path")) for e in t["ev"]][-8:]})
    # 4. run level: Twin
    tw = []
    for a, rr in zip(pairs, runs):
        tw.append({"tol": TOL, "minruns": 2, "ev": rr["ev"], "label": describe(a)})
        if a.get("ramp") and not rr["info"].get("raised") and rr["info"].get("distinct_applied_potentials", 0) < 3:
            raise core.MachineryFailure(f"C04: the applied potential did not change during {describe(a)} (vacuous ramp)")
        if a.get("screening"):
            if not rr["ev_exact"]:
                raise core.MachineryFailure(f"C04: no screening_iterations record for {describe(a)}")
            tw.append({"tol": 0, "minruns": 2, "ev": rr["ev_exact"], "label": describe(a) + "/iteration counts"})
        inf = rr["info"]
        nontrivial = inf["psi_moved"] > 1e-3 and inf["max_supercurrent"] > 1e-3 and inf["frames"][0] >= 3
        ctx.note_case(("runs", describe(a)), nontrivial)
        ctx.sample({"run_pair": describe(a), "info": {k: inf[k] for k in ("sites", "frames", "steps", "worst_relative_difference", "psi_moved",
                                                                        "max_phase_difference_between_gauges")}}, limit=5)
    ctx.cov["run_pairs"] = [dict(pair=describe(a), worst_relative_difference=max(rr["info"]["worst_relative_difference"].values()),
                                 psi_moved=rr["info"]["psi_moved"],
                                 **({"screening_iterations": rr["info"]["screening_iterations"]["A"]} if a.get("screening") else {}))
                            for a, rr in zip(pairs, runs)]
    for a, pr in zip(pot, potres):
        tw.append({"tol": TOL, "minruns": 2, "ev": pr["ev"], "label": "uniform-field potential/%s/B=%s/N=%d positions" % (a["source"], a["B"], a["N"])})
        ctx.note_case(("potential", a["source"], a["B"], a["N"]), a["N"] > 2 ** 14)
    ctx.cov["potential_arrays"] = [dict(source=a["source"], N=a["N"], spread_of_residual=pr["info"]["spread_of_residual"]) for a, pr in zip(pot, potres)]
    acct = fvops.validate_twin(ctx, tw, "C04/runs")
    # the open known finding must still reproduce: the adaptive pure-gauge pair still differs
    namp = next(n for n, t in enumerate(tw) if t["label"] == AMPLIFICATION_LABEL)
    if namp in acct:
        raise core.MachineryFailure("C04: the adaptive pure-gauge pair no longer differs from its A = 0 twin -- the known finding "
                                    f"'C04/runs:{AMPLIFICATION_LABEL}*' is stale (remove the entry and AMPLIFICATION_PAIR)")
    acct = {n for n in acct if n != namp}
    # canaries: one observation off by more than the tolerance; and a pair that is NOT gauge equivalent (no phase factor in the seed)
    ctl_trace = {"tol": TOL, "minruns": 2, "ev": ctl["ev"]}
    if acct:
        bad = copy.deepcopy(tw[sorted(acct)[0]])
        e = [x for x in bad["ev"] if x["run"] == "B" and x["key"].endswith("/supercurrent")][-1]
        e["q"][len(e["q"]) // 2] += TOL + 1
        acc, _ = ctx.validate_traces("Twin", [{"tol": TOL, "minruns": 2, "ev": bad["ev"]}, ctl_trace], twin.twin_cfg(),
                                     name="canaries[C04/runs: observation off by tol+1, pair that is not gauge equivalent]", count=False)
        if 0 in acc:
            raise core.MachineryFailure("C04: corrupted twin observation accepted")
        if 1 in acc:
            raise core.MachineryFailure("C04: runs that are not gauge equivalent were accepted as related (observables too coarse)")
        ctx.cov["canaries_rejected"] += 2
    elif not ctx.violations:
        raise core.MachineryFailure("C04: no run pair accepted and no violation reported")
    ctx.cov["rule"] = ("operator level: one case = (mesh instance, link configuration, gauge function) replayed into the real MeshOperators and "
                       "validated by TLC, non-trivial = chi not identically 0; run level: one case = a pair of real runs in two gauges, "
                       "non-trivial = |psi| moved by > 1e-3, supercurrent > 1e-3 and >= 3 frames compared")
    ctx.assume("run level: gauge-equivalent initial states are produced by multiplying the recorded order parameter of a warm-up run by "
               "exp(i chi), chi = c.r with c the difference of the two dimensionless vector potentials as evaluated by TDGLSolver itself")
    ctx.assume("run level compares |psi|, supercurrent, normal current and mu_i - mu_0 quantised at 1e-6 of their scale with tolerance 5 quanta; "
               "measured differences are ~1e-11 of the scale (<= 3e-9 with screening); fixed time step; with screening the induced vector "
               "potential is compared as well and the per-step screening_iterations records must be equal")


def replay(ctx, path):
    return fvops.replay_file(ctx, path, INV, "C04")
