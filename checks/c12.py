"""C12 — time steps follow the documented adaptive rule and its bounds.
Decided with spec/StepCtl.tla (+ StepCtlTrace.tla): DESIGN.md 3.2 and 5/C12.

1. design: TLC checks every C12 clause (bounds on dt, first attempt = tentative step, each retry multiplies once,
   exhausted retries raise, window rule after warm-up, no change during warm-up, fixed dt when not adaptive) on the
   StepCtl state machine, exhaustively inside the bounds; seeded design errors (mechanism switches) must violate them.
2. spec -> code: every complete behaviour (sampled in quick) is a script of refusals and deltas that is replayed on
   the REAL TDGLSolver.update with scripted physics; the recorded execution, mapped to the model's exact dyadic
   integers, must be a behaviour of StepCtl (TLC, StepCtlTrace "exact" mode).
3. code -> spec: natural runs of the real solver (retries forced by strong drives and large steps, undriven runs,
   fixed-step runs, runs that exhaust their retries) are abstracted to relation flags and validated by TLC against
   the control skeleton of the same specification (StepCtlTrace "flags" mode)."""
import random

from harness import core, stepctl as sc

LEVEL = "model_checking"

D4 = [0, 16, 1024, 16384]          # delta in {0, 2^-12, 2^-6, 2^-2}
ACTIONS = ["Begin", "Test", "Refuse", "Answer", "Finish"]


def bounds(ctx):
    q = ctx.quick
    models = [
        ("StepCtl[C12 windows 1,2]",
         dict(Adaptives=[True, False], Windows=[1, 2], RetrySet=[0, 2] if q else [0, 1, 3], MulExps=[1, 2], InitEs=[4], MaxE4s=[5],
              Deltas=D4, MaxSteps=6 if q else 8, MaxRefusals=4 if q else 5), sc.INV_C12, sc.PROP_C12, ACTIONS),
        ("StepCtl[C12 window 4]",
         dict(Adaptives=[True], Windows=[4], RetrySet=[1] if q else [1, 3], MulExps=[1], InitEs=[4], MaxE4s=[5],
              Deltas=[0, 1024] if q else D4, MaxSteps=8 if q else 9, MaxRefusals=2 if q else 3), sc.INV_C12, sc.PROP_C12, ACTIONS),
        ("StepCtl[C12 dt_init 2^-6, dt_max 2]",
         dict(Adaptives=[True], Windows=[1, 2], RetrySet=[1, 3], MulExps=[2] if q else [1, 2], InitEs=[6], MaxE4s=[3] if q else [3, 1],
              Deltas=D4, MaxSteps=6 if q else 8, MaxRefusals=4), sc.INV_C12, sc.PROP_C12, ACTIONS),
        ("StepCtl[C12 with screening iterations]",
         dict(Adaptives=[True, False], Screenings=[True], Windows=[1], RetrySet=[1], MulExps=[1], Deltas=[0, 1024],
              MaxIters=[1, 2], Kicks=[1, 3], MaxSteps=3, MaxRefusals=2 if q else 3), sc.INV_C12 + sc.INV_C13,
         sc.PROP_C12 + sc.PROP_C13, ACTIONS + ["Links", "Induced"]),
        # the window rule across steps that each take several screening iterations: one delta per SOLVE STEP (the last
        # iteration's answer against the step's old |psi|^2), with deltas that differ between iterations
        ("StepCtl[C12 window 2 over steps with several screening iterations]",
         dict(Adaptives=[True], Screenings=[True], Windows=[2], RetrySet=[1], MulExps=[1], Deltas=[0, 1024, 16384],
              MaxIters=[1] if q else [1, 2], Kicks=[1, 3], MaxSteps=4 if q else 5, MaxRefusals=1), sc.INV_C12 + sc.INV_C13,
         sc.PROP_C12 + sc.PROP_C13, ACTIONS + ["Links", "Induced"]),
    ]
    therm = dict(Thermals=[True], MaxThermal=4, Adaptives=[True, False], Windows=[1, 2], RetrySet=[1] if q else [0, 2],
                 MulExps=[1], Deltas=[0, 1024, 16384] if q else D4, MaxSteps=4 if q else 5, MaxRefusals=2 if q else 3)
    models += [
        # thermalisation: the step index restarts, tentative_dt and the window list persist, second warm-up
        ("StepCtl[C12 thermalisation then recorded stage]", therm, sc.INV_C12, sc.PROP_C12, ACTIONS + ["StageRestart"]),
        ("StepCtl[C12 thermalisation with screening]",
         dict(Thermals=[True], MaxThermal=3, Adaptives=[True], Screenings=[True], Windows=[1], RetrySet=[1], MulExps=[1],
              Deltas=[0, 1024], MaxIters=[1], Kicks=[1, 3], MaxSteps=3, MaxRefusals=1), sc.INV_C12 + sc.INV_C13,
         sc.PROP_C12 + sc.PROP_C13, ACTIONS + ["StageRestart", "Induced"]),
    ]
    models.append(
        # edge of the option space: adaptive with dt_init == dt_max (no room to grow, retries still shrink the step)
        ("StepCtl[C12 adaptive with dt_init == dt_max]",
         dict(Adaptives=[True], Windows=[1, 2], RetrySet=[0, 2], MulExps=[1, 2], InitEs=[4], MaxE4s=[8], Deltas=D4,
              MaxSteps=5 if q else 7, MaxRefusals=3 if q else 4), sc.INV_C12, sc.PROP_C12, ACTIONS))
    small = dict(Adaptives=[True], Windows=[1], RetrySet=[0, 1], MulExps=[1], Deltas=D4, MaxSteps=5, MaxRefusals=4)
    scr2 = dict(Adaptives=[True], Screenings=[True], Windows=[2], RetrySet=[0], MulExps=[1], Deltas=[0, 1024, 16384],
                MaxIters=[1], Kicks=[1, 3], MaxSteps=4, MaxRefusals=0)
    thsmall = dict(Thermals=[True], MaxThermal=4, Adaptives=[True], Windows=[1], RetrySet=[1], MulExps=[1], Deltas=[0, 1024, 16384],
                   MaxSteps=3, MaxRefusals=1)
    canaries = [("MGlobalStepCount", thsmall, "TentativeFollowsWindowRule"), ("MResetTentative", thsmall, "TentativeChangesOnlyAtFinish"),
                ("MEntryPerIteration", scr2, "TentativeFollowsWindowRule"), ("MSliceExtra", small, "TentativeFollowsWindowRule"), ("MClipInit", small, "TentativeFollowsWindowRule"),
                ("MWarmupRule", small, "TentativeFollowsWindowRule"), ("MNeverRaise", small, "RetriesExhaustedRaises"),
                ("MNeverRaise", small, "RetriesBounded"), ("MMulFirst", small, "ReturnedDtIsAnswered")]
    exports = [
        ("window 1", dict(Adaptives=[True], Windows=[1], RetrySet=[0, 1], MulExps=[1, 2], Deltas=D4, MaxSteps=4 if q else 5,
                          MaxRefusals=2)),
        ("window 2", dict(Adaptives=[True], Windows=[2], RetrySet=[1], MulExps=[2], InitEs=[6], MaxE4s=[3],
                          Deltas=[0, 1024, 16384] if q else D4, MaxSteps=5, MaxRefusals=2 if q else 3)),
        ("window 4", dict(Adaptives=[True], Windows=[4], RetrySet=[1], MulExps=[1], Deltas=[0, 1024], MaxSteps=7,
                          MaxRefusals=1 if q else 2)),
        ("non-adaptive", dict(Adaptives=[False], InitEs=[4, 6], Deltas=[0, 1024], MaxSteps=4, MaxRefusals=1)),
        ("screening", dict(Adaptives=[True], Screenings=[True], Windows=[1], RetrySet=[1], MulExps=[1], Deltas=[0, 1024],
                           MaxIters=[1], Kicks=[1, 3], MaxSteps=3, MaxRefusals=2)),
        ("screening window 2", dict(scr2, Deltas=[0, 1024] if q else [0, 1024, 16384], MaxSteps=4 if q else 5)),
        ("dt_init == dt_max", dict(Adaptives=[True], Windows=[1], RetrySet=[0, 2], MulExps=[1], InitEs=[4], MaxE4s=[8],
                                   Deltas=[0, 1024, 16384], MaxSteps=4, MaxRefusals=2 if q else 3)),
        ("thermalisation", dict(Thermals=[True], MaxThermal=3 if q else 4, Adaptives=[True], Windows=[1], RetrySet=[1], MulExps=[1],
                                Deltas=[0, 1024, 16384], MaxSteps=3 if q else 4, MaxRefusals=1 if q else 2)),
        ("thermalisation window 2 / fixed step", dict(Thermals=[True], MaxThermal=4, Adaptives=[True, False], Windows=[2], RetrySet=[0],
                                                      MulExps=[2], Deltas=[0, 1024], MaxSteps=4, MaxRefusals=1)),
    ]
    return models, canaries, exports


def natural_matrix(ctx):
    base = [
        # strong drive, large steps: many refusals, rule not clipped
        dict(dev="bar", dt_init=0.25, dt_max=100.0, window=2, current=20.0, field=1.0, solve_time=20.0, retries=10, k=50),
        dict(dev="barhole", dt_init=0.5, dt_max=4.0, window=1, current=30.0, field=2.0, solve_time=10.0, retries=10,
             multiplier=0.5, k=50),
        # undriven: the step must grow to dt_max
        dict(dev="bar", dt_init=2.0 ** -6, dt_max=0.5, window=3, solve_time=6.0, k=50),
        dict(dev="film", dt_init=2.0 ** -6, dt_max=0.5, window=4, solve_time=6.0, k=50),
        # retries exhausted -> RuntimeError
        dict(dev="barhole", dt_init=0.5, dt_max=4.0, window=1, current=30.0, field=2.0, solve_time=10.0, retries=1,
             multiplier=0.5, k=50),
        dict(dev="bar", dt_init=1.0, dt_max=4.0, window=2, current=30.0, field=2.0, solve_time=10.0, retries=0, k=50),
        # fixed step; fixed step with a refusal -> RuntimeError at once
        dict(dev="bar", adaptive=False, dt_init=2.0 ** -6, current=3.0, field=0.3, solve_time=0.4, k=50),
        dict(dev="bar", adaptive=False, dt_init=1.0, current=30.0, field=2.0, solve_time=10.0, k=50),
        # screening with retries: dt is kept across the iterations of a step
        dict(dev="bar", screening=True, tol=1e-2, dt_init=2.0 ** -3, dt_max=1.0, window=2, current=12.0, field=1.0,
             solve_time=0.6, k=50),
        # thermalisation (skip_time > 0) with retries in both stages: the step index restarts, tentative_dt and the
        # window list persist, the recorded stage has a warm-up of its own
        dict(dev="bar", dt_init=0.25, dt_max=100.0, window=2, current=20.0, field=1.0, skip_time=6.0, solve_time=8.0,
             retries=10, k=50),
        dict(dev="barhole", dt_init=2.0 ** -6, dt_max=0.5, window=3, current=12.0, field=1.0, skip_time=1.0, solve_time=2.0,
             retries=10, multiplier=0.5, k=50),
        dict(dev="bar", adaptive=False, dt_init=2.0 ** -6, current=3.0, field=0.3, skip_time=0.1, solve_time=0.2, k=50),
        # edge input: adaptive with dt_init == dt_max and refusals (the retries must still happen)
        dict(dev="bar", dt_init=0.5, dt_max=0.5, window=2, current=20.0, field=1.0, solve_time=6.0, retries=10, k=50),
        # history: ONE options object used for a run with dt_init == dt_max, then re-used with a larger dt_max; the
        # second run must adapt as asked, and no run may rewrite the caller's options
        dict(first=dict(dev="bar", dt_init=0.25, dt_max=0.25, window=2, current=20.0, field=1.0, solve_time=4.0, retries=10, k=50),
             then_set=dict(dt_max=100.0, solve_time=12.0)),
        dict(first=dict(dev="bar", dt_init=2.0 ** -6, dt_max=2.0 ** -6, window=3, solve_time=0.2, k=50),       # quiet first run
             then_set=dict(dt_max=0.5, solve_time=3.0)),
        # retries exhausted NOT at step 0 of the recorded stage: at a step that is a multiple of save_every, and during
        # thermalisation; tdgl.solve itself must raise (`solve` event), not return a truncated solution
        dict(dev="bar", dt_init=2.0 ** -6, dt_max=4.0, window=1, current=20.0, field=1.0, retries=0, multiplier=0.9, k=1, solve_time=50.0),
        dict(dev="barhole", dt_init=2.0 ** -5, dt_max=8.0, window=2, current=30.0, field=2.0, retries=1, multiplier=0.9, k=2, solve_time=50.0),
        dict(dev="bar", dt_init=1.0, dt_max=4.0, window=2, current=30.0, field=2.0, retries=0, skip_time=5.0, solve_time=10.0, k=50),
        # continue from a stored solution with the options loaded back from the file (fixed step must stay fixed)
        dict(dev="bar", adaptive=False, dt_init=2.0 ** -6, current=3.0, field=0.3, solve_time=0.3, k=50, seed=dict(solve_time=0.2),
             from_file=True),
        # movie settings: save_every smaller than adaptive_window (the window is the literal asked for, whatever the
        # options object says afterwards); then the same options object re-used with a larger save_every
        dict(dev="bar", dt_init=0.25, dt_max=100.0, window=10, current=20.0, field=1.0, solve_time=12.0, retries=10, k=2),
        dict(dev="barhole", dt_init=2.0 ** -6, dt_max=0.5, window=5, current=12.0, field=1.0, solve_time=1.5, retries=10,
             multiplier=0.5, k=1),
        dict(first=dict(dev="bar", dt_init=0.25, dt_max=100.0, window=5, current=20.0, field=1.0, solve_time=8.0, retries=10, k=3),
             then_set=dict(save_every=50, solve_time=10.0)),
        # seeded runs (seed_solution=): the seed supplies the state, not the step control; its last dt differs from dt_init
        dict(dev="bar", adaptive=False, dt_init=2.0 ** -6, current=3.0, field=0.3, solve_time=0.2, k=50,
             seed=dict(dt_init=2.0 ** -5, solve_time=0.15)),                                   # fixed step, seed's dt larger
        dict(dev="bar", adaptive=False, dt_init=2.0 ** -5, current=3.0, field=0.3, solve_time=0.3, k=50,
             seed=dict(dt_init=2.0 ** -7, solve_time=0.1)),                                    # fixed step, seed's dt smaller
        dict(dev="bar", dt_init=2.0 ** -6, dt_max=0.5, window=3, current=3.0, field=0.3, solve_time=2.0, k=50,
             seed=dict(adaptive=False, dt_init=2.0 ** -5, solve_time=0.3)),                    # adaptive, seed's dt larger
        dict(dev="bar", dt_init=2.0 ** -4, dt_max=0.5, window=2, current=8.0, field=0.5, solve_time=2.0, k=50,
             seed=dict(dt_init=2.0 ** -8, dt_max=2.0 ** -8, solve_time=0.05)),                 # adaptive, seed's dt smaller
        # adaptive + screening with a proposal that is NOT clipped and dynamics that change from step to step: the
        # window must hold one delta per solve step, however many screening iterations a step took
        dict(dev="bar", screening=True, tol=1e-2, alpha=0.5, beta=0.5, dt_init=2.0 ** -8, dt_max=0.25, window=4,
             current=20.0, field=1.0, solve_time=1.0, k=50),
        dict(dev="barhole", screening=True, tol=1e-2, alpha=0.5, beta=0.5, dt_init=2.0 ** -8, dt_max=0.25, window=2,
             current=25.0, field=1.5, solve_time=1.0, k=50),
    ]
    if ctx.quick:
        return base
    rnd = random.Random(ctx.seed)
    out = list(base)
    for window in (1, 2, 5, 10):
        for mult in (0.1, 0.25, 0.5, 0.9):
            out.append(dict(dev=rnd.choice(["bar", "barhole", "tee"]), dt_init=rnd.choice([0.125, 0.25, 0.5]),
                            dt_max=rnd.choice([2.0, 10.0, 100.0]), window=window, multiplier=mult,
                            retries=rnd.choice([3, 10, 20]), current=rnd.choice([10.0, 20.0, 30.0]),
                            field=rnd.choice([0.5, 1.0, 2.0]), solve_time=15.0, k=50))
    for retries in (0, 1, 2, 3):
        out.append(dict(dev="barhole", dt_init=1.0, dt_max=8.0, window=2, current=30.0, field=2.0, solve_time=10.0,
                        retries=retries, multiplier=0.5, k=50))
    for dev in ("film", "ring", "barhole"):
        out.append(dict(dev=dev, dt_init=2.0 ** -7, dt_max=1.0, window=5, solve_time=12.0, k=50))
    out.append(dict(dev="bar", screening=True, tol=1e-3, alpha=0.3, beta=0.8, dt_init=2.0 ** -7, dt_max=0.5, window=3,
                    current=25.0, field=0.5, solve_time=0.8, k=50))
    for window, skip in ((1, 2.0), (2, 5.0), (5, 9.0)):
        out.append(dict(dev=rnd.choice(["bar", "barhole"]), dt_init=0.25, dt_max=rnd.choice([4.0, 100.0]), window=window,
                        current=20.0, field=1.0, skip_time=skip, solve_time=6.0, retries=10, k=50))
    out.append(dict(dev="bar", screening=True, tol=1e-2, alpha=0.5, beta=0.5, dt_init=2.0 ** -8, dt_max=0.25, window=4,
                    current=20.0, field=1.0, skip_time=0.5, solve_time=0.6, k=50))
    out.append(dict(dev="tee", screening=True, tol=1e-2, dt_init=2.0 ** -8, dt_max=0.25, window=5, current=25.0, field=1.0,
                    solve_time=0.8, k=50))
    return out


def _run(ctx):
    models, canaries, exports = bounds(ctx)
    ctx.cov["bounds"] = {"models": {m[0]: m[1] for m in models}, "exports": {e[0]: e[1] for e in exports},
                         "fixed_point_bits": {"time": sc.FT, "delta": sc.FD, "vector_potential": sc.FA}}
    # 1. the design (TLC runs in the background while the replays are prepared)
    design = sc.in_background(sc.run_models, ctx, models, canaries)
    # 2. spec -> code
    fams = sc.export_many(ctx, exports)
    rnd = random.Random(ctx.seed)
    per = 450 if ctx.quick else 25000
    scripts = []
    exhaustive = True
    for fam in fams:
        rnd.shuffle(fam)
        exhaustive = exhaustive and len(fam) <= per
        scripts += fam[:per]
    ctx.cov["behaviours_exported"] = sum(len(f) for f in fams)
    ctx.cov["behaviours_replayed"] = len(scripts)
    ctx.cov["exhaustive"] = exhaustive
    # 3. code -> spec
    naturals = natural_matrix(ctx)
    straces, sacc, ntraces, nacc = sc.replay_and_validate(ctx, scripts, naturals, "C12")
    design.result()
    ctx.cov["natural_runs"] = [{"params": t["params"], "stats": t["stats"], "raised": t["raised"]} for t in ntraces[:12]]
    describe(ctx)
    if ctx.violations:
        return          # verdict first: guards and canaries below are self-tests of the machinery, never a way to hide it
    # vacuity guards on what the real code was made to do
    st = [t["stats"] for t in ntraces]
    raised = [t["raised"] for t in ntraces]
    if not (sum(s["refusals"] for s in st) > 50 and "euler" in raised and sum(s["rule_steps"] for s in st) > 50
            and any(s["max_retries_in_a_step"] >= 3 for s in st)):
        raise core.MachineryFailure(f"natural runs did not exercise retries / the rule / exhaustion: {st} {raised}")
    ex = [t for t in ntraces if t["raised"] == "euler"]

    def raise_step(t):
        return [e for e in t["ev"] if e["ev"] == "begin"][-1]["step"]
    if not (any(raise_step(t) == 0 and not t["params"].get("skip_time") for t in ex)
            and any(raise_step(t) > 0 and raise_step(t) % t["params"]["k"] == 0 for t in ex)
            and any(t["params"].get("skip_time") and t["stats"]["restarts"] == 0 for t in ex)
            and any(t["params"].get("from_file") and not t["params"].get("adaptive", True) and t["stats"]["updates"] > 5 for t in ntraces)):
        raise core.MachineryFailure("exhaustion at step 0 / at a multiple of save_every / in thermalisation, or the continue-from-file run, is missing")
    movie = [t for t in ntraces if t["params"].get("adaptive", True) and t["params"].get("k", 5) < t["params"].get("window", 3)]
    if not (sum(1 for t in movie if t["stats"]["updates"] > 2 * t["params"]["window"] and t["stats"]["unclipped_rule_steps"] >= 10) >= 2
            and {t["params"]["k"] for t in movie} >= {1, 2, 3} and {t["params"]["window"] for t in movie} >= {5, 10}
            and any("second run" in t["params"].get("history", "") and t["params"].get("save_every") == 50 and t["params"]["window"] == 5
                    and t["stats"]["unclipped_rule_steps"] >= 10 for t in ntraces)):
        raise core.MachineryFailure(f"no adaptive runs with save_every < adaptive_window judged against the requested window: {[t['stats'] for t in movie]}")
    sd = [t for t in ntraces if t["params"].get("seed") is not None]
    if not all(any(t["params"].get("adaptive", True) == a and t["stats"]["seed_last_dt"] is not None
                   and (t["stats"]["seed_last_dt"] > t["params"]["dt_init"]) == bigger and t["stats"]["updates"] > 5 for t in sd)
               for a in (True, False) for bigger in (True, False)):
        raise core.MachineryFailure(f"seeded runs do not cover adaptive on/off x seed dt above/below dt_init: {[t['stats'] for t in sd]}")
    hist2 = [t for t in ntraces if "second run" in t["params"].get("history", "")]
    if not (hist2 and all(t["stats"]["rule_steps"] >= 5 and t["ev"][-1]["ev"] == "options" for t in hist2)
            and any(t["params"]["dt_init"] == t["params"].get("dt_max") and t["stats"]["refusals"] > 10 for t in ntraces)):
        raise core.MachineryFailure("no re-used options object with an adapting second run / no dt_init == dt_max run with refusals")
    th = [(t, s) for t, s in zip(ntraces, st) if t["params"].get("skip_time") and t["params"].get("adaptive", True)]
    if not any(s["restarts"] == 1 and s["refusals_before_restart"] > 10 and s["refusals"] - s["refusals_before_restart"] > 10
               and s["tent_at_restart"] != t["params"]["dt_init"] and s["updates"] - s["updates_before_restart"] > t["params"]["window"] + 3
               for t, s in th):
        raise core.MachineryFailure(f"no thermalised natural run with retries in both stages and a changed tentative step: {[s for _, s in th]}")
    if not any(t["cfg"]["thermal"] and any(e["ev"] == "restart" for e in t["ev"]) and t["ev"][-1]["ev"] == "return" for t in straces):
        raise core.MachineryFailure("no scripted replay crosses the stage restart")
    if not any(t["params"].get("screening") and t["params"].get("adaptive", True) and s["unclipped_rule_steps"] >= 5
               and s["max_screening_iterations"] >= 2 for t, s in zip(ntraces, st)):
        raise core.MachineryFailure(f"no adaptive + screening natural run with an unclipped window rule: {st}")
    if not any(t["cfg"]["screening"] and t["cfg"]["adaptive"] and t["cfg"]["window"] >= 2
               and sum(1 for e in t["ev"] if e["ev"] == "induced") > sum(1 for e in t["ev"] if e["ev"] == "return") >= 4
               for t in straces):
        raise core.MachineryFailure("no scripted replay applies the window rule (window >= 2) over steps with several screening iterations")
    if not (any(t["ev"][-1]["ev"] == "raise" for t in straces) and any(t["overrun"] == 0 and t["unused"] == 0 for t in straces)):
        raise core.MachineryFailure("scripted replays never raised or never consumed their script")
    undriven = [t for t in ntraces if not t["params"].get("current") and t["params"].get("adaptive", True)]
    ctx.cov["undriven_runs_end_at_dt_max"] = [t["stats"]["last_tent"] == t["params"]["dt_max"] for t in undriven]
    for n in sorted(sacc)[:3]:
        ctx.sample({"script": sc.describe_script(dict(cfg=straces[n]["cfg"], hist=straces[n]["script"]["hist"])),
                    "recorded": sc.strip_trace(straces[n])["ev"][:12]})
    for n in sorted(nacc)[:2]:
        ctx.sample({"natural": ntraces[n]["params"], "stats": ntraces[n]["stats"], "recorded": sc.strip_trace(ntraces[n])["ev"][:8]})
    # canaries: corrupted recordings must be rejected
    items = []
    if sacc:
        items += [("StepCtlTrace", straces, sacc, sc.exact_cfg(), mut, f"C12/{mut.__name__}", sc.strip_trace)
                  for mut in (sc.mut_exact_tent, sc.mut_exact_retry, sc.mut_exact_drop_raise)]
    if nacc:
        items += [("StepCtlTrace", ntraces, nacc, sc.flags_cfg(), mut, f"C12/{mut.__name__}", sc.strip_trace)
                  for mut in (sc.mut_flags_rule, sc.mut_flags_mult, sc.mut_flags_options)]
    sc.canaries_concurrently(ctx, items)


def describe(ctx):
    ctx.cov["rule"] = ("behaviours of StepCtl (which attempts are refused, delta of each accepted step, kernel outputs) exported "
                       "by TLC and replayed on the real TDGLSolver.update with scripted physics, plus natural solver runs; a "
                       "scripted case is non-trivial when it contains a refusal, a screening iteration or a step to which the "
                       "window rule applies, a natural run when it makes at least one attempt; distinct = distinct inputs")
    ctx.assume("scripted replays: solve_for_psi_squared and the screening kernel are replaced at run time by scripted "
               "functions; update, adaptive_euler_step, get_induced_vector_potential, the operators and the Poisson solve are the real code")
    ctx.assume("natural runs: relations between logged floats are evaluated by harness/stepctl.py with relative tolerance "
               "1e-12 (1e-9 for the window rule); TLC decides which relation is required at which point of the history")
    ctx.assume("the model's environment offers only deltas for which every window sum is 0 or a power of two (exact dyadic arithmetic)")


def run(ctx):
    """Verdicts first: a machinery problem (vacuity guard, canary) met after violations were recorded never replaces them."""
    try:
        _run(ctx)
    except core.MachineryFailure as e:
        if not ctx.violations:
            raise
        ctx.cov["machinery_problem_after_violations"] = str(e)[:2000]


def replay(ctx, path):
    return sc.replay_file(ctx, path)
