"""C11 — the trajectory depends only on the physics and can be resumed.
Model half: TdglRun (content of a frame is a function of its step label alone, for every
k / output / stop point; the final frame holds exactly `label` updates, so a continuation
started from it reproduces the run).  Binding: Twin specification over families of REAL
solver runs: frames with equal step label must be bit-identical."""
import random

from harness import core, runfamily as rf, runsim, twin

LEVEL = "model_checking"


def run(ctx):
    b = dict(Ks=[1, 2, 3, 4, 5, 7], SolveTs=list(range(0, 7 if ctx.quick else 10)), SkipTs=[0, 2], DTS=[1, 2], MaxFaults=0,
             FaultKinds=["KI"], OutModes=["temp", "path"], Foreigns=[[], ["o0"]], BadClasses=["none"])
    ctx.cov["bounds"] = {"TdglRun": b}
    ctx.model_check("TdglRun", rf.model_cfg(b, rf.MECH, rf.INV_C11 + ["FrameTimeIsSumOfSteps"]), name="TdglRun[C11]",
                    required_actions=["Update", "SaveEnd", "Assemble"], timeout=3000)
    ctx.model_check("TdglRun", rf.model_cfg(dict(b, Ks=[2, 3], SolveTs=[2, 3], SkipTs=[0]), rf.PINNED, ["ResumeReproduces"]),
                    name="TdglRun[pinned mechanism, ResumeReproduces]", expect_violation="ResumeReproduces", count=False)

    # ---- families of real runs
    rnd = random.Random(ctx.seed)
    dt = 2.0 ** -6
    N = 24 if ctx.quick else 40
    physics = [
        dict(label="bar/static/fixed", dev="bar", current=3.0, field=0.4, adaptive=False, dt=dt, solve_time=N * dt - dt / 2),
        # strongly driven: the adaptive step really varies (retries, window mean below the clip) — guarded below
        dict(label="bar/adaptive", dev="bar", current=10.0, field=1.5, adaptive=True, dt=2.0 ** -6, dt_max=2.0, window=5,
             solve_time=(3.0 if ctx.quick else 8.0)),
    ]
    physics.append(dict(label="bar/screening", dev="bar", current=2.0, field=0.5, adaptive=False, dt=dt,
                        solve_time=16 * dt - dt / 2, screening=True))
    # tight screening tolerance: late Polyak iterates agree to many digits, so any "unchanged, skip the refresh" short-cut
    # leaves solver state behind that a saved frame does not carry
    physics.append(dict(label="bar/screening/tight", dev="bar", current=2.0, field=0.5, adaptive=False, dt=dt,
                        solve_time=10 * dt - dt / 2, screening=True, screening_tol=1e-6))
    physics.append(dict(label="bar/unpinned/fixed", dev="bar", current=2.0, field=0.3, adaptive=False, dt=dt, terminal_psi=None,
                        solve_time=10 * dt - dt / 2))
    # time-dependent drives at a fixed step: the update reads the step size and the previous potential (dA/dt), so every
    # piece of loop bookkeeping around the update call (progress lines, saving) is on the path of the physics
    physics.append(dict(label="bar/ramp/fixed", dev="bar", current=2.0, current_ramp=0.2, field=1.0, field_ramp=0.3, adaptive=False, dt=dt,
                        solve_time=18 * dt - dt / 2))
    if not ctx.quick:
        physics += [
            dict(label="bar/ramp", dev="bar", current=10.0, current_ramp=1.0, field=1.5, field_ramp=1.0, adaptive=True, dt=dt, dt_max=2.0,
                 window=5, solve_time=5.0),
            dict(label="bar/thermal", dev="bar", current=3.0, field=0.4, adaptive=False, dt=dt, solve_time=12 * dt - dt / 2, skip_time=5 * dt - dt / 2),
        ]
    recordings = [dict(k=1), dict(k=2, out="temp"), dict(k=3, probes=0), dict(k=5, probes=3, progress=3),
                  dict(k=7, out="temp", probes=0), dict(k=100, progress=0), dict(k=4, progress=1), dict(k=6, progress=7),
                  dict(k=3, monitor=True), dict(k=2, pause=True, out="temp")]
    jobs, fam = [], []
    for ph in physics:
        for rc in recordings:
            jobs.append(("call", dict(module="harness.twin", func="solve_frames", args=dict(ph, **rc))))
            fam.append(ph["label"])
    # process history: the same physics observed after OTHER simulations ran in the same process on the same mesh object
    for ph in [p_ for p_ in physics if p_["label"] in ("bar/static/fixed", "bar/adaptive", "bar/screening", "bar/unpinned/fixed")]:
        other_psi = 0.0 if ph.get("terminal_psi", 0.0) is None else None
        jobs.append(("call", dict(module="harness.twin", func="solve_frames", args=dict(ph, k=2, prelude=[
            dict(terminal_psi=other_psi, solve_time=4 * dt, adaptive=False, dt=dt, screening=False),
            dict(screening=True, solve_time=3 * dt, adaptive=False, dt=dt, field=0.9, on_copy=True)]))))
        fam.append(ph["label"])
    # observing a RESULT does not change later simulations either: a first run on the same device (coherence length != 1
    # length unit, so that every unit factor is non-trivial) is inspected through the documented post-processing
    # accessors of its Solution, then the observed run follows on the same device object
    phx = dict(label="bar/xi=0.5/fixed", dev="bar", xi=0.5, current=2.0, field=0.3, adaptive=False, dt=dt, solve_time=8 * dt - dt / 2)
    physics.append(phx)
    for rc in (dict(k=1), dict(k=2), dict(k=3, prelude=[dict(solve_time=3 * dt, inspect=True)]),
               dict(k=2, prelude=[dict(solve_time=2 * dt, inspect=True, screening=True), dict(solve_time=2 * dt, inspect=True, on_copy=True)])):
        jobs.append(("call", dict(module="harness.twin", func="solve_frames", args=dict(phx, **rc))))
        fam.append(phx["label"])
    # resume in a new session: coherence length that is not a power of two (so every length conversion rounds), the seed
    # read back from its file, the continuation run on the device stored in that file
    ph3 = dict(label="bar/xi=0.3/fixed", dev="bar", xi=0.3, mel=0.5, current=2.0, field=0.3, adaptive=False, dt=dt, solve_time=10 * dt - dt / 2)
    physics.append(ph3)
    for rc in (dict(k=1), dict(k=2, split=[4 * dt - dt / 2, 6 * dt - dt / 2], seed_form="reloaded_device"),
               dict(k=1, split=[7 * dt - dt / 2, 3 * dt - dt / 2], seed_form="reloaded_device"),
               dict(k=2, split=[5 * dt - dt / 2, 5 * dt - dt / 2], seed_form="memory")):
        jobs.append(("call", dict(module="harness.twin", func="solve_frames", args=dict(ph3, **rc))))
        fam.append(ph3["label"])
    # resume: split the fixed-step run at several points
    base = physics[0]
    splits = [3, 8, N // 2, N - 1, 5] if ctx.quick else list(range(1, N))
    forms = ["memory", "reloaded", "resaved", "cursor_moved", "reloaded_last"]
    for ns, s in enumerate(splits):
        a = dict(base, k=rnd.choice([1, 2, 3]), split=[s * dt - dt / 2, (N - s) * dt - dt / 2], seed_form=forms[ns % len(forms)])
        jobs.append(("call", dict(module="harness.twin", func="solve_frames", args=a)))
        fam.append(base["label"])
    b2 = physics[2]
    for s in ((5, 11) if ctx.quick else (2, 5, 9, 13)):
        if True:
            a = dict(b2, k=2, k2=(1 if s % 2 else 3), seed_twice=True, split=[s * dt - dt / 2, (16 - s) * dt - dt / 2],
                     seed_form=("reloaded" if s % 2 else "memory"))
            jobs.append(("call", dict(module="harness.twin", func="solve_frames", args=a)))
            fam.append(b2["label"])
    b3 = next(ph for ph in physics if ph["label"] == "bar/screening/tight")
    for s in ((3, 6) if ctx.quick else (2, 3, 5, 6, 8)):
        a = dict(b3, k=1, split=[s * dt - dt / 2, (10 - s) * dt - dt / 2], seed_form=("reloaded" if s % 2 else "memory"))
        jobs.append(("call", dict(module="harness.twin", func="solve_frames", args=a)))
        fam.append(b3["label"])
    results = rf.replay_all(ctx, jobs)
    traces = []
    for ph in physics:
        intern = twin.Interner()
        ev = []
        nruns = 0
        for r, f in zip(results, fam):
            if f != ph["label"]:
                continue
            nruns += 1
            run_id = "k%s/%s/p%s/pr%s%s" % (r["args"].get("k"), r["args"].get("out", "path"), r["args"].get("probes", 2),
                                            r["args"].get("progress", "-"), ("/split@%d" % len(r["frames"]) if r["args"].get("split") else ""))
            run_id = f"{nruns}:{run_id}" + ("/monitor" if r["args"].get("monitor") else "") + ("/pause" if r["args"].get("pause") else "")
            if r["args"].get("monitor") and not r.get("monitor_launched"):
                raise core.MachineryFailure("C11: monitor=True run did not try to launch the monitor (vacuous)")
            for fr in r["frames"]:
                if fr.get("seed_before") or fr.get("seed_after"):
                    # the seed Solution handed to a continuation must not be modified by it
                    ev.append({"run": run_id, "key": f"seed-object-of-{run_id}", "q": [intern(fr["hash"])]})
                    continue
                ev.append({"run": run_id, "key": f"frame@step{fr['step']}", "q": [intern(fr["hash"])]})
                ev.append({"run": run_id, "key": f"time@step{fr['step']}", "q": [intern(fr["time"])]} if not r["args"].get("split") else
                          {"run": run_id, "key": f"frame@step{fr['step']}", "q": [intern(fr["hash"])]})
            ev.append({"run": run_id, "key": "mesh", "q": [intern(r["mesh"])]})
            ev.append({"run": run_id, "key": "outcome", "q": [intern(r.get("outcome", "returned"))]})
            ctx.note_case((ph["label"], run_id), len(r["frames"]) >= 2)
        if ph.get("adaptive"):
            dts = {d for r, f in zip(results, fam) if f == ph["label"] for fr in r["frames"] for d in fr.get("dts", [])}
            ctx.cov.setdefault("distinct_step_sizes", {})[ph["label"]] = len(dts)
            if len(dts) < 5:
                raise core.MachineryFailure(f"C11: adaptive family {ph['label']} has only {len(dts)} distinct step sizes (vacuous)")
        traces.append({"tol": 0, "minruns": 2, "ev": ev, "label": ph["label"]})
        ctx.sample({"family": ph["label"], "runs": nruns, "observations": len(ev), "first_observations": ev[:6]}, limit=4)
    accepted = twin.validate_twin(ctx, traces, "C11")
    # canary: flip one hash id in an accepted family
    if accepted:
        import copy
        n = sorted(accepted)[0]
        bad = copy.deepcopy(traces[n])
        last = [e for e in bad["ev"] if e["key"].startswith("frame@")][-1]
        last["q"] = [last["q"][0] + 1000]
        acc, _ = ctx.validate_traces("Twin", [{"tol": 0, "minruns": 2, "ev": bad["ev"]}], twin.twin_cfg(), name="canary[C11]", count=False)
        if acc:
            raise core.MachineryFailure("C11: corrupted twin trace accepted")
        ctx.cov["canaries_rejected"] += 1
    ctx.cov["rule"] = ("families of real solver runs of one physics input under different recording configurations "
                       "(save_every, output destination, probes, progress interval) and resumed at split points; every frame is "
                       "one observation keyed by its step label; non-trivial = run with >= 2 frames; distinct = distinct runs")
    ctx.assume("resume is checked for time-independent drives with a fixed time step, as the property states")
