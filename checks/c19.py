"""C19 — ill-posed problems are rejected before anything is written.
Model: TdglRun validation phases (any phase before OpenFiles may reject, the last must);
binding: every enumerated class of ill-posed input instantiated with the real API."""
from harness import core, runfamily as rf, runsim, runbad

LEVEL = "model_checking"


def run(ctx):
    b = dict(Ks=[1, 2], SolveTs=[0, 2], SkipTs=[0, 1], DTS=[1], MaxFaults=0, FaultKinds=["KI"],
             OutModes=["temp", "path"], Foreigns=[[], ["o0"]], BadClasses=["none"] + runbad.CLASSES)
    ctx.cov["bounds"] = {"TdglRun": b, "classes": runbad.CLASSES, "magnitudes": runbad.MAGS}
    ctx.model_check("TdglRun", rf.model_cfg(b, rf.MECH, rf.INV_C19 + ["ForeignFilesUntouched"]), name="TdglRun[C19]",
                    required_actions=["Phase", "OpenFiles"])
    jobs = [("illposed", p) for p in runbad.matrix(ctx)]
    traces = rf.replay_all(ctx, jobs)
    for (kind, p), t in zip(jobs, traces):
        ctx.note_case(str(sorted(p.items())), p["cls"] != "none")
    accepted, norm = rf.validate(ctx, jobs, traces, rf.MECH, rf.INV_C19, runsim.normalise_for_tlc, "C19")
    phases = {}
    for n in sorted(accepted):
        p = jobs[n][1]
        phases.setdefault(p["cls"], set()).add(traces[n]["info"]["phase"])
    ctx.cov["rejecting_phase_by_class"] = {k: sorted(v) for k, v in phases.items()}
    for n in sorted(accepted)[:4]:
        ctx.sample({"input": jobs[n][1], "trace": norm[n]["ev"], "error": traces[n]["info"]["exc"]})

    # canary: a trace that opens files for an ill-posed input must be rejected by the specification
    def mutate(tr):
        if tr["cfg"]["bad"] == "none" or tr["ev"][0]["ev"] != "reject":
            return None
        tr["ev"] = [{"ev": "open", "serial": 0, "fs": {n: ("open" if n in ("o0", "t0") else "absent") for n in runsim.NAMES}}] + tr["ev"]
        return tr
    if accepted:
        rf.canary(ctx, norm, accepted, rf.MECH, rf.INV_C19, mutate, "C19/open-before-reject")
    ctx.cov["rule"] = ("each class of ill-posed input x device x magnitude (1, 1e-3, 1e-6) x output mode is built and solved with "
                       "the real API in a sandbox; non-trivial = an ill-posed instance (controls are well-posed); distinct = distinct inputs")
    ctx.cov["exhaustive"] = not ctx.quick
    ctx.assume("time-dependent currents are validated by the code at random sample times; the instances are unbalanced on at "
               "least 60% of the run, narrower imbalance windows are outside what is exercised")


def replay(ctx, path):
    return rf.replay_file(ctx, path, rf.INV_C19, "C19")
