"""C19 — ill-posed problems are rejected before anything is written.
Model: TdglRun validation phases (any phase before OpenFiles may reject, the last must);
binding: every enumerated class of ill-posed input instantiated with the real API."""
from harness import core, runfamily as rf, runsim, runbad

LEVEL = "model_checking"


def run(ctx):
    b = dict(Ks=[1, 2], SolveTs=[0, 2], SkipTs=[0, 1], DTS=[1], MaxFaults=0, FaultKinds=["KI"],
             OutModes=["temp", "path"], Foreigns=[[], ["o0"]], BadClasses=["none"] + runbad.CLASSES)
    ctx.cov["bounds"] = {"TdglRun": b, "classes": runbad.CLASSES, "magnitudes": runbad.MAGS}
    ctx.model_check("TdglRun", rf.model_cfg(b, rf.MECH, rf.INV_C19 + ["ForeignFilesUntouched"]), name="TdglRun[C19]",
                    required_actions=["Phase", "OpenFiles"])
    jobs = [("illposed", p) for p in runbad.matrix(ctx)]
    traces = rf.replay_all(ctx, jobs)
    for (kind, p), t in zip(jobs, traces):
        ctx.note_case(str(sorted(p.items())), p["cls"] != "none")
    # acceptance is decided with TSpec; a rejected trace is re-run alone with TSpecFollow, which follows an implementation
    # that let an ill-posed problem through so that TLC names the clause that is false there
    accepted, norm = rf.validate(ctx, jobs, traces, rf.MECH, rf.INV_C19, runsim.normalise_for_tlc, "C19", max_report=8,
                                 diagnose_spec="TSpecFollow")
    mesh_guards(ctx, jobs, traces)
    phases = {}
    for n in sorted(accepted):
        p = jobs[n][1]
        phases.setdefault(p["cls"], set()).add(traces[n]["info"]["phase"])
    ctx.cov["rejecting_phase_by_class"] = {k: sorted(v) for k, v in phases.items()}
    for n in sorted(accepted)[:4]:
        ctx.sample({"input": jobs[n][1], "trace": norm[n]["ev"], "error": traces[n]["info"]["exc"]})

    # canary: a trace that opens files for an ill-posed input must be rejected by the specification
    def mutate(tr):
        if tr["cfg"]["bad"] == "none" or tr["ev"][0]["ev"] != "reject":
            return None
        tr["ev"] = [{"ev": "open", "serial": 0, "fs": {n: ("open" if n in ("o0", "t0") else "absent") for n in runsim.NAMES}}] + tr["ev"]
        return tr
    if accepted:
        rf.canary(ctx, norm, accepted, rf.MECH, rf.INV_C19, mutate, "C19/open-before-reject")
    ctx.cov["rule"] = ("each class of ill-posed input x device x magnitude (1, 1e-3, 1e-6) x output mode is built and solved with "
                       "the real API in a sandbox; non-trivial = an ill-posed instance (controls are well-posed); distinct = distinct inputs")
    ctx.cov["rule"] += ("; the class 'seed' includes seeds of the SAME device definition computed on another mesh (re-meshed with another "
                        "max_edge_length / min_points, smoothed further, renumbered; a separate object, the simulated object re-meshed in "
                        "place after the seed was computed, the seed's own Device object re-meshed in place), guarded from raw site / "
                        "triangle arrays copied by the harness; controls carry seeds of the simulated mesh (same object, equal device "
                        "meshed alike, loaded from file) and must run")
    ctx.cov["exhaustive"] = not ctx.quick
    ctx.assume("a seed whose own Device object (seed.device) is re-meshed in place to a mesh with the SAME number of sites and then "
               "simulated is not exercised: nothing the Solution object holds still describes the mesh the seed was computed on")
    ctx.assume("time-dependent currents are validated by the code at random sample times; the instances are unbalanced on at "
               "least 60% of the run, narrower imbalance windows are outside what is exercised")


def mesh_guards(ctx, jobs, traces):
    """Vacuity guards of the members "same device definition, another mesh" of the class "seed" and of the controls that
    carry a seed, decided from the raw arrays the harness copied (never Device.__eq__).  Evaluated after the verdicts: a
    guard must not turn a reported violation into a machinery failure."""
    bad, hist = [], {}
    for (kind, p), t in zip(jobs, traces):
        how = p.get("how", "")
        history, _, what = how.partition(":")
        is_member = p["cls"] == "seed" and history in runbad.MESH_HISTORIES
        is_control = p["cls"] == "none" and p["variant"] > 0
        if not (is_member or is_control):
            continue
        m = t["info"].get("mesh")
        tag = f"{p['dev']}/{how}/{p['out']}"
        if m is None:
            bad.append(f"{tag}: the seed was never handed to the solver ({t['info']['exc'][:120]})")
            continue
        if not m["same_definition"] or m["seed_psi_len"] != m["seed_sites"]:
            bad.append(f"{tag}: the seed is not a solution of the same device definition on the recorded mesh: {m}")
        elif not m.get("accepted_without_seed", True):
            bad.append(f"{tag}: the re-meshed device is not accepted by the solver even without a seed: {m}")
        elif is_control:
            if not (m["same_sites"] and m["same_elements"]):
                bad.append(f"{tag}: the control's seed is not from the simulated mesh: {m}")
        else:
            if m["same_sites"] and m["same_elements"]:
                bad.append(f"{tag}: the seed's mesh IS the simulated mesh (vacuous): {m}")
            elif what in ("max_edge_length", "min_points") and m["same_count"]:
                bad.append(f"{tag}: re-meshing did not change the number of sites: {m}")
            elif (what.startswith("smooth") or what == "renumbered") and not (m["same_count"] and m["max_shift"] > 1e-6):
                # 1e-6: three orders above rounding of O(1) coordinates, four below the smallest shift one smoothing pass makes here
                bad.append(f"{tag}: re-meshing did not keep the number of sites / move the sites: {m}")
            elif history == "seed-device-remeshed-in-place" and not m["seed_device_is_device"]:
                bad.append(f"{tag}: the simulated device is not the seed's own Device object: {m}")
        key = ("control " if is_control else "") + how
        h = hist.setdefault(key, {"instances": 0, "devices": set(), "site_counts": set()})
        h["instances"] += 1
        last = t["ev"][-1]
        left = sorted(n for n, st in last.get("fs", {}).items() if st != "absent") if p["cls"] == "seed" else []
        o = f"{last.get('result')}" + (f"; left behind: {'+'.join(left)}" if left else "") + (f" [{t['info']['exc'][:60]}]" if t["info"]["exc"] else "")
        h.setdefault("outcomes", {})
        h["outcomes"][o] = h["outcomes"].get(o, 0) + 1
        h["devices"].add(p["dev"])
        h["site_counts"].add((m["seed_sites"], m["dev_sites"]))
    ctx.cov["seed_mesh_members"] = {k: {"instances": v["instances"], "devices": sorted(v["devices"]),
                                        "seed_sites->simulated_sites": sorted(v["site_counts"]), "outcomes": v["outcomes"]}
                                    for k, v in hist.items()}
    want = [h for h in runbad.SEED_DIFFS if h.partition(":")[0] in runbad.MESH_HISTORIES] + ["control " + c for c in runbad.CONTROLS[1:]]
    for k in want:
        if len(hist.get(k, {"devices": ()})["devices"]) < 2:
            bad.append(f"{k}: exercised on fewer than 2 devices")
    if bad:
        ctx.cov["seed_mesh_guard_failures"] = bad[:20]
        if not ctx.violations:
            raise core.MachineryFailure("C19: seed-mesh family is vacuous: " + "; ".join(bad[:5]))


def replay(ctx, path):
    return rf.replay_file(ctx, path, rf.INV_C19, "C19")
