"""C09 — simulations are deterministic and reproducible bit for bit.

Model (spec/Kernel.tla): every parallel numba kernel is a loop skeleton EXTRACTED from its source
(harness/kernelsk.py); TLC explores all interleavings of 1..3 threads that claim the parallel index in any
order, with a non-associative addition and an output that starts as garbage, and checks
ScheduleIndependent (at every join the state is that of the one-thread execution), NoGarbageLeft,
StoresInBounds, OwnerComputes.
Binding: spec -> code: the claim orders TLC generates are replayed into the real kernel bodies
(py_func with numba.prange yielding the scheduled order, poisoned buffers) and the compiled kernels run
under 1..16 threads; code -> spec: every observation of fresh PROCESSES (different PYTHONHASHSEED, thread
count, output location, poisoned np.empty, scripted or natural random draws) — hashes of a freshly generated
mesh, of every dataset and attribute of every frame and of every per-step record — is one event of a Twin
trace with tolerance 0; TLC accepts the trace iff all runs agree on every key."""
from __future__ import annotations

import copy
import dataclasses
import hashlib
import json
import os
import subprocess
import sys
from concurrent.futures import ThreadPoolExecutor
from pathlib import Path

LEVEL = "model_checking"

THREADS = [1, 2, 3, 5, 8, 16]
DT = 2.0 ** -6
FAMILIES = {
    "screening/fixed-dt": dict(dev="bar", current=2.0, field=0.5, adaptive=False, dt=DT, solve_time=8 * DT - DT / 2, screening=True, k=2),
    "adaptive/hole": dict(dev="barhole", current=6.0, field=0.8, adaptive=True, dt=DT, dt_max=0.05, solve_time=0.6, k=3),
    "time-dependent/ramp": dict(dev="bar", current=5.0, current_ramp=0.2, field=0.3, field_ramp=0.3, adaptive=True, dt=DT, dt_max=0.05,
                                solve_time=0.45, k=4),
}
# four terminals: every terminal's boundary condition sums THREE other currents (order-sensitive rounding: a non-dyadic split)
# (the field is constant: the dA/dt of a field ramp dominates the right-hand side of the potential equation and rounds a
# last-bit change of the boundary current away; generic values: a 1:2:3 split sums exactly in every order; the constant currents are handed over as numpy scalars and the ramp
# lasts longer than the run — the built-in sum() of Python >= 3.12 compensates rounding for plain floats, so only numpy
# scalars, which the solver's own time variable turns every time-dependent current into, make a sum order-sensitive)
SPLIT = {"source": 5.3, "drain": -1.7, "top": -2.0, "bottom": -1.6}
CROSS_FAMILIES = {
    "cross/constant-split": dict(dev="cross", currents=SPLIT, numpy_scalars=True, field=0.3, adaptive=True, dt=2e-3, dt_max=4e-3, solve_time=0.05, k=5),
    "cross/ramp-split": dict(dev="cross", currents=SPLIT, current_ramp=0.2, field=0.3, adaptive=True, dt=2e-3, dt_max=4e-3,
                             solve_time=0.05, k=4),
}
CROSS_THREADS_QUICK = [2, 8, 16]
# quick tier: all six thread counts for the family that runs the parallel kernel inside the solver, three for the others
BASE_THREADS_QUICK = {"adaptive/hole": [2, 5, 16], "time-dependent/ramp": [1, 3, 8]}
# a drive for which the random validation times WOULD matter if they leaked into the run: the current equals its t = 0 value
# except on a window of 0.7 % of the run (it contains exactly one step time); the scripted draws of one child hit the window,
# those of another miss it, the others draw naturally
PULSE_STEPS = 128
PULSE = dict(I=8.0, t0=64 * DT - 0.003, w=0.014)
SPECIAL_FAMILIES = {
    "pulse/draws-hit-or-miss": dict(dev="bar", pulse=PULSE, field=0.3, adaptive=False, dt=DT, solve_time=PULSE_STEPS * DT - DT / 2, k=16),
    # relax, then continue TWICE from the same in-memory seed Solution (screening on): both continuations must be equal and the
    # inputs (seed arrays, device/mesh arrays, a user array handed to a Parameter) must not be mutated
    "seed-reused/screening": dict(dev="bar", seed_reuse=dict(relax=6, cont=5), current=2.0, adaptive=False, dt=DT, solve_time=5 * DT - DT / 2,
                                  screening=True, k=2),
    # progress logging switched on (a log line every 1 / 3 steps) together with a ramped field: the dA/dt term of the potential
    # equation uses the step size handed to update(), which must be the solver's and nothing the logging computes
    "progress-log/ramped field, fixed dt": dict(dev="bar", current=2.0, field=0.6, field_ramp=0.5, adaptive=False, dt=DT, solve_time=14 * DT - DT / 2,
                                                k=3, progress=1),
    "progress-log/ramped field, adaptive": dict(dev="barhole", current=3.0, field=0.8, field_ramp=0.4, adaptive=True, dt=DT, dt_max=0.05, solve_time=0.35,
                                                k=4, progress=3),
}
SPECIAL_THREADS_QUICK = [1, 3, 8, 16]
PROGRESS_THREADS_QUICK = [1, 16]
SPECIAL3_THREADS_QUICK = [1, 5, 16]
# (max_edge_length 0.5: the refinement loop of the mesh generator runs several rounds and ends at different triangle areas for
# the strip with and without hole — with coarser targets it ends in its first round for both)
# 'what the process did before': the same simulation X alone, and after DIFFERENT work in the same process
# (other geometries with the same bounding box and mesh targets meshed first; another simulation with other options on the same
# mesh object through the device itself / a Device.copy(); X run on the Solution.device of that earlier run)
_PSI0 = dict(terminal_psi=0.0, screening=True, adaptive=False, solve_time=3 * DT - DT / 2, current=1.0)
_PSIN = dict(terminal_psi=None, screening=False, adaptive=False, solve_time=5 * DT - DT / 2, current=3.0, field=0.1)
HISTORY_FAMILIES = {
    "history/hole, terminal_psi=None": dict(
        dev="barhole", mel=0.5, current=4.0, field=0.5, adaptive=True, dt=DT, dt_max=0.05, solve_time=0.3, k=3, terminal_psi=None,
        variants=[[], [dict(kind="mesh", dev="bar"), dict(kind="mesh", dev="tee")],
                  [dict(kind="sim", on="copy", over=_PSI0)],
                  [dict(kind="mesh", dev="bar"), dict(kind="sim", on="device", over=_PSI0, then="solution.device")]]),
    "history/bar, terminal_psi=0, screening": dict(
        dev="bar", mel=0.5, current=2.0, field=0.5, adaptive=False, dt=DT, solve_time=5 * DT - DT / 2, screening=True, k=2,
        variants=[[], [dict(kind="sim", on="device", over=_PSIN)],
                  [dict(kind="mesh", dev="barhole"), dict(kind="mesh", dev="cross")],
                  [dict(kind="sim", on="copy", over=_PSIN, then="solution.device")]]),
    # ONE SolverOptions object with a history (validated / used for a fixed-step solve / read back from the file of a fixed-step
    # run), then switched to adaptive and given exactly the values a fresh object gets from the same literals
    "history/options object re-used": dict(
        dev="bar", current=3.0, field=0.4, adaptive=True, dt=2.0 ** -8, dt_max=0.05, solve_time=0.4, k=5, guard_dt_growth=True,
        variants=[[], [dict(kind="options", how="reuse")], [dict(kind="options", how="reloaded")], [dict(kind="options", how="validate")]]),
    # the requested output location is OCCUPIED by the file of another simulation (the run goes to a fresh name next to it): what
    # the returned Solution shows must be this run, as at a free location
    "history/occupied output location": dict(
        dev="bar", current=3.0, field=0.4, adaptive=False, dt=DT, solve_time=8 * DT - DT / 2, k=2,
        variants=[[], [dict(kind="occupy", over=dict(current=0.5, field=0.05, solve_time=4 * DT - DT / 2))],
                  [dict(kind="occupy", over=dict(current=6.0, field=0.9, solve_time=8 * DT - DT / 2, k=4))]]),
    # a terminal polygon edited IN PLACE (points assigned, scale(inplace=True)) without re-meshing: the process that has already
    # solved on the device before the edit must give what a process gives that edits first and solves once
    "history/terminal edited in place": dict(
        dev="bar", current=3.0, field=0.3, adaptive=False, dt=DT, solve_time=8 * DT - DT / 2, k=2, terminal_edit=True,
        variants=[[], [dict(kind="sim", on="device", over=dict(solve_time=3 * DT - DT / 2))],
                  [dict(kind="sim", on="device", over=dict(solve_time=2 * DT - DT / 2, screening=True, current=1.0))]]),
}
THOROUGH_FAMILIES = {
    "screening/adaptive/ramp": dict(dev="barhole", current=3.0, current_ramp=0.1, field=0.6, field_ramp=0.2, adaptive=True, dt=DT, dt_max=0.03,
                                    solve_time=0.3, screening=True, k=3),
}


# ------------------------------------------------------------------------------------ child process


def _h(a):
    import numpy as np
    a = np.ascontiguousarray(a)
    return hashlib.sha256(str(a.dtype).encode() + str(a.shape).encode() + a.tobytes()).hexdigest()[:16]


MESH_ATTRS = ["sites", "elements", "boundary_indices", "areas", "dual_sites"]
EDGE_ATTRS = ["centers", "edges", "boundary_edge_indices", "directions", "edge_lengths", "dual_edge_lengths", "normalized_directions"]


def _mesh_obs(mesh, prefix):
    obs = {}
    for n in MESH_ATTRS:
        obs[f"{prefix}/{n}"] = _h(getattr(mesh, n))
    for n in EDGE_ATTRS:
        obs[f"{prefix}/edge_mesh.{n}"] = _h(getattr(mesh.edge_mesh, n))
    return obs


def _file_obs(path):
    """Everything a run recorded, except wall-clock stamps and the options group (it names the output path)."""
    import h5py
    import numpy as np

    obs = {}
    with h5py.File(path, "r") as f:
        def visit(name, o):
            if name == "solution" or (name.startswith("solution/") and not name.startswith("solution/device")):
                return          # time_created, total_seconds, and the options group (names the output path)
            if isinstance(o, h5py.Dataset):
                try:
                    obs[f"file/{name}"] = _h(np.array(o))
                except Exception:
                    obs[f"file/{name}"] = hashlib.sha256(repr(o[()]).encode()).hexdigest()[:16]
            at = {k: (v.tobytes().hex() if hasattr(v, "tobytes") else repr(v)) for k, v in sorted(o.attrs.items()) if k != "timestamp"}
            if at:
                obs[f"file/{name}@attrs"] = hashlib.sha256(json.dumps(at, sort_keys=True).encode()).hexdigest()[:16]
        f.visititems(visit)
        obs["file/nframes"] = _h(np.array([len(f["data"])]))
    return obs


def _user_potential(x, y, z, *, w):
    """A user-written applied potential that reads a user-supplied array (symmetric gauge, field w[0] * w[1] mT)."""
    import numpy as np
    b = float(w[0]) * float(w[1])
    return np.stack([-0.5 * b * y, 0.5 * b * x, np.zeros_like(x)], axis=1)


def _pulse(pulse):
    I, t0, w = pulse["I"], pulse["t0"], pulse["w"]

    def terminal_currents(t):
        on = I if t0 <= t < t0 + w else 0.0
        return {"source": on, "drain": -on}
    return terminal_currents


def _seed_reuse(tdgl, a, dev, work, obs):
    """relax -> continue twice from the SAME in-memory seed; returns the observations of each stage as separate runs."""
    import dataclasses

    import numpy as np
    from harness import twin

    user = np.array([1.6, 0.25])
    kw = twin.drive(tdgl, a)
    kw["applied_vector_potential"] = tdgl.Parameter(_user_potential, w=user)
    n = a["seed_reuse"]
    dt = a["dt"]
    seed = tdgl.solve(dev, twin.options(tdgl, dict(a, solve_time=n["relax"] * dt - dt / 2), os.path.join(work, "relax.h5")), **kw)

    def inputs():
        o = {}
        for f in dataclasses.fields(seed.tdgl_data):
            v = getattr(seed.tdgl_data, f.name)
            if isinstance(v, np.ndarray):
                o[f"seed/{f.name}"] = _h(v)
        o["seed/user array of the Parameter"] = _h(user)
        o["seed/Parameter kwargs array"] = _h(kw["applied_vector_potential"].kwargs["w"])
        o.update(_mesh_obs(dev.mesh, "seed/device.mesh"))
        o["seed/device.points"] = _h(dev.points)
        return o
    runs = {"inputs before": inputs()}
    for c in (1, 2):
        sol = tdgl.solve(dev, twin.options(tdgl, dict(a, solve_time=n["cont"] * dt - dt / 2), os.path.join(work, f"cont{c}.h5")), seed_solution=seed, **kw)
        o = {"cont/" + k: v for k, v in _file_obs(sol.path).items()}
        o["cont/solution/psi"] = _h(np.asarray(sol.tdgl_data.psi))
        o["cont/solution/induced"] = _h(np.asarray(sol.tdgl_data.induced_vector_potential))
        runs[f"continuation {c}"] = o
        runs[f"inputs after continuation {c}"] = inputs()
    obs.update(_file_obs(seed.path))
    return runs


def child(args):
    """One fresh process = one run.  Prints a JSON record {obs: {key: hash}, draws, ...}."""
    sys.path.insert(0, str(Path(__file__).resolve().parent.parent))
    from harness import core, devices, kernelsk, twin

    work = args["work"]
    os.makedirs(work, exist_ok=True)
    os.chdir(work)
    devnull = os.open(os.devnull, os.O_WRONLY)
    os.dup2(devnull, 2)
    tdgl = core.import_tdgl()
    import numba
    import numpy as np

    if args.get("mode") == "kernels":
        return {"obs": kernelsk.replay_schedules(tdgl, args, work), "threads": numba.config.NUMBA_NUM_THREADS}

    # environment: the content of fresh buffers and the random draws are arbitrary — make them differ per process
    if args.get("poison") is not None:
        _, np.empty = kernelsk._poison(np, args["poison"])
    draws = []
    real_rng = np.random.default_rng

    class Recorder:
        def __init__(self, *a, **k):
            self._g = real_rng(*a, **k) if (a or k or args.get("rng_seed") is None) else real_rng(args["rng_seed"] + len(draws))

        def random(self, *a, **k):
            r = self._g.random(*a, **k)
            draws.append(_h(np.asarray(r)))
            return r

        def __getattr__(self, n):
            v = getattr(self._g, n)
            if callable(v):
                def f(*a, **k):
                    r = v(*a, **k)
                    draws.append(_h(np.asarray(r)))
                    return r
                return f
            return v
    np.random.default_rng = Recorder

    a = args["physics"]
    obs = {}
    prework = args.get("prework") or []
    for st in prework:                                    # other geometries meshed first in this process
        if st["kind"] == "mesh":
            devices._CACHE.clear()
            twin.build_device(tdgl, dict(a, dev=st["dev"]))
            devices._CACHE.clear()
    dev = twin.build_device(tdgl, a)                      # meshed in THIS process
    obs.update(_mesh_obs(dev.mesh, "mesh/fresh"))
    devices._CACHE.clear()
    dev2 = twin.build_device(tdgl, a)                     # and once more in the same process
    assert dev2.mesh is not dev.mesh
    obs.update(_mesh_obs(dev2.mesh, "mesh/fresh"))
    if a.get("seed_reuse"):
        extra = _seed_reuse(tdgl, a, dev, work, obs)
        return {"obs": obs, "extra_runs": extra, "draws": draws, "threads": numba.config.NUMBA_NUM_THREADS, "hashseed": os.environ.get("PYTHONHASHSEED"),
                "nframes": len([k for k in obs if k.endswith("/psi") and k.startswith("file/data/")])}
    dev_for_x = dev
    for n, st in enumerate(prework):                      # another simulation on the same mesh object, with other options
        if st["kind"] == "sim":
            b = dict(a, **st["over"])
            target = dev.copy() if st.get("on") == "copy" else dev
            assert target.mesh is dev.mesh or st.get("on") != "copy" or np.array_equal(target.mesh.sites, dev.mesh.sites)
            earlier = tdgl.solve(target, twin.options(tdgl, b, os.path.join(work, f"earlier{n}.h5")), **twin.drive(tdgl, b))
            if st.get("then") == "solution.device":
                dev_for_x = earlier.device
    dev = dev_for_x
    if a.get("terminal_edit"):
        from tdgl.geometry import box
        src = next(t for t in dev.terminals if t.name == "source")
        drn = next(t for t in dev.terminals if t.name == "drain")
        # (vacuity guard on a COPY: the device under test itself is not asked for its terminals before the edit)
        before = [len(t.site_indices) for t in dev.copy().terminal_info()]
        src.points = box(0.1, 1.6, center=(-2.5, 0.5))                 # the source now covers part of its side only
        drn.scale(yfact=0.5, origin=(2.5, -0.3), inplace=True)
        after = sorted((t.name, len(t.site_indices)) for t in dev.terminal_info())
        obs["terminal sites after the edit"] = hashlib.sha256(json.dumps(after).encode()).hexdigest()[:16]
        if not prework and sorted(before) == sorted(n for _, n in after):
            raise RuntimeError("the terminal edit does not change the terminal sites: vacuous")
    kw = twin.drive(tdgl, a)
    if a.get("pulse"):
        kw["terminal_currents"] = _pulse(a["pulse"])
    if a.get("currents"):
        base = {k: (np.float64(v) if a.get("numpy_scalars") else v) for k, v in a["currents"].items()}
        if a.get("current_ramp"):
            kw["terminal_currents"] = lambda t, base=base, T=a["current_ramp"]: {k: v * min(1.0, t / T) for k, v in base.items()}
        else:
            kw["terminal_currents"] = base
    out = os.path.join(work, args["outname"])
    os.makedirs(os.path.dirname(out), exist_ok=True)
    for n, st in enumerate(prework):                      # another simulation's file already sits at the requested location
        if st["kind"] == "occupy":
            b = dict(a, **st["over"])
            other = tdgl.solve(dev, twin.options(tdgl, b, out), **twin.drive(tdgl, b))
            if os.path.abspath(other.path) != os.path.abspath(out) or not os.path.exists(out):
                raise RuntimeError("the requested output location was not occupied: vacuous")
    opts = twin.options(tdgl, a, out)                       # fresh options from the literals
    for n, st in enumerate(prework):                      # ... or an options OBJECT with a history, set to the same values
        if st["kind"] == "options":
            fixed = dict(a, adaptive=False, solve_time=3 * a["dt"] - a["dt"] / 2)
            old = twin.options(tdgl, fixed, os.path.join(work, f"fixed{n}.h5"))
            if st["how"] == "validate":
                old.validate()
            else:
                first = tdgl.solve(dev, old, **kw)          # a fixed-step solve with this object
                if st["how"] == "reloaded":
                    old = tdgl.Solution.from_hdf5(first.path).options
            for f in dataclasses.fields(opts):             # every field the fresh options would have, assigned on the old object
                if f.name not in ("dt_max",):              # (dt_max was given as the same literal at construction and is not touched)
                    setattr(old, f.name, getattr(opts, f.name))
            if getattr(old, "dt_max") != getattr(opts, "dt_max") and st["how"] == "reloaded":
                pass                                       # what the file returned is what is used: it is part of the observation
            opts = old
    sol = tdgl.solve(dev, opts, **kw)
    obs.update(_file_obs(sol.path))
    # the loaded solution's view of the last frame and of the per-step records
    obs["solution/times"] = _h(np.asarray(sol.times))
    obs["solution/dynamics.dt"] = _h(np.asarray(sol.dynamics.dt))
    obs["solution/psi"] = _h(np.asarray(sol.tdgl_data.psi))
    obs["solution/current_density"] = _h(np.asarray(sol.current_density.magnitude))
    return {"obs": obs, "draws": draws, "threads": numba.config.NUMBA_NUM_THREADS, "hashseed": os.environ.get("PYTHONHASHSEED"),
            "max_dt": float(np.max(np.asarray(sol.dynamics.dt))),
            "nframes": len([k for k in obs if k.endswith("/psi") and k.startswith("file/data/")])}


def _spawn(args, threads, hashseed, timeout=600):
    env = dict(os.environ)
    env.update(PYTHONHASHSEED=str(hashseed), NUMBA_NUM_THREADS=str(threads), OMP_NUM_THREADS=str(threads), MPLBACKEND="Agg")
    code = ("import sys, json, traceback; sys.path.insert(0, %r); from checks import c09\n"
            "try:\n    res = c09.child(json.loads(sys.argv[1]))\nexcept BaseException:\n    print(traceback.format_exc()); sys.exit(3)\n"
            "print('\\nRESULT ' + json.dumps(res))") % str(Path(__file__).resolve().parent.parent)
    try:
        p = subprocess.run([sys.executable, "-c", code, json.dumps(args)], env=env, capture_output=True, text=True, timeout=timeout)
    except subprocess.TimeoutExpired:
        return {"error": f"no result within {timeout} s"}
    line = next((l for l in p.stdout.splitlines()[::-1] if l.startswith("RESULT ")), None)
    if p.returncode != 0 or line is None:
        return {"error": f"rc={p.returncode} stdout={p.stdout[-1500:]} stderr={p.stderr[-500:]}"}
    return json.loads(line[7:])


# ------------------------------------------------------------------------------------ the check


def _cfg(invs, maxt=3):
    return ("CONSTANTS\n Skeletons <- cSkeletons\n MaxT = %d\n Codegens = {\"seq\", \"lanes\"}\nSPECIFICATION Spec\n" % maxt
            + "".join(f"INVARIANT {i}\n" for i in invs) + "CHECK_DEADLOCK FALSE\n")


def _name_violation(ctx, r, sks):
    """Add the kernel's name to the violation TLC reported (the state holds its index)."""
    import re
    if not r.violated or not ctx.violations:
        return
    m = re.findall(r"ski = (\d+)", r.counterexample(20000))
    if m:
        sk = sks[int(m[-1]) - 1]
        ctx.violations[-1]["what"] += (f" — kernel {sk['name']} ({sk['_doc']['file']}): skeleton loops={sk['loops']} accs={sk['accs']} "
                                       f"stores={sk['stores']} outadds={sk['outadds']} outinit={sk['outinit']} bounds={sk['_doc']['bounds']} axes={sk['_doc']['axes']}")


def _run(ctx):
    from harness import core, kernelsk, twin

    # ---------------------------------------------------------------- 1. schedule model on the extracted skeletons
    # A problem of the machinery in this part (a kernel the extractor does not understand, a canary, a vacuity guard) never
    # masks a verdict: it is deferred, the real executions below still run and decide, and only if they find nothing the
    # check ends as a machinery failure.
    deferred = []
    sks = []
    for spec in kernelsk.KERNELS:
        try:
            sks.append(kernelsk.extract(core.REPO, spec, n_outer=3 if ctx.quick else 4))
        except (kernelsk.SkeletonError, SyntaxError, OSError) as e:
            deferred.append(f"kernel {spec['func']}: skeleton not understood by the extractor: {e}")
    started = _start_children(ctx)
    try:
        orders = _model_part(ctx, sks, deferred) if sks else {}
    except core.MachineryFailure as e:
        deferred.append(str(e)[:600])
        orders = {}
    _dynamic_part(ctx, orders, deferred, started)
    if deferred and not ctx.violations:
        raise core.MachineryFailure("C09: " + " | ".join(deferred))
    if deferred:
        ctx.cov["machinery_problems_next_to_violations"] = deferred


def _model_part(ctx, sks, deferred):
    from harness import core, kernelsk

    mc = "MCKernelC09"
    (ctx.tmp / "tlc").mkdir(parents=True, exist_ok=True)
    (ctx.tmp / "tlc" / f"{mc}.tla").write_text(kernelsk.mc_module(mc, sks))
    ctx.cov["bounds"] = {"Kernel": {"threads": "1..3", "skeletons": [kernelsk.to_tla(s) for s in sks],
                                    "codegens": ["seq", "lanes"], "claim_order": "any (superset of static chunks)"}}
    sem = ["ScheduleIndependent", "NoGarbageLeft", "StoresInBounds"]
    orders = {}
    # all interleavings; OwnerComputes fails within a few steps on a wrong skeleton (the differing results appear only at the join,
    # behind a state space that a racy skeleton makes explode)
    r = ctx.model_check(mc, _cfg(sem + ["OwnerComputes", "Emit", "CodegenReport"]), name="Kernel[all interleavings, T in 1..3]",
                        coverage=not ctx.quick)
    _name_violation(ctx, r, sks)
    if not r.violated and not ctx.quick:
        cov = r.coverage()
        for act in ("MasterStep", "Claim", "Step", "EndRegion"):
            if cov.get(act, (0, 0))[1] == 0:
                deferred.append(f"Kernel: action {act} never taken (vacuous)")
            else:
                ctx.cov["actions_covered"][act] = cov[act][1]
    ctx.cov["exhaustive"] = not r.violated
    if r.violated:
        # random schedules to the end: exhibits a schedule whose RESULT differs from the one-thread execution
        # (one worker: multi-worker simulation of this TLC build can stall; the verdict above does not depend on this run)
        try:
            r2 = ctx.model_check(mc, _cfg(sem), simulate="num=300", depth=500, workers=1, timeout=120,
                                 name="Kernel[random schedules to completion]")
            _name_violation(ctx, r2, sks)
        except core.MachineryFailure as e:
            ctx.cov["simulation_after_violation"] = str(e)[:200]
    if not r.violated:
        codegen = set()
        for line in r.printed():
            v = core.parse_tla_value(line)
            if v and v[0] == "SCHED":
                orders.setdefault(v[1], set()).add(tuple(v[4]))
            elif v and v[0] == "CODEGEN":
                codegen.add(v[1])
        ctx.cov["fastmath_codegen_dependent_kernels"] = sorted(codegen)
        # vacuity guard (also without -coverage): every kernel reached its end under every thread count with every index claimed,
        # i.e. MasterStep, Claim, Step and EndRegion were all taken
        for sk in sks:
            need = sk["ext"][sk["loops"].index("prange")] if (sk["parallel"] and "prange" in sk["loops"]) else 0
            if not any(len(o) >= need for o in orders.get(sk["name"], ())):
                deferred.append(f"Kernel: no complete behaviour of {sk['name']} was explored (vacuous)")
        if codegen:
            ctx.assume("fastmath=True: the bits of " + ", ".join(sorted(codegen)) + " depend on the association the compiler chooses for the "
                       "sequential fold (TLC: CodegenIndependent is false); it is chosen once per build and is the same for every thread, call "
                       "and process on one installation, which is what the property quantifies over (checked dynamically across processes)")
    # design canary, independent of the tree under test: the pinned skeleton of the screening kernel with the accumulator
    # hoisted out of the parallel body must be refuted
    bad = dict(name="canary", loops=["prange", "range", "range"], ext=[3, 2, 3], accs=[{"init": 0, "add": 3}],
               stores=[{"at": 2, "idx": [{"var": 1, "off": 0}, {"var": 2, "off": 0}], "src": [1]}], outadds=[], shape=[3, 2],
               outinit="garbage", fastmath=True, parallel=True)
    (ctx.tmp / "tlc" / "MCKernelBad.tla").write_text(kernelsk.mc_module("MCKernelBad", [bad]))
    try:
        ctx.model_check("MCKernelBad", _cfg(sem), simulate="num=200", depth=500, expect_violation="ScheduleIndependent", workers=1, timeout=120,
                        name="Kernel[canary: accumulator hoisted out of the parallel body]", count=False)
    except core.MachineryFailure as e:
        deferred.append(str(e)[:400])
    return orders


DEFAULT_ORDERS = [[1, 2, 3], [3, 1, 2], [2, 3, 1], [3, 2, 1]]


def _draw_seeds(ph, num_evals=100):
    """Generator seeds whose first `num_evals` uniform draws, scaled like the validator's sample times, hit / miss the pulse window."""
    import numpy as np
    t0, w, T = ph["pulse"]["t0"], ph["pulse"]["w"], ph["solve_time"]
    hit = miss = None
    for seed in range(500, 900):
        times = np.random.default_rng(seed).random(num_evals) * T
        inside = bool(np.any((times >= t0) & (times < t0 + w)))
        if inside and hit is None:
            hit = seed
        if not inside and miss is None:
            miss = seed
        if hit is not None and miss is not None:
            return hit, miss
    raise RuntimeError("no hit/miss seeds found")


def _start_children(ctx):
    """Plans the fresh-process runs and starts them (they do not depend on the model part, which runs meanwhile)."""
    fams = dict(FAMILIES)
    fams.update(CROSS_FAMILIES)
    fams.update(SPECIAL_FAMILIES)
    fams.update({k: {kk: vv for kk, vv in v.items() if kk != "variants"} for k, v in HISTORY_FAMILIES.items()})
    hit, miss = _draw_seeds(SPECIAL_FAMILIES["pulse/draws-hit-or-miss"])
    if not ctx.quick:
        fams.update(THOROUGH_FAMILIES)
    jobs = []
    n = 0
    for fi, (label, ph) in enumerate(fams.items()):
        few = (CROSS_THREADS_QUICK if label in CROSS_FAMILIES else PROGRESS_THREADS_QUICK if label.startswith("progress-log/")
               else SPECIAL_THREADS_QUICK if label in HISTORY_FAMILIES else SPECIAL3_THREADS_QUICK if label in SPECIAL_FAMILIES
               else BASE_THREADS_QUICK.get(label))
        for ti, T in enumerate(few if (ctx.quick and few) else THREADS):
            locs = [ti % 2] if ctx.quick else [0, 1]
            for loc in locs:
                n += 1
                outname = ["a/out.h5", "elsewhere/deep er/result file.h5"][loc]
                a = dict(physics=ph, work=str(ctx.tmp / f"proc{n}"), outname=outname, poison=1000 + n,
                         rng_seed=(None if n % 3 == 0 else 77 + n))
                if label in HISTORY_FAMILIES:
                    vs = HISTORY_FAMILIES[label]["variants"]
                    if ctx.quick and ti >= len(vs):
                        continue                      # quick: one child per variant
                    a["prework"] = vs[(ti if ctx.quick else 2 * ti + loc) % len(vs)]
                if ph.get("pulse"):       # first child: draws that hit the pulse; second: draws that miss it; then natural / other seeds
                    a["rng_seed"] = hit if ti == 0 and loc == locs[0] else miss if ti == 1 and loc == locs[0] else (None if ti % 2 == 0 else 77 + n)
                jobs.append((label, a, T, 100 + 7 * n))
    ex = ThreadPoolExecutor(max_workers=8)
    tmo = 300 if ctx.quick else 600
    futures = [ex.submit(_spawn, j[1], j[2], j[3], tmo) for j in jobs]
    return dict(ex=ex, fams=fams, jobs=jobs, futures=futures, timeout=tmo)


def _dynamic_part(ctx, orders, deferred, started):
    from harness import core, kernelsk, twin

    # ---------------------------------------------------------------- 2. real executions in fresh processes
    fams, ex = started["fams"], started["ex"]
    sched = {k: sorted(v)[: (6 if ctx.quick else 24)] for k, v in orders.items()}
    for spec in kernelsk.KERNELS:        # no schedule from TLC for a kernel (its model run was refuted or failed): fixed claim orders
        sched.setdefault(spec["func"], DEFAULT_ORDERS)
    ctx.cov["kernels_replayed_with_default_orders"] = sorted(k for k in sched if k not in orders)
    kjob = ("kernels", dict(mode="kernels", work=str(ctx.tmp / "kern"), threads=THREADS, orders={k: [list(o) for o in v] for k, v in sched.items()}), 16, 11)
    kfut = ex.submit(_spawn, kjob[1], kjob[2], kjob[3], 120 if (ctx.violations and ctx.quick) else started["timeout"])
    jobs = [kjob] + started["jobs"]
    results = [kfut.result()] + [f.result() for f in started["futures"]]
    ex.shutdown()
    for j, res in zip(jobs, results):
        if "error" in res:        # deferred: the other processes are still compared
            deferred.append(f"child process for {j[0]} (threads={j[2]}) failed: {res['error'][-400:]}")
    kobs = results[0].get("obs", [])
    keep = [(j, r_) for j, r_ in list(zip(jobs, results))[1:] if "error" not in r_]
    jobs, results = [j for j, _ in keep], [r_ for _, r_ in keep]

    traces = []
    # 2a. kernels: schedules from TLC replayed + compiled kernels under each thread count
    intern = twin.Interner()
    ev = [{"run": o["run"], "key": f"{o['kernel']}/{o['run'].split('/')[0]}", "q": [intern(o["hash"])]} for o in kobs]
    if ev:
        traces.append({"tol": 0, "minruns": 2, "ev": ev, "label": "kernels"})
    for o in kobs:
        ctx.note_case(("kernel", o["kernel"], o["run"]), True)
    ctx.cov["schedules_replayed"] = sum(1 for o in kobs if o["run"].startswith("py/"))
    if not ctx.cov["schedules_replayed"]:
        deferred.append("no schedule was replayed into the kernel bodies")
    # 2b. full runs
    for label in fams:
        intern = twin.Interner()
        ev = []
        drawsets = set()
        for j, res in zip(jobs, results):
            if j[0] != label:
                continue
            rid = f"T{j[2]}/seed{j[3]}/{j[1]['outname'].split('/')[0]}/poison{j[1]['poison']}/draws:{j[1].get('rng_seed')}"
            if "prework" in j[1]:
                rid += "/before:" + ("nothing" if not j[1]["prework"] else "+".join(
                    (f"mesh {st['dev']}" if st["kind"] == "mesh" else f"options object {st['how']}" if st["kind"] == "options"
                     else "output location occupied by another run" if st["kind"] == "occupy"
                     else f"sim on {st.get('on')} psi={st['over'].get('terminal_psi')}"
                     + (" then its Solution.device" if st.get("then") else "")) for st in j[1]["prework"]))
                if fams[label].get("guard_dt_growth") and not j[1]["prework"] and not res.get("max_dt", 0) > 1.5 * fams[label]["dt"]:
                    deferred.append(f"{label}: the adaptive run never exceeds dt_init in the fresh child (max dt {res.get('max_dt')}): vacuous")
            for key in sorted(res["obs"]):
                ev.append({"run": rid, "key": key, "q": [intern(res["obs"][key])]})
            for sub, o in res.get("extra_runs", {}).items():      # several observers inside one process (e.g. two continuations of one seed)
                for key in sorted(o):
                    ev.append({"run": f"{rid}/{sub}", "key": key, "q": [intern(o[key])]})
            drawsets.add(tuple(res["draws"]))
            ctx.note_case((label, rid), res["nframes"] >= 2)
        if len(drawsets) < 2 or not all(drawsets):
            deferred.append(f"the runs of {label} did not see different random draws ({len(drawsets)} distinct): vacuous")
        ctx.cov.setdefault("distinct_random_draw_sequences", {})[label] = len(drawsets)
        if len({e["run"] for e in ev}) < 2:
            deferred.append(f"fewer than two runs of {label} completed")
            continue
        traces.append({"tol": 0, "minruns": 2, "ev": ev, "label": label})
        ctx.sample({"family": label, "runs": len({e['run'] for e in ev}), "observations": len(ev), "keys": len({e['key'] for e in ev}),
                    "first": ev[:3]}, limit=5)
    accepted = twin.validate_twin(ctx, traces, "C09")
    if accepted:
        nacc = sorted(accepted)[-1]
        badt = copy.deepcopy(traces[nacc])
        victim = [e for e in badt["ev"] if "psi" in e["key"] or "/py" in e["key"]][-1]
        victim["q"] = [victim["q"][0] + 1000]
        acc, _ = ctx.validate_traces("Twin", [{"tol": 0, "minruns": 2, "ev": badt["ev"]}], twin.twin_cfg(), name="canary[C09]", count=False)
        if acc:
            raise core.MachineryFailure("C09: corrupted twin trace accepted")
        ctx.cov["canaries_rejected"] += 1
    ctx.cov["bounds"]["processes"] = {"threads": THREADS, "families": list(fams), "locations": 2, "hashseeds": "distinct per process",
                                      "np.empty": "poisoned with per-process junk", "random draws": "scripted (distinct seeds) and natural"}
    ctx.cov["rule"] = ("model: all interleavings of <=3 threads over the extracted skeleton of each of the 8 kernels; runs: one fresh process per "
                       "(family, thread count, output location) with its own PYTHONHASHSEED, junk in np.empty buffers and random draws; every "
                       "array of a freshly generated mesh, every dataset/attribute of every frame and every per-step record is one observation; "
                       "non-trivial = run with >= 2 frames or a kernel execution; distinct = distinct (family, process) / (kernel, schedule)")
    ctx.assume("schedules of the real thread pool are sampled (6 thread counts), the enumeration is on the model whose skeleton is extracted from the source")
    ctx.assume("bit-identity is claimed for one installation (same numba/LLVM/BLAS build and CPU), as the property does")


def run(ctx):
    """A problem of the harness on a tree that has already been refuted must not turn the verdict into a machinery failure:
    violations recorded so far stand (exit 1); without any violation the problem is reported as what it is (exit 2)."""
    import traceback

    from harness import core as _core
    try:
        _run(ctx)
    except _core.MachineryFailure as e:
        if not ctx.violations:
            raise
        ctx.cov["machinery_problem_after_violations"] = str(e)[:500]
    except Exception:
        if not ctx.violations:
            raise
        ctx.cov["machinery_problem_after_violations"] = traceback.format_exc()[-800:]
