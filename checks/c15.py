"""C15 — a stopped simulation leaves a clean, readable, truthful output.
Decided with spec/TdglRun.tla: faults (KeyboardInterrupt / error) at every reachable
position of the update and of the frame writer, both stages, every output mode."""
import random

from harness import core, runfamily as rf, runsim

LEVEL = "model_checking"
import itertools
# every set of pre-existing files among the first two candidates' names, plus sets that push the search to the
# third and fourth candidate (the last candidate, out-3.h5, is always left free)
_BASE = ["o0", "t0", "o1", "t1"]
FOREIGNS = [list(c) for r in range(5) for c in itertools.combinations(_BASE, r)] + \
           [["o0", "t1", "o2"], ["t0", "o1", "t2"], ["o0", "o1", "o2"], ["t0", "t1", "o2"], ["o0", "t1", "t2"]]


def bounds(ctx):
    if ctx.quick:
        return dict(Ks=[1, 2, 3], SolveTs=[1, 2, 3], SkipTs=[0, 2], DTS=[1, 2], MaxFaults=1,
                    FaultKinds=["KI", "Err"], OutModes=["temp", "path"], Foreigns=FOREIGNS, BadClasses=["none"])
    return dict(Ks=[1, 2, 3, 4], SolveTs=[0, 1, 2, 3, 4, 5], SkipTs=[0, 2], DTS=[1, 2], MaxFaults=2,
                FaultKinds=["KI", "Err"], OutModes=["temp", "path"], Foreigns=FOREIGNS, BadClasses=["none"])


def run(ctx):
    b = bounds(ctx)
    ctx.cov["bounds"] = {"TdglRun": b, "mechanism": rf.MECH}
    # the loop/fault dimension and the file-system dimension only meet in OpenFiles and Close, so the state
    # space is explored as two products: all fault histories x a few file configurations, and all file
    # configurations x the fault histories of a short run
    bA = dict(b, Foreigns=[[], ["o0"], ["t0", "o1"]])
    bB = dict(b, Ks=[2], SolveTs=[2], DTS=[1])
    ctx.model_check("TdglRun", rf.model_cfg(bA, rf.MECH, rf.INV_C15), name="TdglRun[C15, faults]",
                    required_actions=["Fault", "OpenFiles", "Close", "Assemble", "SaveBegin"], timeout=3000)
    ctx.model_check("TdglRun", rf.model_cfg(bB, rf.MECH, rf.INV_C15), name="TdglRun[C15, pre-existing files]",
                    required_actions=["Fault", "OpenFiles", "Close"], timeout=3000)
    # the known finding must still be a counterexample of the un-weakened clause (else it is stale)
    small = dict(b, Ks=[2], SolveTs=[3], SkipTs=[0], MaxFaults=1, Foreigns=[[]], OutModes=["temp"])
    if any(f.get("status") == "open" and f["key"].startswith("C15:KI@update/post") for f in ctx.findings):
        ctx.model_check("TdglRun", rf.model_cfg(small, rf.MECH, ["RecordsOncePerStepInOrder"]),
                        name="TdglRun[known finding F-ghost still present in the design]",
                        expect_violation="RecordsOncePerStepInOrder", count=False)
    # design canaries: the pinned mechanism violates the C15 clauses
    small2 = dict(b, Ks=[2], SolveTs=[2, 3], SkipTs=[0], MaxFaults=1, Foreigns=[[], ["t0"], ["o0", "t1"]])
    for inv in ("NoStrayOutput", "OutputHoldsOnlyCompleteFrames", "CancelGivesUsableSolution", "RecordsOncePerStepInOrder"):
        ctx.model_check("TdglRun", rf.model_cfg(small2, rf.PINNED, [inv]), name=f"TdglRun[pinned mechanism, {inv}]",
                        expect_violation=inv, count=False)
    # replay: the loop dimension and the file-system dimension are independent in the code, so the
    # export uses all fault histories with two output configurations and all output configurations
    # with a few fault histories (the model check above covers the full product)
    eb1 = dict(b, Foreigns=[[]], OutModes=["temp", "path"])
    eb2 = dict(b, Ks=[2], SolveTs=[2], SkipTs=[0], DTS=[1], MaxFaults=1)
    s1, _ = rf.export_behaviours(ctx, eb1, rf.MECH, name="TdglRunGen[faults]")
    s2, _ = rf.export_behaviours(ctx, eb2, rf.MECH, name="TdglRunGen[outputs]")
    rnd = random.Random(ctx.seed)
    s1 = [s for s in s1 if s["flog"]]
    rnd.shuffle(s1)
    nmax = 900 if ctx.quick else 20000
    ctx.cov["behaviours_exported"] = len(s1) + len(s2)
    ctx.cov["exhaustive"] = len(s1) <= nmax
    scripts = s1[:nmax] + s2
    jobs = []
    for n, s in enumerate(scripts):
        jobs.append(("script", dict(cfg=dict(s["cfg"]), tdts=s["tdts"], simdts=s["simdts"], flog=s["flog"],
                                    probes=[0, 2, 3][n % 3], screening=bool((n // 3) % 2), progress=10 ** 9, fault_shape=n,
                                    warn_error=(n % 4 == 1),
                                    # the ordinary way to cancel: pause_on_interrupt (the default) and "no" at the prompt
                                    pause=(n % 2 == 0))))
    # resumed, then stopped: pause_on_interrupt is the package default, so a run that is finally stopped (or that ends normally)
    # may have been interrupted and continued ("y") before; what was rolled back and repeated at the resume must not show in
    # the output of the stopped run (frame indices, records, bookkeeping)
    mb = dict(Ks=[1, 2, 3], SolveTs=([2, 3] if ctx.quick else [2, 3, 4]), SkipTs=[0, 2], DTS=[1], MaxFaults=2,
              FaultKinds=["KIR", "KI", "Err"], OutModes=["path"], Foreigns=[[]], BadClasses=["none"])
    ctx.model_check("TdglRun", rf.model_cfg(mb, rf.MECH, rf.INV_C15), name="TdglRun[C15, resumed then stopped]",
                    required_actions=["Fault", "Close", "SaveBegin"], timeout=3000)
    ms, _ = rf.export_behaviours(ctx, mb, rf.MECH, name="TdglRunGen[resumed then stopped]")
    ms = [s for s in ms if any(f["kind"] == "KIR" for f in s["flog"])]
    rnd.shuffle(ms)
    ctx.cov["resumed_then_stopped_exported"] = len(ms)
    for n, s in enumerate(ms[: (120 if ctx.quick else 2500)]):
        jobs.append(("script", dict(cfg=dict(s["cfg"]), tdts=s["tdts"], simdts=s["simdts"], flog=s["flog"], probes=[0, 2, 3][n % 3],
                                    screening=bool((n // 3) % 2), progress=10 ** 9)))
    if not ms:
        raise core.MachineryFailure("no behaviour with a resume was exported for the resumed-then-stopped family")
    # history: a faulted run followed, in the same process and at the same output path (its files removed with
    # os.remove), by a second run with its own fault: nothing of the first may leak into the second
    hist = [s for s in s1 if s["cfg"]["out"] == "path" and s["cfg"]["skipT"] == 0][: (12 if ctx.quick else 200)]
    for n, s in enumerate(hist):
        N = max(1, len(s["simdts"]))
        prior = dict(k=s["cfg"]["k"], solveT=N, simdts=[1] * N,
                     flog=[dict(kind=["KI", "Err"][n % 2], where="update", stage="sim", i=(N - 1), at=["pre", "post"][(n // 2) % 2])])
        jobs.append(("script", dict(cfg=dict(s["cfg"]), tdts=s["tdts"], simdts=s["simdts"], flog=s["flog"],
                                    probes=[0, 2, 3][n % 3], screening=bool(n % 2), progress=10 ** 9, prior=prior)))
    # shapes of the requested output path: sub-directory, ./, absolute, several dots, no extension, dotted
    # directory without extension — with and without a pre-existing file at the path
    outnames = ["sub/out.h5", "./out.h5", "ABS:out.h5", "out.v2.h5", "out", "run.d/out", "deep/er/out.hdf5"]
    fl = [dict(kind="KI", where="update", stage="sim", i=1, at="pre")]
    for n, on in enumerate(outnames):
        for foreign in ([], ["o0"], ["t0"], ["o0", "o1"]):
            jobs.append(("script", dict(cfg=dict(k=2, solveT=3, skipT=0, out="path", foreign=foreign, bad="none"), tdts=[], simdts=[1, 1, 1],
                                        flog=(fl if (n + len(foreign)) % 2 else []), probes=[0, 2][n % 2], screening=False, progress=10 ** 9,
                                        outname=on)))
    from harness import runnat
    jobs += [("natural", p) for p in natural_matrix(ctx)]
    traces = rf.replay_all(ctx, jobs)
    for (kind, p), t in zip(jobs, traces):
        ctx.note_case((kind, rf.describe_script(p) if kind == "script" else str(sorted(p.items(), key=str))),
                      bool(p.get("flog") or p.get("fault") or p["cfg"]["foreign"] if kind == "script" else True))
    accepted, norm = rf.validate(ctx, jobs, traces, rf.MECH, rf.INV_C15, runsim.normalise_for_tlc, "C15")
    # known finding: confirm on the real code that the listed history still fails the un-weakened clause
    confirm_known(ctx, jobs, norm, accepted)
    for n in [m for m in sorted(accepted) if jobs[m][0] == "script" and jobs[m][1]["flog"]][:3]:
        ctx.sample({"input": jobs[n][1], "trace": norm[n]["ev"]})
    if accepted:
        rf.canary(ctx, norm, accepted, rf.MECH, rf.INV_C15, rf.mutate_leak_tmp, "C15/leaked-tmp")
        rf.canary(ctx, norm, accepted, rf.MECH, rf.INV_C15, rf.mutate_frame_content, "C15/frame-content")
    ctx.cov["rule"] = ("fault histories of TdglRun (kind x site x step x stage, output mode, pre-existing files) exported by "
                       "TLC and replayed against the real TDGLSolver.solve; non-trivial = a fault is injected or a file "
                       "pre-exists; distinct = distinct inputs")
    ctx.assume("faults are injected at the entry of the update, after its per-step record was appended, before the frame "
               "writer creates the group and after its first dataset; other interruption points inside h5py are not enumerated")


def natural_matrix(ctx):
    out = []
    for n, (where, i, kind) in enumerate([("update", 4, "KI"), ("update", 3, "Err"), ("save", 2, "KI"), ("update", 1, "KI")]):
        out.append(dict(dev="bar", k=2, steps=8, adaptive=False, dt=2.0 ** -6, probes=2, current=2.0, field=0.2,
                        out=("path" if n % 2 else "temp"), foreign=(["o0"] if n % 2 else []),
                        skip=(3 if n == 3 else 0),
                        fault=dict(kind=kind, where=where, stage=("thermal" if n == 3 else "sim"), i=i, at="pre")))
    # the stop arrives at the END of the real update (after all its work, before the runner takes the new values): the
    # discarded step must leave no trace in the final frame of the cancelled run — not in the records and not in any
    # of the saved arrays (a scratch buffer of the solver aliased by the runner's values would show here)
    for n, (i, kind, scr, k) in enumerate([(3, "KI", False, 2), (5, "KI", True, 2), (1, "KI", False, 3), (4, "KI", True, 3), (3, "Err", False, 2)]):
        out.append(dict(dev="bar", k=k, steps=8, adaptive=False, dt=2.0 ** -6, probes=2, current=2.0, field=0.3, screening=scr,
                        out=("path" if n % 2 else "temp"), foreign=[],
                        fault=dict(kind=kind, where="update", stage="sim", i=i, at="post")))
    # the Ctrl-C lands INSIDE the innermost computation of the real update (the Laplacian product of the implicit
    # evaluation): it must cancel the run like any other — not be taken for a failed attempt and retried
    for n, (i, adaptive, k) in enumerate([(3, True, 2), (2, False, 3), (5, True, 4)]):
        out.append(dict(dev="bar", k=k, steps=8, adaptive=adaptive, dt=2.0 ** -6, dt_max=0.1, probes=2, current=2.0, field=0.3,
                        out=("path" if n % 2 else "temp"), foreign=[],
                        fault=dict(kind="KI", where="update", stage="sim", i=i, at="inside")))
    return out


def confirm_known(ctx, jobs, norm, accepted):
    """For every open finding, find replayed histories of its class and check with TLC that the
    real trace violates the un-weakened clause; print KNOWN-FINDING through ctx.violation."""
    opens = [f for f in ctx.findings if f.get("status") == "open"]
    if not opens:
        return
    for f in opens:
        if not f["key"].startswith("C15:KI@update/post"):
            continue
        idx = [n for n in sorted(accepted) if jobs[n][0] == "script" and rf.fault_class(jobs[n][1]) == "KI@update/post"
               and jobs[n][1]["flog"][0]["stage"] == "sim" and jobs[n][1]["flog"][0]["i"] % jobs[n][1]["cfg"]["k"] != 0]
        if not idx:
            continue
        sub = [norm[n] for n in idx[:20]]
        acc, r = ctx.validate_traces("TdglRunTrace", sub, rf.trace_cfg(rf.MECH, ["RecordsOncePerStepInOrder"]),
                                     name="known finding F-ghost on the real code", count=False)
        if "RecordsOncePerStepInOrder" in r.violated:
            ctx.violation("C15:KI@update/post:RecordsOncePerStepInOrder", f["what"], {})
        else:
            raise core.MachineryFailure("open finding C15:KI@update/post no longer reproduces on the real code: "
                                        "update known_findings.json (mark it fixed) and the specification (MSaveValid)")


def replay(ctx, path):
    return rf.replay_file(ctx, path, rf.INV_C15, "C15")
