"""C18 — polygon and device geometry operations mean what they say.

Decided with spec/PolyAlg.tla (+ PolyAlgTrace.tla):
 1. TLC checks the clauses (AreaLaw, PointsMapWithShapes, SetOpsArePointwise, NonInplaceNeverMutates,
    InplaceReturnsSelf, CopiesDoNotAlias, StoredClosedAndCCW, DeviceIsFilmMinusHoles, error semantics) on the
    cell model for every chain of operations inside several bounded universes ("slices"); each mechanism
    switch set to FALSE must violate its clause (design canaries).
 2. spec -> code: TLC exports every chain of the export slices with the expected abstract heap after every
    step; each chain is executed with real tdgl.Polygon / tdgl.Device objects in varied input forms.
 3. code -> spec: after every operation every live object and device is abstracted and the trace is validated by
    TLC against PolyAlgTrace (strict: must be a behaviour of PolyAlg; rejected traces are re-run in loose mode,
    where the clauses alone judge the observation, to name the clause).
 4. circles / ellipses / arbitrary angles: relation traces (quantised integers), decided by PolyAlg!RelHolds.
"""
import collections
import concurrent.futures as cf
import copy
import json
import random
import re

from harness import core, polyalg as pa, runfamily as rf

LEVEL = "model_checking"

FULL = dict(H=3, Quarters=[1, 2, 3], Shifts=[(1, 0), (0, -1), (-2, 1), (1, 1)],
            Factors=[(-1, 1), (1, -1), (2, 1), (-1, -2), (2, 2), (-1, -1), (1, 2)], Origins=[(0, 0), (1, -1)], MaxHoles=2)
MINI = dict(H=3, Quarters=[1], Shifts=[(1, 0)], Factors=[(-1, 1)], Origins=[(0, 0)], MaxHoles=2)
TRANSFORMS = ["rotate", "translate", "scale", "copy", "poke"]
B_OVER, B_ADJ, B_BIG, B_IN, B_OUT = (-1, -1, 1, 0), (0, -1, 2, 1), (-2, -2, 2, 2), (-1, -1, 0, 0), (1, 0, 3, 1)


def slices(ctx):
    """name -> (bounds, export?).  Exported slices are enumerated without VIEW (one state per chain): the clauses are
    checked and the chain is printed in the same TLC run."""
    q = ctx.quick
    s = {}
    s["setops-wide"] = (dict(FULL, Boxes=pa.all_boxes(3, -1, 2) if q else pa.all_boxes(3, -2, 2), MaxBoxes=2, MaxOps=1,
                             PolyOps=["setop"], DevOps=[]), True)
    s["transforms-wide"] = (dict(FULL, Boxes=pa.all_boxes(3, -2, 2) if q else pa.all_boxes(3), MaxBoxes=1, MaxOps=1,
                                 PolyOps=TRANSFORMS, DevOps=[]), True)
    # the primitives' own `angle` / `center` / `points` arguments (no set operations here: cos(90 deg) is 6e-17 in
    # tdgl.geometry.rotate, so tilted boxes are exact only up to 1 ulp and edge-sharing overlays are outside the exact model)
    s["primitives-tilted"] = (dict(FULL, Boxes=pa.all_boxes(3, -1, 2) if q else pa.all_boxes(3, -2, 3), TiltQuarters=[0, 1, 2, 3], MaxBoxes=1,
                                   MaxOps=1, PolyOps=["rotate", "translate", "copy"], DevOps=[]), True)
    if q:
        s["poly-depth2"] = (dict(FULL, Quarters=[1, 2], Shifts=[(1, 0), (-2, 1)], Factors=[(-1, 1), (2, 1), (-1, -2)], Origins=[(0, 0)],
                                 Boxes=[B_OVER, B_ADJ], MaxBoxes=2, MaxOps=2, PolyOps=pa.POLY_OPS, DevOps=[]), True)
        s["setops-depth3"] = (dict(MINI, Boxes=[B_OVER, B_ADJ], MinBoxes=2, MaxBoxes=2, MaxOps=3, Chained=True, PolyOps=["setop"], DevOps=[]), True)
        s["devices-depth3"] = (dict(MINI, Origins=[(0, 0), (1, -1)], Boxes=[B_BIG, B_IN], MinBoxes=2, MaxBoxes=2, MaxOps=3, Chained=True, PolyOps=["translate"], DevOps=pa.DEV_OPS,
                                    ProbeModes=["none", "inside", "outside"]), True)
    else:
        # thorough: full enumeration with VIEW for the clauses; the exported (replayed) part of the depth-3 slices is the
        # chained sub-family (every operation involves the previous result) to keep the replay inside the time budget
        s["poly-depth2"] = (dict(FULL, Boxes=[B_OVER, B_ADJ, B_BIG], MaxBoxes=2, MaxOps=2, PolyOps=pa.POLY_OPS, DevOps=[]), True)
        s["setops-depth3"] = (dict(MINI, Boxes=[B_OVER, B_ADJ, B_BIG], MaxBoxes=3, MaxOps=3, PolyOps=["setop"], DevOps=[]), False)
        s["setops-depth3-chained"] = (dict(MINI, Boxes=[B_OVER, B_ADJ, B_BIG], MaxBoxes=2, MaxOps=3, Chained=True, PolyOps=["setop"], DevOps=[]), True)
        dev3 = dict(MINI, Origins=[(0, 0), (1, -1)], Boxes=[B_BIG, B_IN, B_OUT], MaxBoxes=3, MaxOps=3, PolyOps=["translate", "poke"], DevOps=pa.DEV_OPS,
                    ProbeModes=["none", "inside", "outside"])
        s["devices-depth3"] = (dev3, False)
        s["devices-depth3-chained"] = (dict(dev3, Chained=True, ProbeModes=["inside"], MaxBoxes=2), True)
        s["devices-depth3-chained-2boxes"] = (dict(dev3, Chained=True, Boxes=[B_BIG, B_IN], MinBoxes=2, MaxBoxes=2), True)
        pd3 = dict(MINI, Boxes=[B_OVER, B_ADJ], MaxBoxes=2, MaxOps=3, PolyOps=pa.POLY_OPS, DevOps=[])
        s["poly-depth3"] = (pd3, False)
        s["poly-depth3-chained"] = (dict(pd3, Chained=True), True)
        s["setops-5x5-boxes"] = (dict(FULL, Boxes=pa.all_boxes(3, -2, 3), MaxBoxes=2, MaxOps=1, PolyOps=["setop"], DevOps=[]), False)
    return s


CANARY_BOUNDS = dict(MINI, Factors=[(-1, 1), (2, 1)], Origins=[(0, 0), (1, -1)], Boxes=[B_OVER, B_ADJ, B_BIG, B_IN], MaxBoxes=2, MaxOps=2,
                     PolyOps=pa.POLY_OPS, DevOps=pa.DEV_OPS, ProbeModes=["none", "inside", "outside"])
DESIGN_CANARIES = [("MSubIsDifference", "SetOpsArePointwise"), ("MCopyOnTransform", "NonInplaceNeverMutates"),
                   ("MCopyOnTransform", "InplaceReturnsSelf"), ("MOrient", "StoredClosedAndCCW"),
                   ("MCopyFresh", "CopiesDoNotAlias"), ("MDeviceUsesHoles", "DeviceIsFilmMinusHoles"),
                   ("MDeviceUsesHoles", "ProbesValidatedAtConstruction"), ("MProbeOrigin", "PointsMapWithShapes")]


def random_slices(ctx, n):
    """Universes chosen by the seed: TLC enumerates all chains over 2 random boxes with one random parameter of each
    kind and a random subset of operations (quick: <= 2 operations of 3 kinds; thorough: <= 3 operations)."""
    rnd = random.Random(ctx.seed * 7919 + 18)
    out = {}
    boxes = pa.all_boxes(3)
    for k in range(n):
        ops = rnd.sample(pa.POLY_OPS, 3)
        dev = rnd.random() < 0.4
        b = dict(H=3, Boxes=rnd.sample(boxes, 2), MaxBoxes=2, MaxOps=2 if ctx.quick else 3, Chained=not ctx.quick, Quarters=[rnd.choice([1, 2, 3])],
                 Shifts=[rnd.choice([(1, 0), (0, 1), (-1, -1), (2, -1), (0, -2)])],
                 Factors=[rnd.choice([(-1, 1), (1, -1), (-1, -1), (2, 1), (1, 2), (-2, 1), (2, -2), (-1, 2)])],
                 Origins=[rnd.choice([(0, 0), (1, 1), (-1, 0), (0, 2)])], MaxHoles=1,
                 PolyOps=ops[:2] if dev else ops, DevOps=rnd.sample(pa.DEV_OPS[1:], 1) + ["mkdev"] if dev else [],
                 ProbeModes=["none", "inside"])
        out[f"random-{k}"] = (b, True)
    return out


def _pmap(fn, items, nthreads=6):
    with cf.ThreadPoolExecutor(nthreads) as ex:
        return list(ex.map(fn, items))


def run(ctx):
    import time
    T0 = time.time()
    ph = ctx.cov.setdefault('phase_s', {})
    sl = slices(ctx)
    sl.update(random_slices(ctx, 2 if ctx.quick else 10))
    ctx.cov["bounds"] = {k: {kk: (vv if kk != "Boxes" or len(vv) <= 6 else f"{len(vv)} boxes") for kk, vv in b.items()}
                         for k, (b, _) in sl.items()}
    ctx.cov["bounds"]["grid"] = "6x6 unit cells centred at the origin; transforms enabled while the image stays inside"

    # ---- 1. design: the clauses hold on the cell model in every slice (exhaustive inside the slice);
    # ---- 2. spec -> code: the same run exports every chain (prefix-closed) with the expected heap
    def tlc_job(job):
        kind, name = job
        if kind == "slice":
            b, exp = sl[name]
            need = ["New"] + ([] if name.startswith("random") else [pa.ACTION_OF[o] for o in b["PolyOps"] + b["DevOps"]])
            r = ctx.model_check("PolyAlg", pa.model_cfg(b, pa.CLAUSES + (["Emit"] if exp else []), export=exp, view=not exp),
                                name=f"PolyAlg[{name}]" + (" + behaviour export" if exp else ""),
                                required_actions=need, workers=3 if ctx.quick else 6, timeout=2400)
            return name, (pa.parse_chains(r) if exp else None)
        m, inv = name
        ctx.model_check("PolyAlg", pa.model_cfg(CANARY_BOUNDS, [inv], mech={m: False}),
                        name=f"PolyAlg[{m}=FALSE must violate {inv}]", expect_violation=inv, count=False, workers=2)
        return None, None

    names = sorted(sl, key=lambda n: -len(sl[n][0]["Boxes"]) * sl[n][0]["MaxOps"] ** 3)
    first = tlc_job(("slice", names[0]))      # also warms the scratch copy of the spec that the threads share
    done = [first] + _pmap(tlc_job, [("slice", n) for n in names[1:]] + [("canary", c) for c in DESIGN_CANARIES], 5 if ctx.quick else 3)
    ph['tlc_check_export'] = round(time.time() - T0, 1)
    ctx.cov["exhaustive"] = True
    exported = [(n, cs) for n, cs in done if cs is not None]
    rnd = random.Random(ctx.seed)
    cap = 1200 if ctx.quick else 9000
    chains, origin = [], []
    ctx.cov["behaviours_exported"] = {}
    for name, cs in exported:
        ctx.cov["behaviours_exported"][name] = len(cs)
        if len(cs) > cap:
            rnd.shuffle(cs)

            def rare(c):     # stratum kept first: a device with probe points transformed about an origin other than (0, 0)
                probes = False
                for st in c:
                    o = st["o"]
                    probes = probes or (o["op"] == "mkdev" and o.get("pm") == "inside")
                    if probes and o["op"] in ("devrotate", "devscale") and tuple(o["org"]) != (0, 0):
                        return True
                return False

            first = [c for c in cs if rare(c)][:cap // 4]
            ids = {id(c) for c in first}
            cs = first + [c for c in cs if id(c) not in ids][:cap - len(first)]
            ctx.cov["exhaustive_replay"] = False
        chains += cs
        origin += [name] * len(cs)
    ctx.cov.setdefault("exhaustive_replay", True)
    variants = [rnd.randrange(10 ** 6) for _ in chains]
    per = 1500 if ctx.quick else 3000
    tdir = ctx.tmp / "traces"
    tdir.mkdir(exist_ok=True)
    jobs = [("call", dict(module="harness.polyalg", func="replay_chains_to_file",
                          args=dict(chains=[[st["o"] for st in c] for c in chains[k:k + per]], variants=variants[k:k + per], H=3,
                                    first=k, out=str(tdir / f"chains_{k}.json"))))
            for k in range(0, len(chains), per)]
    nrel = 120 if ctx.quick else 2000
    seeds = [ctx.seed * 100003 + k for k in range(nrel)]
    jobs += [("call", dict(module="harness.polyalg", func="relation_traces", args=dict(seeds=seeds[k:k + 50], transforms=3)))
             for k in range(0, nrel, 50)]
    ph['prepare'] = round(time.time() - T0, 1)
    res = rf.replay_all(ctx, jobs)
    ph['replay'] = round(time.time() - T0, 1)
    files = [r for r in res if isinstance(r, dict) and r["kind"] == "chainfile"]
    rel_tr = [t for r in res if isinstance(r, list) for t in r]
    meta = [None] * len(chains)
    for f in files:
        for n, m in enumerate(f["meta"]):
            meta[f["first"] + n] = m

    # ---- 3. code -> spec: TLC validates every recorded execution
    tdgl = core.import_tdgl()

    def full_trace(n):      # re-record one execution in this process (deterministic given chain and variant)
        return pa.replay_chain(tdgl, chains[n], 3, variants[n])

    acc_c = validate_files(ctx, files, len(chains), full_trace)
    relfile = tdir / "relations.json"
    relfile.write_text(json.dumps([pa.strip_trace(t) for t in rel_tr]))
    acc_r = validate_files(ctx, [{"file": str(relfile), "first": 0, "meta": rel_tr}], len(rel_tr), lambda n: rel_tr[n], what="relations")
    ph['validate'] = round(time.time() - T0, 1)
    opcount = collections.Counter()
    frames = collections.Counter()
    probe_ops = collections.Counter()
    xi_ops = collections.Counter()
    for n, m in enumerate(meta):
        frames[m["frame"]] += 1
        for st, e in zip(chains[n], m["ops"]):
            if st["o"]["op"] in ("devtranslate", "devrotate", "devscale") and e[3] == "ok":
                xi_ops["%s%s xi=%s" % (st["o"]["op"], " inplace" if st["o"]["inplace"] else "", m["xi"])] += 1
        seen_probes = False
        for st, e in zip(chains[n], m["ops"]):
            o = st["o"]
            if o["op"] == "mkdev" and o.get("pm", "none") != "none":
                probe_ops[f"Device(probe_points {o['pm']}) -> {e[3]}"] += 1
                seen_probes = seen_probes or e[3] == "ok"
            elif seen_probes and o["op"] in ("devrotate", "devscale", "devtranslate", "devcopy"):
                probe_ops[o["op"] + (" about an origin other than (0,0)" if o["op"] in ("devrotate", "devscale") and tuple(o["org"]) != (0, 0) else "")
                          + " after a device with probe points exists"] += 1
    tilted = collections.Counter()
    for c in chains:
        for st in c:
            o = st["o"]
            if o["op"] == "new" and o["q"]:
                x0, y0, x1, y1 = pa.unbox(o["a"])
                asym = (x1 - x0 != y1 - y0) or (x0 + x1 != 0) or (y0 + y1 != 0)
                tilted["angle %d, %s" % (90 * o["q"], "not symmetric under the tilt" if asym else "centred square")] += 1
    ctx.cov["boxes_built_through_the_angle_argument"] = dict(tilted)
    if not ctx.violations and (tilted["angle 90, not symmetric under the tilt"] < 20 or tilted["angle 270, not symmetric under the tilt"] < 20):
        raise core.MachineryFailure("C18: too few asymmetric boxes built with angle=90 / 270 (vacuous)")
    shared = 0
    for n, m in enumerate(meta):
        if m["share_names"]:
            seen = False
            for st, e in zip(chains[n], m["ops"]):
                o = st["o"]
                if o["op"] == "mkdev" and o["hs"] and e[3] == "ok":
                    seen = True
                elif seen and o["op"] in ("devtranslate", "devrotate", "devscale") and e[3] == "ok":
                    shared += 1
    ctx.cov["device_transforms_with_film_and_hole_sharing_a_name"] = shared
    if not ctx.violations and shared < 20:
        raise core.MachineryFailure(f"C18: only {shared} device transforms on devices whose film and hole share a name (vacuous)")
    ctx.cov["device_transforms_per_coherence_length"] = dict(xi_ops)
    if not ctx.violations:
        for xi in pa.XIS:
            for k in (f"devtranslate xi={xi}", f"devtranslate inplace xi={xi}", f"devrotate xi={xi}", f"devscale xi={xi}"):
                if xi_ops[k] < 5:
                    raise core.MachineryFailure(f"C18: only {xi_ops[k]} executions of {k} (vacuous)")
    ctx.cov["chains_per_frame"] = dict(frames)
    ctx.cov["probe_point_operations"] = dict(probe_ops)
    if not ctx.violations:
        for fr in pa.FRAMES:
            if frames[fr.name] < 20:
                raise core.MachineryFailure(f"C18: only {frames[fr.name]} chains replayed in frame '{fr.name}' (vacuous)")
        need = ["Device(probe_points inside) -> ok", "Device(probe_points outside) -> ValueError",
                "devrotate about an origin other than (0,0) after a device with probe points exists",
                "devscale about an origin other than (0,0) after a device with probe points exists",
                "devtranslate after a device with probe points exists", "devcopy after a device with probe points exists"]
        for k in need:
            if not probe_ops[k]:
                raise core.MachineryFailure(f"C18: never executed: {k} (vacuous)")
    for m in meta:
        ctx.note_case(m["key"] + "|" + "/".join(m["forms"]) + "|" + m["frame"], m["n"] > 1)
        for e in m["ops"]:
            opcount[tuple(e)] += 1
    for t in rel_tr:
        ctx.note_case(t["key"], True)
    ctx.cov["operations_executed"] = {"%s%s%s -> %s" % (k[0], ":" + k[1] if k[1] else "", " inplace" if k[2] else "", k[3]): v
                                      for k, v in sorted(opcount.items())}
    # vacuity on the implementation side: every operation kind was executed, set operations with both outcomes
    for op in pa.POLY_OPS + pa.DEV_OPS:
        if not any(k[0] == op and k[3] == "ok" for k in opcount) and not ctx.violations:
            raise core.MachineryFailure(f"C18: operation {op} never executed successfully on the real classes")
    for kind in ("union", "intersection", "difference"):
        for out in ("ok", "ValueError"):
            if not opcount.get(("setop", kind, False, out)) and not (ctx.violations):
                raise core.MachineryFailure(f"C18: {kind} never observed with outcome {out}")
    ctx.cov["relation_setops_validated"] = sum(t["nset"] for t in rel_tr)
    ctx.cov["relation_device_probe_transforms"] = sum(t["nprobe"] for t in rel_tr)
    ctx.cov["relation_devices_per_name_sharing"] = dict(collections.Counter(t["names"] for t in rel_tr))
    ctx.cov["relation_operand_vertices_checked_to_survive"] = sum(t["nsurv"] for t in rel_tr)
    if not ctx.violations:
        for k in ("film/hole", "film/terminal", "hole/terminal"):
            if ctx.cov["relation_devices_per_name_sharing"].get(k, 0) < 10:
                raise core.MachineryFailure(f"C18: too few relation devices with names shared {k} (vacuous)")
        if ctx.cov["relation_operand_vertices_checked_to_survive"] < 500:
            raise core.MachineryFailure("C18: too few operand vertices checked to survive a set operation (vacuous)")
        if sum(t["nprim"].get("thin box (aspect >= 40)", 0) for t in rel_tr) < 30:
            raise core.MachineryFailure("C18: too few thin boxes against the harness' own rectangle (vacuous)")
    ctx.cov["relation_devices_per_coherence_length"] = dict(collections.Counter(str(t["xi"]) for t in rel_tr))
    if not ctx.violations and sum(1 for t in rel_tr if t["xi"] != 1.0) < 30:
        raise core.MachineryFailure("C18: too few relation traces with a device whose coherence length is not 1 (vacuous)")
    ctx.cov["relation_primitive_cases"] = dict(sum((collections.Counter(t["nprim"]) for t in rel_tr), collections.Counter()))
    if not ctx.violations:
        for k in ("box tilted (not a multiple of 180, w != h)", "ellipse tilted (not a multiple of 180, a != b)", "geometry.rotate"):
            if ctx.cov["relation_primitive_cases"].get(k, 0) < 30:
                raise core.MachineryFailure(f"C18: too few relation cases '{k}' (vacuous)")
    ctx.cov["relation_traces_per_place"] = dict(collections.Counter(str(tuple(t["place"])) for t in rel_tr))
    if not ctx.violations:
        if ctx.cov["relation_device_probe_transforms"] < 50 or ctx.cov["relation_setops_validated"] < 50:
            raise core.MachineryFailure("C18: too few relation cases with device probe points / set operations (vacuous)")
        if any(sum(1 for t in rel_tr if tuple(t["place"]) == pl) < 10 for pl in pa.PLACES):
            raise core.MachineryFailure("C18: too few relation traces at one of the places (vacuous)")
    for n in sorted(acc_c)[:2]:
        t = full_trace(n)
        ctx.sample({"chain": t["key"], "forms": t["forms"], "last_event": {k: t["ev"][-1][k] for k in ("op", "out", "res", "objs", "devs")}})
    for n in sorted(acc_r)[:2]:
        ctx.sample({"relations": rel_tr[n]["key"], "events": rel_tr[n]["ev"][:6]})
    # a sample of accepted executions, re-recorded here, carries the canaries
    pick = sorted(acc_c)
    random.Random(ctx.seed + 5).shuffle(pick)
    # prefer long chains with devices / set operation errors so that every canary finds a carrier
    pick = ([n for n in pick if any(e[0] == "mkdev" for e in meta[n]["ops"])][:60]
            + [n for n in pick if any(e[0] == "setop" and e[3] == "ValueError" for e in meta[n]["ops"])][:60] + pick[:200])
    chain_tr = [full_trace(n) for n in pick]
    acc_c = set(range(len(chain_tr)))

    # ---- canaries of the binding: corrupted traces must be rejected
    try:
        trace_canaries(ctx, chain_tr, acc_c, rel_tr, acc_r)
    except core.MachineryFailure:
        if not ctx.violations:      # with rejected executions there may be no accepted trace left to corrupt
            raise

    ctx.cov["rule"] = ("chains of operations exported by TLC from PolyAlg (prefix-closed enumeration of each slice) executed with real "
                       "Polygon/Device objects; every state after every operation validated by TLC; distinct = distinct "
                       "(chain, input/API forms); non-trivial = at least one operation after the boxes; plus relation traces "
                       "(random circles/ellipses/rotated boxes, any angle, factors in halves, origins (0,0)/point/center/centroid)")
    ctx.assume("cell model: shapes are unions of unit cells of a 6x6 grid; rotations by multiples of 90 degrees about integer points, "
               "integer translations, factors in {+-1, +-2}; results leaving the grid are outside the universe")
    ctx.assume("membership is observed at cell centres (distance >= 0.5 from every outline) and at random probes kept >= 1e-6 from "
               "every outline: behaviour on outlines is not claimed")
    ctx.assume("rotations by 90q+360 degrees are not replayed on the cell model: shapely does not snap cos(450 deg)=3e-16, the image "
               "is then off the grid by 1 ulp and edge-sharing set operations see slivers (observed, outside the exact model)")
    ctx.assume("trusted: TLC, shapely/matplotlib as used by the abstraction (contains_points, area, bounds), numpy.shares_memory")


def validate_files(ctx, files, total, full_trace, what="chains"):
    """Parallel batch validation of trace files (one TLC run per file); every rejected trace becomes a violation
    (the first few are re-recorded and diagnosed).  Returns the accepted indices."""
    if not total:
        return set()
    cfg = pa.trace_cfg(3)

    def one(f):
        r = core.run_tlc("PolyAlgTrace", cfg, ctx.tmp / f"tlc_{what}_{f['first']}", workers=1, env={"TRACE_FILE": f["file"]},
                         heap="2g", java_opts=("-XX:TieredStopAtLevel=1", "-XX:ParallelGCThreads=2"))
        return f, r

    accepted = set()
    for f, r in _pmap(one, files, 8):
        k, n = f["first"], len(f["meta"])
        ctx.cov["models"].append({"model": f"PolyAlgTrace[{what} {k}..{k + n - 1}] (trace validation)", "traces": n,
                                  "distinct_states": r.distinct, "states_generated": r.generated, "wall_s": round(r.wall, 2),
                                  "violated": r.violated})
        if r.errors or (not r.finished and not r.violated):
            raise core.MachineryFailure(f"PolyAlgTrace[{what}]: TLC failed on traces: {r.errors[:3]}\n{r.out[-3000:]}")
        ctx.cov["states"] += r.distinct
        ctx.cov["transitions"] += r.generated
        if r.violated:
            ctx.violation(f"C18:{what}:invariant:{','.join(r.violated)}",
                          f"C18 {what}: an accepted execution reaches a state where {r.violated} is false", {"tlc": r.counterexample()})
        for line in r.printed():
            m = re.match(r'<<"ACCEPT", (\d+)>>', line)
            if m:
                accepted.add(k + int(m.group(1)) - 1)
    ctx.cov["traces_validated_against_impl"] += len(accepted)
    rejected = [n for n in range(total) if n not in accepted]
    ctx.cov[f"rejected_{what}"] = len(rejected)
    for n in rejected[:4]:
        report(ctx, full_trace(n), what)
    if len(rejected) > 4:
        ctx.cov["further_rejected_traces_not_diagnosed"] = ctx.cov.get("further_rejected_traces_not_diagnosed", 0) + len(rejected) - 4
    return accepted


def report(ctx, t, what):
    st = pa.strip_trace(t)
    far, violated, tail = ctx.diagnose_trace("PolyAlgTrace", st, pa.trace_cfg(3))
    if t["kind"] == "rel":
        e = t["ev"][far - 1] if 0 < far <= len(t["ev"]) else {}
        clause = e.get("clause", "?")
        ctx.violation(f"C18:rel:{clause}:{e.get('what', '')[:80]}:{t['key'][:160]}",
                      f"C18: relation '{e.get('rel')}' ({clause}) is false for {e.get('what')}; history: {t['key']}; event: {json.dumps(e)[:400]}",
                      {"trace": t, "stuck_at": far})
        return
    # loose mode: the observation alone, judged by the clauses
    _, lviol, ltail = ctx.diagnose_trace("PolyAlgTrace", st, pa.trace_cfg(3, strict=False))
    clause = ",".join(lviol) if lviol else "not-the-specified-result"
    e = t["ev"][far - 1] if 0 < far <= len(t["ev"]) else {}
    ctx.violation(f"C18:{clause}:{e.get('op')}:{e.get('kind', '')}:{t['key']}:{e.get('form')}",
                  f"C18: real execution is not a behaviour of PolyAlg; clause {clause}; stuck at step {far} "
                  f"({e.get('op')} {e.get('kind', '')} via {e.get('form')}, outcome {e.get('out')} {e.get('msg', '')}); chain: {t['key']}; "
                  f"forms: {t['forms']}; expected vs observed: {json.dumps(t.get('pydiff'))[:900]}",
                  {"trace": t, "stuck_at": far, "loose_violated": lviol, "tlc_tail": ltail or tail})


def trace_canaries(ctx, chain_tr, acc_c, rel_tr, acc_r):
    rnd = random.Random(ctx.seed + 1)
    bad = []

    def pick(pred):
        c = [n for n in sorted(acc_c) if pred(chain_tr[n])]
        if not c:
            raise core.MachineryFailure("C18: no accepted trace can carry a canary")
        return copy.deepcopy(pa.strip_trace(chain_tr[rnd.choice(c)]))

    t = pick(lambda t: len(t["ev"]) >= 2)                      # one cell of one object flipped
    t["ev"][-1]["objs"][0]["rows"][2] ^= 4
    bad.append(t)
    t = pick(lambda t: any(e["op"] in ("rotate", "translate", "scale") and not e["inplace"] for e in t["ev"]))
    for e in t["ev"]:                                            # a non-in-place transform that claims to return self
        if e["op"] in ("rotate", "translate", "scale") and not e["inplace"]:
            e["res"] = e["a"]
            break
    bad.append(t)
    t = pick(lambda t: any(e["op"] == "setop" and e["out"] == "ValueError" for e in t["ev"]))
    for e in t["ev"]:                                            # an error reported as another class
        if e["op"] == "setop" and e["out"] == "ValueError":
            e["out"] = "TypeError"
            break
    bad.append(t)
    t = pick(lambda t: True)                                     # an object stored clockwise
    t["ev"][-1]["objs"][-1]["ccw"] = False
    bad.append(t)
    t = pick(lambda t: any(d["inside"] != [0] * 6 for e in t["ev"] for d in e["devs"]))
    for e in t["ev"]:                                            # a device that contains a point of a hole / misses a point
        for d in e["devs"]:
            if d["inside"] != [0] * 6:
                d["inside"][2] ^= 8
    bad.append(t)
    t = pick(lambda t: len(t["ev"][-1]["objs"]) >= 2)            # two objects sharing a vertex buffer
    t["ev"][-1]["objs"][1]["lead"] = 1
    bad.append(t)
    for n in sorted(acc_r)[:1]:
        for rel, f in (("area", lambda e: e.__setitem__("a1", e["a1"] + 5000)), ("bits", lambda e: e["y"].__setitem__(0, not e["y"][0])),
                       ("setop", lambda e: e["r"].__setitem__(0, not e["r"][0])), ("dev", lambda e: e["dev"].__setitem__(0, not e["dev"][0])),
                       ("same", lambda e: e["y"].__setitem__(0, e["y"][0] + 1)), ("flags", lambda e: e.__setitem__("ccw", False))):
            cands = [m for m in sorted(acc_r) if any(e["rel"] == rel for e in rel_tr[m]["ev"])]
            if not cands:
                raise core.MachineryFailure(f"C18: no relation trace with a {rel} relation")
            t = copy.deepcopy(pa.strip_trace(rel_tr[cands[0]]))
            for e in t["ev"]:
                if e["rel"] == rel:
                    f(e)
                    break
            bad.append(t)
    acc, r = ctx.validate_traces("PolyAlgTrace", bad, pa.trace_cfg(3), name="canaries (corrupted traces)", count=False)
    if acc:
        raise core.MachineryFailure(f"C18: corrupted traces {sorted(acc)} were accepted — the binding is vacuous")
    ctx.cov["canaries_rejected"] += len(bad)


def replay(ctx, path):
    """`./check C18 --replay <file>`: re-execute the recorded chain / relation case on the current tree and re-validate it."""
    rec = json.load(open(path))
    t = rec.get("trace")
    if not t:
        print(f"replay file {path} records a model-level counterexample:\n{rec.get('counterexample', rec.get('tlc', ''))[:3000]}")
        return 1
    tdgl = core.import_tdgl()
    if t["kind"] == "chain":
        new = pa.replay_chain(tdgl, [{"o": o} for o in t["ops"]], 3, t["variant"])
    else:
        new = pa.relation_trace(tdgl, dict(seed=t["seed"], transforms=t.get("transforms", 3)), None)
    acc, r = ctx.validate_traces("PolyAlgTrace", [pa.strip_trace(new)], pa.trace_cfg(3), name="replay")
    if acc:
        print(f"replay: the recorded input is now accepted (property {ctx.pid} holds on it)")
        return 0
    report(ctx, new, "replay")
    for v in ctx.violations:
        print(f"VIOLATION property={ctx.pid} replay={v['replay']}\n  what: {v['what']}")
    return 1
