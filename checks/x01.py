"""X01 (extension beyond the listed properties) — the live-monitor channel.

The solver keeps a second HDF5 file ("<output>.tmp") in SWMR mode with the latest frame, a separate monitor
process polls it.  MonitorChannel.tla is the two-process protocol, one action per operation on the shared file.
  design:      TLC, all interleavings of writer and reader in small bounds: safety clauses, liveness, four design
               canaries (mechanism switches) and the documented NON-properties (TLC must exhibit them)
  spec -> code: behaviours exported by TLC (-simulate) as schedules; the REAL solver and the REAL monitor run as two
               gated processes on one real SWMR file and are interleaved operation by operation along them
  code -> spec: the observed global event order (with what every read returned) is validated by MonitorChannelTrace,
               every clause evaluated in every state
Not a listed property: no MANIFEST check; evidence goes to evidence_extra/X01.json."""
import copy
import json

from harness import core, runfamily as rf

LEVEL = "model_checking"

REAL = dict(MCreateBeforeSwmr=True, MDataBeforeLabel=True, MLaunchAfterSwmr=True, MLabelBeforeData=True)
SAFETY = ["TypeOK", "WriterObeysSwmr", "ReaderOnlyFailsLate", "ReaderSeesSwmr", "DisplayFresh", "ChannelRemoved"]
DT = 2.0 ** -6


def cfg(spec, consts, mech, invariants=(), properties=(), extra=""):
    b = lambda v: "TRUE" if v else "FALSE"
    lines = [f"SPECIFICATION {spec}", "CONSTANTS",
             f" DataKeys <- {consts['data']}", f" Fields <- {consts['fields']}",
             " FixedKeys = {" + ", ".join(f'"{k}"' for k in consts["fixed"]) + "}",
             " SavesSet = {" + ", ".join(str(n) for n in consts["saves"]) + "}",
             f" K = {consts.get('K', 1)}", f" Quantities = {consts.get('Q', 1)}"]
    lines += [f" {k} = {b(v)}" for k, v in mech.items()]
    lines += [f"INVARIANT {i}" for i in invariants] + [f"PROPERTY {p}" for p in properties]
    lines += ["CHECK_DEADLOCK FALSE", extra]
    return "\n".join(lines) + "\n"


SMALL = dict(data="MC_Data2", fields="MC_Fields3", fixed=["epsilon"], saves=[1, 2, 3], K=2, Q=2)
STATIC = dict(data="MC_DataReal", fields="MC_FieldsReal", fixed=["epsilon", "applied_vector_potential"])
DYNEPS = dict(data="MC_DataDynEps", fields="MC_FieldsReal", fixed=["applied_vector_potential"])
DATA = {"MC_DataReal": ["psi", "mu", "supercurrent", "normal_current", "induced_vector_potential"],
        "MC_DataDynEps": ["psi", "mu", "supercurrent", "normal_current", "induced_vector_potential", "epsilon"]}
LABELS = ["step", "time", "dt"]


def normalise(obs, consts, quantities, expect="returned"):
    """Observed events of the two real processes -> trace for MonitorChannelTrace."""
    data = DATA[consts["data"]]
    written = {}          # key -> list of (version, hash)
    svals = []
    fixed_seq = []
    ev = []
    mon = 0
    for e in obs["events"]:
        if e["p"] == "W":
            op = e["op"]
            if op == "done":
                ev.append({"p": "W", "op": "done", "ok": 1 if str(e.get("res")).startswith(expect) else 0})
                continue
            key = e.get("key", "-")
            top = not key.startswith("data/-1")
            key = {"data/-1": "group", "solution/device": "device"}.get(key, key.split("/")[-1])
            if op in ("create", "write") and key not in ("group", "device"):
                if op == "create" and top:
                    fixed_seq.append(key)
                    written.setdefault("top:" + key, []).append((1, e["h"]))
                else:
                    hist = written.setdefault(key, [])
                    v = (len(hist) if key in LABELS else len(hist) + 1)
                    hist.append((v, e["h"]))
                    if key == "step" and op == "write":
                        svals.append(int(round(e["first"])))
            if op == "launch":
                mon = 1
            ev.append({"p": "W", "op": op, "key": key if op in ("create", "write", "flush") else "-"})
        else:
            op = e["op"]
            res = e.get("res")
            if op == "open":
                ev.append({"p": "R", "op": "open", "ok": 1 if res == "ok" else 0})
            elif op == "device":
                ev.append({"p": "R", "op": "device", "ok": 1 if res == "ok" else 0})
            elif op == "exists":
                ev.append({"p": "R", "op": "exists", "ok": 1 if res else 0})
            elif op == "read":
                key = e["key"]
                top = 0 if key.startswith("data/-1") else 1
                k = key.split("/")[-1]
                missing = 1 if (res == "missing" or not isinstance(res, dict)) else 0
                vs = [] if missing else [v for v, h in written.get(("top:" if top else "") + k, []) if h == res["h"]]
                val = int(round(res["first"])) if (not missing and k == "step") else 0
                ev.append({"p": "R", "op": "read", "key": k, "top": top, "vs": vs, "val": val, "missing": missing})
            elif op == "done":
                how = "exit" if str(res).startswith("exit") else "raised"
                ev.append({"p": "R", "op": "done", "how": how})
    steps = written.get("step", [])
    return {"saves": max(1, len(steps) - 1), "fixed": fixed_seq, "mon": mon, "gui": 0, "ev": ev,
            "svals": svals, "Q": len(quantities)}


def run(ctx):
    q = ctx.quick
    # ---- 1. design: every interleaving in small bounds
    r = ctx.model_check("MonitorChannel", cfg("Spec", SMALL, REAL, SAFETY, ["LabelMonotone", "FlushedMonotone", "ReaderTerminates"]),
                        name="MonitorChannel[design]", workers=8,
                        required_actions=["Writer", "ROpen", "RDevice", "RExists", "RStep", "RTime", "RDt", "RField"])
    for sw, inv in (("MCreateBeforeSwmr", "WriterObeysSwmr"), ("MDataBeforeLabel", "DisplayFresh"),
                    ("MLaunchAfterSwmr", "ReaderOnlyFailsLate"), ("MLabelBeforeData", "DisplayFresh")):
        ctx.model_check("MonitorChannel", cfg("Spec", SMALL, dict(REAL, **{sw: False}), [inv]), name=f"MonitorChannel[{sw}=FALSE]",
                        expect_violation=inv, count=False, workers=4)
    # documented non-properties of the design: TLC must exhibit each (if one starts to hold, the model or the code changed)
    for inv in ("PanelsSameFrame", "TitleNamesShownFrame", "TitleConsistent"):
        ctx.model_check("MonitorChannel", cfg("Spec", SMALL, REAL, [inv]), name=f"MonitorChannel[non-property {inv}]",
                        expect_violation=inv, count=False, workers=4)
    ctx.model_check("MonitorChannel", cfg("Spec", dict(SMALL, saves=[2], Q=1), REAL, [], ["ReaderTerminatesHeadless"]),
                    name="MonitorChannel[non-property ReaderTerminatesHeadless]", expect_violation="ReaderTerminatesHeadless",
                    count=False, workers=4)
    ctx.cov["bounds"] = {"MonitorChannel": SMALL}

    # ---- 2. spec -> code: schedules from TLC behaviours, replayed on the two real processes
    jobs, meta = [], []
    families = [("static", STATIC, dict(), ["order_parameter"], 1), ("static/2-panels", STATIC, dict(), ["order_parameter", "supercurrent"], 1),
                ("dyn-eps", DYNEPS, dict(dyn_eps=True), ["order_parameter"], 1), ("static/k=2", STATIC, dict(k=2), ["vorticity"], 2)]
    nper = 4 if q else 40
    for fam, consts, wargs, quantities, K in families:
        c = dict(consts, saves=([3, 5] if q else [2, 3, 5, 8]), K=1, Q=len(quantities))
        g = ctx.model_check("MonitorChannelGen", cfg("GSpec", c, REAL, ["Export"]), name=f"MonitorChannelGen[{fam}]",
                            simulate=f"num={nper}", depth=900, workers=1, count=False)
        scheds = [json.loads(json.loads(l)) for l in g.printed() if l.startswith('"{')]
        if len(scheds) < nper // 2:
            raise core.MachineryFailure(f"X01: only {len(scheds)} schedules exported for {fam}")
        for s in scheds[:nper]:
            n = s["saves"]
            steps = (n - 1) * K if K == 1 else (n - 2) * K + 1          # k=2: saves at 0,2,.. and a final one in between
            a = dict(schedule=s["sched"], tail="W", max_ops=3000, reader_stop_after=400,
                     writer=dict(wargs, solve_time=max(steps, 1) * DT - DT / 2), reader=dict(quantities=quantities))
            jobs.append(("call", dict(module="harness.monitor", func="run_schedule", args=a)))
            meta.append((fam, consts, quantities, "returned"))
    # runs that are stopped from inside (cancelled with Ctrl-C directly / through the pause prompt; an error in the update)
    # and a thermalised run: the channel protocol and its removal do not depend on how the run ends
    sched = [1] * 30 + [0, 1] * 200
    for fam, wargs, expect in (("static/cancelled", dict(fault_at=4, fault_kind="KI"), "returned"),
                               ("static/cancelled-at-prompt", dict(fault_at=3, fault_kind="KI", pause=True, k=2), "returned"),
                               ("static/error", dict(fault_at=4, fault_kind="Err"), "raised RuntimeError: injected"),
                               ("static/thermalised", dict(skip_time=3 * DT - DT / 2), "returned")):
        jobs.append(("call", dict(module="harness.monitor", func="run_schedule",
                                  args=dict(schedule=sched, tail="W", max_ops=3000, writer=dict(wargs, solve_time=6 * DT - DT / 2),
                                            reader=dict(quantities=["order_parameter"])))))
        meta.append((fam, STATIC, ["order_parameter"], expect))
    # a run without a monitor: the channel is still written and removed
    jobs.append(("call", dict(module="harness.monitor", func="run_schedule",
                              args=dict(schedule=[], tail="W", max_ops=3000, writer=dict(solve_time=3 * DT - DT / 2, monitor=False), reader={}))))
    meta.append(("static/no-monitor", STATIC, ["order_parameter"], "returned"))
    # the monitor comes up only after the run has finished (slow start): the only way it may fail
    jobs.append(("call", dict(module="harness.monitor", func="run_schedule",
                              args=dict(schedule=[1] * 400, tail="W", max_ops=3000, writer=dict(solve_time=2 * DT - DT / 2), reader=dict(quantities=["order_parameter"])))))
    meta.append(("static/late-monitor", STATIC, ["order_parameter"], "returned"))
    results = rf.replay_all(ctx, jobs)

    # ---- 3. code -> spec
    groups = {}
    for (fam, consts, quantities, expect), obs in zip(meta, results):
        t = normalise(obs, consts, quantities, expect)
        t["label"] = fam
        groups.setdefault((consts["data"], len(quantities)), (consts, [])) [1].append(t)
        ctx.note_case((fam, len(t["ev"]), json.dumps(obs["args"].get("schedule", []))[:80]),
                      nontrivial=sum(1 for e in t["ev"] if e["p"] == "R" and e["op"] == "read") >= 10)
    reads = sum(1 for _, ts in groups.values() for t in ts for e in t["ev"] if e["p"] == "R" and e["op"] == "read")
    displays = sum(1 for _, ts in groups.values() for t in ts for e in t["ev"] if e["p"] == "R" and e["op"] == "read" and e["key"] == "normal_current")
    pend_seen = 0
    ctx.cov["reader_reads"] = reads
    ctx.cov["display_cycles"] = displays
    invs = ["WriterObeysSwmr", "ReaderOnlyFailsLate", "ReaderSeesSwmr", "DisplayFresh", "ChannelRemoved", "Accepted"]
    first_ok = None
    for (dk, Q), (consts, ts) in groups.items():
        c = dict(consts, saves=sorted({t["saves"] for t in ts}), K=1, Q=Q)
        tcfg = cfg("TSpec", c, REAL, invs)
        accepted, r = ctx.validate_traces("MonitorChannelTrace", ts, tcfg, name=f"MonitorChannelTrace[{dk},Q={Q}]")
        ctx.cov["traces_validated_against_impl"] += len(accepted)
        for n, t in enumerate(ts):
            if n in accepted:
                first_ok = first_ok or (t, tcfg)
                continue
            far, violated, tail = ctx.diagnose_trace("MonitorChannelTrace", t, tcfg)
            at = t["ev"][far - 1] if 0 < far <= len(t["ev"]) else None
            ctx.violation(f"X01/{t['label']}:{violated or 'no-matching-action'}:event{far}",
                          f"the real solver/monitor pair did something MonitorChannel does not allow at event {far}: {at} "
                          f"(clause {violated})", {"trace": t, "cfg": tcfg})
        ctx.sample({"family": ts[0]["label"], "events": len(ts[0]["ev"]), "first_reader_events": [e for e in ts[0]["ev"] if e["p"] == "R"][:8]}, limit=3)

    if displays < (10 if q else 100) and not ctx.violations:       # verdicts first: a broken writer leaves nothing to display
        raise core.MachineryFailure(f"X01: only {displays} display cycles observed (vacuous)")

    # ---- 4. canaries: corrupted recordings must be rejected
    if first_ok:
        t, tcfg = first_ok
        bad1 = copy.deepcopy(t)          # the writer stores the label before the data
        wi = [n for n, e in enumerate(bad1["ev"]) if e["p"] == "W" and e["op"] == "write" and e["key"] == "step"]
        pi = [n for n, e in enumerate(bad1["ev"]) if e["p"] == "W" and e["op"] == "write" and e["key"] == "psi"]
        bad2 = copy.deepcopy(t)          # a read returns content older than what the reader had already seen
        ri = [n for n, e in enumerate(bad2["ev"]) if e["p"] == "R" and e["op"] == "read" and e["key"] == "psi" and e["vs"] and min(e["vs"]) >= 2]
        cands = []
        if wi and pi:
            a, b = pi[0], wi[1] if len(wi) > 1 else wi[0]
            bad1["ev"][a], bad1["ev"][b] = bad1["ev"][b], bad1["ev"][a]
            cands.append(("writer order", bad1))
        if ri:
            bad2["ev"][ri[-1]]["vs"] = [1]
            cands.append(("stale read", bad2))
        if not cands:
            raise core.MachineryFailure("X01: no canary could be built")
        for what, bad in cands:
            acc, _ = ctx.validate_traces("MonitorChannelTrace", [bad], tcfg, name=f"canary[X01 {what}]", count=False, diagnose=False)
            if acc:
                raise core.MachineryFailure(f"X01: corrupted trace ({what}) accepted")
            ctx.cov["canaries_rejected"] += 1
    elif not ctx.violations:
        raise core.MachineryFailure("X01: no accepted trace")
    ctx.cov["rule"] = ("one case = one real solver process and one real monitor process interleaved operation by operation on a real "
                       "HDF5 SWMR file along a schedule exported from a TLC behaviour; non-trivial = the monitor performed >= 10 reads")
    ctx.assume("operations are atomic at the granularity of one h5py call (no read overlaps a write in time): torn reads inside one dataset are not explored")
    ctx.assume("the monitor runs on the agg backend here (gui = FALSE); the GUI exit path (close_event -> sys.exit) is modelled, not observed")
