"""C10 - refreshing the link variables in place equals rebuilding the operators.
Decided with spec/OpsCache.tla (+ OpsCacheTrace.tla): DESIGN.md 3.3 (RefreshEqualsRebuild),
3.2 (OperatorsMatchLatestA), 5/C10.

  1. TLC checks RefreshEqualsRebuild (with FixedRowsAreIdentity, NoOtherRowPinned) for every sequence
     of 1..6 link configurations x pinned sets {none, terminals, pinning disabled} x instances; the
     modelled mutants of the refresh path must violate it (design canaries).
  2. spec -> code: every exported sequence is replayed on the REAL MeshOperators built on the injected
     exact instances (entries bound to TLC's Gaussian integers) and on one generated mesh (flags only).
  3. code -> spec: natural runs of the real solver (ramped fields of several slopes, with/without
     screening) are recorded through wrappers; TLC decides which modelled refresh trigger the code
     implements (trace validation under both), model-checks OperatorsMatchLatestA for that mechanism
     and evaluates the clause in every state of every recorded run.
"""
import random

from harness import core, opscache as oc, runfamily as rf

LEVEL = "model_checking"
DT = 2.0 ** -6


def natural_matrix(ctx):
    slow = 8e-6 / DT          # relative change per step 8e-6 < rtol 1e-5 of numpy.allclose
    runs = [
        dict(label="bar/static", dev="bar", field=0.5, current=2.0, steps=6, ramp=None),
        dict(label="bar/dynamic-constant", dev="bar", field=0.5, current=2.0, steps=6, ramp=dict(r1=0.0, T1=0.0, r2=0.0)),
        dict(label="bar/slow-ramp/150", dev="bar", field=0.6, current=2.0, steps=150, ramp=dict(r1=slow, T1=1e9)),
        dict(label="bar/fast-ramp", dev="bar", field=0.5, current=2.0, steps=8, ramp=dict(r1=0.5, T1=1e9)),
        dict(label="bar/slow-then-fast", dev="bar", field=0.5, current=2.0, steps=14, ramp=dict(r1=slow, T1=6 * DT, r2=0.5)),
        dict(label="bar/fast-then-hold", dev="bar", field=0.5, current=2.0, steps=12, ramp=dict(r1=0.5, T1=5 * DT, r2=0.0)),
        dict(label="bar/slow-then-hold", dev="bar", field=0.5, current=2.0, steps=12, ramp=dict(r1=slow, T1=5 * DT, r2=0.0)),
        dict(label="bar/slow-ramp/screening", dev="bar", field=0.5, current=2.0, steps=6, ramp=dict(r1=slow, T1=1e9), screening=True),
        dict(label="bar/static/screening", dev="bar", field=0.5, current=2.0, steps=5, ramp=None, screening=True),
        dict(label="bar/fast-ramp/screening", dev="bar", field=0.5, current=2.0, steps=5, ramp=dict(r1=0.5, T1=1e9), screening=True),
        dict(label="film/slow-ramp", dev="film", field=0.8, current=0.0, steps=20, ramp=dict(r1=slow, T1=1e9)),
        dict(label="bar/unpinned/slow-then-fast", dev="bar", field=0.5, current=2.0, steps=12, terminal_psi="none",
             ramp=dict(r1=slow, T1=6 * DT, r2=0.5)),
        dict(label="tee/slow-ramp", dev="tee", field=0.4, current=0.0, steps=25, ramp=dict(r1=slow / 2, T1=1e9)),
    ]
    if not ctx.quick:
        for dev in ("bar", "barhole", "tee", "film"):
            for n, r in enumerate((slow / 8, slow / 2, slow, 1.5 * slow, 4 * slow, 0.05, 2.0)):
                runs.append(dict(label=f"{dev}/ramp{n}", dev=dev, field=0.3 + 0.1 * n, current=(2.0 if dev in ("bar", "barhole") else 0.0),
                                 steps=40 if n < 3 else 15, ramp=dict(r1=r, T1=1e9)))
                runs.append(dict(label=f"{dev}/ramp{n}/screening", dev=dev, field=0.3 + 0.1 * n,
                                 current=(2.0 if dev in ("bar", "barhole") else 0.0), steps=5, ramp=dict(r1=r, T1=1e9), screening=True))
            runs.append(dict(label=f"{dev}/two-slopes", dev=dev, field=0.5, current=(1.0 if dev in ("bar", "barhole") else 0.0), steps=30,
                             ramp=dict(r1=slow, T1=12 * DT, r2=3 * slow)))
        runs.append(dict(label="bar/slow-ramp/200", dev="bar", field=0.6, current=2.0, steps=200, ramp=dict(r1=slow, T1=1e9)))
    return runs


def operator_level(ctx, rnd):
    """1. design of the cache + modelled mutants, 2. export, replay on the real MeshOperators, trace validation."""
    jobs = oc.ops_level(ctx, "C10", oc.INV_OPS, rnd, nsample=360 if ctx.quick else 15000,
                        mutants=[m for m in oc.OPS_MUTANTS if m[0] != "MFixPsi"] if ctx.quick else None)
    ops_traces = [t for r in rf.replay_all(ctx, jobs) for t in r]
    good = oc.judge_ops_traces(ctx, "C10", ops_traces, oc.INV_OPS)
    exact_ok = [n for n in good if ops_traces[n]["exact"] and len(ops_traces[n]["ev"]) >= 3]
    for n in exact_ok[:2]:
        t = ops_traces[n]
        ctx.sample({"level": "ops", "instance": t["inst"], "pinned": t["mode"], "q_sequence": [e["q"] for e in t["ev"]],
                    "flags_per_call": [[e["ev"], e["lap_eq"], e["grad_eq"], e["pinrows"]] for e in t["ev"]],
                    "laplacian_after_last_call_area_weighted": t["ev"][-1]["lap"]})
    if exact_ok:
        def corrupt_entry(tr):
            tr["ev"][-1]["lap"][1][0][0] += 1
            return tr

        def corrupt_flag(tr):
            tr["ev"][1]["lap_eq"] = False
            return tr
        oc.in_parallel([lambda: oc.canary(ctx, ops_traces[exact_ok[0]], oc.REPAIRED, oc.INV_OPS, corrupt_entry, "C10/ops stale entry"),
                        lambda: oc.canary(ctx, ops_traces[exact_ok[-1]], oc.REPAIRED, oc.INV_OPS, corrupt_flag, "C10/ops unequal flag")])
    elif not ctx.violations:
        raise core.MachineryFailure("C10: no operator replay was accepted")


def solver_level(ctx):
    """3. natural runs of the real solver; TLC identifies the refresh trigger, model-checks it, judges every run."""
    nat = natural_matrix(ctx)
    results = rf.replay_all(ctx, [("call", dict(module="harness.opscache", func="natural_run", args=a)) for a in nat])
    nat, nat_traces = oc.split_aborted(ctx, nat, results)
    if not any(e["ev"] == "field" and e["a"] == 1 for t in nat_traces for e in t["ev"]):
        raise core.MachineryFailure("C10: no natural run has a step whose change is below the closeness tolerance")
    # the reference operator takes its Voronoi faces from circumcentres: meshes must contain obtuse triangles (smooth=0)
    ob = [t["info"]["edges_opposite_obtuse_angle"] for t in nat_traces]
    ctx.cov["edges_opposite_an_obtuse_angle_per_mesh"] = sorted(set(ob))
    if min(ob) < 10:
        raise core.MachineryFailure(f"C10: a mesh has only {min(ob)} edges opposite an obtuse angle: Voronoi faces not exercised")
    later = sum(t["info"]["later_iterations_with_new_induced"] for t in nat_traces)
    ctx.cov["euler_steps_in_later_screening_iterations_after_a_changed_induced_potential"] = later
    if later < 20:
        raise core.MachineryFailure(f"C10: only {later} Euler steps run in a 2nd or later screening iteration after the induced "
                                    "potential changed: 'what the step does with refreshed operators' is not exercised")
    full, res = oc.identify_mechanism(ctx, nat_traces, "MTrigger", ["exact", "prev_close"], oc.REPAIRED, "C10 natural runs")
    if len(full) == 2:
        raise core.MachineryFailure("C10: the natural runs do not discriminate the refresh triggers")
    trig = full[0] if full else "exact"
    mech = dict(oc.REPAIRED, MTrigger=trig)
    ctx.cov["mechanism_identified_by_trace_validation"] = {"MTrigger": trig if full else None}
    sb = dict(oc.STEP_DEFAULT, Vs=["zero", "none"], Seeds=["configured"]) if ctx.quick else dict(oc.STEP_DEFAULT, Vs=["zero", "none"], Seeds=["configured"], MaxSteps=5, MaxIter=2, AMax=4, IMax=4)
    ctx.cov["bounds"]["OpsCache/SpecStep"] = sb
    small = dict(oc.STEP_DEFAULT, Vs=["zero"], Seeds=["configured"], Modes=["terminals"], MaxSteps=2)
    out = {}

    def judge():
        out["v"] = oc.validate(ctx, nat_traces, mech, oc.INV_C10_STEP, "C10 natural runs")
    thunks = [lambda: oc.model_check(ctx, sb, mech, oc.INV_C10_STEP, "SpecStep", "ViewStep",
                                     f"OpsCache/SpecStep[C10, refresh trigger of the code under test: {trig}]",
                                     required=["Ctor", "FieldStep", "TrigRefresh", "TrigSkip", "Links", "NoLinks", "EulerStep",
                                               "InducedStep", "Finish"]),
              lambda: ctx.model_check("OpsCache", oc.cfg_text(small, oc.PINNED, ["OperatorsMatchLatestA"], "SpecStep", view="ViewStep"),
                                      name="OpsCache/SpecStep[compare-with-previous-step trigger must violate OperatorsMatchLatestA]",
                                      expect_violation="OperatorsMatchLatestA", count=False),
              lambda: ctx.model_check("OpsCache", oc.cfg_text(dict(small, Scrs=[True], Dyns=[False]), dict(oc.REPAIRED, MMemoLpsi=True),
                                                              ["EulerUsesLatestOperators"], "SpecStep", view="ViewStep"),
                                      name="OpsCache/SpecStep[L psi memoised per solve step must violate EulerUsesLatestOperators]",
                                      expect_violation="EulerUsesLatestOperators", count=False),
              judge]       # every recorded run, every state: the clause itself
    if trig != "exact":
        thunks.append(lambda: ctx.model_check("OpsCache", oc.cfg_text(small, oc.REPAIRED, oc.INV_C10_STEP, "SpecStep", view="ViewStep"),
                                              name="OpsCache/SpecStep[exact-change trigger (candidate repair)]", count=False))
    oc.in_parallel(thunks)
    acc, bad, _ = out["v"]
    for n, (a, tr) in enumerate(zip(nat, nat_traces)):
        ctx.note_case(("C10", "natural", a["label"]), any(e["ev"] in ("field", "links") for e in tr["ev"]))
        info = tr["info"]
        if n in acc and n in bad:
            pos, clause = bad[n][0]
            ctx.violation(f"C10:{clause}:natural:{a['label']}",
                          f"C10: real solver run '{a['label']}' ({info['sites']} sites, {info['steps']} steps, refresh trigger "
                          f"'{trig}'): {clause} is false in {len(bad[n])} states, first at event {pos} (step "
                          f"{info['first_stale_step']}); the Euler steps ran with operators built for an older potential: "
                          f"max relative staleness of link_exponents {info['max_relative_staleness']:.3g}; max difference between the psi "
                          f"the step returned and the step recomputed with freshly built operators {info['max_step_mismatch']:.3g}",
                          {"input": a, "info": info, "false_clauses": bad[n][:20], "trace": tr, "mechanism": mech})
        elif n not in acc:
            oc.report_rejected(ctx, "C10:natural", f"{a['label']} (max |psi returned - psi recomputed with fresh operators| = "
                               f"{info['max_step_mismatch']:.3g})", tr, mech, oc.INV_C10_STEP, {"input": a, "info": info})
    good = [n for n in sorted(acc) if n not in bad]
    for n in good[:3]:
        ctx.sample({"level": "step", "input": nat[n], "events": [e["ev"] for e in nat_traces[n]["ev"]][:24],
                    "info": {k: v for k, v in nat_traces[n]["info"].items() if k != "input"}})
    dyn = [n for n in good if nat_traces[n]["dyn"] and any(e["ev"] == "links" for e in nat_traces[n]["ev"])]
    if dyn:
        def stale(tr):
            for e in tr["ev"]:
                if e["ev"] == "euler":
                    e["fresh"] = False
                    return tr
            return None

        def drop_refresh(tr):
            for k, e in enumerate(tr["ev"]):
                if e["ev"] == "links":
                    del tr["ev"][k]
                    return tr
            return None
        oc.in_parallel([lambda: oc.canary(ctx, nat_traces[dyn[0]], mech, oc.INV_C10_STEP, stale, "C10/natural stale flag"),
                        lambda: oc.canary(ctx, nat_traces[dyn[-1]], mech, oc.INV_C10_STEP, drop_refresh, "C10/natural refresh dropped")])
    elif not ctx.violations:
        raise core.MachineryFailure("C10: no accepted natural run with a refresh")


def run(ctx):
    rnd = random.Random(ctx.seed)
    ctx.cov["bounds"] = {}
    # the operator level and the solver level are independent: side by side
    oc.in_parallel([lambda: operator_level(ctx, rnd), lambda: solver_level(ctx)])
    ctx.cov["rule"] = ("operator level: sequences of link configurations (fourth roots of unity, repeats and zeros included) exported "
                       "by TLC per (instance, pinned set) and replayed on the real MeshOperators; every call is compared with a "
                       "freshly constructed MeshOperators and, on exact instances, with TLC's entries; non-trivial = sequence with "
                       ">= 2 distinct configurations.  solver level: natural runs with ramped fields; non-trivial = run with a "
                       "time-dependent potential or screening; distinct = distinct (instance, pinned set, sequence) / run labels")
    ctx.assume("link variables restricted to fourth roots of unity on the exact instances (A.e = q*pi/2); arbitrary real "
               "potentials only through the equal/unequal flags on the generated mesh and in the natural runs")
    ctx.assume("closeness of consecutive applied potentials is numpy.allclose with its default tolerances, as the property text says")


def replay(ctx, path):
    return oc.replay_file(ctx, path, sorted(set(oc.INV_OPS + oc.INV_C10_STEP)))
