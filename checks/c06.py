"""C06 - the order parameter is pinned on current terminals and nowhere else.
Decided with spec/OpsCache.tla (+ OpsCacheTrace.tla): DESIGN.md 3.3 (FixedRowsAreIdentity), 3.2
(PinnedSitesStayPinned), 5/C06.

  1. operator level: TLC checks FixedRowsAreIdentity / NoOtherRowPinned (with RefreshEqualsRebuild: the
     pinned rows survive every Refresh) over every sequence of 1..6 link configurations x pinned sets
     {none, terminals, pinning disabled}; modelled mutants (refresh without the free-row mask, fix_psi
     ignored) must violate them.  The sequences are replayed on the real MeshOperators.
  2. solver level: PinCtl part of OpsCache (Ctor sets the terminal value; every Euler step, with or
     without a refresh per screening iteration, moves or keeps it).  Natural runs of the real solver
     for terminal_psi in {0, None, 1, 0.5+0.2j} x screening x static / ramped fields are recorded; TLC
     decides which pin mechanism the code implements (as-is / value re-imposed after the Euler step),
     model-checks PinnedSitesStayPinned / UnsetMeansFree for it and evaluates the clauses in every state
     of every recorded run (every step and every saved frame).
"""
import random

from harness import core, opscache as oc, runfamily as rf

LEVEL = "model_checking"
DT = 2.0 ** -6


def _hist_name(hist):
    return " > ".join(h[0] if len(h) == 1 else f"{h[0]}({' '.join(str(x).replace(' ', '') for x in h[1:])})" for h in hist)


def natural_matrix(ctx):
    runs = []
    vals = [("0", [0.0, 0.0]), ("None", "none"), ("1", [1.0, 0.0]), ("0.5+0.2j", [0.5, 0.2])]
    for name, v in vals:
        runs.append(dict(label=f"bar/psi={name}/static", dev="bar", field=0.5, current=2.0, steps=10, ramp=None, terminal_psi=v))
        # gentle drive, looser tolerance: with a pinned value 0 < |v| < 1 the screening iteration converges slowly
        runs.append(dict(label=f"bar/psi={name}/screening", dev="bar", field=0.2, current=0.5, steps=4, ramp=None,
                         terminal_psi=v, screening=True, screening_tol=1e-2))
    runs += [
        dict(label="tee/psi=0/fast-ramp", dev="tee", field=0.4, current=0.0, steps=8, ramp=dict(r1=0.5, T1=1e9), terminal_psi=[0.0, 0.0]),
        dict(label="tee/psi=1/fast-ramp", dev="tee", field=0.4, current=0.0, steps=8, ramp=dict(r1=0.5, T1=1e9), terminal_psi=[1.0, 0.0]),
        dict(label="barhole/psi=0.5+0.2j/current-only", dev="barhole", field=0.0, current=4.0, steps=8, ramp=None, terminal_psi=[0.5, 0.2]),
        dict(label="barhole/psi=0/long", dev="barhole", field=0.7, current=5.0, steps=40, ramp=None, terminal_psi=[0.0, 0.0]),
        dict(label="bar/psi=None/fast-ramp/screening", dev="bar", field=0.5, current=2.0, steps=4, ramp=dict(r1=0.5, T1=1e9),
             terminal_psi="none", screening=True, screening_tol=1e-2),
        # terminals that cover only part of a straight side (their polygons end in the middle of a boundary edge)
        dict(label="cross/psi=0/partial-side terminals", dev="cross", field=0.5, current=0.0, steps=6, ramp=None, terminal_psi=[0.0, 0.0]),
        dict(label="film/no-terminals", dev="film", field=0.6, current=0.0, steps=6, ramp=None, terminal_psi=[0.0, 0.0]),
    ]
    # adaptive steps with refusals: the value must hold after EVERY accepted Euler step, retried or not
    ad = dict(dt_init=0.02, dt_max=0.5, solve_time=1.0)
    for name, v in vals:
        runs.append(dict(label=f"bar/psi={name}/adaptive-retries", dev="bar", field=0.6, current=6.0, adaptive=ad, ramp=None,
                         terminal_psi=v, need_retries=3))
    runs.append(dict(label="barhole/psi=0.5+0.2j/adaptive-retries", dev="barhole", field=0.8, current=8.0,
                     adaptive=dict(dt_init=0.05, dt_max=0.5, solve_time=1.0), ramp=None, terminal_psi=[0.5, 0.2], need_retries=3))
    # other initial states: runs seeded from solutions computed with a DIFFERENT terminal value (chain of unobserved
    # seed runs, the last run is observed); the clause holds from the first update on, for None the seed's values evolve
    sd = dict(dev="bar", field=0.5, current=2.0, steps=8, ramp=None)
    for label, chain, v in (("0 -> 0.6+0.2j", [[0.0, 0.0]], [0.6, 0.2]),
                            ("0 -> 0.6+0.2j -> -0.3", [[0.0, 0.0], [0.6, 0.2]], [-0.3, 0.0]),
                            ("None -> 1", ["none"], [1.0, 0.0]),
                            ("1 -> None", [[1.0, 0.0]], "none"),
                            ("1 -> 0", [[1.0, 0.0]], [0.0, 0.0]),
                            ("None -> 0", ["none"], [0.0, 0.0]),
                            ("1 -> 1", [[1.0, 0.0]], [1.0, 0.0])):
        runs.append(dict(sd, label=f"bar/seeded psi: {label}", seed_chain=chain, terminal_psi=v))
    runs.append(dict(sd, label="bar/seeded psi: 0 -> 0.6+0.2j/screening", seed_chain=[[0.0, 0.0]], terminal_psi=[0.6, 0.2],
                     field=0.2, current=0.5, steps=4, screening=True, screening_tol=1e-2))
    runs.append(dict(label="bar/seeded psi: 0 -> 1/adaptive-retries", dev="bar", field=0.6, current=6.0, adaptive=ad, seed_time=0.2,
                     ramp=None, seed_chain=[[0.0, 0.0]], terminal_psi=[1.0, 0.0]))
    # devices whose length unit is not the coherence length (mesh.sites are dimensionless: positions / xi), and a Device
    # that is meshed, inspected and meshed again (refinement loop): the terminal sites are the boundary sites of the
    # CURRENT mesh whose physical position lies in a terminal polygon (harness oracle, independent of the device code)
    for xi in (0.5, 2.0):
        for name, v in (("0", [0.0, 0.0]), ("0.6+0.2j", [0.6, 0.2]), ("None", "none")):
            # the dimensionless cells shrink like 1/xi: a fixed step must shrink like 1/xi^2 to stay solvable
            runs.append(dict(label=f"bar/xi={xi}/psi={name}", dev="bar", xi=xi, field=0.5, current=2.0, steps=6, ramp=None, terminal_psi=v,
                             dt=(DT if xi < 1 else 2.0 ** -10)))
    runs.append(dict(label="tee/xi=0.5/psi=1/screening", dev="tee", xi=0.5, field=0.2, current=0.0, steps=3, ramp=None,
                     terminal_psi=[1.0, 0.0], screening=True, screening_tol=1e-2))
    for name, v in (("0", [0.0, 0.0]), ("1", [1.0, 0.0]), ("None", "none")):
        runs.append(dict(label=f"bar/meshed twice (2.0 -> 0.5)/psi={name}", dev="bar", remesh=[2.0, 0.5], field=0.5, current=2.0,
                         dt=2.0 ** -9, steps=6, ramp=None, terminal_psi=v))
    runs.append(dict(label="barhole/xi=2/meshed twice (2.0 -> 0.6)/psi=0", dev="barhole", xi=2.0, remesh=[2.0, 0.6], field=0.5,
                     current=2.0, dt=2.0 ** -9, steps=6, ramp=None, terminal_psi=[0.0, 0.0]))
    if not ctx.quick:
        for dev in ("barhole", "tee", "cross"):
            for xi in (0.5, 2.0, 3.0):
                for name, v in (("0", [0.0, 0.0]), ("0.3j", [0.0, 0.3]), ("None", "none")):
                    runs.append(dict(label=f"{dev}/xi={xi}/psi={name}", dev=dev, xi=xi, field=0.6, current=(3.0 if dev == "barhole" else 0.0),
                                     steps=12, ramp=None, terminal_psi=v, dt=(DT if xi < 1 else 2.0 ** -10)))
            runs.append(dict(label=f"{dev}/meshed three times/psi=0", dev=dev, remesh=[2.0, 1.0, 0.5], field=0.6,
                             current=(3.0 if dev == "barhole" else 0.0), dt=2.0 ** -9, steps=10, ramp=None, terminal_psi=[0.0, 0.0]))
    # terminal polygons handed to the package in several equivalent forms (geometry.box, the four corners in either
    # orientation, a closed five-point ring), and devices derived with Device.scale / rotate / translate (incl. a
    # mirror: negative factor).  The oracle uses the corner numbers the HARNESS specified, transformed by its own arithmetic.
    gf = dict(field=0.5, current=0.0, steps=5, ramp=None)
    for kind, form, name, v in (("bar", "ccw", "0", [0.0, 0.0]), ("bar", "cw", "1", [1.0, 0.0]), ("tee", "closed", "0", [0.0, 0.0]),
                                ("cross", "ccw", "0.6+0.2j", [0.6, 0.2]), ("bar", "ccw", "None", "none")):
        runs.append(dict(gf, label=f"{kind}/terminals as {form} corners/psi={name}", dev=kind, terminal_form=form, terminal_psi=v))
    for kind, form, tr, name, v in (("bar", "box", [("scale", (1.0, 1.4))], "0", [0.0, 0.0]),
                                    ("bar", "ccw", [("translate", (0.3, 0.5))], "1", [1.0, 0.0]),
                                    ("tee", "box", [("rotate", 10.0)], "0", [0.0, 0.0]),
                                    ("bar", "box", [("scale", (-1.2, 1.0)), ("rotate", 25.0), ("translate", (1.0, -0.5))], "0.6+0.2j", [0.6, 0.2]),
                                    ("bar", "cw", [("scale", (1.0, 1.3))], "None", "none")):
        runs.append(dict(gf, label=f"{kind}/{form}/derived by {tr}/psi={name}", dev=kind, terminal_form=form, transform=tr, terminal_psi=v))
    if not ctx.quick:
        for kind in ("barhole", "tee", "cross"):
            for form in ("ccw", "cw", "closed"):
                runs.append(dict(gf, label=f"{kind}/terminals as {form} corners/psi=0", dev=kind, terminal_form=form, terminal_psi=[0.0, 0.0], steps=10))
            for tr in ([("scale", (1.0, 1.5))], [("scale", (1.0, -1.2))], [("rotate", -15.0)], [("translate", (-0.4, 0.6))],
                       [("rotate", 30.0), ("scale", (1.1, 1.3)), ("translate", (2.0, 1.0))]):
                runs.append(dict(gf, label=f"{kind}/box/derived by {tr}/psi=1", dev=kind, terminal_form="box", transform=tr,
                                 terminal_psi=[1.0, 0.0], steps=10))
    # histories of ONE Device object (OpsCache.tla, Hists): the device is meshed and used (terminal_info() / a solve), a
    # terminal polygon is then changed IN PLACE (Polygon.translate / scale / rotate(inplace=True), points = ...) and the
    # device is solved again WITHOUT being meshed again (the mesh depends on film and holes only): "edited"; the same
    # with a re-meshing after the change, or the change before the first use: "reset".  The current terminals are the
    # polygons as they are when the observed solve starts; the oracle follows the change by the harness's own arithmetic.
    hf = dict(field=0.5, steps=6, ramp=None)
    top_right, top_left = ["translate", [1.2, 0.0]], ["translate", [-1.0, 0.0]]
    for kind, cur, hist, name, v, extra in (
            ("tee", 2.0, [["solve", [0.0, 0.0]], ["edit", "top", *top_right]], "0", [0.0, 0.0], {}),
            ("tee", 0.0, [["look"], ["edit", "top", *top_left]], "0.6+0.2j", [0.6, 0.2], {}),
            ("cross", 0.0, [["solve", [0.0, 0.0]], ["edit", "bottom", "scale", [-1.0, 1.0]]], "0", [0.0, 0.0], {}),
            ("cross", 0.0, [["look"], ["edit", "top", "rotate", 180.0], ["edit", "bottom", "rotate", 180.0]], "0", [0.0, 0.0], {}),
            ("cross", 0.0, [["solve", [0.6, 0.2]], ["edit", "top", "points", [["scale", [0.6, 1.0]], ["translate", [-1.2, 0.0]]]]],
             "0.6+0.2j", [0.6, 0.2], {}),
            ("tee", 0.0, [["solve", "none"], ["edit", "top", *top_right]], "None", "none", {}),
            ("tee", 2.0, [["solve", [0.6, 0.2]], ["edit", "top", *top_left], ["solve", [0.0, 0.0]], ["edit", "top", "translate", [2.0, 0.0]]], "0", [0.0, 0.0], {}),
            ("tee", 0.0, [["solve", [0.0, 0.0]], ["edit", "top", *top_right]], "0", [0.0, 0.0],
             dict(field=0.2, steps=4, screening=True, screening_tol=1e-2)),
            ("tee", 0.0, [["look"], ["edit", "top", *top_right]], "0", [0.0, 0.0], dict(xi=0.5)),
            # "reset": changed before the first use / meshed again after the change
            ("tee", 0.0, [["edit", "top", *top_left], ["look"]], "0", [0.0, 0.0], {}),
            ("cross", 0.0, [["solve", [0.0, 0.0]], ["edit", "bottom", "scale", [-1.0, 1.0]], ["mesh", 0.6]], "0", [0.0, 0.0], dict(dt=2.0 ** -9))):
        runs.append(dict(hf, label=f"{kind}/history {_hist_name(hist)}/psi={name}" + ("".join(f"/{k}={x}" for k, x in extra.items())),
                         dev=kind, current=cur, history=hist, terminal_psi=v, **extra))
    if not ctx.quick:
        for kind, tname, moves in (("tee", "top", (["translate", [1.2, 0.0]], ["translate", [-1.5, 0.0]],
                                                   ["points", [["translate", [0.9, 0.0]]]], ["points", [["scale", [0.5, 1.0]], ["translate", [1.4, 0.0]]]])),
                                   ("cross", "bottom", (["translate", [-1.3, 0.0]], ["scale", [-1.0, 1.0]], ["rotate", 180.0],
                                                        ["points", [["scale", [-1.2, 1.0]]]]))):
            for how in moves:
                for name, v in (("0", [0.0, 0.0]), ("0.3j", [0.0, 0.3]), ("None", "none")):
                    for first in (["look"], ["solve", v]):
                        hist = [first, ["edit", tname, *how]]
                        if kind == "cross" and how[0] == "rotate":       # bottom -> top: move the top terminal out of the way first
                            hist = [first, ["edit", "top", "rotate", 180.0], ["edit", tname, *how]]
                        runs.append(dict(hf, label=f"{kind}/history {_hist_name(hist)}/psi={name}/10 steps", dev=kind, current=(2.0 if kind == "tee" else 0.0),
                                         history=hist, terminal_psi=v, steps=10))
            runs.append(dict(hf, label=f"{kind}/history edit+mesh/psi=0", dev=kind, current=0.0, dt=2.0 ** -9,
                             history=[["look"], ["edit", tname, *moves[0]], ["mesh", 0.6]], terminal_psi=[0.0, 0.0]))
            runs.append(dict(hf, label=f"{kind}/history two edits/psi=0", dev=kind, current=0.0,
                             history=[["look"], ["edit", tname, *moves[0]], ["solve", [0.0, 0.0]],
                                      ["edit", tname, "translate", [-2.4 if kind == "tee" else 2.4, 0.0]]],
                             terminal_psi=[0.0, 0.0], steps=10))
    # equivalent API forms of configuring the terminal value: keyword (all runs above), attribute assignment after
    # construction (None -> value, value -> None, value -> other value), dataclasses.replace, copy / deepcopy / pickle
    # of an options object, options read back from a Solution file
    af = dict(dev="bar", field=0.5, current=2.0, steps=6, ramp=None)
    for form, psi0, v in (("assign", "none", [1.0, 0.0]), ("assign", [1.0, 0.0], "none"), ("assign", [0.0, 0.0], "none"),
                          ("assign", "none", [0.0, 0.0]), ("assign", [0.5, 0.0], [-0.3, 0.0]),
                          ("replace", [0.0, 0.0], "none"), ("replace", "none", [0.6, 0.2]),
                          ("copy", None, "none"), ("deepcopy", None, [1.0, 0.0]), ("pickle", None, "none"),
                          ("file", None, "none"), ("file", None, [0.5, 0.2])):
        r = dict(af, label=f"bar/options by {form}: {psi0 if psi0 is not None else ''}{' -> ' if psi0 is not None else ''}{v}",
                 form=form, terminal_psi=v)
        if psi0 is not None:
            r["psi0"] = psi0
        runs.append(r)
    if not ctx.quick:
        for dev in ("barhole", "tee"):
            for form, psi0, v in (("assign", [0.3, 0.0], "none"), ("assign", "none", [0.3, 0.4]), ("replace", [1.0, 0.0], "none"),
                                  ("deepcopy", None, "none"), ("pickle", None, [0.0, 0.0]), ("file", None, "none")):
                r = dict(label=f"{dev}/options by {form}: {psi0} -> {v}", dev=dev, field=0.6, current=(3.0 if dev == "barhole" else 0.0),
                         steps=12, ramp=None, form=form, terminal_psi=v)
                if psi0 is not None:
                    r["psi0"] = psi0
                runs.append(r)
            runs.append(dict(label=f"{dev}/options by assign: 0 -> None/screening", dev=dev, field=0.2, current=0.0, steps=4, ramp=None,
                             form="assign", psi0=[0.0, 0.0], terminal_psi="none", screening=True, screening_tol=1e-2))
    if not ctx.quick:
        for dev in ("barhole", "tee"):
            for label, chain, v in (("0 -> 0.6+0.2j", [[0.0, 0.0]], [0.6, 0.2]), ("0.6+0.2j -> -0.3 -> 1", [[0.6, 0.2], [-0.3, 0.0]], [1.0, 0.0]),
                                    ("None -> 0.3j", ["none"], [0.0, 0.3]), ("0.5 -> None", [[0.5, 0.0]], "none"),
                                    ("0.5 -> 0", [[0.5, 0.0]], [0.0, 0.0])):
                runs.append(dict(label=f"{dev}/seeded psi: {label}", dev=dev, field=0.6, current=(3.0 if dev == "barhole" else 0.0),
                                 steps=15, ramp=None, seed_chain=chain, terminal_psi=v))
        for name, v in vals + [("-1", [-1.0, 0.0])]:
            runs.append(dict(label=f"bar/psi={name}/adaptive-retries/strong", dev="bar", field=1.0, current=20.0,
                             adaptive=dict(dt_init=0.25, dt_max=2.0, solve_time=3.0), ramp=None, terminal_psi=v, need_retries=3))
            runs.append(dict(label=f"bar/psi={name}/adaptive/default-like", dev="bar", field=0.5, current=5.0,
                             adaptive=dict(dt_init=1e-4, dt_max=0.1, solve_time=0.6, window=10), ramp=None, terminal_psi=v))
            runs.append(dict(label=f"tee/psi={name}/adaptive-retries/ramp", dev="tee", field=0.8, current=0.0,
                             adaptive=dict(dt_init=0.1, dt_max=1.0, solve_time=2.0), ramp=dict(r1=0.5, T1=1e9), terminal_psi=v))
        for dev in ("bar", "barhole", "tee", "cross"):
            for name, v in vals + [("-1", [-1.0, 0.0]), ("0.3j", [0.0, 0.3])]:
                for fld, cur in ((0.0, 3.0), (0.8, 0.0), (0.4, 6.0)):
                    cur = cur if dev in ("bar", "barhole") else 0.0
                    if not fld and not cur:
                        continue
                    runs.append(dict(label=f"{dev}/psi={name}/B={fld}/I={cur}", dev=dev, field=fld, current=cur, steps=25,
                                     ramp=None, terminal_psi=v))
                runs.append(dict(label=f"{dev}/psi={name}/ramp/screening", dev=dev, field=0.15, current=0.0, steps=4,
                                 ramp=dict(r1=0.8, T1=1e9), terminal_psi=v, screening=True, screening_tol=1e-2))
    return runs


def operator_level(ctx, rnd):
    inv_ops = oc.INV_C06_OPS + ["RefreshEqualsRebuild"]
    # ---- 1. operator level
    jobs = oc.ops_level(ctx, "C06", inv_ops, rnd, nsample=60 if ctx.quick else 8000, short=3,
                        mutants=[m for m in oc.OPS_MUTANTS if m[0] in ("MMask", "MFixPsi")] if ctx.quick else None)
    ops_traces = [t for r in rf.replay_all(ctx, jobs) for t in r]
    good = oc.judge_ops_traces(ctx, "C06", ops_traces, inv_ops)
    pinned_ok = [n for n in good if ops_traces[n]["mode"] == "terminals" and len(ops_traces[n]["ev"]) >= 3]
    for n in pinned_ok[:1]:
        t = ops_traces[n]
        ctx.sample({"level": "ops", "instance": t["inst"], "pinned": t["mode"], "q_sequence": [e["q"] for e in t["ev"]],
                    "pinned_rows_per_call": [e["pinrows"] for e in t["ev"]], "other_rows_pinned": [e["other"] for e in t["ev"]]})
    if pinned_ok:
        def unpin(tr):
            tr["ev"][-1]["pinrows"] = "mixed"
            return tr

        def pin_other(tr):
            tr["ev"][1]["other"] = True
            return tr
        oc.in_parallel([lambda: oc.canary(ctx, ops_traces[pinned_ok[0]], oc.REPAIRED, inv_ops, unpin, "C06/ops pinned row lost"),
                        lambda: oc.canary(ctx, ops_traces[pinned_ok[-1]], oc.REPAIRED, inv_ops, pin_other, "C06/ops other row pinned")])
    elif not ctx.violations:
        raise core.MachineryFailure("C06: no operator replay with pinned rows was accepted")


def solver_level(ctx):
    nat = natural_matrix(ctx)
    results = rf.replay_all(ctx, [("call", dict(module="harness.opscache", func="natural_run", args=a)) for a in nat])
    nat, nat_traces = oc.split_aborted(ctx, nat, results)
    # vacuity guard: the runs meant to exercise the retry path must have retried steps
    for a, t in zip(nat, nat_traces):
        if a.get("need_retries") and t["info"]["retried_steps"] < a["need_retries"]:
            raise core.MachineryFailure(f"C06: run {a['label']} has only {t['info']['retried_steps']} retried steps "
                                        f"(needs >= {a['need_retries']}): the retry path is not exercised")
    ctx.cov["retried_steps_observed"] = {a["label"]: [t["info"]["retried_steps"], t["info"]["steps"]]
                                         for a, t in zip(nat, nat_traces) if a.get("adaptive")}
    if sum(1 for t in nat_traces if t["seed"] == "other" and t["v"] == "nonzero") < 2 or \
            not any(t["seed"] == "other" and t["v"] == "zero" for t in nat_traces) or \
            not any(t["info"]["seeded"] and t["v"] == "none" for t in nat_traces):
        raise core.MachineryFailure("C06: seeded runs whose terminal values differ from the configured one are missing")
    # vacuity guards of the device dimensions: the oracle must find terminal sites on every device with terminals;
    # xi != 1 and re-meshed devices (with MORE terminal sites after the second meshing) must be present
    for a, t in zip(nat, nat_traces):
        if t["mode"] != "none" and t["info"]["terminal_sites"] < 4:
            raise core.MachineryFailure(f"C06: the geometric oracle finds {t['info']['terminal_sites']} terminal sites in {a['label']}")
    if sum(1 for t in nat_traces if t["mode"] != "none" and t["info"]["xi"] < 1.0) < 2 or \
            sum(1 for t in nat_traces if t["mode"] != "none" and t["info"]["xi"] > 1.0) < 2:
        raise core.MachineryFailure("C06: devices with coherence_length < 1 and > 1 length unit are missing (runs refused?)")
    if sum(1 for t in nat_traces if t["info"]["remeshed"] and t["info"]["remeshed"][-1][1] > t["info"]["remeshed"][0][1]
           and t["info"]["remeshed"][-1][0] != t["info"]["remeshed"][0][0]) < 2:
        raise core.MachineryFailure("C06: re-meshed devices whose second mesh has more terminal sites are missing")
    tforms = {a.get("terminal_form", "box") for a in nat}
    tops = {op for a in nat for op, _ in (a.get("transform") or [])}
    if not {"box", "ccw", "cw", "closed"} <= tforms or not {"scale", "rotate", "translate"} <= tops or \
            not any(op == "scale" and min(arg) < 0 for a in nat for op, arg in (a.get("transform") or [])):
        raise core.MachineryFailure(f"C06: terminal forms {sorted(tforms)} / derived devices {sorted(tops)} (incl. a mirror) are incomplete")
    # device histories: terminals changed in place after a use and not meshed again, by every in-place form, with sites
    # that stay / enter / leave the terminals (as in the model's instances: term vs term0); "reset" histories; unset value
    edited = [(a, t) for a, t in zip(nat, nat_traces) if t.get("hist") == "edited"]
    for a, t in edited:
        h = t["info"]["history"]
        if t["mode"] != "none" and min(h["stay"], h["enter"], h["leave"]) < 1:
            raise core.MachineryFailure(f"C06: history run {a['label']}: terminal sites stay/enter/leave = "
                                        f"{h['stay']}/{h['enter']}/{h['leave']}: the change of the terminal is not visible on this mesh")
    hows = {h for _, t in edited for h in t["info"]["history"]["edits"]}
    if sum(1 for _, t in edited if t["mode"] == "terminals") < 5 or not {"translate", "scale", "rotate", "points"} <= hows or \
            not any(t["mode"] == "disabled" for _, t in edited) or \
            sum(1 for t in nat_traces if t.get("hist") == "reset" and t["mode"] == "terminals") < 2:
        raise core.MachineryFailure(f"C06: device histories with terminals edited in place are incomplete: {len(edited)} edited runs, "
                                    f"in-place forms {sorted(hows)}")
    ctx.cov["device_histories"] = {a["label"]: t["info"]["history"] for a, t in zip(nat, nat_traces) if t["info"].get("history")}
    forms = {(t["form"], t["v0"] == "none", t["v"] == "none") for t in nat_traces}
    if not {("assign", False, True), ("assign", True, False)} <= forms or \
            not {"replace", "copy", "deepcopy", "pickle", "file"} <= {f for f, _, _ in forms}:
        raise core.MachineryFailure(f"C06: not every API form of configuring terminal_psi was exercised: {sorted(forms)}")
    if sum(1 for a in nat if a.get("need_retries")) < 3:
        raise core.MachineryFailure("C06: fewer than 3 adaptive runs with retries completed")
    # ---- 2. solver level: which pin mechanism does the code implement?  (TLC decides)
    if not any(t["v"] == "nonzero" for t in nat_traces):
        raise core.MachineryFailure("C06: no natural run with a nonzero terminal value")
    cands = {"configured value written after every accepted Euler step": oc.REPAIRED,
             "configured value written after every accepted Euler step, when it is nonzero": dict(oc.REPAIRED, MReimpose="nonzero"),
             "identity row only (pinned code)": dict(oc.REPAIRED, MReimpose="never"),
             "nonzero configured value written only when the step was not retried": dict(oc.REPAIRED, MReimpose="nonzero",
                                                                                         MReimposeOnRetry=False),
             "incoming terminal values written back (nonzero configured value)": dict(oc.REPAIRED, MReimpose="incoming_nonzero"),
             "fix_psi flag frozen when the options object is constructed": dict(oc.REPAIRED, MFixFlag="at_construction"),
             "terminal sites evaluated once per mesh (not from the current terminal polygons)": dict(oc.REPAIRED, MTermInfo="per_mesh")}
    # identification needs only the runs that can tell the mechanisms apart; every run is then judged under the
    # identified mechanism (a run that does not conform to it is a violation)
    telling = [t for t in nat_traces if t["v"] == "nonzero" or t["seed"] == "other" or t["form"] == "assign"
               or t["info"]["retried_steps"] > 0 or t.get("hist") == "edited"]
    full, res = oc.identify_among(ctx, telling, cands, "C06 natural runs that discriminate the mechanisms")
    if len(full) >= 2:
        raise core.MachineryFailure(f"C06: the natural runs do not discriminate the pin mechanisms {full}")
    which = full[0] if full else "configured value written after every accepted Euler step"
    mech = cands[which]
    reimpose = mech == oc.REPAIRED
    ctx.cov["mechanism_identified_by_trace_validation"] = {"pin": which if full else None}
    # device histories: in the thorough tier inside the large bounds; in the quick tier in a model of their own (small bounds: the
    # history enters through the site set the solver works with only, which is fixed at Ctor)
    sb = dict(oc.STEP_DEFAULT) if ctx.quick else dict(oc.STEP_DEFAULT, Hists=oc.HISTS, MaxSteps=5, MaxIter=2, AMax=4, IMax=4)
    ctx.cov["bounds"]["OpsCache/SpecStep"] = sb
    small = dict(oc.STEP_DEFAULT, Dyns=[False], MaxSteps=2)
    thunks = [lambda: oc.model_check(ctx, sb, mech, oc.INV_C06_STEP, "SpecStep", "ViewStep",
                                     f"OpsCache/SpecStep[C06, pin mechanism of the code under test: {which}]",
                                     required=["Ctor", "FieldStep", "TrigRefresh", "Links", "NoLinks", "EulerStep", "InducedStep", "Finish"]),
              lambda: ctx.model_check("OpsCache", oc.cfg_text(small, oc.PINNED, ["PinnedSitesStayPinned"], "SpecStep", view="ViewStep"),
                                      name="OpsCache/SpecStep[identity row only (pinned code) must violate PinnedSitesStayPinned]",
                                      expect_violation="PinnedSitesStayPinned", count=False),
              lambda: ctx.model_check("OpsCache", oc.cfg_text(dict(small, Vs=["zero"], Scrs=[True]), dict(oc.PINNED, MMask=False),
                                                              ["PinnedSitesStayPinned"], "SpecStep", view="ViewStep"),
                                      name="OpsCache/SpecStep[refresh without the free-row mask must violate PinnedSitesStayPinned]",
                                      expect_violation="PinnedSitesStayPinned", count=False),
              lambda: ctx.model_check("OpsCache", oc.cfg_text(dict(small, Vs=["none"]), dict(oc.REPAIRED, MFixPsi=False),
                                                              ["UnsetMeansFree"], "SpecStep", view="ViewStep"),
                                      name="OpsCache/SpecStep[fix_psi ignored must violate UnsetMeansFree]",
                                      expect_violation="UnsetMeansFree", count=False)]
    for label, mm, vs in (("value written only when the step was not retried", dict(oc.REPAIRED, MReimposeOnRetry=False), ["nonzero"]),
                          ("incoming terminal values written back", dict(oc.REPAIRED, MReimpose="incoming_nonzero"), ["nonzero"]),
                          ("only a nonzero configured value is written (seeded start)", dict(oc.REPAIRED, MReimpose="nonzero"), ["zero"])):
        thunks.append(lambda label=label, mm=mm, vs=vs: ctx.model_check(
            "OpsCache", oc.cfg_text(dict(small, Vs=vs, Scrs=[False], Modes=["terminals"]), mm, ["PinnedSitesStayPinned"], "SpecStep",
                                    view="ViewStep"),
            name=f"OpsCache/SpecStep[{label}: must violate PinnedSitesStayPinned]",
            expect_violation="PinnedSitesStayPinned", count=False))
    thunks.append(lambda: ctx.model_check(
        "OpsCache", oc.cfg_text(dict(small, Scrs=[False], Seeds=["configured"]), dict(oc.REPAIRED, MFixFlag="at_construction"),
                                ["UnsetMeansFree"], "SpecStep", view="ViewStep"),
        name="OpsCache/SpecStep[fix_psi flag frozen at options construction: must violate UnsetMeansFree]",
        expect_violation="UnsetMeansFree", count=False))
    # terminal sites kept from before an in-place change of a terminal polygon: every clause about WHERE psi is pinned fails
    for clause in ("FixedRowsAreIdentity", "NoOtherRowPinned", "PinnedSitesStayPinned"):
        thunks.append(lambda clause=clause: ctx.model_check(
            "OpsCache", oc.cfg_text(dict(small, Vs=["zero"], Scrs=[False], Seeds=["configured"], Modes=["terminals"], Hists=["edited"]),
                                    dict(oc.REPAIRED, MTermInfo="per_mesh"), [clause], "SpecStep", view="ViewStep"),
            name=f"OpsCache/SpecStep[terminal sites evaluated once per mesh, terminals edited in place: must violate {clause}]",
            expect_violation=clause, count=False))
    if ctx.quick:
        thunks.append(lambda: oc.model_check(ctx, dict(small, Hists=oc.HISTS, Modes=["terminals", "disabled"]), mech, oc.INV_C06_STEP, "SpecStep",
                                             "ViewStep", f"OpsCache/SpecStep[C06, device histories {oc.HISTS}, pin mechanism of the code under test: {which}]",
                                             required=["Ctor", "EulerStep", "Finish"]))
    out = {}

    def judge():       # every recorded run, every state (every step, every saved frame): the clauses themselves
        out["v"] = oc.validate(ctx, nat_traces, mech, oc.INV_C06_STEP, "C06 natural runs")
    thunks.append(judge)
    if not reimpose:
        thunks.append(lambda: ctx.model_check("OpsCache", oc.cfg_text(small, oc.REPAIRED, oc.INV_C06_STEP, "SpecStep", view="ViewStep"),
                                              name="OpsCache/SpecStep[value re-imposed (candidate repair)]", count=False))
    oc.in_parallel(thunks)
    acc, bad, _ = out["v"]
    for n, (a, tr) in enumerate(zip(nat, nat_traces)):
        ctx.note_case(("C06", "natural", a["label"]), tr["mode"] != "none")
        info = tr["info"]
        if n in acc and n in bad:
            pos, clause = bad[n][0]
            ctx.violation(f"C06:{clause}:natural:{a['label']}",
                          f"C06: real solver run '{a['label']}' ({info['sites']} sites, {info['terminal_sites']} terminal sites, "
                          f"{info['steps']} steps{', seeded' if info['seeded'] else ''}): {clause} is false in {len(bad[n])} states, first at event {pos}; "
                          + ("the order parameter on the terminal sites leaves the configured value" if clause == "PinnedSitesStayPinned"
                             else "the identity rows of the operators in use are not exactly the rows of the sites to be pinned; configured value")
                          + f" {a['terminal_psi']} (options by {a.get('form', 'keyword')}): max deviation after an "
                          f"update {info['max_terminal_deviation_after_update']:.3g} (in the saved frames "
                          f"{info['max_terminal_deviation_in_frames']:.3g}; {info['retried_steps']} retried steps)",
                          {"input": a, "info": info, "false_clauses": bad[n][:20], "trace": tr, "mechanism": mech})
        elif n not in acc:
            oc.report_rejected(ctx, "C06:natural", f"{a['label']} (retried steps {info['retried_steps']}/{info['steps']}, max "
                               f"deviation on terminal sites after an update {info['max_terminal_deviation_after_update']:.3g}, "
                               f"after a retried update {info['max_terminal_deviation_after_retried_update']:.3g})",
                               tr, mech, oc.INV_C06_STEP, {"input": a, "info": info})
    goodn = [n for n in sorted(acc) if n not in bad]
    for n in goodn[:4]:
        ctx.sample({"level": "step", "input": nat[n], "events": [e["ev"] for e in nat_traces[n]["ev"]][:16],
                    "last_event": nat_traces[n]["ev"][-1], "info": {k: v for k, v in nat_traces[n]["info"].items() if k != "input"}})
    pinned = [n for n in goodn if nat_traces[n]["mode"] == "terminals"]
    free = [n for n in goodn if nat_traces[n]["mode"] == "disabled"]
    if pinned and free:
        def drift(tr):
            fin = [e for e in tr["ev"] if e["ev"] == "finish"]
            fin[len(fin) // 2]["term"] = "drift"
            return tr

        def frame_drift(tr):
            tr["ev"][-1]["frames"] = "drift"
            return tr

        def stuck(tr):
            tr["ev"][-1]["term_evolved"] = False
            return tr

        def everything_pinned(tr):
            tr["ev"][-1]["nonterm_evolved"] = False
            return tr
        oc.in_parallel([lambda: oc.canary(ctx, nat_traces[pinned[0]], mech, oc.INV_C06_STEP, drift, "C06/natural value drifts"),
                        lambda: oc.canary(ctx, nat_traces[pinned[-1]], mech, oc.INV_C06_STEP, frame_drift, "C06/natural frame drifts"),
                        lambda: oc.canary(ctx, nat_traces[free[0]], mech, oc.INV_C06_STEP, stuck, "C06/natural unset value stuck"),
                        ] + ([] if ctx.quick else [
                            lambda: oc.canary(ctx, nat_traces[pinned[0]], mech, oc.INV_C06_STEP, everything_pinned,
                                              "C06/natural non-terminal sites frozen")]))
    elif not ctx.violations:
        raise core.MachineryFailure("C06: no accepted natural run with pinned / with free terminals")


def run(ctx):
    rnd = random.Random(ctx.seed)
    ctx.cov["bounds"] = {}
    # the operator level and the solver level are independent: side by side
    oc.in_parallel([lambda: operator_level(ctx, rnd), lambda: solver_level(ctx)])
    ctx.cov["rule"] = ("operator level: as C10 (sequences of link configurations per instance x pinned set replayed on the real "
                       "MeshOperators; identity-row flags of terminal rows and of all other rows after every call).  solver level: "
                       "natural runs per (device, terminal_psi, drive, screening); after every Euler step and update and in every "
                       "saved frame the values on the terminal sites (geometric oracle: boundary sites of the mesh inside the terminal "
                       "polygons the harness specified, followed through in-place changes of the polygons by the harness's own "
                       "arithmetic; alongside: Device.terminal_info() sites) are classified (exact equality for 0, 1e-12 otherwise); "
                       "device histories: used -> terminal polygon changed in place -> solved again without / with re-meshing; non-trivial = run on a device with terminals; distinct = distinct sequences / run labels")
    ctx.assume("natural runs are driven (field and/or current), so that 'non-terminal sites evolve' and 'unset terminals evolve' "
               "are observable; the uniform stationary state (C17) is not used here")
    ctx.assume("the per-site Euler update on a pinned row is modelled by its fixed-point structure only (0 stays 0, any other "
               "value moves), as derived from docs/background.rst; magnitudes are observed, not modelled")


def replay(ctx, path):
    return oc.replay_file(ctx, path, sorted(set(oc.INV_C06_STEP + ["RefreshEqualsRebuild"])))
