"""C16 — parameter arithmetic means pointwise arithmetic of its operands.
Decided with spec/ParamAlg.tla (+ ParamAlgTrace.tla), bound to the real tdgl.Parameter / CompositeParameter
classes by harness/paramalg.py: see DESIGN.md 3.6 and 5/C16.

1. design: TLC enumerates the expression trees (through Next, one operator at a time) and checks the clauses
   EvalIsPointwise, TimeDepIffSomeOperand, EqIsStructural, NestingTotal, ClearCacheTotal, PickleRoundTrip,
   SolverAcceptsComposite on the object-level state machine; the mechanism of the pinned classes, a cache keyed
   without the time and a cache keyed by CPython's hash of the time / of the keyword values (hash(-1) = hash(-2)) must
   violate them (design canaries).
2. spec -> code: every enumerated tree (printed by TLC with the values the property expects) is built with the real
   classes through the Python operators and exercised: ==, calls at scalar and array arguments in every argument
   form, _clear_cache, pickle / cloudpickle round trip with the copy exercised again; trees of the solver domain are
   handed to the real solver on a tiny device.
3. code -> spec: the recorded traces are validated by TLC against ParamAlgTrace (TLC decides)."""
import random

from harness import core, paramalg as pa, runfamily as rf

LEVEL = "model_checking"

ACTIONS = ["Grow", "Twin", "Ship", "Konst", "Build", "MShipDeliver", "MIntDeliver", "MDeliver", "MCall", "MRetune", "MRetuneS", "MEq", "MClear", "MPickle", "Unpickle", "MCallCopy", "MClearCopy", "MSolve"]


def neighbours(tree, prev):
    """Other expressions the tree is compared with (environment choice; TLC decides what == must answer)."""
    out = []
    if pa.kinds(tree) & pa.SHIPPED:
        return []
    if pa.kinds(tree) & pa.TWINS:
        # an expression with twins is only compared with expressions that have the same leaf in every position
        return [{"k": "N", "op": "sub" if tree["op"] != "sub" else "add", "l": tree["l"], "r": tree["r"]}]
    if tree["k"] == "N":
        out.append({"k": "N", "op": tree["op"], "l": tree["r"], "r": tree["l"]})      # operands swapped
        out.append({"k": "N", "op": "sub" if tree["op"] != "sub" else "add", "l": tree["l"], "r": tree["r"]})
        out.append(tree["l"])
    else:
        out += [{"k": k} for k in ("P2", "P3", "PT") if k != tree["k"]]
    if prev is not None:
        out.append(prev)
    return [o for o in out if o["k"] not in ("I", "F")]


def run(ctx):
    quick = ctx.quick
    mod = 251 if quick else 1
    deep = 9973 if quick else 211      # quick: ~300 trees of level 2, ~70 of level 3
    max_level = 3
    ctx.cov["bounds"] = {"ParamAlg": dict(leaves=["P2", "P3", "PT", "int 2", "float 0.5"], operators=["+", "-", "*", "/", "**"],
                                          operator_levels_exhaustive=1 if quick else 2,
                                          level2_sampled_1_in=mod, twinned_shipped_constant_forms_of_level2_trees_1_in=1 if quick else 5, deeper_levels=max_level, deeper_sampled_1_in=deep,
                                          points=pa.POINTS, times=[t / pa.Q for t in pa.TIMES], Q=pa.Q, Lim=pa.LIM),
                         "mechanism": pa.MECH}
    ctx.cov["exhaustive"] = not quick
    # ---- 1. design: TLC decides the clauses on the specification and exports the trees
    # (thorough: the exhaustive run goes without TLC's coverage instrumentation; vacuity is guarded on a sampled run)
    r = ctx.model_check("ParamAlg", pa.model_cfg(max_level, mod, ctx.seed, pa.MECH, pa.INVARIANTS + ["Emit"], deep=deep, var=1 if quick else 5),
                        name="ParamAlg[C16]", required_actions=ACTIONS if quick else (), timeout=2400, heap="8g")
    if not quick:
        ctx.model_check("ParamAlg", pa.model_cfg(2, 199, ctx.seed, pa.MECH, pa.INVARIANTS), name="ParamAlg[C16, coverage of actions]",
                        required_actions=ACTIONS, count=False)
    items = pa.parse_export(r)
    if len(items) < 108:
        raise core.MachineryFailure(f"C16: only {len(items)} expressions exported")
    by_level = {}
    for it in items:
        by_level[it["level"]] = by_level.get(it["level"], 0) + 1
    ctx.cov["expressions_enumerated"] = {"total": len(items), "by_operator_level": by_level}
    # chains of scalars ((X op a) op b, a op (b op X)): every one enumerated in every tier, each compared with the
    # single-operator forms on a combined number, and |X| = (X ** 2) ** 0.5 claimed exactly where X is negative
    per, nfold, nabs = pa.chain_stats(items)
    ctx.cov["expressions_enumerated"].update({"scalar_chains_by_nesting_and_operator": dict(sorted(per.items())),
                                              "scalar_chain_vs_single_operator_form_pairs_compared": nfold,
                                              "exact_values_of_sqrt_of_square_at_negative_leaf_values": nabs})
    if len(per) < 10 or min(per.values()) < 12 or nfold < 300 or nabs < 6:
        raise core.MachineryFailure(f"C16: chains of scalars vacuous: {per}, {nfold} comparisons with single-operator forms, "
                                    f"{nabs} exact |leaf| values at negative leaf values")
    # design canaries: the pinned mechanism must violate the clauses (each switch on its own), and so must a cache
    # that ignores the time argument
    cases = []
    for mech, inv, lvl in ((dict(pa.MECH, MInitUseCache=False), "NestingTotal", 2),
                           (dict(pa.MECH, MClearByOperand=False), "ClearCacheTotal", 1),
                           (dict(pa.MECH, MClearByOperand=False), "SolverAcceptsComposite", 1),
                           (dict(pa.MECH, MPickleSlots=False), "PickleRoundTrip", 1),
                           (dict(pa.MECH, MCacheKeyTime=False), "EvalIsPointwise", 1),
                           (dict(pa.MECH, MCacheKeyHashT=True), "EvalIsPointwise", 1),
                           (dict(pa.MECH, MCacheKeyHashK=True), "EvalIsPointwise", 1),
                           (dict(pa.MECH, MReuseEqual=True), "EvalIsPointwise", 1),
                           (dict(pa.MECH, MCacheKeyBuffer=True), "EvalIsPointwise", 1),
                           (dict(pa.MECH, MRampClamp=True), "EvalIsPointwise", 1),
                           (dict(pa.MECH, MCacheKeyXOnly=True), "EvalIsPointwise", 1),
                           (dict(pa.MECH, MConstDtype=True), "EvalIsPointwise", 1),
                           (dict(pa.MECH, MEqFlat=True), "EqIsStructural", 2)):
        sw = "/".join(k for k in mech if mech[k] != pa.MECH[k])
        cases.append((f"ParamAlg[{sw} as pinned/mutated, {inv}]", pa.model_cfg(lvl, 211, ctx.seed, mech, [inv]), inv))
    pa.design_canaries(ctx, cases)

    # ---- 2. spec -> code: build and exercise every tree with the real classes
    rnd = random.Random(ctx.seed)
    items.sort(key=lambda it: (it["level"], it["h"], pa.show(it["tree"])))
    prev = None
    work = []
    for it in items:
        # == is asked about neighbours chosen here and about every other SHAPE of the same flat reading exported by TLC
        work.append({"tree": it["tree"], "expect": it["expect"], "others": neighbours(it["tree"], prev) + list(it["eqs"])})
        if not it["twin"] and not it["ship"]:
            prev = it["tree"]       # (never the twinned form: a leaf and its twin are not compared)
    nchunk = 1 if len(work) < 1500 else 48
    size = (len(work) + nchunk - 1) // nchunk
    jobs = [("call", dict(module="harness.paramalg", func="exercise_many", args={"items": work[s:s + size]}))
            for s in range(0, len(work), size)]
    # expressions handed to the solver: the solver domain (3-D leaves, finite operators) and a few that the
    # solver must refuse (a 2-D leaf cannot take the z the solver passes)
    sdom = [it for it in items if it["solver"]]
    neg = [it for it in items if "P2" in pa.kinds(it["tree"]) and it["level"] <= 2 and not it["twin"] and not it["ship"] and not it["konst"]]
    rnd.shuffle(neg)
    nsolve = 60 if quick else 600
    keep = [it for it in sdom if it["level"] <= 1]
    rest = [it for it in sdom if it["level"] > 1]
    rnd.shuffle(rest)
    solve_items = (keep + rest)[:nsolve] + neg[:6 if quick else 40]
    jobs += [("call", dict(module="harness.paramalg", func="solve_tree", args={"tree": it["tree"]})) for it in solve_items]
    res = rf.replay_all(ctx, jobs)
    traces = [t for chunk in res[:len(jobs) - len(solve_items)] for t in chunk]
    straces = res[len(jobs) - len(solve_items):]
    for it, tr in zip(items, traces):
        ctx.note_case(tr["label"], nontrivial=it["level"] >= 1)
    for tr in straces:
        ctx.note_case(tr["label"], nontrivial=True)
    ntwin = sum(1 for it in items if it["twin"])
    nflat = sum(len(it["eqs"]) for it in items)
    ctx.cov["expressions_enumerated"].update({"with_twins_under_equal_operands": ntwin, "same_flat_reading_pairs_compared": nflat})
    nship = sum(1 for it in items if it["ship"])
    ndown = sum(1 for it in items if "RD" in pa.kinds(it["tree"]))
    nloop = sum(1 for it in items if "CL" in pa.kinds(it["tree"]))
    ctx.cov["expressions_enumerated"].update({"on_shipped_leaves": nship, "with_ramp_down": ndown, "linear_in_current_loop": nloop})
    nkonst = sum(1 for it in items if it["konst"])
    nkc = sum(1 for it in items if pa.kinds(it["tree"]) & {"KC2", "KC3"})
    nint = sum(1 for tr in traces for e in tr["ev"] if e["ev"] == "deliver" and e["a"] in ("arrI", "i1", "i2"))
    # deliveries in which only y or only z differs from the content delivered before with the same x at the same time,
    # on expressions whose caching (time-dependent, operand) leaf filled
    nyz = sum(1 for tr in traces for e in tr["ev"] if e["ev"] == "deliver" and e["a"] in ("arrY", "arrZ") and e["fill"] and e["obs"]["k"] == "v")
    ctx.cov["expressions_enumerated"].update({"on_tdgl_Constant": nkonst, "linear_in_complex_Constant": nkc})
    ctx.cov["deliveries_integer_typed_points"] = nint
    ctx.cov["deliveries_only_y_or_only_z_changed_on_caching_expressions"] = nyz
    if nkonst < 30 or nkc < 5 or nint < 300 or nyz < (100 if quick else 3000):
        raise core.MachineryFailure(f"C16: vacuous: {nkonst} expressions on tdgl.Constant ({nkc} complex), {nint} integer-typed "
                                    f"deliveries, {nyz} deliveries that change only y or z")
    if nship < 40 or ndown < 10 or nloop < 5:
        raise core.MachineryFailure(f"C16: shipped leaves vacuous: {nship} expressions, {ndown} with a ramp down, {nloop} on a current loop")
    if ntwin < 15 or nflat < 50:
        raise core.MachineryFailure(f"C16: input dimensions vacuous: {ntwin} twinned expressions, {nflat} same-flat pairs")
    # deliveries that put OTHER content into memory already delivered at the same time, on expressions with a caching
    # (time-dependent, operand) leaf
    nredeliver = 0
    for tr in traces:
        seen = {}
        for e in tr["ev"]:
            if e["ev"] == "deliver" and e["b"] != "tmp" and e["obs"]["k"] == "v" and e["fill"]:
                if (e["b"], e["t"]) in seen and seen[(e["b"], e["t"])] != e["a"]:
                    nredeliver += 1
                seen.setdefault((e["b"], e["t"]), e["a"])
    ctx.cov["deliveries_same_memory_other_content_same_time_on_caching_expressions"] = nredeliver
    if nredeliver < (150 if quick else 5000):
        raise core.MachineryFailure(f"C16: only {nredeliver} re-deliveries of the same memory with other content")
    if not any(e["ev"] == "call" and e["fill"] for tr in traces for e in tr["ev"]):
        raise core.MachineryFailure("C16: no call ever filled an operand cache — ClearCacheTotal would be vacuous")
    # calls that answer at a negative time right after a call at ANOTHER negative time in the same argument form, on an object
    # (original / unpickled copy) whose operand cache holds something: per ordered pair of times
    npair = {}
    for tr in traces:
        prev = {}
        for e in tr["ev"]:
            if e["ev"] == "unpickle":
                prev.pop("copy", None)
            if e["ev"] != "call":
                continue
            p = prev.get(e["who"])
            if (p is not None and p[0] == e["f"] and p[1] < 0 and e["t"] < 0 and p[1] != e["t"] and p[2]
                    and e["fill"] and e["obs"]["arr"]["k"] == "v"):
                k = f"{e['who']}: t={p[1] / pa.Q:g} then t={e['t'] / pa.Q:g}"
                npair[k] = npair.get(k, 0) + 1
            prev[e["who"]] = (e["f"], e["t"], bool(e["fill"]) and e["obs"]["arr"]["k"] == "v")
    ctx.cov["calls_at_a_negative_time_after_another_negative_time_on_caching_expressions"] = dict(sorted(npair.items()))
    # answered calls right after the keyword argument of the time-dependent leaves was edited in place, the call before the
    # edit having been answered in the same form at the same time: per ordered pair of keyword values
    nkw = {}
    for tr in traces:
        c_prev = c_now = None
        for e in tr["ev"]:
            if e["ev"] == "retune" and e["n"]:
                c_now = e["c"]
            elif e["ev"] == "call" and e["who"] == "orig" and c_now is not None:
                if e["fill"] and e["obs"]["arr"]["k"] == "v" and (e["f"], e["t"]) == pa.RETUNE_CALL:
                    if c_prev is not None and c_prev != c_now:
                        k = f"c={c_prev / pa.Q:g} then c={c_now / pa.Q:g}"
                        nkw[k] = nkw.get(k, 0) + 1
                    c_prev = c_now
                else:
                    c_prev = None
    ctx.cov["calls_after_the_keyword_argument_of_a_caching_operand_was_edited_in_place"] = dict(sorted(nkw.items()))
    # answered calls right after a keyword argument of the STATIC leaves was edited in place to another value, the call before
    # the edit having been answered in the same form at the same time: per object, on expressions of the shape
    # TD op (static op static) / (static op static) op TD (a static leaf under a static sub-composite of a time-dependent
    # composite) and on all others
    def td_over_static_composite(t):
        if t["k"] != "N":
            return False
        for a, b in ((t["l"], t["r"]), (t["r"], t["l"])):
            if (pa.kinds(a) & {"PT", "PTb"} and b["k"] == "N" and not pa.kinds(b) & {"PT", "PTb"}
                    and pa.kinds(b) & pa.STATIC_LEAVES):
                return True
        return td_over_static_composite(t["l"]) or td_over_static_composite(t["r"])

    nst = {}
    for tr in traces:
        shape = "td_over_static_composite" if td_over_static_composite(tr["tree"]) else "other"
        s_prev, s_now = {}, {}
        for e in tr["ev"]:
            if e["ev"] == "unpickle":
                s_prev.pop("copy", None), s_now.pop("copy", None)
            if e["ev"] == "retune_s" and e["n"]:
                s_now[e["who"]] = e["s"]
            elif e["ev"] == "call":
                w = e["who"]
                if e["obs"]["arr"]["k"] == "v" and w in s_now and s_prev.get(w, (None,))[1:] == (e["f"], e["t"]) and s_prev[w][0] != s_now[w]:
                    k = f"{w}: {shape}"
                    nst[k] = nst.get(k, 0) + 1
                s_prev[w] = (s_now.get(w, pa.Q), e["f"], e["t"]) if e["obs"]["arr"]["k"] == "v" else (None, None, None)
    ctx.cov["calls_after_the_keyword_argument_of_a_static_leaf_was_edited_in_place"] = dict(sorted(nst.items()))
    need_s = 20 if quick else 1000
    for k in ("orig: td_over_static_composite", "copy: td_over_static_composite", "orig: other", "copy: other"):
        if nst.get(k, 0) < need_s:
            raise core.MachineryFailure(f"C16: vacuous: only {nst.get(k, 0)} answered calls after an in-place edit of a static leaf's keyword argument '{k}'")
    need = 15 if quick else 1000
    for k in ("orig: t=-1 then t=-2", "orig: t=-2 then t=-1", "copy: t=-2 then t=-1"):
        if npair.get(k, 0) < need:
            raise core.MachineryFailure(f"C16: vacuous: only {npair.get(k, 0)} answered calls '{k}' on expressions with a caching operand")
    for k in ("c=-1 then c=-2", "c=-2 then c=-1"):
        if nkw.get(k, 0) < need:
            raise core.MachineryFailure(f"C16: vacuous: only {nkw.get(k, 0)} answered calls '{k}' on expressions with a caching operand")

    # ---- 3. code -> spec: TLC validates what the real objects did
    norm = [pa.normalise(t) for t in traces]
    accepted = pa.validate_parallel(ctx, norm, "objects", nbatch=3 if quick else 12, timeout=1500)
    snorm = [pa.normalise(t) for t in straces]
    saccepted = pa.validate_parallel(ctx, snorm, "solver", nbatch=1 if quick else 4)
    ctx.cov["traces_validated_against_impl"] += len(accepted) + len(saccepted)
    pa.report_rejected(ctx, "C16", traces, norm, accepted, "objects")
    pa.report_rejected(ctx, "C16", straces, snorm, saccepted, "solver")
    for n in sorted(accepted)[:: max(1, len(accepted) // 4)][:4]:
        ctx.sample({"expression": traces[n]["label"], "expected": {k: items[n][k] for k in ("td", "expect")},
                    "events": len(traces[n]["ev"]), "first_call": next((e for e in traces[n]["ev"] if e["ev"] == "call"), None)})
    for n in sorted(saccepted)[:2]:
        ctx.sample({"expression": straces[n]["label"], "events": straces[n]["ev"]})

    # ---- 4. canaries: a corrupted observation must be rejected
    def canary(mut, what):
        order = sorted(accepted)
        rnd.shuffle(order)
        for n in order[:400]:
            bad = mut(n) if items[n]["level"] >= 1 else None
            if bad is None:
                continue
            acc, _ = ctx.validate_traces("ParamAlgTrace", [bad], pa.trace_cfg(), name=f"canary[{what}]", count=False)
            if acc:
                raise core.MachineryFailure(f"C16: corrupted trace ({what}) accepted — the binding is vacuous")
            ctx.cov["canaries_rejected"] += 1
            return
        if len(accepted) > 20:
            raise core.MachineryFailure(f"C16: no accepted trace can carry the canary {what}")

    def mut_value(n):
        # shift by one unit a value that the model defines
        import copy
        it, bad = items[n], copy.deepcopy(norm[n])
        for e in bad["ev"]:
            if e["ev"] == "call" and it["expect"][e["f"]] == "val":
                exp = it["vals"][e["f"]][pa.TIMES.index(e["t"])]["arr"]
                o = e["obs"]["arr"]
                if o["k"] == "v":
                    for j, x in enumerate(exp):
                        if x != 999999:
                            o["v"][j] += 1
                            return bad
        return None

    canary(mut_value, "value shifted by 1/64")
    canary(lambda n: pa.corrupt_flag(norm[n]), "time_dependent flag flipped")
    ctx.cov["rule"] = ("one case = one expression tree enumerated by TLC, built with the real classes and exercised (==, 12 array deliveries into re-used / viewed / temporary memory, "
                       f"{4 * len(pa.ORIG_CALLS)} calls over 4 argument forms x scalar/array arguments x times (zero, positive, negative, "
                       "fractional, repeated and in both orders), "
                       f"{len(pa.RETUNES)} in-place edits of a keyword argument of the time-dependent leaves each followed by 4 calls, "
                       f"{len(pa.RETUNES_S)} (+ {len(pa.COPY_RETUNES_S)} on the unpickled copy) in-place edits of the keyword argument of the static leaves each followed by 4 calls, _clear_cache, two pickle round trips with the copy "
                       "exercised) or handed to the real solver; non-trivial = at least one operator; distinct = distinct trees "
                       "(+ distinct trees handed to the solver)")
    ctx.assume("values are compared on the exact evaluation domain (dyadics in units of 1/64, |v| <= 512); where the model's value "
               "is outside it (inexact division, division by zero, non-integer or large exponent) nothing is claimed")
    ctx.assume("a time passed to an expression without time dependence may be refused or ignored (never a wrong value)")
