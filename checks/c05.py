"""C05 — recorded frames, times and per-step records are consistent.
Decided with spec/TdglRun.tla (+ TdglRunTrace.tla): see DESIGN.md 3.1 and 5/C05."""
import random

from harness import core, runfamily as rf, runsim

LEVEL = "model_checking"


def bounds(ctx):
    if ctx.quick:
        return dict(Ks=[1, 2, 3, 4, 5], SolveTs=[0, 1, 2, 3, 4], SkipTs=[0, 2], DTS=[1, 2], MaxFaults=0,
                    FaultKinds=["KI"], OutModes=["temp", "path"], Foreigns=[[]], BadClasses=["none"])
    return dict(Ks=list(range(1, 15)), SolveTs=list(range(0, 13)), SkipTs=[0, 1, 3], DTS=[1, 2], MaxFaults=0,
                FaultKinds=["KI"], OutModes=["temp", "path"], Foreigns=[[]], BadClasses=["none"])


def run(ctx):
    b = bounds(ctx)
    ctx.cov["bounds"] = {"TdglRun": b, "mechanism": rf.MECH}
    # 1. the design: TLC decides every C05 clause on the specification
    ctx.model_check("TdglRun", rf.model_cfg(b, rf.MECH, rf.INV_C05), name="TdglRun[C05]",
                    required_actions=["Update", "SaveEnd", "Stop", "Final", "StageEnd", "Assemble"], timeout=3000)
    # design canary: the pinned mechanism must violate the clauses (the invariants are sharp)
    small = dict(b, Ks=[1, 2, 3], SolveTs=[0, 1, 2, 3], SkipTs=[0])
    for inv in ("FrameHoldsExactlyStepUpdates", "LoadedTimesAreFrameTimes", "UndisturbedRunLoads"):
        ctx.model_check("TdglRun", rf.model_cfg(small, rf.PINNED, [inv]), name=f"TdglRun[pinned mechanism, {inv}]",
                        expect_violation=inv, count=False)
    if not ctx.quick:
        rf.apalache_inductive(ctx)      # all k, all run lengths (counters abstraction); optional extra
    # 2. spec -> code: every behaviour (sampled in quick) is replayed against the real solve()
    eb = b if not ctx.quick else b
    if not ctx.quick:
        eb = dict(b, Ks=list(range(1, 9)), SolveTs=list(range(0, 8)))   # export bound for replay
    scripts, _ = rf.export_behaviours(ctx, eb, rf.MECH)
    rnd = random.Random(ctx.seed)
    rnd.shuffle(scripts)
    nmax = 700 if ctx.quick else 12000
    ctx.cov["behaviours_exported"] = len(scripts)
    ctx.cov["exhaustive"] = len(scripts) <= nmax
    scripts = scripts[:nmax]
    jobs = []
    for n, s in enumerate(scripts):
        s = dict(cfg={k: v for k, v in s["cfg"].items()}, tdts=s["tdts"], simdts=s["simdts"], flog=s["flog"],
                 probes=[0, 2, 3][n % 3], screening=bool((n // 3) % 2), progress=[10 ** 9, 3, 0][(n // 6) % 3],
                 warn_error=(n % 5 == 2))
        jobs.append(("script", s))
    # longer samples
    for n in range(6 if ctx.quick else 60):
        N = rnd.randint(13, 60)
        dts = [rnd.choice([1, 2, 3]) for _ in range(N + 2)]
        k = rnd.choice([1, 2, 7, 10, N, N + 2])
        T = sum(dts[:N]) - rnd.choice([0, 0, 1])
        sim = []
        t = 0
        for d in dts:
            if t >= T:
                break
            sim.append(d)
            t += d
        jobs.append(("script", dict(cfg=dict(k=k, solveT=T, skipT=0, out="temp", foreign=[], bad="none"),
                                    tdts=[], simdts=sim, flog=[], probes=[0, 2, 3][n % 3], screening=bool(n % 2),
                                    progress=10 ** 9)))
    # history: two runs of one process written to the same output path (the first removed with os.remove):
    # same save interval and frame count, different step sizes — nothing of the first run may show in the second
    for n in range(8 if ctx.quick else 40):
        k = [1, 2, 3][n % 3]
        N = rnd.randint(2, 6)
        jobs.append(("script", dict(cfg=dict(k=k, solveT=2 * N, skipT=0, out="path", foreign=[], bad="none"), tdts=[], simdts=[2] * N,
                                    flog=[], probes=[0, 2, 3][n % 3], screening=bool(n % 2), progress=10 ** 9,
                                    prior=dict(k=k, solveT=N, simdts=[1] * N))))
    # pause and resume: pause_on_interrupt is the package default — a KeyboardInterrupt inside the loop (in the update
    # before or after it appended its record, before or in the middle of a frame) answered "continue" must leave
    # every clause intact: the interrupted step is repeated, not skipped
    rb = dict(Ks=[1, 2, 3], SolveTs=[1, 2, 3, 4], SkipTs=[0, 2], DTS=[1, 2], MaxFaults=(1 if ctx.quick else 2),
              FaultKinds=["KIR"], OutModes=["temp", "path"], Foreigns=[[]], BadClasses=["none"])
    ctx.model_check("TdglRun", rf.model_cfg(rb, rf.MECH, rf.INV_C05), name="TdglRun[C05, pause/resume]",
                    required_actions=["Fault", "Update", "SaveEnd"], timeout=3000)
    ctx.model_check("TdglRun", rf.model_cfg(dict(rb, Ks=[2], SolveTs=[3], SkipTs=[0], MaxFaults=1), dict(rf.MECH, MResumeRepeats=False),
                                            ["FrameHoldsExactlyStepUpdates"]),
                    name="TdglRun[resume skips the step, FrameHoldsExactlyStepUpdates]", expect_violation="FrameHoldsExactlyStepUpdates", count=False)
    rscripts, _ = rf.export_behaviours(ctx, rb, rf.MECH, name="TdglRunGen[pause/resume]")
    rscripts = [s for s in rscripts if s["flog"]]
    rnd.shuffle(rscripts)
    ctx.cov["resume_behaviours_exported"] = len(rscripts)
    nres = 0
    for n, s in enumerate(rscripts[: (150 if ctx.quick else 3000)]):
        jobs.append(("script", dict(cfg=dict(s["cfg"]), tdts=s["tdts"], simdts=s["simdts"], flog=s["flog"], probes=[0, 2, 3][n % 3],
                                    screening=bool((n // 3) % 2), progress=[10 ** 9, 3, 0][(n // 6) % 3])))
        nres += 1
    if nres < 50:
        raise core.MachineryFailure(f"C05: only {nres} pause/resume behaviours to replay (vacuous)")
    # the same undisturbed behaviours with the default pause_on_interrupt=True (nobody interrupts: no prompt may appear)
    for n, s in enumerate(scripts[:40]):
        jobs.append(("script", dict(cfg=dict(s["cfg"]), tdts=s["tdts"], simdts=s["simdts"], flog=[], probes=[0, 2][n % 2], pause=True)))
    # 3. natural runs of the real solver (adaptive with retries, fixed step, screening, thermalisation)
    from harness import runnat
    jobs += [("natural", p) for p in runnat.c05_matrix(ctx)]
    traces = rf.replay_all(ctx, jobs)
    for (kind, p), t in zip(jobs, traces):
        nontrivial = sum(1 for e in t["ev"] if e["ev"] == "save") >= 2
        ctx.note_case((kind, rf.describe_script(p) if kind == "script" else str(sorted(p.items()))), nontrivial)
    accepted, norm = rf.validate(ctx, jobs, traces, rf.MECH, rf.INV_C05, runsim.normalise_for_tlc, "C05")
    # the natural runs must contain steps that were refused and retried with a smaller step (there the step that is
    # reported and the step the state was advanced with can differ) — verdicts first, then the guard
    refused = sum(t.get("info", {}).get("refused_evaluations", 0) for (kind, _), t in zip(jobs, traces) if kind == "natural")
    ctx.cov["refused_evaluations_in_natural_runs"] = refused
    if refused < 3 and not ctx.violations:
        raise core.MachineryFailure(f"C05: natural runs contain only {refused} refused evaluations (retried steps are not exercised)")
    for n in sorted(accepted)[:3]:
        ctx.sample({"input": jobs[n][1], "trace_events": [e["ev"] for e in norm[n]["ev"]],
                    "frames": norm[n]["ev"][-2].get("frames") if len(norm[n]["ev"]) > 1 else None})
    if accepted:
        rf.canary(ctx, norm, accepted, rf.MECH, rf.INV_C05, rf.mutate_frame_content, "C05/frame-content")
        rf.canary(ctx, norm, accepted, rf.MECH, rf.INV_C05, rf.mutate_drop_update, "C05/drop-update")
    ctx.cov["rule"] = ("behaviours of TdglRun (k, solve time, thermalisation, step-size sequence) exported by TLC and replayed "
                       "against the real TDGLSolver.solve with scripted physics, plus natural solver runs; a case is "
                       "non-trivial when the run writes at least two frames; distinct = distinct (input) tuples")
    ctx.assume("scripted physics: the update function is replaced, everything else (DataHandler, Runner, frame writer, "
               "Solution assembly/loader) is the real code; natural runs use the real update")


def replay(ctx, path):
    return rf.replay_file(ctx, path, rf.INV_C05, "C05")
