"""C03 — the finite-volume operators obey the discrete calculus identities.
Decided with spec/FVOps.tla (+ FVOpsTrace.tla): DESIGN.md 3.3 and 5/C03.

1. design: TLC checks the identities on every instance of the FVOps universe (meshes x weight patterns x link
   configurations, enumerated through Next) and exports every complete instance;
2. spec -> code: each exported instance (and explicit random integer instances) is injected into the real
   tdgl.finite_volume code through Mesh(...)/EdgeMesh(...); the dense matrices are recorded as exact rationals;
3. code -> spec: TLC (FVOpsTrace) compares every entry with the TLA+ definitions and evaluates the identities on the
   code's own matrices; generated float meshes are validated through integer residual facts (refops.py, itself
   validated by TLC on the exact instances)."""
import random

from harness import core, fvops, runfamily as rf

LEVEL = "model_checking"
INV = fvops.INV_TRACE_C03


def bounds(ctx):
    if ctx.quick:
        return dict(MeshIds=list(range(1, 10)), Patterns=[0, 5, 13, 26], MaxFree=3)
    return dict(MeshIds=list(range(1, 10)), Patterns=list(range(27)), MaxFree=4)


def run(ctx):
    b = bounds(ctx)
    ctx.cov["bounds"] = {"FVOps": dict(b, meshes=fvops.MESH_NAMES, links="first MaxFree links over 0..3, the others (e+mi)%4",
                                       weights="len,w in 1..3 (dual = w*len), area in 1..3 by pattern; geometric meshes G4, G7 exact")}
    # 1. the design
    r = ctx.model_check("FVOps", fvops.model_cfg(b["MeshIds"], b["Patterns"], b["MaxFree"], False, fvops.INV_MODEL_C03, emit=True),
                        name="FVOps[C03]", timeout=3000)
    ctx.cov["exhaustive"] = True
    # vacuity guard (TLC -coverage is slow, so on a small configuration; the main run is guarded by the number of exported instances)
    ctx.model_check("FVOps", fvops.model_cfg([2, 8], [13], 1, False, fvops.INV_MODEL_C03), name="FVOps[C03, action coverage]",
                    required_actions=["PickPattern", "PickLink", "FillLinks"], count=False)
    for inv in ("KernelIsConstantsEvenIfDisconnected", "NoConjIsHermitian"):
        ctx.model_check("FVOps", fvops.model_cfg(b["MeshIds"], [5], 2, False, [inv]), name=f"FVOps[sanity: {inv} must fail]",
                        expect_violation=inv, count=False)
    # 2. spec -> code
    insts = fvops.export_instances(r)
    if len(insts) < 16 * len(b["MeshIds"]):
        raise core.MachineryFailure(f"C03: TLC exported only {len(insts)} instances")
    ctx.cov["instances_exported"] = len(insts)
    rnd = random.Random(ctx.seed)
    first = {}
    for k, i in enumerate(insts):
        first.setdefault((i["mi"], i["pat"]), k)
    heavy = set(first.values())
    nmax = 260 if ctx.quick else 4500
    order = list(range(len(insts)))
    rnd.shuffle(order)
    chosen = sorted(heavy | set(order[: max(0, nmax - len(heavy))]))
    jobs = []
    for k in chosen:
        i = insts[k]
        chi = [rnd.randint(0, 3) for _ in range(i["mesh"]["n"])]
        jobs.append(("call", dict(module="harness.fvops", func="replay_exact",
                                  args=dict(mi=i["mi"], pat=i["pat"], geo=i["geo"], q=i["q"], mesh=i["mesh"], chi=chi,
                                            heavy=k in heavy, seed=rnd.randint(0, 10 ** 6), label=i["name"]))))
    for k in range(30 if ctx.quick else 400):
        jobs.append(("call", dict(module="harness.fvops", func="replay_exact",
                                  args=fvops.random_instance(rnd, rnd.choice(sorted(fvops.TOPOLOGIES))))))
    for nx, ny in ([(3, 3), (4, 3)] if ctx.quick else [(3, 3), (4, 3), (3, 5), (5, 4), (6, 5)]):
        jobs.append(("call", dict(module="harness.fvops", func="replay_exact", args=fvops.lattice_instance(rnd, nx, ny))))
    nexact = len(jobs)
    for m in fvops.float_meshes(ctx):
        jobs.append(("call", dict(module="harness.fvops", func="float_trace", args=m)))
    traces = rf.replay_all(ctx, jobs, nproc=8 if ctx.quick else None)
    refused = [t for t in traces if t["kind"] == "refused"]
    traces = [t for t in traces if t["kind"] != "refused"]
    ctx.cov["float_meshes_refused_by_mesh_smooth"] = [t["label"] for t in refused]
    # 3. code -> spec
    for t in traces:
        if t["kind"] == "exact":
            q = next(e["q"] for e in t["ev"] if e["ev"] == "op" and e["op"] == "covlap")
            ctx.note_case((t["label"], t["mi"], t["pat"], tuple(q), str(t["mesh"]["len"]) if t["mi"] == 0 else ""), any(q))
        else:
            ctx.note_case(("float", t["label"], t["sites"]), True)
    accepted = set()
    step = 300
    for lo in range(0, nexact, step):
        acc = fvops.validate(ctx, traces[lo:lo + step], "C03", INV)
        accepted |= {lo + n for n in acc}
    fvops.check_float_coverage(traces[nexact:])
    accf = fvops.validate(ctx, traces[nexact:], "C03/float", INV)
    accepted |= {nexact + n for n in accf}
    for n in sorted(accepted)[:2] + sorted(nexact + k for k in accf)[:2]:
        t = traces[n]
        ctx.sample({"label": t["label"], "kind": t["kind"], "mi": t["mi"], "pat": t["pat"],
                    "events": [(e["ev"], e.get("op", e.get("group")), e.get("src"), e.get("path")) for e in t["ev"]][:12],
                    "first_matrix": t["ev"][0].get("m") if t["kind"] == "exact" else t["ev"][0]["facts"]})
    # canaries (binding self-test); when nothing was accepted the violations above are the verdict
    if not ctx.violations and (not accf or not any(traces[n]["kind"] == "exact" for n in accepted)):
        raise core.MachineryFailure("C03: nothing accepted and no violation reported")
    fvops.canaries(ctx, traces, accepted, INV, "C03", ["lap_eq_div_grad", "weighted_lap_max_eigenvalue"])
    ctx.cov["rule"] = ("one case = one mesh instance (topology, weights, link configuration) replayed into the real builders and "
                       "validated by TLC entry by entry, or one generated float mesh validated through residual facts; non-trivial "
                       "= some link variable differs from 1 (exact) / every float mesh; distinct = distinct instances")
    ctx.cov["float_meshes"] = [dict(label=t["label"], sites=t["sites"], edges=t["edges"], lu_of_neumann_laplacian_singular=t["lu_singular"],
                                    build_operators_raised_per_solver_option=t["solver_option_notes"])
                               for t in traces[nexact:]]
    ctx.assume("exact comparison: entries of the code's matrices are mapped to Gaussian rationals with denominator <= 1e6 within 1e-12; "
               "anything else is bottom and rejected")
    ctx.assume("float meshes: residuals are quantised to 1e-13 of the scale and must stay below 1000 quanta (1e-10); measured noise <= 2 quanta")
    ctx.assume("negative semi-definiteness is decided exactly (all principal minors, Sylvester) for meshes of <= 6 sites, on all vectors "
               "with entries in {-1,0,1} for 7 sites, and through the largest eigenvalue (float64, LAPACK) on float meshes")


def replay(ctx, path):
    return fvops.replay_file(ctx, path, INV, "C03")
