"""C01 — charge is conserved in every cell at every recorded step; the terminal inflow is the requested current;
every balanced assignment of terminal currents is accepted.
Model: spec/OneStep.tla (ConservationDefectEqualsPoissonResidual, TerminalInflowIsRequestedCurrent, BalancedAccepted, ...)
on exact mesh instances; TLC also emits every balanced assignment (2-4 terminals, integers and tenths).
Binding: (a) each emitted assignment is handed to the REAL TDGLSolver constructor; (b) natural runs of the real solver;
every recorded frame becomes an event of spec/RunObs.tla (per-cell net outflow vs injection, per-terminal inflow vs
requested current, quantised); TLC validates CellOutflowEqualsInjection / TerminalInflowEqualsRequested /
BalancedAssignmentsAccepted."""
import copy
import json
import random

from harness import core, runfamily as rf, runobs as ro

LEVEL = "model_checking"
C01_INV = ["TypeOK", "InstancesWellFormed", "ConservationDefectEqualsPoissonResidual", "LapIsDivGrad", "FluxesCancelPairwise",
           "TotalInjectionIsTotalResidual", "BoundaryShares", "TerminalInflowIsRequestedCurrent", "BalancedAccepted"]


def R(x0, x1, y0, y1):
    return ro.rect_vertices(x0, x1, y0, y1)


# terminal polygons of the 'terminal-edit' histories: vertex lists written down HERE (length units; film = box 5 x 3 about the origin);
# they cover only PART of a film edge so that they can be moved along it, and their numbers avoid the boundary points of the mesh
T0 = {"source": R(-2.6, -2.4, -1.37, 0.43), "drain": R(2.4, 2.6, -1.41, -0.13), "top": R(-1.13, 0.37, 1.4, 1.6), "bottom": R(-0.71, 1.03, -1.6, -1.4)}
T1 = {"source": R(-2.6, -2.4, -0.23, 1.33), "drain": R(2.4, 2.6, -0.2, 1.31), "top": R(0.53, 1.91, 1.4, 1.6), "bottom": R(-1.83, -0.47, -1.6, -1.4)}
KIND = {"bar": ["source", "drain"], "tee": ["source", "drain", "top"], "cross": ["source", "drain", "top", "bottom"]}
CUR = {"bar": {"source": 3.0, "drain": -3.0}, "tee": {"source": 4.0, "drain": -2.0, "top": -2.0},
       "cross": {"source": 4.0, "drain": -2.0, "top": -1.0, "bottom": -1.0}}


def edit_op(how, kind):
    """one edit of the terminals of a meshed device of `kind` (the numbers keep every terminal on its film edge)"""
    if how == "translate":
        return [dict(op="edit", how="translate", terminal="drain", dy=1.47)]
    if how == "scale":
        return [dict(op="edit", how="scale", terminal="source", yfact=0.5, origin=(-2.5, 0.43))]
    if how == "rotate":
        return [dict(op="edit", how="rotate", terminal="source", degrees=180.0, origin=(-2.5, -0.2))]
    if how == "points":
        return [dict(op="edit", how="points", terminal="drain", vertices=R(2.4, 2.6, 0.11, 1.03))]
    if how == "replace":
        return [dict(op="edit", how="replace", terminals={n: T1[n] for n in reversed(KIND[kind])})]
    if how == "swap-names":
        return [dict(op="edit", how="swap-names", terminals=["source", "drain"])]
    if how == "translate+scale":      # two edits in a row
        return edit_op("translate", kind) + edit_op("scale", kind)
    raise ValueError(how)


def prior_ops(prior, kind):
    """what happened on the meshed device BEFORE its terminals are edited"""
    zero = {n: 0.0 for n in KIND[kind]}
    return {"solve": [dict(op="solve")], "unbiased-solve": [dict(op="solve", currents=zero, current_ramp=None)],
            "terminal_info": [dict(op="query", what="terminal_info")], "solver-constructed": [dict(op="query", what="solver")],
            "solve+copy": [dict(op="solve"), dict(op="query", what="copy")], "nothing": []}[prior]


def edit_history(kind, prior, how, **kw):
    a = dict(label=f"terminal-edit/{kind}{'+hole' if kw.get('hole') else ''}/{prior}/{how}/solve", func="terminal_edit_run", kind=kind,
             terminals={n: T0[n] for n in KIND[kind]}, currents=dict(CUR[kind]), mel=0.4, dt=2.0 ** -8, solve_time=0.05, k=3, adaptive=False,
             script=prior_ops(prior, kind) + edit_op(how, kind) + [dict(op="solve")])
    a.update(kw)
    return a


def edit_histories(ctx):
    """histories on ONE meshed Device: (solve | terminal_info() | construct a solver | copy), edit the terminals in place WITHOUT re-meshing,
    solve again"""
    runs = [
        edit_history("bar", "solve", "translate", field=0.3),
        edit_history("tee", "solve", "points", hole=True, adaptive=True, current_ramp=0.03, solve_time=0.08),
        edit_history("tee", "terminal_info", "replace"),
        edit_history("cross", "unbiased-solve", "translate+scale", field=0.2),
        edit_history("bar", "solve+copy", "rotate"),
    ]
    if not ctx.quick:
        n = 0
        for how in ("translate", "scale", "rotate", "points", "replace", "swap-names", "translate+scale"):
            for prior in ("solve", "unbiased-solve", "terminal_info", "solver-constructed", "solve+copy", "nothing"):
                kind = ("bar", "tee", "cross")[(n + n // 6) % 3]
                n += 1
                runs.append(edit_history(kind, prior, how, hole=(n % 4 == 0), adaptive=(n % 2 == 0), field=(0.3 if n % 3 == 0 else 0.0),
                                         **(dict(current_ramp=0.03, solve_time=0.08) if n % 5 == 0 else {})))
        # a terminal is added / dropped by replacing device.terminals (the second solve names the terminals then in force)
        runs.append(dict(edit_history("bar", "solve", "replace"), label="terminal-edit/bar/solve/replace(+top)/solve",
                         script=[dict(op="solve"), dict(op="edit", how="replace", terminals={"top": T0["top"], "drain": T0["drain"], "source": T0["source"]}),
                                 dict(op="solve", currents={"source": 3.0, "drain": -1.0, "top": -2.0})]))
        runs.append(dict(edit_history("tee", "solve", "replace"), label="terminal-edit/tee/solve/replace(-top)/solve",
                         script=[dict(op="solve"), dict(op="edit", how="replace", terminals={"source": T1["source"], "drain": T0["drain"]}),
                                 dict(op="solve", currents={"source": 3.0, "drain": -3.0})]))
        # there and back again: three solves
        runs.append(dict(edit_history("tee", "solve", "translate"), label="terminal-edit/tee/solve/translate/solve/translate-back/solve",
                         script=[dict(op="solve"), dict(op="edit", how="translate", terminal="drain", dy=1.47), dict(op="solve"),
                                 dict(op="edit", how="translate", terminal="drain", dy=-1.47), dict(op="solve")]))
    seen = set()
    out = []
    for r in runs:
        if r["label"] not in seen:
            seen.add(r["label"])
            out.append(r)
    return out


def matrix(ctx):
    um = dict(length_units="um", scale=1.0, field_units="mT", current_units="uA", fs=1.0, cs=1.0)
    nm = dict(length_units="nm", scale=1000.0, field_units="uT", current_units="nA", fs=1000.0, cs=1000.0)
    base = dict(solve_time=0.5, k=5, dt=2.0 ** -6, dt_max=0.05, window=3)
    runs = [
        dict(label="bar/static-field/constant/fixed-step", dev="bar", currents={"source": 3.0, "drain": -3.0}, field=0.4, adaptive=False, solve_time=0.3),
        dict(label="barhole/ramped-field/decimal-currents/adaptive", dev="barhole", currents={"source": 0.3, "drain": -0.3}, field=0.8, field_ramp=0.3,
             adaptive=True, units=nm),
        dict(label="tee/no-field/ramped-currents/adaptive/screening", dev="tee", currents={"source": 8.0, "drain": -4.0, "top": -4.0}, current_ramp=0.25,
             adaptive=True, screening=True, solve_time=0.4),
        dict(label="cross/static-field/constant/adaptive", dev="cross", currents={"source": 4.0, "drain": -2.0, "top": -1.0, "bottom": -1.0}, field=0.3,
             adaptive=True),
        dict(label="tee/decimals-0.1+0.2-0.3/fixed-step", dev="tee", currents={"source": 0.1, "drain": 0.2, "top": -0.3}, field=0.2, adaptive=False,
             solve_time=0.2),
        dict(label="cross/integers-1+2-3+0/ramped-field", dev="cross", currents={"source": 1.0, "drain": 2.0, "top": -3.0, "bottom": 0.0}, field=0.5,
             field_ramp=0.2, adaptive=True, units=nm),
        dict(label="bar/unbiased-terminals/static-field", dev="bar", currents={"source": 0.0, "drain": 0.0}, field=0.6, adaptive=True),
        # one terminal carries no current (given as 0 or omitted from the dict) while the others do; which one is permuted.
        # (terminals are visited in the order of their length: 'top'/'bottom' are the short ones, 'source'/'drain' the long ones)
        dict(label="tee/short-terminal-zero", dev="tee", currents={"source": 3.0, "drain": -3.0, "top": 0.0}, field=0.2, adaptive=False, solve_time=0.2),
        dict(label="tee/short-terminal-omitted", dev="tee", currents={"source": 2.0, "drain": -2.0}, adaptive=True, solve_time=0.3),
        dict(label="tee/long-terminal-zero", dev="tee", currents={"source": 0.0, "drain": 2.0, "top": -2.0}, adaptive=False, solve_time=0.2),
        dict(label="cross/two-short-terminals-omitted", dev="cross", currents={"source": 4.0, "drain": -4.0}, field=0.3, adaptive=False, solve_time=0.2),
        dict(label="cross/one-short-zero-one-long-omitted", dev="cross", currents={"source": 2.0, "top": 0.0, "bottom": -2.0}, adaptive=True, solve_time=0.3),
        # the short terminal's current is held constant while two other terminals ramp
        dict(label="tee/short-terminal-constant/others-ramp", dev="tee", currents={"top": -1.0, "source": 1.0, "drain": 0.0},
             currents_ramped={"source": 3.0, "drain": -3.0}, current_ramp=0.25, adaptive=False, solve_time=0.4),
        dict(label="cross/short-terminals-constant/long-ramp", dev="cross", currents={"top": -1.0, "bottom": 1.0},
             currents_ramped={"source": 4.0, "drain": -4.0}, current_ramp=0.2, adaptive=True, solve_time=0.4),
        dict(label="cross/long-constant/short-ramp", dev="cross", currents={"source": 2.0, "drain": -2.0},
             currents_ramped={"top": 1.0, "bottom": -1.0}, current_ramp=0.2, adaptive=False, solve_time=0.3),
        # unit choices for which the reduction to base units matters in the current scale
        dict(label="tee/units-um-mT-mA", dev="tee", currents={"source": 0.004, "drain": -0.002, "top": -0.002}, field=0.3, adaptive=False, solve_time=0.2,
             units=dict(length_units="um", scale=1.0, field_units="mT", current_units="mA", fs=1.0, cs=1.0), currents_den=1000000),
        dict(label="bar/units-nm-uT-uA", dev="bar", currents={"source": 3.0, "drain": -3.0}, field=0.3, adaptive=True,
             units=dict(length_units="nm", scale=1000.0, field_units="uT", current_units="uA", fs=1000.0, cs=1.0), currents_den=1000),
        dict(label="cross/units-nm-mT-mA", dev="cross", currents={"source": 0.004, "drain": -0.002, "top": -0.001, "bottom": -0.001}, adaptive=False,
             solve_time=0.2, units=dict(length_units="nm", scale=1000.0, field_units="mT", current_units="mA", fs=1.0, cs=1.0), currents_den=1000000),
        # holed devices whose film outline is much coarser than the mesh (points are inserted on the film edge inside the terminals),
        # so that the boundary-edge list interleaves film and hole edges; fresh devices built in the job
        dict(label="holed/1-hole/outline=20/2-terminals", func="holed_run", holes=1, outline=20, terminals=2, mel=0.5,
             currents={"source": 3.0, "drain": -3.0}, field=0.3, adaptive=True, dt=2.0 ** -8, solve_time=0.06, k=3),
        dict(label="holed/2-holes/outline=4/3-terminals", func="holed_run", holes=2, outline=4, terminals=3, mel=0.5,
             currents={"source": 4.0, "drain": -2.0, "top": -2.0}, adaptive=True, solve_time=0.2, k=3),
        dict(label="holed/2-holes/outline=20/3-terminals/ramped", func="holed_run", holes=2, outline=20, terminals=3, mel=0.45,
             currents={"source": 2.0, "drain": 1.0, "top": -3.0}, current_ramp=0.05, field=0.2, adaptive=True, dt=2.0 ** -8, solve_time=0.08, k=3),
        # histories on ONE Device object: mesh, solve, re-mesh / move / rotate / reflect, solve again (fresh devices built inside the run)
        dict(label="history/tee/remesh-1.0-to-0.3", func="history_run", history="remesh", dev="tee", mel=1.0, mel2=0.3,
             currents={"source": 4.0, "drain": -2.0, "top": -2.0}, adaptive=False, solve_time=0.1, k=3),
        dict(label="history/bar/translate-in-place", func="history_run", history="translate", dev="bar", mel=0.8,
             currents={"source": 3.0, "drain": -3.0}, field=0.3, adaptive=False, solve_time=0.15, k=3),
        dict(label="history/tee/second-solve()-on-one-TDGLSolver/constant-currents", func="history_run", history="second-solve", dev="tee", mel=0.8,
             currents={"source": 4.0, "drain": -2.0, "top": -2.0}, field=0.2, adaptive=False, solve_time=0.12, k=3),
        dict(label="history/cross/second-solve()-on-one-TDGLSolver/ramped-currents", func="history_run", history="second-solve", dev="cross", mel=0.8,
             currents={"source": 4.0, "drain": -2.0, "top": -1.0, "bottom": -1.0}, current_ramp=0.1, adaptive=True, solve_time=0.2, k=3),
        dict(label="history/tee/solve-inside-translation-context", func="history_run", history="translation-context", dev="tee", mel=0.8,
             currents={"source": 4.0, "drain": -2.0, "top": -2.0}, adaptive=False, solve_time=0.12, k=3),
        dict(label="history/tee/rotate-90-then-mesh", func="history_run", history="rotate", dev="tee", mel=0.8, mel2=0.6,
             currents={"source": 4.0, "drain": -2.0, "top": -2.0}, adaptive=False, solve_time=0.15, k=3),
    ]
    runs += edit_histories(ctx)
    if not ctx.quick:
        for holes in (1, 2):
            for outline in (4, 20, 101):
                for terminals in (2, 3):
                    for mel in (0.5, 0.35):
                        cur = {"source": 3.0, "drain": -3.0} if terminals == 2 else {"source": 1.0, "drain": 2.0, "top": -3.0}
                        runs.append(dict(label=f"holed/{holes}-holes/outline={outline}/{terminals}-terminals/mel={mel}", func="holed_run", holes=holes,
                                         outline=outline, terminals=terminals, mel=mel, currents=cur, field=(0.3 if holes == 2 else 0.0),
                                         adaptive=True, dt=2.0 ** -8, solve_time=0.06, k=3))
        runs += [
            dict(label="history/cross/reflect-and-stretch-then-mesh", func="history_run", history="reflect", dev="cross", mel=0.8, mel2=0.6,
                 currents={"source": 4.0, "drain": -2.0, "top": -1.0, "bottom": -1.0}, adaptive=True, solve_time=0.2, k=3),
            dict(label="history/tee/remesh-rotate-terminal_info-remesh", func="history_run", history="remesh-rotate-remesh", dev="tee", mel=1.0, mel2=0.3,
                 currents={"source": 2.0, "drain": 1.0, "top": -3.0}, adaptive=False, solve_time=0.1, k=3),
            dict(label="history/cross/remesh-smoothed/first-solve-unbiased", func="history_run", history="remesh", dev="cross", mel=1.0, mel2=0.3, smooth2=10,
                 currents_first={"source": 0.0, "drain": 0.0}, currents={"source": 4.0, "drain": -2.0, "top": -1.0, "bottom": -1.0}, adaptive=True,
                 solve_time=0.15, k=3),
            dict(label="history/bar/remesh-1.0-to-0.3/ramped-field", func="history_run", history="remesh", dev="bar", mel=1.0, mel2=0.3,
                 currents={"source": 3.0, "drain": -3.0}, field=0.3, field_ramp=0.3, adaptive=True, dt=2.0 ** -8, solve_time=0.1, k=3),
        ]
        for zero in ("source", "drain", "top", "bottom"):
            others = [n for n in ("source", "drain", "top", "bottom") if n != zero]
            cur = {others[0]: 3.0, others[1]: -1.0, others[2]: -2.0}
            runs.append(dict(label=f"cross/{zero}-omitted", dev="cross", currents=dict(cur), adaptive=False, solve_time=0.2))
            runs.append(dict(label=f"cross/{zero}-zero/others-ramp", dev="cross", currents=dict(cur, **{zero: 0.0}), current_ramp=0.2, adaptive=True,
                             solve_time=0.3))
            runs.append(dict(label=f"cross/{zero}-constant/others-ramp", dev="cross", currents={zero: 1.0, others[0]: -1.0},
                             currents_ramped={others[1]: 2.0, others[2]: -2.0}, current_ramp=0.2, adaptive=False, solve_time=0.3))
        rnd = random.Random(ctx.seed)
        cur = {"bar": [{"source": 5.0, "drain": -5.0}, {"source": 0.7, "drain": -0.7}],
               "barhole": [{"source": 6.0, "drain": -6.0}, {"source": 1.3, "drain": -1.3}],
               "tee": [{"source": 4.0, "drain": -2.0, "top": -2.0}, {"source": 1.0, "drain": 2.0, "top": -3.0}, {"source": 0.1, "drain": 0.2, "top": -0.3}],
               "cross": [{"source": 8.0, "drain": -4.0, "top": -2.0, "bottom": -2.0}, {"source": 0.4, "drain": -0.1, "top": -0.1, "bottom": -0.2}]}
        for dev, cs in cur.items():
            for c in cs:
                for field, framp in ((0.0, None), (0.5, None), (0.6, 0.25)):
                    for cramp in (None, 0.2):
                        for screening in (False, True):
                            adaptive = rnd.random() < 0.5
                            units = rnd.choice([um, nm])
                            if screening and (framp or cramp):
                                continue
                            runs.append(dict(label=f"{dev}/{c}/field={field}/framp={framp}/cramp={cramp}/scr={screening}/ad={adaptive}/{units['length_units']}",
                                             dev=dev, currents=c, field=field, field_ramp=framp, current_ramp=cramp, screening=screening,
                                             adaptive=adaptive, units=units, mel=rnd.choice([0.6, 0.8]), solve_time=0.35))
    out = []
    for r in runs:
        u = r.pop("units", um)
        a = dict(base, **r)
        a.update(length_units=u["length_units"], scale=u["scale"], field_units=u["field_units"], current_units=u["current_units"])
        a["field"] = a.get("field", 0.0) * u["fs"]
        a["currents"] = {k: v * u["cs"] for k, v in a["currents"].items()}
        a.setdefault("currents_den", 1000 if u["cs"] == 1.0 else 1)
        out.append(a)
    return out


def run(ctx):
    ctx.cov["bounds"] = {"OneStep": "4 mesh instances x 3 weight variants; basis perturbations of mu, Js, dA/dt, boundary flux by {-2, 1, 3} over a "
                                    "non-trivial integer background; every balanced current assignment in -3..3 (x 1, x 1/10) to 2-4 terminals",
                         "runs": "bar, barhole, tee, cross x field none/static/ramped x currents constant/ramped/decimal x screening x adaptive x um-mT-uA / nm-uT-nA",
                         "tolerance": ro.TOL * ro.FINE,
                         "histories": "one Device object: re-mesh / move / rotate / reflect between two solves; two solve() on one TDGLSolver; terminals of "
                                      "the MESHED device edited without re-meshing (Polygon.translate/scale/rotate(inplace=True), points setter, "
                                      "device.terminals replaced, names swapped) after a solve / terminal_info() / solver construction / copy()"}
    # 1. design
    ctx.model_check("OneStep", ro.onestep_cfg(C01_INV), name="OneStep[C01]", required_actions=["PickFields", "PickCurrents"])
    for mech, inv in ((dict(MSumOthers=False), "TerminalInflowIsRequestedCurrent"), (dict(MJnWithDA=False), "ConservationDefectEqualsPoissonResidual"),
                      (dict(MNeumannHalf=False), "ConservationDefectEqualsPoissonResidual")):
        ctx.model_check("OneStep", ro.onestep_cfg([inv], **mech), name=f"OneStep[mechanism {mech}]", expect_violation=inv, count=False)
    # 2. spec -> code: balanced assignments generated by the model, handed to the real constructor
    r = ctx.model_check("OneStep", ro.onestep_cfg(["EmittedCurrents"], EmitCurrents=True), name="OneStep[assignment export]", count=False)
    assignments = ro.parse_assignments(r)
    if len(assignments) < 100:
        raise core.MachineryFailure(f"C01: only {len(assignments)} assignments exported")
    rnd = random.Random(ctx.seed)
    if ctx.quick:
        must = [a for a in assignments if a in ((1, (1, 2, -3)), (10, (1, 2, -3)), (1, (1, -1)), (10, (3, -3)), (1, (3, -1, -1, -1)), (10, (1, 1, 1, -3)))]
        rest = [a for a in assignments if a not in must]
        rnd.shuffle(rest)
        sel = must + rest[:150]
    else:
        sel = assignments
    ctx.cov["assignments_exported"] = len(assignments)
    chunks = [sel[n::6] for n in range(6)]
    jobs = [("call", dict(module="harness.runobs", func="acceptance_calls", args=dict(assignments=c, current_units=cu)))
            for c, cu in zip(chunks, ["uA", "mA", "uA", "nA", "uA", "uA"])]
    # 3. natural runs
    runs = matrix(ctx)
    jobs += [("call", dict(module="harness.runobs", func="observed", args=dict(a, job=a.get("func", "conservation_run")))) for a in runs]
    res = rf.replay_all(ctx, jobs)
    ctor_traces = [t for chunk in res[:6] for t in chunk]
    run_traces = res[6:]
    skipped = [a["label"] for a, t in zip(runs, run_traces) if t.get("skipped")]
    holed = [a["label"] for a, t in zip(runs, run_traces) if a.get("func") == "holed_run" and not t.get("skipped")]
    ctx.cov["holed_coarse_outline_runs"] = {"built": len(holed), "skipped_mesh_refused": skipped}
    if len(holed) < 2:
        raise core.MachineryFailure(f"C01: fewer than 2 holed coarse-outline devices could be meshed (skipped {skipped})")
    edited = [(a, t) for a, t in zip(runs, run_traces) if a.get("func") == "terminal_edit_run" and not t.get("raised")]
    ctx.cov["terminal_edit_histories"] = {
        "runs": len(edited), "edits": sum(len(t["edits"]) for _, t in edited),
        "edit_kinds": sorted({e["how"] for _, t in edited for e in t["edits"]}),
        "min_boundary_edges_changed_by_an_edit": min((e["boundary_edges_changed"] for _, t in edited for e in t["edits"]), default=None),
        "frames_checked_after_an_edit": sum(v for _, t in edited for k, v in t["frames_per_epoch"].items() if k != "0")}
    keep = [n for n, t in enumerate(run_traces) if not t.get("skipped")]
    runs, run_traces = [runs[n] for n in keep], [run_traces[n] for n in keep]
    for t in ctor_traces:
        ctx.note_case(("ctor", json.dumps(t["currents"], sort_keys=True)), nontrivial=any(t["ev"][0]["nums"]))
    for a, t in zip(runs, run_traces):
        ctx.note_case(a["label"], nontrivial=t["nframes"] >= 1)
    # ---- acceptance
    acc, rej, clauses, norm = ro.validate(ctx, ctor_traces, "C01 acceptance", None)
    if rej:
        ex = [ctor_traces[n] for n in rej]
        ex.sort(key=lambda t: (len(t["currents"]), sum(abs(v) for v in t["currents"].values())))
        ctx.violation("C01:BalancedAssignmentsAccepted:constructor",
                      f"C01 BalancedAssignmentsAccepted: the real TDGLSolver constructor rejects {len(rej)} of {len(ctor_traces)} balanced terminal-current "
                      f"assignments generated by the model, e.g. {[list(t['currents'].values()) for t in ex[:6]]}: {ex[0]['error']}",
                      {"module": "RunObs", "rejected": [dict(currents=t["currents"], error=t["error"]) for t in ex[:60]]})
    ctx.cov["assignments_tried"] = len(ctor_traces)
    ctx.cov["assignments_rejected_by_code"] = len(rej)
    # ---- runs
    acc2, rej2, clauses2, norm2 = ro.validate(ctx, run_traces, "C01 runs", None)
    for n in sorted(acc2)[:4]:
        t = run_traces[n]
        last = t["ev"][-1]
        ctx.sample({"run": runs[n]["label"], "frames_checked": t["nframes"], "cells": len(last.get("cells", [])),
                    "worst_cell_defect_rel": t["worst_cell"], "worst_terminal_defect_rel": t["worst_term"], "terminals_last_frame": last.get("terms")})
    for n in rej2:
        t, a = run_traces[n], runs[n]
        cl = ",".join(clauses2.get(n, ["?"]))
        if t.get("raised"):
            ctx.violation(f"C01:raised:{a['label']}", f"C01: run '{a['label']}' raised inside the code under test instead of producing frames that satisfy the "
                          f"conservation clauses (no action of RunObs matches): {t['raised'][:300]} at {t.get('where')}",
                          {"module": "RunObs", "args": a, "raised": t["raised"], "where": t.get("where")})
            continue
        if cl == "BalancedAssignmentsAccepted":
            ctx.violation("C01:BalancedAssignmentsAccepted:solve",
                          f"C01 BalancedAssignmentsAccepted: tdgl.solve rejects the balanced currents {a['currents']} ({a['current_units']}) of run '{a['label']}': {t['error']}",
                          {"module": "RunObs", "args": a, "error": t["error"]})
            continue
        ctx.violation(f"C01:{cl}:{a['label']}",
                      f"C01 {cl}: run '{a['label']}' is not a behaviour of RunObs: worst cell defect {t['worst_cell']:.3e}, worst terminal defect "
                      f"{t['worst_term']:.3e} (relative; tolerance {ro.TOL * ro.FINE:.0e}); frames checked {t['nframes']}",
                      {"module": "RunObs", "args": a, "worst_cell": t["worst_cell"], "worst_term": t["worst_term"], "clauses": cl,
                       "terms": [e.get("terms") for e in t["ev"] if e["kind"] == "cons"][:4]})
    if not ctx.violations and (len(edited) < 4 or ctx.cov["terminal_edit_histories"]["frames_checked_after_an_edit"] < 4):
        raise core.MachineryFailure(f"C01: the terminal-edit histories did not reach their configuration: {ctx.cov['terminal_edit_histories']}")
    driven = [n for n in sorted(acc2) if run_traces[n]["nframes"] >= 1 and norm2[n]["cfg"]["driven"]]
    if not driven and not ctx.violations:
        raise core.MachineryFailure("C01: no driven run was accepted and no violation was found")
    if driven:
        n = driven[0]
        k = max(i for i, e in enumerate(norm2[n]["ev"]) if e["kind"] == "cons")
        bad = []
        b = copy.deepcopy(norm2[n]); b["ev"][k]["cells"][3]["d"] = ro.TOL + 1; bad.append(b)                 # one cell leaks
        b = copy.deepcopy(norm2[n])
        c = next(c for c in b["ev"][k]["cells"] if not c["term"])
        c["inj"] = 7; c["out"] = 7; bad.append(b)                                                            # injection away from terminals
        b = copy.deepcopy(norm2[n]); b["ev"][k]["terms"][0]["d"] = -(ro.TOL + 1); bad.append(b)              # wrong terminal current
        b = copy.deepcopy(norm2[n]); b["ev"][k]["terms"][0]["inflow"] += 2 * ro.CTOL; bad.append(b)
        b = copy.deepcopy(norm2[n]); b["ev"][0]["accepted"] = False; bad.append(b)                           # balanced but rejected
        accb, _ = ro.tlc_traces(ctx, bad, ro.cfg(True), "canary[C01]", count=False)
        if accb:
            raise core.MachineryFailure(f"C01: corrupted traces {sorted(accb)} accepted")
        ctx.cov["canaries_rejected"] += len(bad)
    # the vacuity guard of the terminal-edit histories is itself tested: an edit that moves no boundary edge, and a frame judged against
    # terminals that are no longer in force, must violate EditsReached
    ed = [n for n in sorted(acc2) if runs[n].get("func") == "terminal_edit_run" and any(e["kind"] == "edit" for e in norm2[n]["ev"])]
    if ed:
        bad = []
        b = copy.deepcopy(norm2[ed[0]]); next(e for e in b["ev"] if e["kind"] == "edit")["changed"] = 0; bad.append(b)
        if not ctx.quick:
            b = copy.deepcopy(norm2[ed[0]]); b["ev"][-1]["epoch"] = 0; bad.append(b)
        for b in bad:
            _, rb = ro.tlc_traces(ctx, [b], ro.cfg(True), "canary[C01 edit histories]", count=False)
            if "EditsReached" not in rb.violated:
                raise core.MachineryFailure("C01: a vacuous terminal-edit history was not refused by EditsReached")
        ctx.cov["canaries_rejected"] += len(bad)
    ctx.cov["rule"] = ("cases: (a) one call of the real TDGLSolver constructor per balanced assignment emitted by TLC; (b) one natural run of the real solver; "
                       "every recorded frame with step >= 1 is checked cell by cell (net outflow of supercurrent + normal current through the Voronoi faces "
                       "vs the current injected through the cell's share of a terminal) and terminal by terminal (inflow x K0 xi / 4 vs requested current "
                       "at the start of the last step); non-trivial = non-zero currents / at least one checked frame")
    ctx.assume("frame 0 is the initial condition recorded before any update: required to be exactly the initial state, not checked for conservation")
    ctx.assume("the boundary flux of a step is set from the currents at the START of that step: requested current evaluated at frame time - last dt")
    ctx.assume("geometry of the oracle: edge lengths, Voronoi face lengths, boundary edges, terminal edges/lengths are rebuilt from the raw site coordinates "
               "and triangles (numpy) and the terminal polygons; edge_mesh.edges is used only as the index map of the per-edge datasets; lambda, d, xi, units "
               "are the values the harness asked for; K0 xi / 4 from Device at the fine level, from Phi0 d / (2 pi mu0 lambda^2) at the coarse level (5e-6)")
    ctx.assume("terminal-edit histories: the terminals in force at a solve are the vertex lists the check wrote down, transformed by the check's own "
               "arithmetic; a boundary edge belongs to a terminal iff its raw midpoint lies inside that polygon (crossing-number test of the harness; "
               "points within 1e-7 of a polygon border are refused as undecidable), a boundary site iff the site does")
    pk = [t["package_vs_raw"] for t in run_traces if t.get("package_vs_raw")]
    ctx.cov["package_arrays_vs_first_principles"] = {"max_rel_dual_edge_length_difference": max((p["dual"] for p in pk), default=None),
                                                     "max_rel_edge_length_difference": max((p["edge"] for p in pk), default=None)}
