"""C14 — saved devices, meshes, solutions and parameters load back unchanged.
Decided with spec/Persist.tla (+ PersistTrace.tla) and, for parameters, spec/ParamAlg.tla (+ ParamAlgTrace.tla,
clause PickleRoundTrip); bound to the real classes by harness/persist.py and harness/paramalg.py (DESIGN.md 3.7, 5/C14).

1. design: TLC enumerates option records (every field default / non-default / None where the type allows, up to
   MaxDev deviating fields), device shapes (holes / terminals / probe points / conductivity / mesh / save_mesh),
   mesh modes (full / compressed) and solution shapes (new file / in place / after the output file was deleted x
   number of recorded steps) and checks LoadSaveIdentity, FileHoldsContent, MeshRestoredEqualsRecomputed on the
   write/read protocol; the mechanism of the pinned code ("None skipped on save, dataclass default on load") and
   four mutant mechanisms must violate them (design canaries).
2. spec -> code: every exported record / shape is materialised with the real classes, saved and loaded back.
3. code -> spec: the traces (object saved, file as an independent reader sees it, object loaded — records of
   content identities) are validated by TLC; parameters (pickle, cloudpickle, stored inside a Solution file)
   through ParamAlgTrace."""
import copy
import random

from harness import core, paramalg as pa, persist as ps, runfamily as rf

LEVEL = "model_checking"


def chunks(xs, n):
    size = max(1, (len(xs) + n - 1) // n)
    return [xs[s:s + size] for s in range(0, len(xs), size)]


def run(ctx):
    quick = ctx.quick
    rnd = random.Random(ctx.seed)
    maxdev, pairmod = (2, 3) if quick else (3, 1)
    kinds = ["options", "device", "mesh", "solution"]
    ctx.cov["bounds"] = {"Persist": dict(option_fields=len(ps.OPT_NAMES), values_per_field="default / non-default (/ complex / None for terminal_psi; None is output_file's default)",
                                         max_deviating_fields=maxdev, multi_field_records_without_a_None_able_field_sampled_1_in=pairmod,
                                         device_shapes="holes 0..2 x terminals {0,2,3} x probe points {0,2,3} x conductivity x mesh x save_mesh x pre-save history "
                                                       "{none, translate(inplace), inside translation(), rotate+remesh, scale+remesh}",
                                         mesh_modes="{full, compressed} x the same pre-save histories", solution_modes=["copy", "inplace", "deleted", "nofile (output_file=None)", "solved (the file tdgl.solve wrote)"],
                                         histories="save X; load; remove; save Y (same shapes, other content) under the same path; load - one process",
                                         parameter_sessions=["same process", "fresh process without the defining names", "process with the names rebound"], recorded_steps="1..4", solution_time_dependent_inputs=["none", "disorder_epsilon(r, *, t)", "applied vector potential", "both"],
                                         browsing="one loaded Solution, solve_step forwards / backwards / negative, every step against the raw file",
                                         solution_probe_points=[False, True], solution_screening=[False, True]),
                         "ParamAlg": dict(operator_levels=2, level2_sampled_1_in=401 if quick else 23),
                         "mechanism": {"Persist": ps.MECH, "ParamAlg": pa.MECH}}
    # ---- 1. design
    import concurrent.futures as cf

    with cf.ThreadPoolExecutor(2) as ex:
        f1 = ex.submit(ctx.model_check, "Persist", ps.model_cfg(kinds, maxdev, pairmod, ctx.seed, ps.MECH, ps.INVARIANTS + ["Emit"]),
                       name="Persist[C14]", required_actions=["Deviate", "Shape", "Save", "Load", "MBrowse", "Remove"], timeout=900)
        f2 = ex.submit(ctx.model_check, "ParamAlg", pa.model_cfg(2, 401 if quick else 23, ctx.seed, pa.MECH,
                                                                 ["PickleRoundTrip", "TimeDepIffSomeOperand", "Emit"]),
                       name="ParamAlg[C14: PickleRoundTrip]", required_actions=["MPickle", "Unpickle", "MCallCopy"], timeout=900)
        r, rp = f1.result(), f2.result()
    items = ps.parse_export(r)
    by_kind = {k: [it["shape"] for it in items if it["kind"] == k] for k in kinds}
    ctx.cov["records_enumerated"] = {k: len(v) for k, v in by_kind.items()}
    if min(len(v) for v in by_kind.values()) == 0:
        raise core.MachineryFailure(f"C14: export incomplete {ctx.cov['records_enumerated']}")
    trees = pa.parse_export(rp)
    # (expressions on shipped leaves are vector valued: C16 evaluates them; here they are pickled at one operator level only)
    trees = [it for it in trees if not (it["ship"] or it["konst"]) or it["level"] <= 1]
    trees.sort(key=lambda it: (it["level"], it["h"], pa.show(it["tree"])))
    ctx.cov["records_enumerated"]["parameter expressions"] = len(trees)
    small = ["options", "device", "mesh"]
    cases = [("Persist[pinned: None skipped on save + default on load, LoadSaveIdentity]",
              ps.model_cfg(["options"], 1, 1, 0, ps.PINNED, ["LoadSaveIdentity"]), "LoadSaveIdentity"),
             ("Persist[mutant: falsy options skipped, LoadSaveIdentity]",
              ps.model_cfg(["options"], 1, 1, 0, dict(ps.MECH, MSkip="falsy"), ["LoadSaveIdentity"]), "LoadSaveIdentity"),
             ("Persist[mutant: conductivity not stored, LoadSaveIdentity]",
              ps.model_cfg(small, 1, 1, 0, dict(ps.MECH, MLayerCond=False), ["LoadSaveIdentity"]), "LoadSaveIdentity"),
             ("Persist[mutant: mesh restored without dual arrays, MeshRestoredEqualsRecomputed]",
              ps.model_cfg(small, 1, 1, 0, dict(ps.MECH, MRestoreDual=False), ["MeshRestoredEqualsRecomputed"]), "MeshRestoredEqualsRecomputed"),
             ("Persist[mutant: dynamics of a solution without a file written only with probe points, LoadSaveIdentity]",
              ps.model_cfg(["solution"], 1, 1, 0, dict(ps.MECH, MDynAlways=False), ["LoadSaveIdentity"]), "LoadSaveIdentity"),
             ("Persist[mutant: in-place translation leaves the Voronoi polygons behind, SavedMeshIsMeshOfItsTriangulation]",
              ps.model_cfg(["device", "mesh"], 1, 1, 0, dict(ps.MECH, MTransformRebuilds=False), ["SavedMeshIsMeshOfItsTriangulation"]),
              "SavedMeshIsMeshOfItsTriangulation"),
             ("Persist[mutant: in-place translation leaves the Voronoi polygons behind, MeshRestoredEqualsRecomputed]",
              ps.model_cfg(["device", "mesh"], 1, 1, 0, dict(ps.MECH, MTransformRebuilds=False), ["MeshRestoredEqualsRecomputed"]),
              "MeshRestoredEqualsRecomputed"),
             ("Persist[mutant: browsing keeps the disorder parameter of the step loaded first, BrowsedStepIsRecordedStep]",
              ps.model_cfg(["solution"], 1, 1, 0, dict(ps.MECH, MBrowseRereads=False), ["BrowsedStepIsRecordedStep"]), "BrowsedStepIsRecordedStep"),
             ("Persist[mutant: a view derived from an earlier step (vorticity, current densities) survives solve_step = k, BrowsedViewsBelongToStep]",
              ps.model_cfg(["solution"], 1, 1, 0, dict(ps.MECH, MBrowseResetsViews=False), ["BrowsedViewsBelongToStep"]), "BrowsedViewsBelongToStep"),
             ("Persist[mutant: reader memoises what it loaded by path, LoadSaveIdentity]",
              ps.model_cfg(["device", "mesh", "solution"], 1, 1, 0, dict(ps.MECH, MMemoByPath=True), ["LoadSaveIdentity"]), "LoadSaveIdentity"),
             ("Persist[mutant: polygon points not stored as held, FileHoldsContent]",
              ps.model_cfg(small, 1, 1, 0, dict(ps.MECH, MPolyAsHeld=False), ["FileHoldsContent"]), "FileHoldsContent")]
    cases = [c + ("Persist",) for c in cases]
    cases.append(("ParamAlg[pinned: only __dict__ pickled, PickleRoundTrip]",
                  pa.model_cfg(1, 1, 0, dict(pa.MECH, MPickleSlots=False), ["PickleRoundTrip"]), "PickleRoundTrip", "ParamAlg"))
    pa.design_canaries(ctx, cases)

    # ---- 2. spec -> code
    recs = by_kind["options"]
    nreal = 0
    work = []
    for n, rec in enumerate(recs):
        work.append({"rec": rec})
        # a real solve with the record as its options, where the record allows one (a path to write to, no live monitor)
        if rec["output_file"] == "n" and rec["monitor"] == "d" and (not quick or nreal < 12):
            work.append({"rec": rec, "real": True})
            nreal += 1
    jobs = [("call", dict(module="harness.persist", func="options_many", args={"records": c})) for c in chunks(work, 12)]
    nopt = len(jobs)
    dshapes = by_kind["device"]
    if quick:
        rnd.shuffle(dshapes)
        # quick: a seeded third of the shapes, always including the extremes
        ext = [s for s in dshapes if (s["holes"], s["terms"], s["probes"]) in ((0, 0, 0), (2, 3, 3)) and (s["cond"] or s["pre"] == "none")]
        dshapes = ext + [s for s in dshapes if s not in ext][:60]
    # history (save X, load, remove, save Y under the SAME path, load - in one process): every shape that stores a mesh,
    # and a third of the others
    dcases = [dict(shape=s, variant=n % 6, via="group" if n % 4 == 3 else "path",
                   history=bool(s["mesh"] and s["savemesh"]) or n % 3 == 0) for n, s in enumerate(dshapes)]
    jobs += [("call", dict(module="harness.persist", func="device_many", args={"cases": c})) for c in chunks(dcases, 8)]
    ndev = len(jobs) - nopt
    mcases = []
    for dev, mel, smooth in (("barhole", 1.3, 0), ("film", 0.9, 0), ("tee", 1.1, 1)) + ((("cross", 0.7, 2), ("ring", 0.8, 0)) if not quick else ()):
        for s in by_kind["mesh"]:
            mcases.append(dict(shape=s, dev=dev, mel=mel, smooth=smooth, history=True))
    jobs += [("call", dict(module="harness.persist", func="mesh_case", args=a)) for a in mcases]
    scases = [dict(shape=s, dev="barhole" if n % 2 == 0 else "film", pre=["none", "translate", "context", "none", "rotate", "none"][n % 6], history=s["mode"] != "inplace" and (not quick or n % 3 == 0 or (s["mode"] == "solved" and s["dyn"] == "none")))
              for n, s in enumerate(by_kind["solution"])]
    if quick:
        scases = scases[ctx.seed % 2::2]      # quick: a seeded half of the solution shapes
    jobs += [("call", dict(module="harness.persist", func="solution_case", args=a)) for a in scases]
    pwork = []
    for n, it in enumerate(trees):
        pwork.append({"tree": it["tree"]})
        if not it["ship"] and not it["konst"] and (it["level"] <= 1 or n % (4 if quick else 2) == 0):
            pwork.append({"tree": it["tree"], "via": "solution", "slot": "applied_vector_potential" if n % 3 else "disorder_epsilon"})
    pjobs = [("call", dict(module="harness.persist", func="params_many", args={"items": c})) for c in chunks(pwork, 12)]
    # the same expressions on plain named functions of a driver script's __main__, saved in one process and loaded in a
    # fresh process / in a process where the names are rebound
    xwork = [{"tree": it["tree"], "methods": ["pickle", "cloudpickle"] + (["solution"] if n % 4 == 0 else []),
              "slot": "applied_vector_potential" if n % 8 else "disorder_epsilon"}
             for n, it in enumerate(trees) if not it["twin"] and not it["ship"] and not it["konst"] and (it["level"] <= 1 or n % (3 if quick else 1) == 0)]
    pjobs += [("call", dict(module="harness.persist", func="params_crossproc", args={"items": c})) for c in chunks(xwork, 2 if quick else 8)]
    jobs += pjobs
    res = rf.replay_all(ctx, jobs)
    otraces = [t for c in res[:nopt] for t in c]
    skipped = [t for t in otraces if "skip" in t]
    ctx.cov["real_solves_that_did_not_run"] = {"count": len(skipped), "examples": [f"{t['label']}: {t['skip']}" for t in skipped[:3]]}
    otraces = [t for t in otraces if "skip" not in t]
    if len(skipped) > max(3, len(otraces) // 10):
        raise core.MachineryFailure(f"C14: {len(skipped)} real solves did not run: {ctx.cov['real_solves_that_did_not_run']['examples']}")
    dtraces = [t for c in res[nopt:nopt + ndev] for t in c]
    mtraces = res[nopt + ndev:nopt + ndev + len(mcases)]
    straces = res[nopt + ndev + len(mcases):nopt + ndev + len(mcases) + len(scases)]
    ptraces = [t for c in res[len(jobs) - len(pjobs):] for t in c]
    # an expression that cannot be built cannot be saved: that is C16's clause NestingTotal, not a save/load matter
    unbuilt = [t["label"] for t in ptraces if not t["ev"][0]["ok"]]
    ctx.cov["expressions_not_materialisable"] = {"count": len(unbuilt), "examples": unbuilt[:3]}
    ptraces = [t for t in ptraces if t["ev"][0]["ok"]]
    for t in otraces + dtraces + mtraces + straces + ptraces:
        ctx.note_case(t["label"], nontrivial=True)

    # ---- 3. code -> spec
    ptraces_all = otraces + dtraces + mtraces + straces
    accepted, norm = ps.validate(ctx, "C14", ptraces_all, "records")
    pnorm = [pa.normalise(t) for t in ptraces]
    paccepted = pa.validate_parallel(ctx, pnorm, "parameters", nbatch=2 if quick else 6)
    ctx.cov["traces_validated_against_impl"] += len(paccepted)
    pa.report_rejected(ctx, "C14", ptraces, pnorm, paccepted, "parameters", max_diag=4)
    for kind in ("options", "device", "mesh", "solution"):
        for n in sorted(accepted):
            if ptraces_all[n]["kind"] == kind:
                ctx.sample({"case": ptraces_all[n]["label"], "events": [{k: v for k, v in e.items() if k != "saved"} for e in ptraces_all[n]["ev"][1:]]}, limit=5)
                break
    if paccepted:
        n = sorted(paccepted)[-1]
        ctx.sample({"case": ptraces[n]["label"], "events": [e["ev"] for e in ptraces[n]["ev"]]}, limit=6)

    # ---- 4. canaries: corrupted observations must be rejected
    bads = []

    def reject(bad, what):
        bads.append((bad, what))

    acc_by_kind = {k: [n for n in sorted(accepted) if ptraces_all[n]["kind"] == k] for k in kinds}
    if acc_by_kind["options"]:
        bad = copy.deepcopy(norm[rnd.choice(acc_by_kind["options"])])
        f = rnd.choice(["save_every", "dt_max", "adaptive"])
        bad["ev"][-1]["rec"][f] = "n" if bad["ev"][-1]["rec"][f] == "d" else "d"
        reject(bad, f"loaded option {f} differs")
    if acc_by_kind["mesh"]:
        bad = copy.deepcopy(norm[acc_by_kind["mesh"][0]])
        bad["ev"][-1]["rec"]["dual_sites"] = 0
        reject(bad, "loaded mesh lacks dual_sites")
        cands = [n for n in acc_by_kind["mesh"] if norm[n]["shape"]["pre"] in ("translate", "context") and not norm[n]["shape"]["compress"]]
        if cands:
            # Voronoi polygons that stayed behind: held, stored and restored consistently - and not those of the triangulation
            bad = copy.deepcopy(norm[cands[0]])
            for e in bad["ev"][:3]:
                (e["saved"] if e["ev"] == "made" else e["rec"])["voronoi_polygons"] = 9999
            reject(bad, "translated mesh keeps stale Voronoi polygons through the round trip")
        elif not ctx.violations:
            raise core.MachineryFailure("C14: no accepted round trip of a mesh translated in place")
    if acc_by_kind["device"]:
        bad = copy.deepcopy(norm[acc_by_kind["device"][-1]])
        bad["ev"][-1]["rec"]["layer"]["gamma"] += 50
        reject(bad, "loaded layer.gamma differs")
    def loads(tr):
        return [e for e in tr["ev"] if e["ev"] == "load"]

    if acc_by_kind["solution"]:
        cands = [n for n in acc_by_kind["solution"] if len(loads(norm[n])[-1]["rec"]["frames"]) >= 2]
        if cands:
            bad = copy.deepcopy(norm[cands[0]])
            fr = loads(bad)[-1]["rec"]["frames"]
            fr[0], fr[1] = fr[1], fr[0]
            reject(bad, "loaded frames swapped")
        for fld in ("dt", "screening_iterations"):
            cands = [n for n in acc_by_kind["solution"] if loads(norm[n])[-1]["rec"]["dyn"][fld] != 0 and not norm[n]["shape"]["probes"]]
            if cands:
                bad = copy.deepcopy(norm[cands[-1]])
                loads(bad)[-1]["rec"]["dyn"][fld] = 0
                reject(bad, f"loaded dynamics lack {fld}")
        bad = copy.deepcopy(norm[acc_by_kind["solution"][-1]])
        loads(bad)[-1]["rec"]["times"] += 1
        reject(bad, "loaded Solution.times differ")
        # browsing canary: one step shown while browsing is another recorded step (the data of the step loaded first)
        cands = [n for n in acc_by_kind["solution"] if norm[n]["shape"]["dyn"] in ("eps", "both") and norm[n]["shape"]["nframes"] >= 3
                 and norm[n]["shape"]["mode"] in ("copy", "inplace", "solved")]
        if cands:
            bad = copy.deepcopy(norm[cands[0]])
            br = [e for e in bad["ev"] if e["ev"] == "browse"]
            br[1]["frame"] = br[0]["frame"]
            reject(bad, "browsing shows the data of the step loaded first")
        elif not ctx.violations:
            raise core.MachineryFailure("C14: no accepted browsing of a solution with a time-dependent disorder parameter")
    # history canary: the second load answers with what the path held BEFORE it was removed and rewritten
    for k in ("device", "mesh", "solution"):
        cands = [n for n in acc_by_kind[k] if any(e["ev"] == "remove" for e in norm[n]["ev"]) and len(loads(norm[n])) == 2]
        if not cands:
            if not ctx.violations:       # (every history rejected is a verdict, not a harness problem)
                raise core.MachineryFailure(f"C14: no accepted history of kind {k}")
            continue
        bad = copy.deepcopy(norm[cands[len(cands) // 2]])
        first, second = loads(bad)
        if k == "solution":
            second["rec"]["mesh"] = first["rec"]["mesh"]
            second["rec"]["currents"] = first["rec"]["currents"]
        elif k == "device":
            second["rec"] = first["rec"]
        else:
            second["rec"]["sites"] = first["rec"]["sites"]
        reject(bad, f"{k}: second load under the same path returns the first object")
    if bads:
        acc, _ = ctx.validate_traces("PersistTrace", [b for b, _ in bads], ps.trace_cfg(), name="canaries[corrupted observations]", count=False)
        if acc:
            raise core.MachineryFailure(f"C14: corrupted trace ({[bads[n][1] for n in sorted(acc)]}) accepted — the binding is vacuous")
        ctx.cov["canaries_rejected"] += len(bads)
    for k in kinds:
        if not acc_by_kind[k] and not ctx.violations:
            raise core.MachineryFailure(f"C14: no accepted trace of kind {k}")
    ctx.cov["rule"] = ("one case = one record / shape enumerated by TLC, materialised with the real classes, saved with the real to_hdf5 / pickle "
                       "and loaded back (options: re-saved into a tiny solved Solution file, a subset through a real solve; devices: 6 input "
                       "variants; meshes of 3-5 generated devices; solutions: 4 save modes x probe points x screening, every recorded step loaded, dynamics / times / closest_solve_step compared; parameters: pickle, cloudpickle and "
                       "stored inside a Solution file, also across processes on functions of a script's __main__); all cases are non-trivial; distinct = distinct records x materialisations")
    ctx.assume("terminal order inside a loaded Device is by name (h5py group order); terminals are compared as a set of named polygons, "
               "as Device.__eq__ does")
    ctx.assume("gpu=True and sparse solvers other than SuperLU cannot be materialised in this sandbox (validation needs the packages)")
