"""C08 — results do not depend on the unit system; flux per triangle.

Model (spec/Units.tla): a unit system is three exponents of ten; every scale of the solver is a monomial
transcribed from device.py / solver.py / constant.py / solution.py; TLC checks over all 27 x 27 pairs that the
dimensionless inputs and the physical outputs are the same monomial (DimensionlessInputsInvariant) and the
documented one (MatchesReference), and FluxPerTriangle on all integer triangles in a small box for several
gauge origins.
Binding.  spec -> code: the monomials TLC exports per unit system are evaluated numerically and compared with
what the REAL TDGLSolver holds for the same physical device stated in that unit system (one shared
dimensionless mesh); TLC's triangle instances go through the real symmetric-gauge code.  code -> spec: the
observations (residuals in quanta of 1e-12, power-of-ten exponents of ratios, exact integers) are validated by
TLC (spec/UnitsTrace.tla) with the Units invariants evaluated on every observed pair.  Run level: full real
solves in three unit systems are Twin traces (tolerance in quanta) over gauge-invariant dimensionless
observables and Solution.current_density in A/m."""
from __future__ import annotations

import copy
import itertools
import json
import math
import random

from harness import core, runfamily as rf, twin, units

LEVEL = "model_checking"

MECH = dict(MAScaleXi=True, MAreasXi2=True, MAreasPerLen=True, MJFactor=2, MK0OutUnits=True, MSheetZMeter=True)
INVS = ["DimensionlessInputsInvariant", "MatchesReference", "FluxPerTriangle", "FluxIsTwoPiFluxQuanta"]
REF = [-6, -3, -6]
TOL_SCALE = 1000          # quanta of 1e-12: relative 1e-9 (rounding is 1e-15, a wrong factor is >= 2)
Q = 1e6                   # run level: observables are quantised to 1e-6 of their scale


def cfg(mech, invs, trin, spec="Spec", extra=""):
    c = "CONSTANTS\n" + "".join(f" {k} = {core.tla_str(v)}\n" for k, v in mech.items()) + f" TriN = {trin}\n"
    return c + f"SPECIFICATION {spec}\n" + "".join(f"INVARIANT {i}\n" for i in invs) + "CHECK_DEADLOCK FALSE\n" + extra


def printed_values(out):
    """TLC pretty-prints large values over several lines: rejoin them (brackets balanced) and parse."""
    vals, buf, depth = [], None, 0
    for line in out.splitlines():
        st = line.strip()
        if buf is None:
            if not st.startswith('<<'):
                continue
            buf, depth = "", 0
        buf += " " + st
        depth += st.count("<<") + st.count("[") + st.count("(") - st.count(">>") - st.count("]") - st.count(")")
        if depth <= 0:
            try:
                vals.append(core.parse_tla_value(buf.strip()))
            except Exception:
                pass
            buf = None
    return vals


def trace_cfg():
    return cfg(MECH, ["Accepted"] + INVS, 3, spec="TSpec")


def _run(ctx):
    tdgl = core.import_tdgl()
    trin = 2 if ctx.quick else 3
    # ---------------------------------------------------------------- 1. the model
    r = ctx.model_check("Units", cfg(MECH, INVS + ["EmitUnits", "EmitTri"], trin), name="Units[27x27 pairs, integer triangles]",
                        required_actions=["PickUnits", "PickTriangle"])
    ctx.cov["exhaustive"] = True
    ctx.cov["bounds"] = {"unit_systems": 27, "pairs": 729, "triangle_box": f"0..{trin}", "gauge_origins": 9, "mechanism": MECH}
    monos, tris = {}, []
    for v in printed_values(r.out):
        if v and v[0] == "UNITS":
            monos[(v[1], v[2], v[3])] = v[4]
        elif v and v[0] == "TRI":
            tris.append({"p": v[1], "o2": v[2], "e4": v[3]})
    if len(monos) != 27 or not tris:
        raise core.MachineryFailure(f"C08: TLC exported {len(monos)} unit systems and {len(tris)} triangles")
    # design canaries: each transcribed factor matters
    canaries = [("MAScaleXi", False, "DimensionlessInputsInvariant"), ("MJFactor", 1, "MatchesReference"),
                ("MSheetZMeter", False, "DimensionlessInputsInvariant")]
    if not ctx.quick:
        canaries += [("MAreasXi2", False, "DimensionlessInputsInvariant"), ("MAreasPerLen", False, "DimensionlessInputsInvariant"),
                     ("MK0OutUnits", False, "DimensionlessInputsInvariant")]
    for k, val, inv in canaries:
        ctx.model_check("Units", cfg(dict(MECH, **{k: val}), [inv], 1), name=f"Units[canary {k}={val}]", expect_violation=inv, count=False)

    # ---------------------------------------------------------------- 2. constructor level: the real solver in each unit system
    rnd = random.Random(ctx.seed)
    allu = [list(u) for u in itertools.product(sorted(units.LEN), sorted(units.FLD), sorted(units.CUR))]
    if ctx.quick:
        others = [u for u in allu if u != REF]
        rnd.shuffle(others)
        # every exponent value of every dimension appears
        us = [REF, [-9, -6, -9], [-3, 0, -3]] + others[:5]
        us = [list(x) for x in dict.fromkeys(map(tuple, us))]
    else:
        us = allu
    jobs = [("call", dict(module="harness.units", func="observe_solver", args=dict(u=u, kind="bar"))) for u in us]
    # history: the device is first stated with wrong layer parameters, its scales are read (every second one also builds a solver),
    # then the layer is corrected IN PLACE: the scales must be those of the corrected parameters
    edited = us[:3] if ctx.quick else us
    for n, u in enumerate(edited):
        jobs.append(("call", dict(module="harness.units", func="observe_solver", args=dict(u=u, kind="bar", history="layer-edit", prior_solver=bool(n % 2)))))
    # the film lifted to the plane z = Z0 != 0 (Layer.z0 is 0 by default), the height given in every form the API offers: what the real
    # solver hands to the applied potential as z, and where the public Biot-Savart function places the sheet
    sheet_jobs = [dict(u=u, kind="bar", form=units.Z0_FORMS[n % len(units.Z0_FORMS)]) for n, u in enumerate(us[:4] if ctx.quick else us)]
    for a_ in sheet_jobs:
        jobs.append(("call", dict(module="harness.units", func="observe_sheet", args=a_)))
    jobs.append(("call", dict(module="harness.units", func="gauge_blocks", args=dict(sizes=[100, 2 ** 14 + 1, 2 ** 15 + 1, 70000]))))
    jobs.append(("call", dict(module="harness.units", func="exact_triangles", args=dict(tris=tris[: (60 if ctx.quick else 400)]))))
    res = rf.replay_all(ctx, jobs)
    tri_obs = res.pop()
    gauge_obs = res.pop()
    vals = units.constants(tdgl)
    by_u = {tuple(x["u"]): x["obs"] for x in res[: len(us)]}
    sheet_obs = res[len(res) - len(sheet_jobs):]
    res = res[: len(res) - len(sheet_jobs)]
    after_edit = res[len(us):]
    ref = by_u[tuple(REF)]
    # the dimensionless length of a terminal (an input of the model's DimJ): from the geometry that was requested — the terminal
    # covers one whole side of the bar — not from anything the package reports
    vals["L"] = units.GEOM["H"] * 1e-6 / units.PHYS["XI"]
    traces, labels = [], []

    def abs_events(u, o):
        ev = []
        m = monos[tuple(u)]
        for q in ("xi", "lambda", "Lambda", "Bc2", "A0", "K0", "tau0", "V0", "AScale", "CurScaled", "ScreenW", "DimJ"):
            obs = o["DimJ"]["source"] if q == "DimJ" else o[q]
            rq = units.quanta(obs, units.evaluate(m[q], vals))
            if q == "ScreenW":
                rq = max(rq, int(min(units.RCLIP, round(o["ScreenW_spread"] / units.QUANTUM))))
            ev.append({"ev": "abs", "q": q, "u": u, "m": m[q], "r": rq})
        # flux per triangle on solver.current_A_applied: model value = DimFlux with AR = signed area of the triangle
        per_area = units.evaluate(m["DimFlux"], vals)
        scale = max(abs(per_area * a) for a in o["tri_areas"])
        worst = max(abs(s - per_area * a) for s, a in zip(o["tri_sums"], o["tri_areas"])) / scale
        ev.append({"ev": "abs", "q": "DimFlux", "u": u, "m": m["DimFlux"], "r": 0})
        ev.append({"ev": "flux", "u": u, "n": len(o["tri_areas"]), "r": int(min(units.RCLIP, round(worst / units.QUANTUM)))})
        return ev

    def ratio_events(u1, o1, u2, o2):
        ev = []
        for q in ("AScale", "CurScaled", "ScreenW", "K0", "Bc2", "DimJ"):
            a = o1["DimJ"]["source"] if q == "DimJ" else o1[q]
            b = o2["DimJ"]["source"] if q == "DimJ" else o2[q]
            ratio = a / b
            e = int(round(math.log10(abs(ratio)))) if ratio > 0 else 999
            ev.append({"ev": "ratio", "q": q, "u1": u1, "u2": u2, "e": e, "r": units.quanta(ratio, 10.0 ** e) if ratio > 0 else units.RCLIP})
        return ev

    for u in us:
        o = by_u[tuple(u)]
        ev = abs_events(u, o) + ratio_events(u, o, REF, ref)
        traces.append({"tol": TOL_SCALE, "ev": ev})
        labels.append(("solver", u))
        ctx.note_case(("solver", tuple(u)), True)
    for x in after_edit:
        o, u = x["obs"], x["u"]
        if abs(o["pre_edit"]["K0"] / units.evaluate(monos[tuple(u)]["K0"], vals) - 1) < 0.05:
            raise core.MachineryFailure("C08: the in-place layer edit does not change K0: vacuous history")
        traces.append({"tol": TOL_SCALE, "ev": abs_events(u, o) + ratio_events(u, o, REF, ref)})
        labels.append(("solver after an in-place layer edit", u))
        ctx.note_case(("solver after layer edit", tuple(u)), True)
    sheet_by_u = {tuple(x["u"]): x for x in sheet_obs}
    if tuple(REF) not in sheet_by_u:
        raise core.MachineryFailure("C08: the lifted device was not observed in the reference unit system")
    for x in sheet_obs:
        u, o, o0 = x["u"], x["obs"], sheet_by_u[tuple(REF)]["obs"]
        m = monos[tuple(u)]
        if not (units.evaluate(m["SolverZ"], vals) != 0 and units.PHYS["Z0"] > 0 and o["n_calls"] >= 1):
            raise core.MachineryFailure("C08: the lifted device lies in the plane z = 0, or the solver never asked for the applied potential: vacuous")
        ev = []
        for q, val in (("SolverZ", o["SolverZ"]), ("SheetZ", o["SheetZ"]), ("SheetZ", o["SheetZ_typed"])):
            rq = units.quanta(val, units.evaluate(m[q], vals))
            if q == "SolverZ":
                rq = max(rq, int(min(units.RCLIP, round(o["SolverZ_spread"] / units.QUANTUM))))
            ev.append({"ev": "abs", "q": q, "u": u, "m": m[q], "r": rq})
        for q, a, b in (("SolverZ", o["SolverZ"], o0["SolverZ"]), ("SheetZ", o["SheetZ"], o0["SheetZ"]), ("SheetZ", o["SheetZ_typed"], o0["SheetZ_typed"])):
            ratio = a / b if (b and a == a and b == b and abs(a) != float("inf") and abs(b) != float("inf")) else -1.0
            e = int(round(math.log10(ratio))) if ratio > 0 else 999
            ev.append({"ev": "ratio", "q": q, "u1": u, "u2": REF, "e": e, "r": units.quanta(ratio, 10.0 ** e) if ratio > 0 else units.RCLIP})
        traces.append({"tol": TOL_SCALE, "ev": ev})
        labels.append((f"film lifted to z0 = {units.Z0_UM} um (given as {x['form']}): z handed to the applied potential (SolverZ, in length units) "
                       f"and height of the Biot-Savart sheet (SheetZ, metres)", u))
        ctx.note_case(("sheet height", x["form"], tuple(u)), True)
    for g in gauge_obs:           # one gauge over all positions handed to the applied potential, however many
        qr = int(min(units.RCLIP, round(max(g["r_const"], g["r_flux"]) / units.QUANTUM)))
        traces.append({"tol": TOL_SCALE, "ev": [{"ev": "flux", "u": REF, "n": g["ntri"], "r": qr}]})
        labels.append(("gauge of the applied potential over N positions: " + g["form"] + (f" (raised {g['raised']})" if g.get("raised") else ""), g["N"]))
        ctx.note_case(("gauge", g["form"], g["N"]), True)
    pairs = [(a, b) for a in us for b in us if a != b]
    rnd.shuffle(pairs)
    ev = []
    for a, b in pairs[: (12 if ctx.quick else 200)]:
        ev += ratio_events(a, by_u[tuple(a)], b, by_u[tuple(b)])
    traces.append({"tol": TOL_SCALE, "ev": ev})
    labels.append(("pairs", len(ev)))
    # exact triangles
    ev = []
    for t in tri_obs:
        if any(x is None for x in t["e4"]):
            ctx.violation(f"C08:tri:{t['p']}:{t['o2']}", f"C08: link exponents of the integer triangle {t['p']} (gauge origin {t['o2']}/2) are not the exact "
                          f"integers the model predicts: 4/B * exponents = {t['raw']}", {"triangle": t})
            continue
        ev.append({"ev": "tri", "p": t["p"], "o2": t["o2"], "e4": t["e4"]})
        ctx.note_case(("tri", json.dumps(t["p"]), json.dumps(t["o2"])), True)
    traces.append({"tol": 0, "ev": ev})
    labels.append(("triangles", len(ev)))
    accepted, rr = ctx.validate_traces("UnitsTrace", traces, trace_cfg(), name="UnitsTrace[C08]")
    ctx.cov["traces_validated_against_impl"] += len(accepted)
    for n, t in enumerate(traces):
        if n in accepted:
            continue
        far, violated, tail = ctx.diagnose_trace("UnitsTrace", t, trace_cfg())
        e = t["ev"][far - 1] if 0 < far <= len(t["ev"]) else None
        what = (f"C08: the real solver's scales are not those of the Units model ({','.join(violated) or 'event rejected'}): {labels[n]} "
                f"event {json.dumps({k: v for k, v in (e or {}).items() if k != 'm'})} — residual r is in quanta of 1e-12 (tolerance {t['tol']}), "
                f"e is the observed power of ten of the ratio between the two unit systems")
        ctx.violation(f"C08:{labels[n][0]}:{(e or {}).get('q', (e or {}).get('ev'))}:{json.dumps(labels[n][1])}", what,
                      {"trace": t, "stuck_at": far, "violated": violated, "observed": by_u.get(tuple(labels[n][1])) if labels[n][0] == "solver" else None})
    for n in sorted(accepted)[:3]:
        ctx.sample({"label": labels[n], "events": [{k: v for k, v in e.items() if k != "m"} for e in traces[n]["ev"][:8]]})
    # canaries: a wrong exponent and an excessive residual must be rejected
    solver_ok = [n for n in sorted(accepted) if labels[n][0] == "solver"]
    if solver_ok:
        good = traces[solver_ok[0]]
        bad1 = copy.deepcopy(good)
        next(e for e in bad1["ev"] if e["ev"] == "ratio")["e"] += 1
        bad2 = copy.deepcopy(good)
        next(e for e in bad2["ev"] if e["ev"] == "abs")["r"] = TOL_SCALE + 1
        bad3 = {"tol": 0, "ev": [dict(traces[-1]["ev"][0], e4=[x + 1 for x in traces[-1]["ev"][0]["e4"]])]} if traces[-1]["ev"] else None
        bads = [b for b in (bad1, bad2, bad3) if b]
        acc, _ = ctx.validate_traces("UnitsTrace", bads, trace_cfg(), name="canary[C08 scales]", count=False)
        if acc:
            raise core.MachineryFailure(f"C08: corrupted observation accepted by UnitsTrace ({sorted(acc)})")
        ctx.cov["canaries_rejected"] += len(bads)

    # ---------------------------------------------------------------- 3. run level: Twin.Related on full runs
    dt = 2.0 ** -6
    three = [REF, [-9, -6, -9], [-3, 0, -3]]
    fams = {
        "no-screening/fixed-dt": dict(kind="barhole", dt=dt, solve_time=(24 if ctx.quick else 60) * dt - dt / 2, k=8, tolq=5, reload=True, post=True),
        # a time- and position-dependent disorder_epsilon given point by point (xi = 0.8 um is not 1 in any of the unit systems)
        "no-screening/dynamic-epsilon": dict(kind="bar", dt=dt, solve_time=(16 if ctx.quick else 32) * dt - dt / 2, k=4, tolq=5, epsilon="pointwise"),
        "screening/fixed-dt": dict(kind="bar", dt=dt, solve_time=(6 if ctx.quick else 16) * dt - dt / 2, k=3, screening=True, screening_tol=1e-6, tolq=50),
    }
    # the film in the plane z = Z0 != 0, in an applied field that depends on the height (B(Z0) = 1.5 B): fields / potentials at fixed
    # points of the laboratory, against the harness' SI sums over a sheet at Z0 and against the equivalent flat problem
    LIFT = "lifted film (z0 != 0)/height-dependent applied field"
    fams[LIFT] = dict(kind="bar", dt=dt, solve_time=(12 if ctx.quick else 32) * dt - dt / 2, k=4, tolq=5, z0form="layer", reload=True,
                      systems=[REF, [-9, 0, -3]] if ctx.quick else None)
    if not ctx.quick:
        fams["no-screening/adaptive"] = dict(kind="bar", dt=dt, dt_max=0.05, adaptive=True, solve_time=0.8, k=10, tolq=5, Bfactor=1.5)
        three_more = [[-9, 0, -3], [-3, -6, -9], [-6, -3, -3]]
    else:
        three_more = [[-9, 0, -3]]        # a system whose current/length ratio is not A/m (uA/um = nA/nm = mA/mm = A/m)
    jobs, tags = [], []
    variant = {}
    for label, a in fams.items():
        for vi, u in enumerate(a.get("systems") or three + three_more):
            jobs.append(("call", dict(module="harness.units", func="run_twin", args=dict({k: v for k, v in a.items() if k not in ("tolq", "systems")}, u=u, variant=vi))))
            tags.append((label, u))
        if a.get("z0form"):        # the height given in the other forms of the API, and the equivalent problem in the plane z = 0
            plain = {k: v for k, v in a.items() if k not in ("tolq", "post", "reload", "z0form", "systems")}
            for u, form in zip([REF, [-9, -6, -9], [-3, 0, -3]] + ([] if ctx.quick else [[-9, 0, -3], [-6, -3, -3], [-3, -6, -9]]),
                               ["translate", "translate-inplace", "layer-edit", "translate", "translate-inplace", "layer-edit"]):
                jobs.append(("call", dict(module="harness.units", func="run_twin", args=dict(plain, u=u, z0form=form))))
                tags.append((label, u))
                variant[len(tags) - 1] = f" (height given as {form})"
            jobs.append(("call", dict(module="harness.units", func="run_twin", args=dict(plain, u=REF, flat_equiv=True))))
            tags.append((label, REF))
            variant[len(tags) - 1] = " (the equivalent flat problem: film at z = 0 in the uniform field B(Z0), observed Z0 lower)"
        if a.get("reload") and not a.get("z0form"):        # history: the same problem on a device whose layer was first stated wrongly and corrected IN PLACE
            jobs.append(("call", dict(module="harness.units", func="run_twin", args=dict({k: v for k, v in a.items() if k not in ("tolq", "post")},
                                                                                         u=[-9, -6, -9], layer_edit=True))))
            tags.append((label, [-9, -6, -9]))
            variant[len(tags) - 1] = " (layer corrected in place)"
        if a.get("epsilon"):       # the vectorized form of the same epsilon, in the reference unit system
            jobs.append(("call", dict(module="harness.units", func="run_twin", args=dict({k: v for k, v in a.items() if k != "tolq"}, u=REF, epsilon="vectorized"))))
            tags.append((label, REF))
            variant[len(tags) - 1] = " (vectorized epsilon)"
    # history: ONE options object re-used for a second solve in other units; the first solution observed before and after
    hist_cases = [dict(u1=REF, u2=[-9, -6, -9])] + ([] if ctx.quick else [dict(u1=[-9, 0, -3], u2=REF), dict(u1=REF, u2=[-6, -6, -3], kind="barhole")])
    for hc in hist_cases:
        jobs.append(("call", dict(module="harness.units", func="history_twin", args=hc)))
    runs = rf.replay_all(ctx, jobs)
    hist = runs[len(tags):]
    runs = runs[: len(tags)]
    failed = [(tag, r_["error"]) for tag, r_ in zip(tags, runs) if "error" in r_]
    if failed and len(failed) == len(runs) and not ctx.violations:
        raise core.MachineryFailure(f"C08: every run failed: {failed[0]}")
    ttr = []
    for label, a in fams.items():
        mine = [(u, r_) for (lab, u), r_ in zip(tags, runs) if lab == label]
        suffix = [variant.get(n, "") for n, (lab, u) in enumerate(tags) if lab == label]
        bad_runs = [(u, r_) for u, r_ in mine if "error" in r_]
        if bad_runs:
            # a run that raises in one unit system is an observation too: the outcome must not depend on the units
            ev = [{"run": "/".join(units.unit_names(u)), "key": "outcome", "q": [1 if "error" in r_ else 0]} for u, r_ in mine]
            if len(bad_runs) == len(mine):
                ctx.cov.setdefault("run_families_that_raised_in_every_unit_system", {})[label] = bad_runs[0][1]["error"][-200:]
                if not ctx.violations:
                    raise core.MachineryFailure(f"C08: {label} raised in every unit system: {bad_runs[0][1]['error']}")
                continue
            ttr.append({"tol": 0, "minruns": len(mine), "ev": ev, "label": label + " (outcome: " + bad_runs[0][1]["error"][-120:] + ")"})
            continue
        refrun = mine[0][1]
        scale = {}
        qnames = ["abs_psi", "Js", "Jn", "dmu"] + (["epsilon"] if "epsilon" in refrun["frames"][0] else [])
        pnames = [q for q in ("probe_voltage_records", "probe_phase_records") if q in refrun["frames"][-1]]
        for qn in qnames:
            scale[qn] = max(1e-12, max(max(abs(x) for x in fr[qn]) for fr in refrun["frames"]))
        scale["K"] = max(1e-300, max(max(abs(x) for x in v) for v in refrun["K_A_per_m"].values()))
        ev = []
        for (u, r_), sfx in zip(mine, suffix):
            rid = "/".join(units.unit_names(u)) + sfx
            for fr in r_["frames"]:
                for qn in qnames:
                    ev.append({"run": rid, "key": f"step{fr['step']}/{qn}", "q": [int(round(x / scale[qn] * Q)) for x in fr[qn]]})
            for fr in r_["frames"]:
                for qn in pnames:
                    if qn in fr:          # the recorded probe voltage / phase difference, step by step
                        sc = scale["dmu"] if "voltage" in qn else 1.0
                        ev.append({"run": rid, "key": f"step{fr['step']}/{qn}", "q": [int(max(-2e9, min(2e9, round(x / sc * Q)))) for x in fr[qn]]})
                if "probe_voltage_frame" in fr:      # ... and against the frame's own fields at the sites the harness finds for the probe points
                    ev.append({"run": rid + " (frame mu at the harness' probe sites)", "key": f"step{fr['step']}/probe voltage at the frame", "q": [int(round(x / scale["dmu"] * Q)) for x in fr["probe_voltage_frame"]]})
                    ev.append({"run": rid + " (last record)", "key": f"step{fr['step']}/probe voltage at the frame", "q": [int(round(x / scale["dmu"] * Q)) for x in fr["probe_voltage_last_record"]]})
                    ev.append({"run": rid + " (frame psi at the harness' probe sites)", "key": f"step{fr['step']}/probe phase difference at the frame", "q": [int(round(x * Q)) for x in fr["probe_phase_frame"]]})
                    ev.append({"run": rid + " (last record)", "key": f"step{fr['step']}/probe phase difference at the frame", "q": [int(round(x * Q)) for x in fr["probe_phase_last_record"]]})
            for st, v in r_["K_A_per_m"].items():
                ev.append({"run": rid, "key": f"step{st}/current_density[A/m]", "q": [int(round(x / scale["K"] * Q)) for x in v]})
            # the absolute reference first: SI sums over the sheet currents written out by the harness (literal mu_0, XI; sheet at z0)
            fscale = lambda st, base: max(1e-300, max(abs(x) for x in (refrun.get("fields_ref", {}).get(st, {}).get(base) or refrun["fields"][st][base])))
            for st, fd in r_.get("fields_ref", {}).items():
                for qn, v in fd.items():
                    if qn in r_["fields"].get(st, {}):
                        ev.append({"run": rid + f" (SI sums by the harness over a sheet in the plane z = {r_.get('z0_um', 0.0)} um)", "key": f"step{st}/{qn}",
                                   "q": [int(max(-2e9, min(2e9, round(x / fscale(st, qn) * Q)))) for x in v]})
            for st, fd in r_["fields"].items():
                for qn, v in fd.items():
                    base = qn.split(" via ")[0]          # the value obtained through `units=` must be the same physical value
                    sc = fscale(st, base)
                    ev.append({"run": rid + (" via units=" if " via " in qn else ""), "key": f"step{st}/{base}",
                               "q": [int(max(-2e9, min(2e9, round(x / sc * Q)))) for x in v]})
            ev.append({"run": rid, "key": "frames", "q": [fr["step"] for fr in r_["frames"]]})
            qq = lambda xs, sc: [int(max(-2e9, min(2e9, round(x / sc * Q)))) if x == x else 2 * 10 ** 9 for x in xs]
            if "post" in r_:            # accessors with explicit units, many calls on the one Solution
                first = {}
                for o in refrun.get("post", []):
                    first.setdefault(o["key"], max(1e-300, max(abs(x) for x in o["v"])))
                for o in r_["post"]:
                    if o["key"] in first:
                        ev.append({"run": f"{rid} {o['call']}", "key": o["key"], "q": qq(o["v"], first[o["key"]])})
                raised = {}
                for o in r_["post_outcomes"]:
                    raised[o["key"]] = max(raised.get(o["key"], 0), o["raised"])
                for k_, v_ in raised.items():
                    ev.append({"run": rid, "key": k_ + ": some call raised (0/1)", "q": [v_]})
                ctx.cov.setdefault("post_processing_accessors_that_raise_in_this_environment", sorted(k_ for k_, v_ in raised.items() if v_))
            if "reloaded" in r_:        # the solution read back with Solution.from_hdf5, and used as a seed
                rl, rr_ = r_["reloaded"], rid + " (saved and reloaded)"
                ev.append({"run": rr_, "key": "reload/outcome", "q": [1 if "error" in rl else 0]})
                ev.append({"run": rid, "key": "reload/outcome", "q": [0]})
                if "error" not in rl:
                    st = rl["step"]
                    ev.append({"run": rr_, "key": f"step{st}/current_density[A/m]", "q": qq(rl["K"], scale["K"])})
                    for qn, v in rl["fields"].items():
                        ev.append({"run": rr_, "key": f"step{st}/{qn}", "q": qq(v, fscale(st, qn))})
                    dsc = refrun["device"]
                    ev.append({"run": rid, "key": "device: xi, lambda, K0, Bc2 in SI", "q": [int(round(x / d0 * Q)) for x, d0 in zip(r_["device"], dsc)]})
                    ev.append({"run": rr_, "key": "device: xi, lambda, K0, Bc2 in SI", "q": [int(max(-2e9, min(2e9, round(x / d0 * Q)))) for x, d0 in zip(rl["device"], dsc)]})
                cn = r_["continuation"]
                ev.append({"run": rid, "key": "continuation from the reloaded solution/outcome", "q": [1 if "error" in cn else 0]})
                ev.append({"run": "the property", "key": "continuation from the reloaded solution/outcome", "q": [0]})
                if "error" not in cn and "error" not in refrun.get("continuation", {"error": 1}):
                    ev.append({"run": rid, "key": "continuation/abs_psi", "q": qq(cn["abs_psi"], 1.0)})
                    ev.append({"run": rid, "key": "continuation/current_density[A/m]", "q": qq(cn["K"], max(1e-300, max(abs(x) for x in refrun["continuation"]["K"])))})
            ctx.note_case((label, rid), len(r_["frames"]) >= 2)
        if a.get("z0form"):         # vacuity: the film really is lifted in every form, and the observation points feel the height
            lifted = [r_ for _, r_ in mine if r_.get("z0form")]
            forms = {r_["z0form"] for r_ in lifted}
            st = sorted(refrun["fields_ref"])[-1]
            hi, lo = refrun["fields_ref"][st]["Bvec_total[T]"], refrun["fields_ref_flat"][st]["Bvec_total[T]"]
            sens = max(abs(x - y) for x, y in zip(hi, lo)) / max(1e-300, max(abs(x) for x in hi))
            film = units.GEOM["W"] * units.GEOM["H"]          # the cell areas the SI sums use tile the film the harness asked for
            if abs(refrun["mesh_area_um2"] / film - 1) > 1e-9:
                raise core.MachineryFailure(f"C08: the cells of the shared mesh cover {refrun['mesh_area_um2']} um^2, the film has {film} um^2")
            if forms != set(units.Z0_FORMS) or any(not r_["z0_um"] for r_ in lifted) or len(lifted) != len(mine) - 1 or sens < 0.05:
                raise core.MachineryFailure(f"C08: the lifted-film family is vacuous: forms {sorted(forms)}, sensitivity of the field to the height {sens:.3g}")
            ctx.cov.setdefault("lifted_film", {}).update(z0_um=units.Z0_UM, forms=sorted(forms), runs=len(lifted),
                                                         relative_change_of_the_field_if_the_sheet_were_at_z0_0=round(sens, 4))
        ttr.append({"tol": a["tolq"], "minruns": len(mine), "ev": ev, "label": label})
        ctx.sample({"family": label, "runs": [units.unit_names(u) for u, _ in mine], "frames": [fr["step"] for fr in refrun["frames"]],
                    "scales": scale, "tolerance_quanta": a["tolq"], "quantum": "1e-6 of the scale"}, limit=8)
    for hc, h in zip(hist_cases, hist):
        first = h["runs"]["first solution, before"]
        ev, ev_reload = [], []
        for rid, o in h["runs"].items():
            reload_ = "reloaded" in rid
            for qn, v in o.items():
                base = qn.split(" from ")[0]
                sc = max(1e-300, max(abs(x) for x in first[base]))
                e = {"run": rid + (" (with_units=False)" if " from " in qn else ""), "key": base,
                     "q": [int(max(-2e9, min(2e9, round(x / sc * Q)))) if x == x else 2 * 10 ** 9 for x in v]}
                if reload_ or rid == "first solution, before":
                    ev_reload.append(e)
                if not reload_:
                    ev.append(e)
        ev.append({"run": "the unit system the first problem was stated in", "key": "unit labels of the first solution", "q": h["expected_first"]})
        ev_reload.append(ev[-1])
        for rid, lab in h["first_labels"].items():
            (ev_reload if "reloaded" in rid else ev).append({"run": rid, "key": "unit labels of the first solution", "q": lab})
        ev.append({"run": "the unit system the second problem was stated in", "key": "unit labels of the second solution", "q": h["expected_second"]})
        ev.append({"run": "second solution", "key": "unit labels of the second solution", "q": h["second_labels"]})
        label = f"history/one options object: {'/'.join(units.unit_names(hc['u1']))} then {'/'.join(units.unit_names(hc['u2']))}"
        ttr.append({"tol": 5, "minruns": 4, "ev": ev, "label": label})
        # kept apart (own key): the first solution written with to_hdf5 AFTER the options object was re-used, and read back
        ttr.append({"tol": 5, "minruns": 3, "ev": ev_reload, "label": label + " / saved after the edit and reloaded"})
        ctx.note_case((label,), True)
    acc = twin.validate_twin(ctx, ttr, "C08")
    def repeated(tr):       # events whose key was observed before in the same trace (a later observation that must agree)
        seen, out = set(), []
        for e in tr["ev"]:
            if e["key"] in seen and e["q"]:
                out.append(e)
            seen.add(e["key"])
        return out
    cands = [n for n in sorted(acc) if repeated(ttr[n])]
    if cands:
        n = cands[0]
        bad = copy.deepcopy(ttr[n])
        victim = repeated(bad)[-1]
        j = max(range(len(victim["q"])), key=lambda i: abs(victim["q"][i]))
        victim["q"][j] += bad["tol"] + 20
        a2, _ = ctx.validate_traces("Twin", [{"tol": bad["tol"], "minruns": 2, "ev": bad["ev"]}], twin.twin_cfg(), name="canary[C08 runs]", count=False)
        if a2:
            raise core.MachineryFailure("C08: corrupted twin trace accepted")
        ctx.cov["canaries_rejected"] += 1
    ctx.cov["bounds"]["solvers_constructed"] = [units.unit_names(u) for u in us]
    ctx.cov["bounds"]["run_families"] = {k: {kk: vv for kk, vv in v.items()} for k, v in fams.items()}
    ctx.cov["rule"] = ("model: all 729 pairs of unit systems x 5 dimensionless/physical quantities, all non-degenerate integer triangles in the box x 9 gauge "
                       "origins; binding: one real TDGLSolver per unit system on one shared mesh (A_scale, current_func, screening weights, K0, Bc2, "
                       "boundary current density, link sums round every mesh triangle), exact triangles through the real gauge code, full runs in "
                       "three (thorough: five) unit systems; non-trivial = every solver / triangle / run with >= 2 frames; distinct = distinct unit systems, triangles, runs")
    ctx.assume("the numeric values of Phi_0 and mu_0 are taken from the code's own unit registry (inputs, not under test)")
    ctx.assume("the twins share one dimensionless mesh: meshing an outline expressed in other units yields a different triangulation (Triangle), which is not unit handling")


def run(ctx):
    """A problem of the harness on a tree that has already been refuted must not turn the verdict into a machinery failure:
    violations recorded so far stand (exit 1); without any violation the problem is reported as what it is (exit 2)."""
    import traceback

    from harness import core as _core
    try:
        _run(ctx)
    except _core.MachineryFailure as e:
        if not ctx.violations:
            raise
        ctx.cov["machinery_problem_after_violations"] = str(e)[:500]
    except Exception:
        if not ctx.violations:
            raise
        ctx.cov["machinery_problem_after_violations"] = traceback.format_exc()[-800:]
