"""C20 — fields and potentials computed from currents are linear and correct.

Model (spec/FieldKernels.tla): exact Biot-Savart / Coulomb sums on Pythagorean lattice instances (integers over
the common denominators L3 = 216000, L1 = 60), relations Linear, ScalarEqualsVectorZ, TotalIsSumOfParts,
MirrorSymmetry, the measured anchor values, and H <-> B conversion as exponent algebra.
Binding.  spec -> code: TLC's instances are evaluated by the REAL kernels (biot_savart_2d in four unit
choices, scalar and vector; get_A_induced_numba for in-plane instances) and by the harness' reference sums.
code -> spec: the observed values, quantised to the integers they must be (residual <= 1e-9), and the
observed convert_field factors (10^a mu0^b) are validated by TLC (spec/FieldKernelsTrace.tla), which
recomputes the expected values from the instance in the event and evaluates the relations as invariants.
Relations on a tiny SOLVED device (Solution.field_at_position / vector_potential_at_position, total vs parts,
scalar vs vector, linearity, direct SI sums, unit choices, H vs B) and the loop laws are quantised pairs that
the trace specification requires to agree.
The clause "closed-form loop potential matches numerical quadrature" has no finite exact instance: only
linearity in the current, the scaling law A(s r; s R) = A(r; R) and the symmetries are checked."""
from __future__ import annotations

import copy
import json

from harness import core, fields, runfamily as rf

LEVEL = "model_checking"

INVS = ["Linear", "ScalarEqualsVectorZ", "TotalIsSumOfParts", "MirrorSymmetry", "AnchorValues", "HBRoundTrip", "HBTransitive", "HBPreservesValue"]
TOL_EXACT = 1000       # quanta of 1e-12 (relative): 1e-9
REL_Q = 1e9            # relations: values quantised to 1e-9 of their scale ...
TOL_REL = 1000         # ... and must agree to 1e-6 (kernels and reference differ by 1e-13; a wrong factor by >= 2)


def cfg(quick, invs, spec="Spec", sign=True, mu0=True, k=2, areas="{1, 2}"):
    return ("CONSTANTS\n MaxC = 4\n K = %d\n JPairs <- %s\n Areas = %s\n Coefs <- %s\n MSignZ = %s\n MMu0Side = %s\n" % (
        k, "QuickJPairs" if quick else "ThoroughJPairs", areas, "QuickCoef1" if quick else "QuickCoefs",
        "TRUE" if sign else "FALSE", "TRUE" if mu0 else "FALSE")
        + f"SPECIFICATION {spec}\n" + "".join(f"INVARIANT {i}\n" for i in invs) + "CHECK_DEADLOCK FALSE\n")


def printed_values(out):
    vals, buf, depth = [], None, 0
    for line in out.splitlines():
        st = line.strip()
        if buf is None:
            if not st.startswith("<<"):
                continue
            buf, depth = "", 0
        buf += " " + st
        depth += st.count("<<") + st.count("[") + st.count("(") - st.count(">>") - st.count("]") - st.count(")")
        if depth <= 0:
            try:
                vals.append(core.parse_tla_value(buf.strip()))
            except Exception:
                pass
            buf = None
    return vals


def _run(ctx):
    core.import_tdgl()
    # ---------------------------------------------------------------- 1. the model
    r = ctx.model_check("FieldKernels", cfg(ctx.quick, INVS + ["EmitInst"]), name="FieldKernels[Pythagorean instances, H<->B units]",
                        required_actions=["AddElement", "PickUnits"])
    ctx.cov["exhaustive"] = True
    ctx.cov["bounds"] = {"displacements": "integer vectors in [-4,4]^3 of integer length (96)", "elements": "<= 2 in one plane", "areas": [1, 2],
                         "current_pairs": 2 if ctx.quick else 4, "coefficients": 1 if ctx.quick else 2, "field_units": "H|B x 10^{-9,-6,-4,-3,0,3,6}, all triples"}
    insts = [{"el": v[1], "co": v[2]} for v in printed_values(r.out) if v and v[0] == "INST"]
    # the anchor instances of the design (a unit source seen from (0,3,4) and (3,0,4))
    anchors = [{"el": [{"d": d, "a": 1, "j1": [1, 0], "j2": [0, 1]}], "co": [1, 1]} for d in ([0, 3, 4], [3, 0, 4], [3, 4, 0], [0, -3, -4])]
    if len(insts) < 20:
        raise core.MachineryFailure(f"C20: TLC exported only {len(insts)} instances")
    ctx.model_check("FieldKernels", cfg(True, ["AnchorValues"], sign=False, k=1, areas="{1}"), name="FieldKernels[canary: Jx dy + Jy dx]",
                    expect_violation="AnchorValues", count=False)
    ctx.model_check("FieldKernels", cfg(True, ["HBPreservesValue"], mu0=False, k=1, areas="{1}"), name="FieldKernels[canary: mu0 on the wrong side]",
                    expect_violation="HBPreservesValue", count=False)

    # ---------------------------------------------------------------- 2. the real code
    inplane = [i for i in insts if i["el"][0]["d"][2] == 0]
    offplane = [i for i in insts if i["el"][0]["d"][2] != 0]
    nmax = 60 if ctx.quick else 600
    chosen = anchors + offplane[:nmax] + inplane[: nmax // 3]
    jobs = [("call", dict(module="harness.fields", func="exact_instances", args=dict(instances=chosen))),
            ("call", dict(module="harness.fields", func="conversions", args={})),
            ("call", dict(module="harness.fields", func="solved_relations", args=dict(dev="barhole", u=[-6, -3, -6]))),
            # a device stated with MIXED prefixes (current_units / length_units is not 1 A/m): nm, mT, uA
            ("call", dict(module="harness.fields", func="solved_relations", args=dict(dev="bar", u=[-9, -3, -6], loop=False)))]
    jobs.append(("call", dict(module="harness.fields", func="z0_relations", args=dict(z0=0.7))))      # a layer that is not at z = 0
    for k in (1, 3, 25):        # time-dependent applied potential, frames saved every k steps
        jobs.append(("call", dict(module="harness.fields", func="time_dependent_relations", args=dict(k=k, steps=50 if ctx.quick else 90))))
    if not ctx.quick:
        for u in ([-6, -3, -3], [-3, 0, -9], [-9, -6, -9]):
            jobs.append(("call", dict(module="harness.fields", func="solved_relations", args=dict(dev="bar", u=u, loop=False))))
    res = rf.replay_all(ctx, jobs)
    ev_field, ev_conv = res[0], res[1]
    traces, labels = [], []
    for e in ev_field:
        traces.append({"tol": TOL_EXACT, "ev": [{k: v for k, v in e.items() if k != "src"}]})
        labels.append(("instance", e["src"], {"el": e["el"], "co": e["co"]}))
        ctx.note_case(("field", e["src"], json.dumps(e["el"]), json.dumps(e["co"])), True)
    for e in ev_conv:
        traces.append({"tol": TOL_EXACT, "ev": [{k: v for k, v in e.items() if k not in ("names", "raised")}]})
        labels.append(("convert_field", f"{e['names'][0]} -> {e['names'][1]}" + (f" (raised {e['raised']})" if e.get("raised") else ""), None))
        ctx.note_case(("conv", e["names"][0], e["names"][1]), e["names"][0] != e["names"][1])
    nrel = 0
    for sr in res[2:]:
        for rel in sr["rel"]:
            scale = rel.get("scale") or max([abs(x) for x in rel["a"]] + [abs(x) for x in rel["b"]] + [1e-300])
            q = lambda xs: [int(max(-2e9, min(2e9, round(x / scale * REL_Q)))) if x == x else 2 * 10 ** 9 for x in xs]
            traces.append({"tol": TOL_REL, "ev": [{"ev": "rel", "name": rel["name"], "a": q(rel["a"]), "b": q(rel["b"])}]})
            labels.append(("relation", rel["name"] + ": " + rel["what"], {"a": rel["a"][:6], "b": rel["b"][:6]}))
            ctx.note_case(("rel", rel["name"], rel["what"], sr["nsites"], str(sr.get("u"))), True)
            nrel += 1
    tcfg = cfg(False, ["Accepted"] + INVS, spec="TSpec")
    accepted, rr = ctx.validate_traces("FieldKernelsTrace", traces, tcfg, name="FieldKernelsTrace[C20]")
    ctx.cov["traces_validated_against_impl"] += len(accepted)
    reported = 0
    for n, t in enumerate(traces):
        if n in accepted:
            continue
        kind, what, extra = labels[n]
        e = t["ev"][0]
        if kind == "instance":
            msg = (f"C20: {what} on the exact instance {json.dumps(extra)} gave numerators bz={e['bz']} bv={e['bv']} (over 216000) A={e['A']} (over 60), "
                   f"rounding residual {e['r']} quanta of 1e-12 — not the model's exact values")
            key = f"C20:instance:{what}:{json.dumps(extra)}"
        elif kind == "convert_field":
            msg = f"C20: convert_field {what} observed factor 10^{e['ten']} * mu0^{e['mu']} (residual {e['r']} quanta), the model's exponent algebra differs"
            key = f"C20:conv:{what}"
        else:
            worst = max(abs(a - b) for a, b in zip(e["a"], e["b"])) if len(e["a"]) == len(e["b"]) else -1
            msg = f"C20: relation {what} fails on the solved device: largest difference {worst} quanta of 1e-9 of the scale (tolerance {TOL_REL}); values {extra}"
            key = f"C20:rel:{what}"
        if reported < 12:
            if ctx.violation(key, msg, {"trace": t, "label": labels[n]}):      # known findings do not use up the report limit
                reported += 1
        else:
            ctx.cov["further_rejected_traces"] = ctx.cov.get("further_rejected_traces", 0) + 1
    for n in sorted(accepted)[:2] + [x for x in sorted(accepted) if labels[x][0] == "relation"][:2]:
        ctx.sample({"label": labels[n][:2], "event": traces[n]["ev"][0]}, limit=6)
    # canaries
    good_f = next((n for n in sorted(accepted) if labels[n][0] == "instance" and traces[n]["ev"][0]["bz"]), None)
    good_c = next((n for n in sorted(accepted) if labels[n][0] == "convert_field" and traces[n]["ev"][0]["mu"] != 0), None)
    good_r = next((n for n in sorted(accepted) if labels[n][0] == "relation"), None)
    bads = []
    if good_f is not None:
        b = copy.deepcopy(traces[good_f])
        b["ev"][0]["bz"][0] += 1
        bads.append(b)
    if good_c is not None:
        b = copy.deepcopy(traces[good_c])
        b["ev"][0]["mu"] = -b["ev"][0]["mu"]
        bads.append(b)
    if good_r is not None:
        b = copy.deepcopy(traces[good_r])
        b["ev"][0]["a"][0] += TOL_REL + 5
        bads.append(b)
    if bads:
        acc, _ = ctx.validate_traces("FieldKernelsTrace", bads, tcfg, name="canary[C20]", count=False)
        if acc:
            raise core.MachineryFailure(f"C20: corrupted observation accepted ({sorted(acc)})")
        ctx.cov["canaries_rejected"] += len(bads)
    elif not ctx.violations:
        raise core.MachineryFailure("C20: nothing accepted to carry a canary")
    ctx.cov["bounds"]["replayed"] = {"instances": len(chosen), "kernel_evaluations": len(ev_field), "conversions": len(ev_conv), "relations": nrel}
    ctx.cov["rule"] = ("model: every instance of <= 2 elements in the displacement universe and every triple of field units; binding: a deterministic sample "
                       "of TLC's instances + the design's anchor instances through the real kernels in 4 unit choices and the reference sums, all ordered "
                       "pairs of 12 field units through convert_field, relations on a solved device and the loop laws; non-trivial = every instance / "
                       "conversion between different units / relation; distinct = distinct (evaluator, instance), unit pairs, relations")
    ctx.assume("the closed-form loop potential vs numerical quadrature comparison is not decided by the specification (no finite exact instance); "
               "only linearity in the current, the scaling law and the symmetries of current_loop_vector_potential are checked")
    ctx.assume("reference sums in harness/fields.py are themselves validated against TLC's exact values on the same instances")


def run(ctx):
    """A problem of the harness on a tree that has already been refuted must not turn the verdict into a machinery failure:
    violations recorded so far stand (exit 1); without any violation the problem is reported as what it is (exit 2)."""
    import traceback

    from harness import core as _core
    try:
        _run(ctx)
    except _core.MachineryFailure as e:
        if not ctx.violations:
            raise
        ctx.cov["machinery_problem_after_violations"] = str(e)[:500]
    except Exception:
        if not ctx.violations:
            raise
        ctx.cov["machinery_problem_after_violations"] = traceback.format_exc()[-800:]
