"""C20 — fields and potentials computed from currents are linear and correct.

Model (spec/FieldKernels.tla): exact Biot-Savart / Coulomb sums on Pythagorean lattice instances (integers over
the common denominators L3 = 216000, L1 = 60), relations Linear, ScalarEqualsVectorZ, TotalIsSumOfParts,
MirrorSymmetry, the measured anchor values, and H <-> B conversion as exponent algebra.
Binding.  spec -> code: TLC's instances are evaluated by the REAL kernels (biot_savart_2d in four unit
choices, scalar and vector; get_A_induced_numba for in-plane instances) and by the harness' reference sums.
code -> spec: the observed values, quantised to the integers they must be (residual <= 1e-9), and the
observed convert_field factors (10^a mu0^b) are validated by TLC (spec/FieldKernelsTrace.tla), which
recomputes the expected values from the instance in the event and evaluates the relations as invariants.
Relations on a tiny SOLVED device (Solution.field_at_position / vector_potential_at_position, total vs parts,
scalar vs vector, linearity, direct SI sums, unit choices, H vs B) and the loop laws are quantised pairs that
the trace specification requires to agree.
The clause "closed-form loop potential matches numerical quadrature" (FieldKernels!LoopMatchesQuadrature): the real
closed form (em.current_loop_vector_potential, sources.CurrentLoop) and the harness' own quadrature of
mu0 I/4pi \\oint dl/|r - r'| (harness/fields.py: loop_quadrature; literal SI constants, the numbers passed in) at the
points of the regimes on_axis / near_axis (rho/R = 1e-9 .. 1e-3) / far_field (>= 200 R) / generic of several loops
(radii, off-centre, three unit systems, both signs of the current), quantised per point to 1e-9 of the point's scale;
the trace specification requires every component finite (NaN / inf is accepted by no action), the reference zero on
the axis, and agreement within 1e-6 of the scale."""
from __future__ import annotations

import copy
import json

from harness import core, fields, runfamily as rf

LEVEL = "model_checking"

INVS = ["Linear", "ScalarEqualsVectorZ", "TotalIsSumOfParts", "MirrorSymmetry", "AnchorValues", "HBRoundTrip", "HBTransitive", "HBPreservesValue"]
TOL_EXACT = 1000       # quanta of 1e-12 (relative): 1e-9
REL_Q = 1e9            # relations: values quantised to 1e-9 of their scale ...
TOL_REL = 1000         # ... and must agree to 1e-6 (kernels and reference differ by 1e-13; a wrong factor by >= 2)
# loop clause: the same 1e-6 of the per-point scale (fields.loop_scale).  Noise: closed form vs quadrature 1e-15 .. 1e-10 where the
# closed form is evaluated stably, + 6e-10 (mu0 literal); effects of interest: 5e-6 (rho/R = 1e-5) .. 1e-1 (1e-7) .. NaN (<= 1e-8, axis)


def cfg(quick, invs, spec="Spec", sign=True, mu0=True, k=2, areas="{1, 2}"):
    return ("CONSTANTS\n MaxC = 4\n K = %d\n JPairs <- %s\n Areas = %s\n Coefs <- %s\n MSignZ = %s\n MMu0Side = %s\n" % (
        k, "QuickJPairs" if quick else "ThoroughJPairs", areas, "QuickCoef1" if quick else "QuickCoefs",
        "TRUE" if sign else "FALSE", "TRUE" if mu0 else "FALSE")
        + f"SPECIFICATION {spec}\n" + "".join(f"INVARIANT {i}\n" for i in invs) + "CHECK_DEADLOCK FALSE\n")


def printed_values(out):
    vals, buf, depth = [], None, 0
    for line in out.splitlines():
        st = line.strip()
        if buf is None:
            if not st.startswith("<<"):
                continue
            buf, depth = "", 0
        buf += " " + st
        depth += st.count("<<") + st.count("[") + st.count("(") - st.count(">>") - st.count("]") - st.count(")")
        if depth <= 0:
            try:
                vals.append(core.parse_tla_value(buf.strip()))
            except Exception:
                pass
            buf = None
    return vals


def _run(ctx):
    core.import_tdgl()
    # ---------------------------------------------------------------- 1. the model
    r = ctx.model_check("FieldKernels", cfg(ctx.quick, INVS + ["EmitInst"]), name="FieldKernels[Pythagorean instances, H<->B units]",
                        required_actions=["AddElement", "PickUnits"])
    ctx.cov["exhaustive"] = True
    ctx.cov["bounds"] = {"displacements": "integer vectors in [-4,4]^3 of integer length (96)", "elements": "<= 2 in one plane", "areas": [1, 2],
                         "current_pairs": 2 if ctx.quick else 4, "coefficients": 1 if ctx.quick else 2, "field_units": "H|B x 10^{-9,-6,-4,-3,0,3,6}, all triples"}
    insts = [{"el": v[1], "co": v[2]} for v in printed_values(r.out) if v and v[0] == "INST"]
    # the anchor instances of the design (a unit source seen from (0,3,4) and (3,0,4))
    anchors = [{"el": [{"d": d, "a": 1, "j1": [1, 0], "j2": [0, 1]}], "co": [1, 1]} for d in ([0, 3, 4], [3, 0, 4], [3, 4, 0], [0, -3, -4])]
    if len(insts) < 20:
        raise core.MachineryFailure(f"C20: TLC exported only {len(insts)} instances")
    ctx.model_check("FieldKernels", cfg(True, ["AnchorValues"], sign=False, k=1, areas="{1}"), name="FieldKernels[canary: Jx dy + Jy dx]",
                    expect_violation="AnchorValues", count=False)
    ctx.model_check("FieldKernels", cfg(True, ["HBPreservesValue"], mu0=False, k=1, areas="{1}"), name="FieldKernels[canary: mu0 on the wrong side]",
                    expect_violation="HBPreservesValue", count=False)

    # ---------------------------------------------------------------- 2. the real code
    inplane = [i for i in insts if i["el"][0]["d"][2] == 0]
    offplane = [i for i in insts if i["el"][0]["d"][2] != 0]
    nmax = 60 if ctx.quick else 600
    chosen = anchors + offplane[:nmax] + inplane[: nmax // 3]
    jobs = [("call", dict(module="harness.fields", func="exact_instances", args=dict(instances=chosen))),
            ("call", dict(module="harness.fields", func="conversions", args={})),
            ("call", dict(module="harness.fields", func="solved_relations", args=dict(dev="barhole", u=[-6, -3, -6]))),
            # a device stated with MIXED prefixes (current_units / length_units is not 1 A/m): nm, mT, uA
            ("call", dict(module="harness.fields", func="solved_relations", args=dict(dev="bar", u=[-9, -3, -6], loop=False)))]
    jobs.append(("call", dict(module="harness.fields", func="z0_relations", args=dict(z0=0.7))))      # a layer that is not at z = 0
    for k in (1, 3, 25):        # time-dependent applied potential, frames saved every k steps
        jobs.append(("call", dict(module="harness.fields", func="time_dependent_relations", args=dict(k=k, steps=50 if ctx.quick else 90))))
    jobs.append(("call", dict(module="harness.fields", func="loop_quadrature", args=dict(dense=not ctx.quick))))
    n_fixed_jobs = len(jobs)
    if not ctx.quick:
        for u in ([-6, -3, -3], [-3, 0, -9], [-9, -6, -9]):
            jobs.append(("call", dict(module="harness.fields", func="solved_relations", args=dict(dev="bar", u=u, loop=False))))
    res = rf.replay_all(ctx, jobs)
    ev_field, ev_conv = res[0], res[1]
    traces, labels = [], []
    for e in ev_field:
        traces.append({"tol": TOL_EXACT, "ev": [{k: v for k, v in e.items() if k != "src"}]})
        labels.append(("instance", e["src"], {"el": e["el"], "co": e["co"]}))
        ctx.note_case(("field", e["src"], json.dumps(e["el"]), json.dumps(e["co"])), True)
    for e in ev_conv:
        traces.append({"tol": TOL_EXACT, "ev": [{k: v for k, v in e.items() if k not in ("names", "raised")}]})
        labels.append(("convert_field", f"{e['names'][0]} -> {e['names'][1]}" + (f" (raised {e['raised']})" if e.get("raised") else ""), None))
        ctx.note_case(("conv", e["names"][0], e["names"][1]), e["names"][0] != e["names"][1])
    nrel = 0
    loopq = res[n_fixed_jobs - 1]
    for sr in res[2:n_fixed_jobs - 1] + res[n_fixed_jobs:]:
        for rel in sr["rel"]:
            scale = rel.get("scale") or max([abs(x) for x in rel["a"]] + [abs(x) for x in rel["b"]] + [1e-300])
            q = lambda xs: [int(max(-2e9, min(2e9, round(x / scale * REL_Q)))) if x == x else 2 * 10 ** 9 for x in xs]
            traces.append({"tol": TOL_REL, "ev": [{"ev": "rel", "name": rel["name"], "a": q(rel["a"]), "b": q(rel["b"])}]})
            labels.append(("relation", rel["name"] + ": " + rel["what"], {"a": rel["a"][:6], "b": rel["b"][:6]}))
            ctx.note_case(("rel", rel["name"], rel["what"], sr["nsites"], str(sr.get("u"))), True)
            nrel += 1
    # the loop clause: one trace per (regime, exponent), one event per (loop, api)
    nloop = {}
    for g in loopq["groups"]:
        traces.append({"tol": TOL_REL, "ev": [{k: v for k, v in e.items() if k != "meta"} for e in g["events"]]})
        labels.append(("loopq", f"{g['regime']}" + (f" 1e{g['rexp']}" if g["regime"] in ("near_axis", "far_field") else ""), [e["meta"] for e in g["events"]]))
        nloop[(g["regime"], g["rexp"])] = len(g["events"])
        for e in g["events"]:
            ctx.note_case(("loopq", g["regime"], g["rexp"], e["meta"]["loop"], e["meta"]["api"]), True)
    ctx.cov["loop_quadrature"] = {"traces": len(loopq["groups"]), "events": sum(nloop.values()),
                                  "points": sum(e["meta"]["points"] for g in loopq["groups"] for e in g["events"]),
                                  "reference_selfcheck": loopq["selfcheck"], "tolerance": "1e-6 of the per-point scale (fields.loop_scale)"}
    tcfg = cfg(False, ["Accepted"] + INVS, spec="TSpec")
    accepted, rr = ctx.validate_traces("FieldKernelsTrace", traces, tcfg, name="FieldKernelsTrace[C20]")
    ctx.cov["traces_validated_against_impl"] += len(accepted)
    reported = 0
    for n, t in enumerate(traces):
        if n in accepted:
            continue
        kind, what, extra = labels[n]
        e = t["ev"][0]
        if kind == "instance":
            msg = (f"C20: {what} on the exact instance {json.dumps(extra)} gave numerators bz={e['bz']} bv={e['bv']} (over 216000) A={e['A']} (over 60), "
                   f"rounding residual {e['r']} quanta of 1e-12 — not the model's exact values")
            key = f"C20:instance:{what}:{json.dumps(extra)}"
        elif kind == "convert_field":
            msg = f"C20: convert_field {what} observed factor 10^{e['ten']} * mu0^{e['mu']} (residual {e['r']} quanta), the model's exponent algebra differs"
            key = f"C20:conv:{what}"
        elif kind == "loopq":
            # presentation only (TLC rejected the trace): which events of the trace do not satisfy the clause, and the worst point of each
            bad = [(ev, m) for ev, m in zip(t["ev"], extra) if ev["nonfinite"] or len(ev["a"]) != len(ev["b"])
                   or max(abs(a - b) for a, b in zip(ev["a"], ev["b"])) > t["tol"]]
            ev, m = bad[0] if bad else (t["ev"][0], extra[0])
            w = m["worst"]
            msg = (f"C20: clause LoopMatchesQuadrature (closed-form loop potential vs quadrature of mu0 I/4pi oint dl/|r-r'|) fails in regime {what}: "
                   f"{len(bad)} of {len(t['ev'])} loop evaluations rejected; first: {m['api']} loop {m['loop']}: "
                   + (f"the real code raised {m['raised']}; " if m["raised"] else "")
                   + (f"{ev['nonfinite']} NaN/inf components (e.g. at {m['nonfinite_points'][:2]}); " if ev["nonfinite"] else "")
                   + f"worst point {w['point']} (rho/R = {w['rho_over_R']:.3g}, z/R = {w['z_over_R']:.3g}): package {w['package_T_m']} T m, quadrature {w['quadrature_T_m']} T m, "
                     f"deviation {w['deviation_over_scale']:.3g} of the scale (tolerance 1e-6; scale = {w['scale_over_mu0I_4pi']:.3g} mu0 I/4pi)")
            key = f"C20:loopquad:{what}"
            extra = {"rejected_events": [mm for _, mm in bad][:8]}
        else:
            worst = max(abs(a - b) for a, b in zip(e["a"], e["b"])) if len(e["a"]) == len(e["b"]) else -1
            msg = f"C20: relation {what} fails on the solved device: largest difference {worst} quanta of 1e-9 of the scale (tolerance {TOL_REL}); values {extra}"
            key = f"C20:rel:{what}"
        if reported < 12:
            if ctx.violation(key, msg, {"trace": t, "label": labels[n]}):      # known findings do not use up the report limit
                reported += 1
        else:
            ctx.cov["further_rejected_traces"] = ctx.cov.get("further_rejected_traces", 0) + 1
    for n in sorted(accepted)[:2] + [x for x in sorted(accepted) if labels[x][0] == "relation"][:2]:
        ctx.sample({"label": labels[n][:2], "event": traces[n]["ev"][0]}, limit=6)
    for n in [x for x in sorted(accepted) if labels[x][0] == "loopq"][:1]:
        ctx.sample({"label": labels[n][:2], "first_event": {k: (v[:6] if isinstance(v, list) else v) for k, v in traces[n]["ev"][0].items()},
                    "worst_point": labels[n][2][0]["worst"]}, limit=7)
    # canaries
    good_f = next((n for n in sorted(accepted) if labels[n][0] == "instance" and traces[n]["ev"][0]["bz"]), None)
    good_c = next((n for n in sorted(accepted) if labels[n][0] == "convert_field" and traces[n]["ev"][0]["mu"] != 0), None)
    good_r = next((n for n in sorted(accepted) if labels[n][0] == "relation"), None)
    good_l = next((n for n in sorted(accepted) if labels[n][0] == "loopq"), None)
    bads = []
    if good_f is not None:
        b = copy.deepcopy(traces[good_f])
        b["ev"][0]["bz"][0] += 1
        bads.append(b)
    if good_c is not None:
        b = copy.deepcopy(traces[good_c])
        b["ev"][0]["mu"] = -b["ev"][0]["mu"]
        bads.append(b)
    if good_r is not None:
        b = copy.deepcopy(traces[good_r])
        b["ev"][0]["a"][0] += TOL_REL + 5
        bads.append(b)
    if good_l is not None:
        b = copy.deepcopy(traces[good_l])       # one component off by more than the tolerance
        k = next(j for j, v in enumerate(b["ev"][-1]["b"]) if v != 0) if any(b["ev"][-1]["b"]) else 0
        b["ev"][-1]["a"][k] += TOL_REL + 5
        bads.append(b)
        b = copy.deepcopy(traces[good_l])       # a NaN that happens to be quantised onto the reference
        b["ev"][0]["nonfinite"] = 1
        bads.append(b)
    if bads:
        acc, _ = ctx.validate_traces("FieldKernelsTrace", bads, tcfg, name="canary[C20]", count=False)
        if acc:
            raise core.MachineryFailure(f"C20: corrupted observation accepted ({sorted(acc)})")
        ctx.cov["canaries_rejected"] += len(bads)
    elif not ctx.violations:
        raise core.MachineryFailure("C20: nothing accepted to carry a canary")
    ctx.cov["bounds"]["replayed"] = {"instances": len(chosen), "kernel_evaluations": len(ev_field), "conversions": len(ev_conv), "relations": nrel,
                                     "loop_quadrature_traces": len(nloop)}
    # vacuity: the loop family must really contain the axis, every decade 1e-9 .. 1e-3 off it, the far field and generic points,
    # each for >= 4 loops (after the verdicts: a refuted tree keeps exit 1)
    need = [("on_axis", 0), ("generic", 0)] + [("near_axis", k) for k in range(-9, -2)] + [("far_field", k) for k in range(2, 7)]
    missing = [x for x in need if nloop.get(x, 0) < 4]
    if missing and not ctx.violations:
        raise core.MachineryFailure(f"C20: the loop-quadrature family does not contain {missing}")
    if good_l is None and not ctx.violations:
        raise core.MachineryFailure("C20: no loop-quadrature trace was accepted (nothing to carry the canary)")
    ctx.cov["rule"] = ("model: every instance of <= 2 elements in the displacement universe and every triple of field units; binding: a deterministic sample "
                       "of TLC's instances + the design's anchor instances through the real kernels in 4 unit choices and the reference sums, all ordered "
                       "pairs of 12 field units through convert_field, relations on a solved device and the loop laws; the closed-form loop potential vs "
                       "the harness' quadrature on loops x regimes (on the axis, 1e-9..1e-3 R off it, >= 200 R away, generic); non-trivial = every instance / "
                       "conversion between different units / relation / loop evaluation; distinct = distinct (evaluator, instance), unit pairs, relations, "
                       "(regime, loop, api)")
    ctx.assume("loop clause: the quadrature (midpoint rule, 2048 source points, cancellation-free form) is the reference; it is cross-checked in every run against "
               "the plain Cartesian sum, against its own refinement (1e-12) and against the dipole limit; points closer than 0.2 R to the wire are not evaluated")
    ctx.assume("reference sums in harness/fields.py are themselves validated against TLC's exact values on the same instances")


def run(ctx):
    """A problem of the harness on a tree that has already been refuted must not turn the verdict into a machinery failure:
    violations recorded so far stand (exit 1); without any violation the problem is reported as what it is (exit 2)."""
    import traceback

    from harness import core as _core
    try:
        _run(ctx)
    except _core.MachineryFailure as e:
        if not ctx.violations:
            raise
        ctx.cov["machinery_problem_after_violations"] = str(e)[:500]
    except Exception:
        if not ctx.violations:
            raise
        ctx.cov["machinery_problem_after_violations"] = traceback.format_exc()[-800:]
