"""C13 — screening returns a self-consistent induced vector potential or fails.
Decided with spec/StepCtl.tla (+ StepCtlTrace.tla) and spec/ScreenKernel.tla: DESIGN.md 3.2, 3.10, 5/C13.

1. design: TLC checks on the StepCtl state machine that an accepted step with screening ended with error < tolerance,
   that hitting the iteration limit raises, the Polyak relation, that the error is the relative mismatch between the
   previous iterate and the kernel output, that dt is kept across iterations, and that without screening no kernel call
   is made and the induced potential stays zero; seeded design errors must violate the clauses.
2. spec -> code: behaviours (kernel output of every iteration, refusals) are replayed on the REAL TDGLSolver.update with
   a scripted dyadic kernel; the recorded iterates / velocities / convergence flags / iteration counts / exceptions,
   mapped to the model's integers, must be a behaviour of StepCtl (TLC).
3. kernel: ScreenKernel.tla transcribes the double sum on exact (Pythagorean) instances; TLC prints instances and
   expected rationals, the real numba kernel and the numpy reference are run on them and TLC compares the integer
   numerators; random instances (arbitrary currents, areas, point sets) compare the kernel with the reference.
4. code -> spec: natural screening runs (tolerances 1e-4..1e-2, several (alpha, beta), adaptive and fixed steps, an
   iteration limit that is hit) are abstracted to relation flags per get_induced_vector_potential call and to a
   quantised self-consistency mismatch per stored frame; TLC validates them against the control skeleton of StepCtl
   and the frame clauses; runs without screening must store an identically zero induced potential."""
import json
import random

from harness import core, runfamily as rf, stepctl as sc

LEVEL = "model_checking"

ACTIONS = ["Begin", "Test", "Links", "Answer", "Induced", "Finish"]
INV = sorted(set(sc.INV_C13 + ["DtPositive", "DtAtMostMax"]))
PROP = sc.PROP_C13


def bounds(ctx):
    q = ctx.quick
    scr = dict(Adaptives=[True], Screenings=[True], Windows=[1], RetrySet=[0], MulExps=[1], Deltas=[0], MaxRefusals=0)
    models = [
        ("StepCtl[C13 alpha, beta, tolerance grid]",
         dict(scr, MaxIters=[1, 2] if q else [1, 2, 3], TolExps=[7, 10], AlphaExps=[0, 1], BetaQs=[2, 4],
              Kicks=[1, 2, 3, 5] if q else [1, 2, 3, 4, 5, 6], MaxSteps=2), INV, PROP, ACTIONS),
        ("StepCtl[C13 beta 1/4, 3/4, alpha 1/4]",
         dict(scr, MaxIters=[2], TolExps=[7], AlphaExps=[2], BetaQs=[1, 3], Kicks=[1, 3, 4] if q else [1, 2, 3, 4],
              MaxSteps=2 if q else 3), INV, PROP, ACTIONS),
        ("StepCtl[C13 with refusals, fixed step]",
         dict(Adaptives=[True, False], Screenings=[True], Windows=[1], RetrySet=[1], MulExps=[1], Deltas=[0, 1024],
              MaxIters=[1, 2], TolExps=[7], AlphaExps=[1], BetaQs=[4], Kicks=[1, 3], MaxSteps=3, MaxRefusals=2),
         INV + sc.INV_C12, PROP + sc.PROP_C12, ACTIONS + ["Refuse"]),
        ("StepCtl[C13 screening disabled]",
         dict(Adaptives=[True, False], Screenings=[False], Windows=[1], RetrySet=[1], MulExps=[1], Deltas=[0, 1024],
              MaxSteps=4, MaxRefusals=2), INV, PROP, ["Begin", "Test", "Answer", "Finish"]),
    ]
    models.append(
        # thermalisation: the induced potential (values) carries over the restart, the velocity restarts every step
        ("StepCtl[C13 thermalisation with screening]",
         dict(scr, Thermals=[True], MaxThermal=2, MaxIters=[1, 2], TolExps=[7], AlphaExps=[0, 1], BetaQs=[2, 4], Kicks=[1, 2, 3],
              MaxSteps=2), INV, PROP, ACTIONS + ["StageRestart"]))
    small = dict(scr, MaxIters=[1, 2], TolExps=[7], AlphaExps=[0, 1], BetaQs=[2, 4], Kicks=[1, 2, 3], MaxSteps=2)
    # the old exit test (error on the increment): TLC's counterexample is the zero crossing with momentum — the kernel
    # output equals the current iterate, the increment is zero, the step is accepted and returns iterate + (1 - beta) v
    canaries = [("MErrOnIncrement", small, "AcceptedIterateIsSelfConsistent"), ("MErrOnIncrement", small, "ErrorIsRelativeMismatch"),
                ("MTestPrev", small, "ConvergedStops"), ("MTestPrev", small, "AcceptedStepConverged"),
                ("MReturnUnconverged", small, "AcceptedStepConverged"), ("MReturnUnconverged", small, "NonConvergenceRaises")]
    exports = [
        ("screening", dict(scr, MaxIters=[1, 2] if q else [1, 2, 3], TolExps=[7], AlphaExps=[0, 1], BetaQs=[2, 4],
                           Kicks=[1, 2, 3, 5] if not q else [1, 2, 3], MaxSteps=2)),
        ("screening beta 1/4", dict(scr, MaxIters=[2], TolExps=[10], AlphaExps=[2], BetaQs=[1, 3], Kicks=[1, 3, 4], MaxSteps=2)),
        ("screening with refusals", dict(Adaptives=[True, False], Screenings=[True], Windows=[1], RetrySet=[1], MulExps=[1],
                                         Deltas=[0, 1024], MaxIters=[1], TolExps=[7], AlphaExps=[1], BetaQs=[4], Kicks=[1, 3],
                                         MaxSteps=2 if q else 3, MaxRefusals=2)),
        ("no screening", dict(Adaptives=[True, False], Screenings=[False], Deltas=[0, 1024], MaxSteps=3, MaxRefusals=1)),
        ("thermalisation with screening", dict(scr, Thermals=[True], MaxThermal=2, MaxIters=[1], TolExps=[7], AlphaExps=[0, 1],
                                               BetaQs=[2, 4], Kicks=[1, 2, 3], MaxSteps=2)),
        # adaptive window rule over steps that take several screening iterations (delta once per solve step)
        ("adaptive window 2 with screening", dict(Adaptives=[True], Screenings=[True], Windows=[2], RetrySet=[0], MulExps=[1],
                                                  Deltas=[0, 1024] if q else [0, 1024, 16384], MaxIters=[1], Kicks=[1, 3], MaxSteps=4,
                                                  MaxRefusals=0)),
    ]
    return models, canaries, exports


def natural_matrix(ctx):
    d6 = 2.0 ** -6
    base = [
        dict(dev="bar", screening=True, tol=1e-3, dt_init=d6, dt_max=0.1, current=4.0, field=0.5, solve_time=0.2, k=3),
        dict(dev="barhole", screening=True, tol=1e-2, alpha=0.5, beta=0.5, dt_init=d6, dt_max=0.1, current=2.0, field=1.0,
             solve_time=0.3, k=3),
        dict(dev="bar", screening=True, tol=1e-4, alpha=1.0, beta=1.0, adaptive=False, dt_init=d6, current=4.0, field=0.5,
             solve_time=0.15, k=2),
        dict(dev="film", screening=True, tol=1e-3, alpha=0.3, beta=0.8, adaptive=False, dt_init=d6, field=1.5, solve_time=0.09, k=2),
        # adaptive + screening, proposal not clipped: the window rule counts solve steps, not screening iterations
        dict(dev="bar", screening=True, tol=1e-2, alpha=0.5, beta=0.5, dt_init=2.0 ** -8, dt_max=0.25, window=4,
             current=20.0, field=1.0, solve_time=1.0, k=10),
        # the same micron-size device described in metres: coordinates ~1e-6 in the kernel (no absolute length scale)
        dict(dev="bar", length_units="m", scale=1e-6, screening=True, tol=1e-3, dt_init=d6, dt_max=0.1, current=4.0, field=0.5,
             solve_time=0.1, k=2),
        # thermalisation before the recorded stage: only recorded frames are stored, the induced potential carries over
        dict(dev="bar", screening=True, tol=1e-3, adaptive=False, dt_init=d6, current=4.0, field=0.5, skip_time=0.08, solve_time=0.1, k=2),
        # iteration limit hit -> RuntimeError
        dict(dev="bar", screening=True, tol=1e-4, maxiter=2, dt_init=d6, dt_max=0.1, current=4.0, field=0.5, solve_time=0.3, k=3),
        # screening disabled: induced potential identically zero in every frame
        dict(dev="bar", dt_init=d6, dt_max=0.1, current=4.0, field=0.5, solve_time=0.3, k=2),
        dict(dev="barhole", adaptive=False, dt_init=d6, current=2.0, field=1.0, solve_time=0.2, k=3),
        # history: layer parameter changed IN PLACE (device.layer.london_lambda = ...) between two screening runs on one
        # meshed device: the second run must screen with the new Lambda (reference from the values asked for)
        dict(dev="bar", screening=True, tol=1e-3, adaptive=False, dt_init=d6, current=4.0, field=0.5, solve_time=4 * d6 - d6 / 2, k=2,
             layer_edit=dict(lam=1.0)),
        # history: xi != 1, a screening run, post-processing calls on its solution (field / vector potential at positions),
        # then the observed screening run on the SAME device: cell areas must still be those of the triangulation
        dict(dev="bar", xi=0.5, lam=1.0, d=0.1, screening=True, tol=1e-3, adaptive=False, dt_init=d6, current=4.0, field=0.5,
             solve_time=4 * d6 - d6 / 2, k=2, seed=dict(solve_time=2 * d6 - d6 / 2), postprocess="unseeded"),
        # history: device translated in place AFTER meshing: the induced potential is evaluated at the moved edge midpoints
        dict(dev="ring", screening=True, tol=1e-3, adaptive=False, dt_init=d6, field=2.0, solve_time=4 * d6 - d6 / 2, k=2,
             translate=[7.0, -3.0]),
        dict(dev="barhole", screening=True, tol=1e-3, adaptive=False, dt_init=d6, current=2.0, field=0.8, solve_time=4 * d6 - d6 / 2, k=2,
             translate=[-2.5, 4.0]),
        # history: screening disabled, but the run is seeded (seed_solution=) from a SCREENED solution whose induced
        # potential is not zero: the clause "identically zero with screening disabled" must still hold in every frame
        dict(dev="bar", adaptive=False, dt_init=d6, current=4.0, field=0.5, solve_time=4 * d6 - d6 / 2, k=2,
             seed=dict(screening=True, tol=1e-3)),
    ]
    if ctx.quick:
        return base
    out = list(base)
    for tol in (1e-4, 1e-3, 1e-2):
        for alpha, beta in ((0.1, 0.5), (0.5, 0.5), (1.0, 1.0), (0.3, 0.8), (0.7, 0.3)):
            for dev in ("bar", "barhole"):
                out.append(dict(dev=dev, screening=True, tol=tol, alpha=alpha, beta=beta, dt_init=d6, dt_max=0.1,
                                adaptive=(alpha != 1.0), current=3.0 if dev == "bar" else 2.0, field=0.8,
                                solve_time=0.2, k=3))
    out.append(dict(dev="barhole", length_units="mm", scale=1e-3, screening=True, tol=1e-3, alpha=0.5, beta=0.5, dt_init=d6, dt_max=0.1,
                    current=2.0, field=0.8, solve_time=0.15, k=2))
    out.append(dict(dev="bar", length_units="nm", scale=1e3, screening=True, tol=1e-3, dt_init=d6, dt_max=0.1, current=4.0, field=0.5,
                    solve_time=0.1, k=2))
    out.append(dict(dev="ring", screening=True, tol=1e-3, alpha=0.5, beta=0.5, dt_init=d6, dt_max=0.1, field=2.0, solve_time=0.3, k=3))
    out.append(dict(dev="tee", screening=True, tol=1e-3, dt_init=d6, dt_max=0.1, current=3.0, field=0.5, solve_time=0.2, k=3))
    out.append(dict(dev="barhole", screening=True, tol=1e-3, maxiter=1, dt_init=d6, dt_max=0.1, current=4.0, field=0.5, solve_time=0.3, k=3))
    return out


def kernel_part(ctx):
    """ScreenKernel: theorems + instances from TLC; real kernel and reference validated by TLC."""
    nsites = 3 if ctx.quick else 4
    gen = ctx.model_check("ScreenKernel", sc.kernel_cfg(["Linear", "AreaIsWeight", "OrderIndependent", "ScaleCovariant", "Emit"], spec="GSpec", nsites=nsites),
                          name="ScreenKernel[theorems + instances]", timeout=1200, workers=6)
    ctx.model_check("ScreenKernel", sc.kernel_cfg(["AreaNeverMatters"], spec="GSpec", nsites=2), name="ScreenKernel[area weight is visible]",
                    expect_violation="AreaNeverMatters", count=False, workers=2)
    inst = [json.loads(json.loads(l)) for l in gen.printed() if l.startswith('"{')]
    if len(inst) < 1000:
        raise core.MachineryFailure(f"ScreenKernel printed only {len(inst)} instances")
    rnd = random.Random(ctx.seed)
    rnd.shuffle(inst)
    ninst = 600 if ctx.quick else 12000
    nrand = 150 if ctx.quick else 3000
    ctx.cov["kernel_instances_generated"] = len(inst)
    inst = inst[:ninst]
    jobs = [("call", dict(module="harness.stepctl", func="kernel_exact", args=dict(instances=inst[n:n + 200])))
            for n in range(0, len(inst), 200)]
    jobs += [("call", dict(module="harness.stepctl", func="kernel_random", args=dict(seeds=list(range(ctx.seed * 100000 + n, ctx.seed * 100000 + n + 50)))))
             for n in range(0, nrand, 50)]
    return jobs


def _run(ctx):
    models, canaries, exports = bounds(ctx)
    ctx.cov["bounds"] = {"models": {m[0]: m[1] for m in models}, "exports": {e[0]: e[1] for e in exports},
                         "fixed_point_bits": {"time": sc.FT, "delta": sc.FD, "vector_potential": sc.FA},
                         "frame_mismatch_bound": "3 x tolerance (quantum: tolerance / 1000)"}
    # 1. the design (background)
    design = sc.in_background(sc.run_models, ctx, models, canaries)
    # 2. exports and kernel instances
    fams = sc.export_many(ctx, exports)
    kjobs = kernel_part(ctx)
    rnd = random.Random(ctx.seed)
    per = 300 if ctx.quick else 25000
    scripts = []
    exhaustive = True
    for fam in fams:
        rnd.shuffle(fam)
        exhaustive = exhaustive and len(fam) <= per
        scripts += fam[:per]
    ctx.cov["behaviours_exported"] = sum(len(f) for f in fams)
    ctx.cov["behaviours_replayed"] = len(scripts)
    ctx.cov["exhaustive"] = exhaustive
    # 3. real code: kernel jobs, scripted replays, natural runs
    kres = rf.replay_all(ctx, kjobs)
    ktraces = [t for r in kres for t in r]
    naturals = natural_matrix(ctx)
    straces, sacc, ntraces, nacc = sc.replay_and_validate(ctx, scripts, naturals, "C13")
    kcfg = sc.kernel_cfg(["RandomAgree", "Accepted"])     # Accepted last: see stepctl.trace_cfg
    kacc = sc.validate(ctx, "ScreenKernel", ktraces, kcfg, "C13/kernel",
                       lambda t: json.dumps({k: v for k, v in t.items() if k != "tlc"}, sort_keys=True)[:300])
    for t in ktraces:
        ctx.note_case(("kernel", t.get("seed", json.dumps([t.get("sites"), t.get("K"), t.get("area")]))), True)
    design.result()
    ctx.cov["natural_runs"] = [{"params": t["params"], "stats": t["stats"], "raised": t["raised"]} for t in ntraces[:12]]
    describe(ctx)
    if ctx.violations:
        return          # verdict first: guards and canaries below are self-tests of the machinery, never a way to hide it
    # vacuity guards
    st = [t["stats"] for t in ntraces]
    scr = [t for t in ntraces if t["params"].get("screening")]
    if not any(t["params"].get("layer_edit") and t["stats"]["frames"] >= 2 and t["stats"]["max_screening_iterations"] >= 2 for t in ntraces):
        raise core.MachineryFailure("no screening run after an in-place layer edit")
    if not any(t["params"].get("translate") and t["stats"]["frames"] >= 2 and t["stats"]["max_screening_iterations"] >= 2 for t in ntraces):
        raise core.MachineryFailure("no screening run on a device translated in place after meshing")
    if not any(t["params"].get("postprocess") and t["params"].get("xi", 1.0) != 1.0 and t["stats"]["frames"] >= 2
               and t["stats"]["max_screening_iterations"] >= 2 for t in ntraces):
        raise core.MachineryFailure("no screening run after post-processing calls on a device with xi != 1")
    seeded = [t for t in ntraces if t["params"].get("seed") is not None and not t["params"].get("screening") and not t["params"].get("postprocess")]
    if not any((t["stats"]["seed_max_induced"] or 0) > 0 and t["stats"]["frames"] >= 2 for t in seeded):
        raise core.MachineryFailure("no unscreened run seeded from a screened solution with a non-zero induced potential")
    if not (any(t["raised"] == "screening" for t in scr) and sum(t["stats"]["frames"] for t in scr) >= 8
            and max(t["stats"]["max_screening_iterations"] for t in scr) >= 5
            and any(not t["params"].get("screening") and t["stats"]["frames"] >= 3 for t in ntraces)):
        raise core.MachineryFailure(f"natural runs did not exercise screening: {st}")
    if not (any(t["ev"][-1]["ev"] == "raise" and t["ev"][-1]["why"] == "screening" for t in straces)
            and any(e["ev"] == "induced" and e["conv"] for t in straces for e in t["ev"])):
        raise core.MachineryFailure("scripted replays never converged or never hit the iteration limit")
    nexact = sum(1 for t in ktraces if t["kind"] == "exact")
    worst = max((t["q"] for t in ktraces if t["kind"] == "random"), default=0)
    rand = [t for t in ktraces if t["kind"] == "random"]
    sens = sum(1 for t in rand if t["qnoarea"] >= 10 ** 6) / max(1, len(rand))     # share that would see a dropped area weight
    if nexact < 100 or len(rand) < 50 or sens < 0.8:
        raise core.MachineryFailure(f"kernel instances too few or insensitive to the area weight: {nexact} {sens}")
    scales = sorted({t["scale2"] for t in ktraces if t["kind"] == "exact"})
    small = sum(1 for t in rand if t["log10_extent"] < -6)
    if scales != sorted(sc.KERNEL_SCALES2) or small < 10:
        raise core.MachineryFailure(f"kernel instances do not cover the coordinate scales: {scales}, {small} random instances below 1e-6")
    ctx.cov["kernel_coordinate_scales"] = {"exact_instances_2^e": scales, "random_extent_log10": [-9, 3]}
    ctx.cov["kernel"] = {"exact_instances": nexact, "random_instances": len(ktraces) - nexact,
                         "worst_random_mismatch_1e-15": worst, "share_of_random_instances_sensitive_to_the_area_weight": round(sens, 3)}
    ctx.cov["max_frame_mismatch_over_tolerance"] = max((t["stats"]["max_frame_mismatch_over_tol"] for t in scr), default=0)
    for n in sorted(sacc)[:2]:
        ctx.sample({"script": sc.describe_script(dict(cfg=straces[n]["cfg"], hist=straces[n]["script"]["hist"])),
                    "recorded": sc.strip_trace(straces[n])["ev"][:10]})
    for n in sorted(nacc)[:2]:
        ctx.sample({"natural": ntraces[n]["params"], "stats": ntraces[n]["stats"],
                    "frames": [e for e in ntraces[n]["ev"] if e["ev"] == "frame"][:4]})
    for n in sorted(kacc)[:1]:
        ctx.sample({"kernel_instance": ktraces[n]})
    # canaries: corrupted recordings must be rejected
    items = []
    if sacc:
        items += [("StepCtlTrace", straces, sacc, sc.exact_cfg(), mut, f"C13/{mut.__name__}", sc.strip_trace)
                  for mut in (sc.mut_exact_polyak, sc.mut_exact_unconverged, sc.mut_exact_drop_raise)]
    if nacc:
        items += [("StepCtlTrace", ntraces, nacc, sc.flags_cfg(), mut, f"C13/{mut.__name__}", sc.strip_trace)
                  for mut in (sc.mut_flags_frame, sc.mut_flags_conv, sc.mut_flags_nonzero)]
    if kacc:
        items += [("ScreenKernel", ktraces, kacc, kcfg, mut_kernel, "C13/kernel-got", lambda t: t)]
    sc.canaries_concurrently(ctx, items)


def describe(ctx):
    ctx.cov["rule"] = ("behaviours of StepCtl with screening (kernel output per iteration, refusals) exported by TLC and replayed on "
                       "the real TDGLSolver.update with a scripted kernel; exact kernel instances printed by TLC and random "
                       "instances run through the real numba kernel; natural screening runs; a scripted case is non-trivial when "
                       "it contains a refusal or a screening iteration, every kernel instance and every natural run that makes an "
                       "attempt is; distinct = distinct inputs")
    ctx.assume("scripted replays: solve_for_psi_squared and get_A_induced_numba (name in tdgl.solver.solver) are replaced at run "
               "time; update, get_induced_vector_potential (Polyak step, error), the operators and the Poisson solve are the real code")
    ctx.assume("frame self-consistency and the in-situ kernel relation use harness.stepctl.ScreeningOracle: site currents by the "
               "harness's own unit-direction-weighted average over raw mesh arrays, prefactor 1/(pi Lambda) and coordinates from the "
               "layer parameters the harness asked for (nothing read back from Device.K0/A0, TDGLSolver.areas/sites or mesh helpers), "
               "and harness.stepctl.ref_induced (numpy, itself validated by TLC on the exact instances) for the double sum; "
               "mismatch = max over edges of |A_stored - sum| / |A_stored|, bound 3 x tolerance")
    ctx.assume("natural runs: Polyak / error / kernel relations are evaluated by the harness on the logged arrays with relative "
               "tolerance 1e-12 / 1e-9 / 1e-10; TLC decides where they are required and checks iteration counts and exits")


def mut_kernel(t):
    if t["kind"] != "exact":
        return None
    t["got"][0][0] += 1
    return t


def run(ctx):
    """Verdicts first: a machinery problem (vacuity guard, canary) met after violations were recorded never replaces them."""
    try:
        _run(ctx)
    except core.MachineryFailure as e:
        if not ctx.violations:
            raise
        ctx.cov["machinery_problem_after_violations"] = str(e)[:2000]


def replay(ctx, path):
    return sc.replay_file(ctx, path)
