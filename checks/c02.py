"""C02 — each step solves the discretised TDGL update psi' + z|psi'|^2 = w on the physical branch,
and refuses exactly when some site has no solution.
Model: spec/PsiUpdate.tla (exact Gaussian-rational grid; lemmas checked by TLC at every grid point).
Binding: every emitted grid point is realised as inputs of the REAL TDGLSolver.solve_for_psi_squared by
inverting the documented formulas; the answers are validated by TLC against spec/PsiUpdateTrace.tla."""
import copy
import json

from harness import core, psiupdate as pu, runfamily as rf

LEVEL = "model_checking"
CLAUSES = ["AnsweredImpliesEquation", "AnsweredImpliesSquaredModulus", "AnsweredIsPhysicalBranch", "AnsweredOnlyWhereSolvable",
           "RefusedIffSomeSiteUnsolvable"]


def describe(t):
    if t.get("hist"):
        h = t["hist"]
        reused = ",".join(f"{b}:{m}" for b, m in h["modes"].items() if m != "fresh") or "none"
        return (f"history#{h['h']} call {h['k']} {t['params']} refused={t['refused']} caller's buffers reused [{reused}] "
                f"changed since the previous call: values of {h['changed'] or '-'}, scalars {h['scalars_changed'] or '-'}")
    sites = [(e["kind"], e["zr"], e["zi"], e["wr"], e["wi"]) for e in t["ev"]]
    return f"{t['family']} {t['params']} refused={t['refused']} sites(kind,z*4,w*4)={sites}"


def insitu_matrix(ctx):
    runs = [
        dict(label="bar/strong-current/large-steps (retried steps, mu != 0)", dev="bar", current=20.0, field=1.0, dt=0.25, dt_max=2.0, window=2, solve_time=1.2),
        dict(label="bar/second solve() on the same TDGLSolver object", dev="bar", current=5.0, field=0.5, solve_time=0.3, scenario="second-solve"),
        dict(label="barhole/seed_solution + thermalisation + time-dependent epsilon and field", dev="barhole", current=4.0, field=0.4, field_ramp=0.3,
             epsilon_ramp=0.3, solve_time=0.3, skip_time=0.1, scenario="seeded"),
        dict(label="tee/ramped currents/fixed step/RuntimeWarnings are errors", dev="tee", current=6.0, current_ramp=0.2, field=0.2, adaptive=False, solve_time=0.25,
             werror=True),
        dict(label="bar/strong-current/retries/RuntimeWarnings are errors", dev="bar", current=20.0, field=1.0, dt=0.25, dt_max=2.0, window=2, solve_time=0.5,
             werror=True),
        dict(label="bar/screening/fixed step", dev="bar", current=5.0, field=0.5, solve_time=0.08, screening=True, adaptive=False),
        # gamma and u asked for through Layer(...): gamma = 0 (z = 0: linear update), gamma = 1, a non-default u
        dict(label="bar/Layer(gamma=0)/transport current", dev="bar", gamma=0.0, current=8.0, field=0.5, solve_time=0.3),
        dict(label="tee/Layer(gamma=1, u=1)/retries", dev="tee", gamma=1.0, u=1.0, current=12.0, field=0.6, dt=0.125, dt_max=0.5, window=2, solve_time=1.0),
        dict(label="barhole/Layer(gamma=0, u=2.5)/time-dependent epsilon", dev="barhole", gamma=0.0, u=2.5, current=4.0, field=0.4, epsilon_ramp=0.2,
             solve_time=0.3),
        # how the user's epsilon function returns its values: Python ints mixed with floats, numpy scalars, vectorized, static
        dict(label="bar/epsilon(r, t) returning int 1 and floats", dev="bar", current=4.0, field=0.3, epsilon_ramp=0.15, epsilon_form="int-mixed", solve_time=0.25),
        dict(label="film/epsilon(r, t) returning numpy scalars of mixed type/gamma=1", dev="film", gamma=1.0, field=0.8, epsilon_ramp=0.15,
             epsilon_form="numpy-scalar", solve_time=0.25),
        dict(label="bar/epsilon(r) static, int and float", dev="bar", current=4.0, field=0.3, epsilon_ramp=1.0, epsilon_form="static-int-mixed", solve_time=0.2),
        # the simulated device is DERIVED from the constructed one (non-default gamma, u; conductivity unset and set)
        dict(label="route/device.copy()/Layer(gamma=1, u=2.5)", dev="bar", gamma=1.0, u=2.5, route="copy", current=6.0, field=0.4, solve_time=0.15),
        dict(label="route/device.rotate(30)/Layer(gamma=0, u=1)", dev="tee", gamma=0.0, u=1.0, route="rotate", current=6.0, field=0.3, solve_time=0.15),
        dict(label="route/device.scale(-1, 1)/Layer(gamma=2, u=1)/conductivity set", dev="bar", gamma=2.0, u=1.0, conductivity=4.0, route="scale", current=6.0,
             field=0.4, solve_time=0.15),
        dict(label="route/device.translate(not in place)/Layer(gamma=1, u=3)", dev="barhole", gamma=1.0, u=3.0, route="translate", current=4.0, field=0.3,
             solve_time=0.15),
        dict(label="route/Device.from_hdf5(to_hdf5)/Layer(gamma=1, u=2.5)/conductivity unset", dev="bar", gamma=1.0, u=2.5, route="hdf5", current=6.0, field=0.4,
             solve_time=0.15),
        dict(label="route/Device.from_hdf5(to_hdf5)/Layer(gamma=0, u=1)/conductivity set", dev="tee", gamma=0.0, u=1.0, conductivity=4.0, route="hdf5", current=6.0,
             field=0.3, solve_time=0.15),
        dict(label="route/Solution.from_hdf5(path).device/Layer(gamma=2, u=1)", dev="bar", gamma=2.0, u=1.0, route="solution-device", current=6.0, field=0.4,
             solve_time=0.15),
        # sweeps that build all their Layers/Devices first: other (gamma, u) are created AFTER this run's layer and BEFORE its solve
        dict(label="bar/Layer(gamma=10)/decoy layers (gamma=0,u=1),(gamma=1,u=2.5) built before the solve", dev="bar", current=6.0, field=0.4, solve_time=0.25,
             decoys=[(0.0, 1.0), (1.0, 2.5)]),
        dict(label="tee/Layer(gamma=1, u=1)/decoy layers (gamma=10,u=5.79),(gamma=0,u=3) built before the solve", dev="tee", gamma=1.0, u=1.0, current=6.0,
             field=0.3, solve_time=0.25, decoys=[(10.0, 5.79), (0.0, 3.0)]),
    ]
    if not ctx.quick:
        runs += [
            dict(label="cross/strong-current/retries/gamma=1", dev="cross", gamma=1.0, current=15.0, field=0.8, dt=0.25, dt_max=1.0, window=1, solve_time=2.0),
            dict(label="barhole/second solve()/ramped field", dev="barhole", current=3.0, field=0.6, field_ramp=0.2, solve_time=0.3, scenario="second-solve"),
            dict(label="bar/seed_solution/strong current", dev="bar", current=12.0, field=0.6, dt=0.125, dt_max=1.0, solve_time=1.0, solve_time2=1.0, scenario="seeded"),
            dict(label="film/epsilon ramp/no terminals", dev="film", field=0.9, epsilon_ramp=0.2, solve_time=0.4, skip_time=0.05),
            dict(label="barhole/screening/adaptive", dev="barhole", current=3.0, field=0.4, solve_time=0.1, screening=True, adaptive=True),
            dict(label="tee/gamma=0/retries", dev="tee", gamma=0.0, current=15.0, field=0.5, dt=0.25, dt_max=1.0, solve_time=1.5),
        ]
    return runs


def insitu(ctx):
    """Solver level: 'whenever the update from step n to n+1 is answered' on the updates of REAL runs (wrappers on TDGLSolver.update and
    solve_for_psi_squared; z, w recomputed from the documented formulas in exact arithmetic; TLC validates with the PsiUpdateTrace clauses)."""
    runs = insitu_matrix(ctx)
    if ctx.quick:
        runs = [dict(a, max_traced=a.get("max_traced", 5 if a.get("route") else 10)) for a in runs]      # quick: at most 10 traced updates per run (first steps of every phase always)
    res = rf.replay_all(ctx, [("call", dict(module="harness.psiupdate", func="insitu_run", args=a)) for a in runs])
    traces, owner = [], []
    for a, r in zip(runs, res):
        for t in r["traces"]:
            traces.append(t)
            owner.append(a["label"])
            ctx.note_case(("insitu", a["label"], t["level"], t["label"], t["family"]), nontrivial=True)
    retried_mu = sum(1 for t in traces if t["level"] == "update" and t["retried"] and t["mu_max"] > 1e-3)
    phases = sorted({p for r in res for p in r["phases"]})
    ctx.cov["insitu"] = {"runs": len(runs), "updates_observed": sum(r["n_updates"] for r in res), "traces": len(traces),
                         "retried_answered_updates_with_mu": retried_mu, "phases": phases, "max_screening_iterations": max(r["max_iterations"] for r in res),
                         "refused_attempts_checked": sum(1 for t in traces if t["refused"])}
    ran = [(r["requested_gamma"], r["requested_u"], r["u_passed"]) for r in res if r["n_updates"] > 0]
    ctx.cov["insitu"]["requested_gamma_values"] = sorted({g for g, _, _ in ran})
    ctx.cov["insitu"]["requested_u_values"] = sorted({u for _, u, _ in ran})
    if not any(g == 0.0 for g, _, _ in ran) or not any(g not in (0.0, 10.0) for g, _, _ in ran) or not any(p and u != 5.79 for _, u, p in ran) \
            or not any(not p for _, _, p in ran):
        raise core.MachineryFailure(f"C02 in situ: need runs with Layer(gamma=0), another non-default gamma, a non-default u and the default u: {ran}")
    forms = {r["epsilon_form"]: r["epsilon_fractional_sites"] for r in res if r["epsilon_form"] and r["n_updates"] > 0}
    ctx.cov["insitu"]["epsilon_forms_with_fractional_sites"] = forms
    if not {"float", "int-mixed", "numpy-scalar", "static-int-mixed"} <= set(forms) or min(forms.values()) < 3:
        raise core.MachineryFailure(f"C02 in situ: epsilon forms not exercised (form -> sites with fractional epsilon): {forms}")
    dec = [(r["requested_gamma"], r["requested_u"], r["decoys"]) for r in res if r["decoys"] and r["n_updates"] > 0
           and all((g, u) != (r["requested_gamma"], r["requested_u"]) for g, u in r["decoys"])]
    ctx.cov["insitu"]["runs_with_decoy_layers"] = len(dec)
    if len(dec) < 2:
        raise core.MachineryFailure(f"C02 in situ: fewer than 2 runs with decoy Layers of other (gamma, u) built before the solve: {dec}")
    routes = {}
    for r in res:
        if r.get("route") and r["n_updates_on_derived"] > 0 and (r["requested_gamma"] != 10.0 or r["requested_u"] != 5.79):
            routes.setdefault(r["route"], []).append(dict(gamma=r["requested_gamma"], u=r["requested_u"], conductivity_set=r["conductivity_set"],
                                                          updates=r["n_updates_on_derived"]))
    ctx.cov["insitu"]["derived_device_routes"] = routes
    missing = {"copy", "rotate", "scale", "translate", "hdf5", "solution-device"} - set(routes)
    if missing or not any(x["conductivity_set"] for x in routes.get("hdf5", [])) or not any(not x["conductivity_set"] for x in routes.get("hdf5", [])):
        raise core.MachineryFailure(f"C02 in situ: derived-device routes not exercised with non-default gamma/u: missing {sorted(missing)}; {routes}")
    if retried_mu < 3:
        raise core.MachineryFailure(f"C02 in situ: only {retried_mu} retried answered updates with mu != 0 (need >= 3)")
    if "second-solve" not in phases or "seeded" not in phases:
        raise core.MachineryFailure(f"C02 in situ: second solve() / seeded restart not observed ({phases})")
    norm = [pu.to_tlc(t) for t in traces]
    accepted = set()
    B = 400
    for n0 in range(0, len(norm), B):
        acc, _ = ctx.validate_traces("PsiUpdateTrace", norm[n0:n0 + B], pu.trace_cfg(True), name="PsiUpdateTrace[C02 in situ]")
        accepted |= {n0 + a for a in acc}
    ctx.cov["traces_validated_against_impl"] += len(accepted)
    rejected = [n for n in range(len(norm)) if n not in accepted]
    if rejected:
        clauses = {}
        for n0 in range(0, len(rejected), B):
            sub = rejected[n0:n0 + B]
            _, r = ctx.validate_traces("PsiUpdateTrace", [norm[n] for n in sub], pu.diagnosis_cfg(), name="PsiUpdateTrace[in situ diagnosis]", count=False)
            for line in r.printed():
                if line.startswith('<<"CLAUSES"'):
                    v = core.parse_tla_value(line)
                    clauses[sub[v[1] - 1]] = [c for c, bit in zip(CLAUSES, v[2:]) if bit]
        groups = {}
        for n in rejected:
            t = traces[n]
            cl = ",".join(clauses.get(n, ["?"]))
            groups.setdefault(f"C02:{cl}:insitu:{t['family']}:{owner[n]}", []).append(n)
        for key, ns in sorted(groups.items()):
            t = traces[ns[0]]
            what = (f"{key}: {len(ns)} in-situ traces of run '{owner[ns[0]]}' rejected by PsiUpdateTrace; first: {t['label']} level={t['level']} retried={t['retried']} "
                    f"screening iterations={t['iterations']} dt={t['params']['dt']} worst residual quanta={t['worst']}")
            ctx.violation(key, what, {"module": "PsiUpdateTrace", "run": owner[ns[0]], "steps": [traces[n]["label"] for n in ns[:20]],
                                      "observation_first_sites": traces[ns[0]]["ev"][:5]})
    ctx.cov["insitu"]["accepted"] = len(accepted)
    upd = [n for n in sorted(accepted) if traces[n]["level"] == "update"]
    if upd:
        n = upd[len(upd) // 2]
        bad = []
        b = copy.deepcopy(norm[n]); b["ev"][len(b["ev"]) // 2]["e1"] = pu.TOL + 1; bad.append(b)
        b = copy.deepcopy(norm[n]); b["ev"][0]["e2"] = pu.TOL + 1; bad.append(b)
        b = copy.deepcopy(norm[n]); b["ev"][-1]["dpos"] = False; bad.append(b)
        acc, _ = ctx.validate_traces("PsiUpdateTrace", bad, pu.trace_cfg(True), name="canary[C02 in situ]", count=False)
        if acc:
            raise core.MachineryFailure(f"C02 in situ: corrupted traces {sorted(acc)} accepted")
        ctx.cov["canaries_rejected"] += len(bad)
        t = traces[n]
        ctx.sample({"in_situ": owner[n], "step": t["label"], "level": t["level"], "retried": t["retried"], "sites": len(t["ev"]), "worst_residual_quanta": t["worst"]})
    elif not ctx.violations:
        raise core.MachineryFailure("C02 in situ: no update-level trace accepted")
    ctx.assume("in situ: gamma, u, xi and epsilon of the oracle are the values the harness asked for through Layer(...)/Device(...)/disorder_epsilon, "
               "not attributes read back from the objects (u defaults to the documented 5.79 when not passed); dt is the observed returned step")
    ctx.assume("in situ: the covariant Laplacian action is operators.psi_laplacian @ psi^n evaluated right after update() returns (link state of the "
               "step's last Euler step); epsilon is solver.epsilon after the call; sites whose exact |D|/(2c+1)^2 < 1e-9 have a free verdict")


def history_coverage(ctx, traces, norm, accepted):
    """Vacuity guards and sharpness canary of the call-history family (after the verdicts: never turns exit 1 into exit 2)."""
    H = [n for n, t in enumerate(traces) if t.get("hist")]
    reuse = {b: {m: 0 for m in pu.HIST_MODES} for b in pu.HIST_BUFFERS}     # buffer kept as `m`, ITS values changed, no scalar changed, answered, accepted
    same = {b: 0 for b in pu.HIST_BUFFERS}                                  # buffer reused (in place / view), its values UNCHANGED, others or scalars changed
    only = {g: 0 for g in pu.HIST_GROUPS}                                   # exactly one value group changed, nothing else
    trans = {"answered->refused": 0, "refused->answered": 0, "refused->refused": 0}
    scal = {"dt": 0, "gamma": 0, "u": 0}
    for n in H:
        t, h = traces[n], traces[n]["hist"]
        if h["k"] == 0 or n not in accepted:
            continue
        if h["prev_refused"] is not None:
            key = ("refused" if h["prev_refused"] else "answered") + "->" + ("refused" if t["refused"] else "answered")
            if key in trans:
                trans[key] += 1
        for x in h["scalars_changed"]:
            scal[x] += not t["refused"]
        if t["refused"]:
            continue
        if len(h["changed"]) == 1 and not h["scalars_changed"]:
            only[h["changed"][0]] += 1
        for b in pu.HIST_BUFFERS:
            g = pu.HIST_GROUP_OF[b]
            if g in h["changed"] and not h["scalars_changed"]:
                reuse[b][h["modes"][b]] += 1
            if g not in h["changed"] and h["modes"][b] != "fresh" and (h["changed"] or h["scalars_changed"]):
                same[b] += 1
    ctx.cov["history"] = {"histories": len({traces[n]["hist"]["h"] for n in H}), "calls": len(H), "accepted": sum(1 for n in H if n in accepted),
                          "refused_calls": sum(1 for n in H if traces[n]["refused"]),
                          "answered_calls_after_ITS_values_changed_same_scalars (buffer -> how the caller keeps it)": reuse,
                          "answered_calls_with_buffer_reused_unchanged_while_others_changed": same,
                          "answered_calls_where_only_one_group_changed": only, "answered_calls_after_scalar_changed": scal, "verdict_transitions": trans}
    if ctx.violations:
        return
    low = [(b, m, c) for b, d in reuse.items() for m, c in d.items() if c < 3]
    if low or min(same.values()) < 3 or min(only.values()) < 2 or min(scal.values()) < 2 or trans["answered->refused"] < 2 or trans["refused->answered"] < 2:
        raise core.MachineryFailure(f"C02: the call-history family does not reach every configuration: {ctx.cov['history']}")
    # sharpness: the PREVIOUS call's answer, offered as the answer to this call's (changed) inputs, must be rejected by TLC
    st = [n for n in H if n in accepted and traces[n].get("stale")]
    if len(st) < 5:
        raise core.MachineryFailure(f"C02: call histories: only {len(st)} calls whose inputs differ materially from the previous call's")
    pick = st[::max(1, len(st) // 12)][:12]
    bad = [{"refused": False, "ev": traces[n]["stale"]} for n in pick]
    acc, _ = ctx.validate_traces("PsiUpdateTrace", bad, pu.trace_cfg(True), name="canary[C02 call histories: stale answer]", count=False)
    if acc:
        raise core.MachineryFailure(f"C02: the previous call's answer was accepted for changed inputs (history calls {[describe(traces[pick[a]]) for a in sorted(acc)][:3]})")
    ctx.cov["canaries_rejected"] += len(bad)
    ctx.assume("call histories: a call inside a history is judged exactly like an isolated call (the property quantifies over inputs): z, w are the documented ones "
               "of the numbers the harness wrote into the caller's buffers for THIS call (kept in the harness's own lists, not read back from the buffers)")


def run(ctx):
    ctx.cov["bounds"] = {"grid": "z, w in (1/4)Z[i], |z|,|w| <= 2 (197 x 197 points)", "candidate roots": "s = k/16, k = 0..64 (quick) / 0..128 (thorough)",
                         "dt": "2^-10..2^3", "u": [1.0, 5.79], "gamma": [0.0] + pu.GAMMAS, "epsilon": [-1.0, 0.0, 0.5, 1.0],
                         "mu*dt": pu.MU_PHASES, "tiny |psi|": pu.TINY, "near-tangent |D|/(2c+1)^2": pu.NEAR_SIZES, "residual tolerance": pu.TOL * pu.QUANTUM}
    # 1. the design: lemmas of PsiUpdate at every grid point
    ctx.model_check("PsiUpdate", pu.model_cfg(pu.LEMMAS, smax=(64 if ctx.quick else 128)), name="PsiUpdate[lemmas]", required_actions=["PickZ", "PickW"])
    for inv in (("NoNone",) if ctx.quick else ("NoNone", "NoTangent", "NoTwoIrrational")):     # every class occurs on the grid (sharpness of the universe)
        ctx.model_check("PsiUpdate", pu.model_cfg([inv], smax=0), name=f"PsiUpdate[coverage {inv}]", expect_violation=inv, count=False)
    # 2. spec -> code: TLC emits the vectors (inputs, class, exact root where rational)
    r = ctx.model_check("PsiUpdate", pu.model_cfg(["Emitted"], emit=True, smax=0), name="PsiUpdate[vector export]", count=False)
    points = pu.parse_vectors(r)
    if len(points) != 197 * 197:
        raise core.MachineryFailure(f"C02: expected 38809 grid points from TLC, got {len(points)}")
    classes = {}
    for p in points:
        classes[p["cls"]] = classes.get(p["cls"], 0) + 1
    ctx.cov["grid_classes"] = classes
    if any(classes.get(c, 0) == 0 for c in ("z0", "w0", "none", "tangent", "two")) or not any(p["cls"] == "two" and p["r"] < 0 for p in points):
        raise core.MachineryFailure(f"C02: a class is missing from the vectors emitted by TLC: {classes}")
    plans = pu.plan_vectors(points, ctx.seed, ctx.quick)
    tiny = pu.tiny_plans(ctx.seed, ctx.quick)
    near = pu.near_plans(points, ctx.seed, ctx.quick)
    # every 4th grid / near-tangent call is made with warnings turned into errors (verdicts must not depend on the warning filters)
    for n, p in enumerate(plans):
        if n % 4 == 0:
            p["werror"] = True
            p["family"] = p["family"] + "/W-error"
    for n, p in enumerate(near):
        if n % 4 == 1:
            p["werror"] = True
    ordinary = ([p for p in points if p["cls"] == "two" and p["r"] >= 0][:300] + [p for p in points if p["cls"] == "z0"][::4]
                + [p for p in points if p["cls"] == "w0"][::8])
    # call histories on caller-owned argument buffers (in place / views / fresh arrays): the answer is a function of the inputs of THIS call
    hist = pu.history_plans(ctx.seed, ctx.quick)
    unsolvable = [p for p in points if p["cls"] == "none"][ctx.seed % 7::137][:200]
    ctx.cov["exhaustive"] = not ctx.quick
    nchunk = 1 if ctx.quick else 14
    jobs = []
    for c in range(nchunk):
        jobs.append(("call", dict(module="harness.psiupdate", func="run_batch",
                                  args=dict(plans=plans[c::nchunk], tiny=(tiny if c == 0 else []), near=near[c::nchunk], ordinary=ordinary,
                                            histories=hist[c::nchunk], unsolvable=unsolvable))))
    traces = [t for chunk in rf.replay_all(ctx, jobs) for t in chunk]
    worst = max((t.get("realisation_error", 0.0) for t in traces), default=0.0)
    ctx.cov["worst_realisation_error"] = worst
    if worst > 1e-11:
        raise core.MachineryFailure(f"C02: concretisation does not realise the grid point (documented z, w off by {worst:.2e})")
    for t in traces:
        ctx.note_case(describe(t), nontrivial=len(t["ev"]) >= 1)
    # near-tangent family: how many sites have a determined class (exact |D|/(2c+1)^2 >= 100 x the rounding bound of the float evaluation)
    nt = {}
    for t in traces:
        if t["family"].startswith("near-tangent"):
            d = nt.setdefault(t["family"].split("/")[1], {"calls": 0, "determined": 0, "refused": 0, "min_margin": None})
            d["calls"] += 1
            d["determined"] += t["near"]["determined"]
            d["refused"] += t["refused"]
            if t["near"]["determined"]:
                m = abs(t["near"]["ratio"]) / t["near"]["bound"]
                d["min_margin"] = m if d["min_margin"] is None else min(d["min_margin"], m)
    ctx.cov["near_tangent"] = nt
    for size in ("+1e-09", "-1e-09", "+1e-10", "-1e-10"):
        if nt.get(size, {}).get("determined", 0) < 10:
            raise core.MachineryFailure(f"C02: near-tangent family {size}: fewer than 10 sites with a determined class ({nt.get(size)})")
    # 3. code -> spec
    norm = [pu.to_tlc(t) for t in traces]
    accepted = set()
    B = 4000
    for n0 in range(0, len(norm), B):
        acc, _ = ctx.validate_traces("PsiUpdateTrace", norm[n0:n0 + B], pu.trace_cfg(True), name="PsiUpdateTrace[C02]")
        accepted |= {n0 + a for a in acc}
    ctx.cov["traces_validated_against_impl"] += len(accepted)
    ctx.cov["families"] = {}
    for n, t in enumerate(traces):
        f = t["family"].split("=")[0]
        d = ctx.cov["families"].setdefault(f, {"calls": 0, "accepted": 0, "refused": 0})
        d["calls"] += 1
        d["accepted"] += n in accepted
        d["refused"] += t["refused"]
    for n in sorted(accepted)[:4]:
        ctx.sample({"call": describe(traces[n]), "observation": traces[n]["ev"][:3], "answer": (traces[n]["answer"] or [])[:3]})
    rejected = [n for n in range(len(norm)) if n not in accepted]
    if rejected:
        # TLC names the clauses each rejected trace violates
        _, r = ctx.validate_traces("PsiUpdateTrace", [norm[n] for n in rejected], pu.diagnosis_cfg(), name="PsiUpdateTrace[diagnosis]", count=False)
        clauses = {}
        for line in r.printed():
            if line.startswith('<<"CLAUSES"'):
                v = core.parse_tla_value(line)
                clauses[rejected[v[1] - 1]] = [c for c, bit in zip(CLAUSES, v[2:]) if bit]
        groups = {}
        for n in rejected:
            t = traces[n]
            cl = ",".join(clauses.get(n, ["?"]))
            fam = "tiny-W-error" if t["family"].startswith("tiny-W-error") else "tiny" if t["family"].startswith("tiny") else ("near-tangent" if t["family"].startswith("near-tangent") else t["family"])
            groups.setdefault((cl, fam), []).append(n)
        for (cl, fam), ns in sorted(groups.items()):
            ex = [traces[n] for n in ns[:12]]
            if fam in ("tiny", "tiny-W-error") and cl == "RefusedIffSomeSiteUnsolvable":
                mags = sorted({t["family"].split("=")[1] for t in (traces[n] for n in ns)}, key=float, reverse=True)
                what = (f"C02 {cl}{' [warnings are errors in the process]' if fam == 'tiny-W-error' else ''}: solve_for_psi_squared refuses (returns None) although every site is solvable "
                        f"(lemma SmallProductSolvable: |z||w| < 1/4): sites with |psi| in {{{', '.join(mags)}}} mixed with ordinary sites; "
                        f"{len(ns)} calls, e.g. {describe(traces[ns[0]])[:300]}")
            elif fam == "history":
                sig = {}
                for n in ns:
                    h = traces[n]["hist"]
                    k = (",".join(h["changed"]) or "-", ",".join(h["scalars_changed"]) or "-")
                    sig[k] = sig.get(k, 0) + 1
                first = min(ns, key=lambda n: (traces[n]["hist"]["h"], traces[n]["hist"]["k"]))
                what = (f"C02 {cl}: {len(ns)} calls of solve_for_psi_squared inside call HISTORIES on caller-owned argument buffers are rejected by PsiUpdateTrace "
                        f"(z, w of the numbers in the buffers at the time of the call), although isolated calls are accepted: the answer depends on earlier calls / "
                        f"on which array objects carry the inputs; first: {describe(traces[first])} worst residual quanta={traces[first]['worst']}; "
                        f"(changed values, changed scalars) -> rejected calls: {sorted(sig.items(), key=lambda kv: -kv[1])[:8]}")
                ex = [dict(traces[n], stale=None) for n in ns[:6]]
            else:
                what = (f"C02 {cl}: the real solve_for_psi_squared is rejected by PsiUpdateTrace on {len(ns)} '{fam}' calls; "
                        f"first: {describe(traces[ns[0]])[:400]} observation={json.dumps(traces[ns[0]]['ev'])[:400]}")
            ctx.violation(f"C02:{cl}:{fam}", what, {"module": "PsiUpdateTrace", "clauses": cl, "family": fam, "n_calls": len(ns), "examples": ex})
    # canaries: corrupted observations must be rejected
    cands = [n for n in sorted(accepted) if not traces[n]["refused"] and any(e["kind"] == "grid" for e in traces[n]["ev"])]
    refd = [n for n in sorted(accepted) if traces[n]["refused"]]
    if not cands or not refd:
        if not ctx.violations:
            raise core.MachineryFailure("C02: no accepted answered/refused trace to carry the canaries")
    else:
        bad = []
        b = copy.deepcopy(norm[cands[0]]); b["ev"][0]["e1"] = pu.TOL + 1; bad.append(b)           # equation residual
        b = copy.deepcopy(norm[cands[0]]); b["ev"][-1]["e2"] = pu.TOL + 1; bad.append(b)          # |psi'|^2 != s
        b = copy.deepcopy(norm[cands[0]]); b["ev"][0]["br"] = False; bad.append(b)                # other branch
        b = copy.deepcopy(norm[cands[0]]); b["refused"] = True; bad.append(b)                     # refused although solvable
        b = copy.deepcopy(norm[refd[0]]); b["refused"] = False; bad.append(b)                     # answered although unsolvable
        nn = [n for n in sorted(accepted) if traces[n]["refused"] and any(e["kind"] == "near" and not e["dpos"] for e in norm[n]["ev"])]
        npos = [n for n in sorted(accepted) if not traces[n]["refused"] and any(e["kind"] == "near" and e["dpos"] for e in norm[n]["ev"])]
        if nn and npos:
            b = copy.deepcopy(norm[nn[0]]); b["refused"] = False; bad.append(b)                   # D = -1e-9 (2c+1)^2 answered
            b = copy.deepcopy(norm[npos[0]]); b["refused"] = True; bad.append(b)                  # D = +1e-9 (2c+1)^2 refused
        elif not ctx.violations:
            raise core.MachineryFailure("C02: no accepted near-tangent trace of either sign")
        rat = [n for n in cands if any(e["kind"] == "grid" and e["sq"] > 10 for e in norm[n]["ev"])]
        acc, _ = ctx.validate_traces("PsiUpdateTrace", bad, pu.trace_cfg(True), name="canary[C02]", count=False)
        if acc:
            raise core.MachineryFailure(f"C02: corrupted traces {sorted(acc)} were accepted")
        ctx.cov["canaries_rejected"] += len(bad)
    history_coverage(ctx, traces, norm, accepted)
    insitu(ctx)
    ctx.cov["rule"] = ("one case = one call of the real solve_for_psi_squared on a multi-site vector whose sites realise grid points emitted by "
                       "TLC (classes z=0 via gamma=0 or psi=0, w=0, tangent, two roots, no root) or tiny magnitudes; distinct = distinct "
                       "(parameters, site list); quick samples the grid (boundary of solvability first), thorough uses every grid point")
    ctx.assume("near-tangent sites: the class is the exact sign of the discriminant of the documented z, w of the realised float inputs (exact rational "
               "arithmetic); it is used only where |D|/(2c+1)^2 >= 100 x the a-priori rounding bound u (24 M/|w| + 10) of the float evaluation, else the verdict is left free")
    ctx.assume("grid points on the tangent D = 0 are realised only to rounding (1e-16): their refusal verdict is left free, the answer (if any) must satisfy Accept")
    ctx.assume("exp(-i mu dt) is taken from cmath when the documented z, w of the realised inputs are recomputed exactly (relative error 2e-16)")
    ctx.assume("the extension of SmallProductSolvable / DiscriminantDecides from the grid to all complex z, w is the two-line algebraic argument in PsiUpdate.tla; TLC checks it on the grid")
