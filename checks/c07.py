"""C07 — mesh geometry is the Delaunay/Voronoi dual of the device domain.

Decided with spec/MeshGeom.tla (+ MeshGeomTrace.tla):
 1. TLC enumerates acute integer triangulations (sub-complexes of sheared lattices) and checks the theorems
    (orientation, incidence, Euler with holes, AreasTile, well-centredness); a design canary (cells without the
    boundary completion) must violate AreasTile.
 2. spec -> code: every instance is exported with its exact edges, boundary flags, cotangent weights and cell areas
    (rationals) and given to Mesh.from_triangulation.
 3. code -> spec: what the code computed is recorded and validated by TLC, which recomputes the exact rationals; the
    harness' float reference (ref_cot) is validated in the same traces.
 4. generated meshes (Device.make_mesh on boxes / ellipses / unions / resampled outlines, holes, terminals x mesh
    settings x coherence lengths; NON-CONVEX holes and films given vertex by vertex: C-shaped annular sectors, L / U / plus
    shapes, with the centroid inside or outside the outline, alone or two at once - their reference domain is the vertex
    list itself) are recorded as one-state traces of quantised integers; MeshGeom!GenAll decides.
 5. histories (spec/DevHeap.tla): chains of Device operations on meshed devices (copy / deepcopy / copy.copy,
    translate in place or not, rotate, scale, the translation() context manager, make_mesh again) are enumerated by
    TLC (invariant MeshMatchesOwnOutline; the in-place-shifted shared mesh must violate it), replayed on real devices,
    and after every operation EVERY live device's mesh is validated against ITS OWN film / holes / terminals
    (MeshGeom!GenPlaced through DevHeapTrace).
"""
import copy
import json
import math
import random

from harness import core, meshgeom as mg

LEVEL = "model_checking"


def gen_matrix(ctx):
    """Device descriptions: documented primitives x mesh settings x coherence length."""
    rnd = random.Random(ctx.seed * 31 + 7)
    films = [
        dict(kind="box", w=5, h=3, points=40),
        dict(kind="box", w=4, h=4, points=48, angle=30),
        dict(kind="ellipse", a=3, b=2, points=40),
        dict(kind="circle", r=2.2, points=36, center=(0.5, -0.5)),
        dict(kind="box", w=4, h=2, points=30, union=[dict(kind="box", w=2, h=4, points=30, center=(1, 1))]),
        dict(kind="box", w=5, h=3, points=40, union=[dict(kind="circle", r=1.2, points=24, center=(2.5, 0))]),
        dict(kind="ellipse", a=3, b=1.8, points=60, resample=34),
        dict(kind="box", w=5, h=3, points=44, minus=[dict(kind="box", w=1, h=1.5, points=20, center=(0, 1.2))], resample=50),
        dict(kind="box", w=5, h=3, points=48, reverse=True),
    ]
    holesets = [
        [],
        [dict(kind="circle", r=0.6, points=16, center=(0.2, 0.1))],
        [dict(kind="box", w=0.8, h=0.6, points=12, center=(-0.6, 0.2))],
        [dict(kind="circle", r=0.4, points=14, center=(-0.9, 0.3)), dict(kind="ellipse", a=0.5, b=0.3, points=14, center=(0.8, -0.3), reverse=True)],
    ]
    termsets = [
        [],
        [dict(kind="box", w=0.2, h=3, center=(-2.5, 0)), dict(kind="box", w=0.2, h=1.6, center=(2.5, 0.3))],
        [dict(kind="box", w=1.5, h=0.2, center=(0.3, 1.5)), dict(kind="box", w=0.2, h=1.0, center=(-2.5, -0.5))],
    ]
    meshes = [dict(max_edge_length=0.8), dict(max_edge_length=0.6, smooth=5), dict(max_edge_length=0, min_points=90),
              dict(max_edge_length=0.7, smooth=20), dict(), dict(max_edge_length=0.9, min_points=120, smooth=2),
              dict(max_edge_length=0)]
    xis = [1.0, 0.5, 2.0]
    out = []
    # a fixed core (every film once, every hole set, every terminal set, every mesh setting) ...
    for n, f in enumerate(films):
        hs = holesets[n % len(holesets)]
        box_film = f["kind"] == "box" and not f.get("angle") and f["w"] == 5 and not f.get("minus")
        ts = termsets[(n // 2) % len(termsets)] if box_film else []
        out.append(dict(film=f, holes=hs, terminals=ts, mesh=meshes[n % len(meshes)], xi=xis[n % 3]))
    out.append(dict(film=films[0], holes=holesets[1], terminals=termsets[1], mesh=dict(max_edge_length=0.8), xi=1.0))
    out.append(dict(film=films[0], holes=holesets[3], terminals=termsets[2], mesh=dict(max_edge_length=0.7, smooth=5), xi=0.5))
    out.append(dict(film=films[8], holes=[], terminals=termsets[1], mesh=dict(), xi=2.0, units="nm"))
    # holes that carry the documented option mesh=False: given to the constructor, or inherited from a polygon that was
    # once a terminal of another Device (Device.__init__ sets it in place; translate / copy / scale propagate it).
    # They are holes of the device all the same: the mesh must leave them out.
    for n, flag in enumerate(["ctor", "terminal-translate", "terminal-copy", "terminal-scale"]):
        hs = [dict(kind="box", w=0.8, h=0.5, points=12, center=(-0.8, 0.3), mesh_flag=flag)]
        if n % 2:
            hs.append(dict(kind="circle", r=0.4, points=14, center=(0.9, -0.3)))
        out.append(dict(film=films[0], holes=hs, terminals=termsets[n % 3], mesh=meshes[n % 2], xi=xis[n % 3]))
    # the primitives AS THE USER SPECIFIES THEM (checked against the harness' own rectangle / ellipse, see MeshGeom!GenAnalytic):
    # elongated boxes (aspect 30-100; default and small `points`), tilted boxes / ellipses / holes / terminals, flat terminal slivers
    ends = lambda w, h: [dict(kind="box", w=0.2, h=h, center=(-w / 2, 0)), dict(kind="box", w=0.2, h=h, center=(w / 2, 0))]
    tag = lambda d, t: dict(d, family=t)
    out.append(tag(dict(film=dict(kind="box", w=100, h=2), holes=[], terminals=ends(100, 2), mesh=dict(max_edge_length=2.0), xi=1.0), "elongated"))
    out.append(tag(dict(film=dict(kind="box", w=60, h=1), holes=[], terminals=[], mesh=dict(max_edge_length=1.2), xi=2.0), "elongated"))
    out.append(tag(dict(film=dict(kind="box", w=40, h=1, points=20), holes=[], terminals=ends(40, 1), mesh=dict(max_edge_length=1.0), xi=1.0), "elongated"))
    out.append(tag(dict(film=dict(kind="box", w=1, h=45, points=60, center=(3, -2)), holes=[], terminals=[], mesh=dict(max_edge_length=1.1), xi=1.0), "elongated"))
    out.append(tag(dict(film=dict(kind="box", w=6, h=3, points=60, center=(1, 0.5), angle=25),
                        holes=[dict(kind="ellipse", a=1.0, b=0.5, points=16, center=(1.5, 0.3), angle=25)],
                        terminals=[dict(kind="box", w=0.2, h=3, center=(-2, 0.5), angle=25), dict(kind="box", w=0.2, h=2, center=(4, 0.7), angle=25)],
                        mesh=dict(max_edge_length=0.7), xi=1.0), "tilted"))
    out.append(tag(dict(film=dict(kind="ellipse", a=3, b=1.5, points=40, center=(0.5, -0.3), angle=40),
                        holes=[dict(kind="box", w=1.0, h=0.4, points=12, center=(0.6, -0.2), angle=40)], terminals=[],
                        mesh=dict(max_edge_length=0.6, smooth=5), xi=0.5), "tilted"))
    out.append(tag(dict(film=dict(kind="box", w=5, h=2, points=48, center=(-1, 2), angle=90), holes=[], terminals=[], mesh=dict(max_edge_length=0.7), xi=1.0), "tilted"))
    out.append(tag(dict(film=dict(kind="box", w=5, h=3, points=40), holes=[],
                        terminals=[dict(kind="box", w=1.1, h=0.01, center=(0.3, 1.5)), dict(kind="box", w=2.0, h=0.02, center=(-0.5, -1.5))],
                        mesh=dict(max_edge_length=0.6), xi=1.0), "sliver-terminals"))
    # meshes that come out of Mesh.smooth itself: Mesh.smooth(n) on a device mesh, Polygon.make_mesh(smooth=n)
    out.append(tag(dict(film=films[0], holes=holesets[1], terminals=termsets[1], mesh=dict(max_edge_length=0.7), xi=1.0, via="mesh.smooth", smooth_again=1), "mesh.smooth"))
    out.append(tag(dict(film=films[2], holes=[], terminals=[], mesh=dict(max_edge_length=0.8), xi=0.5, via="mesh.smooth", smooth_again=5), "mesh.smooth"))
    out.append(tag(dict(film=films[0], holes=[], terminals=termsets[2], mesh=dict(max_edge_length=0.7, smooth=3), xi=1.0, via="polygon.make_mesh"), "polygon.make_mesh"))
    out.append(tag(dict(film=films[3], holes=[], terminals=[], mesh=dict(min_points=100, smooth=10), xi=1.0, via="polygon.make_mesh"), "polygon.make_mesh"))
    # a square with a fine mesh: Triangle puts right-angled triangles at the corners (circumcentre on the boundary edge)
    out.append(dict(film=dict(kind="box", w=4, h=4, points=52), holes=[], terminals=[], mesh=dict(min_points=300), xi=1.0))
    # ... and seeded random combinations
    n_rand = 20 if ctx.quick else 1000
    if not ctx.quick:
        meshes = meshes + [dict(max_edge_length=0.45), dict(max_edge_length=0.5, smooth=40), dict(min_points=300)]
    for _ in range(n_rand):
        f = copy.deepcopy(rnd.choice(films))
        if "points" in f:
            f["points"] = f["points"] + rnd.choice([0, 4, 9])
        hs = copy.deepcopy(rnd.choice(holesets))
        if hs and rnd.random() < 0.3:
            hs[rnd.randrange(len(hs))]["mesh_flag"] = rnd.choice(["ctor", "terminal-translate", "terminal-copy", "terminal-scale"])
        for h in hs:
            h["center"] = (round(h["center"][0] + rnd.uniform(-0.2, 0.2), 3), round(h["center"][1] + rnd.uniform(-0.2, 0.2), 3))
        box_film = f["kind"] == "box" and not f.get("angle") and f["w"] == 5 and not f.get("minus")
        ts = rnd.choice(termsets) if box_film else []
        me = dict(rnd.choice(meshes))
        if "max_edge_length" in me and me["max_edge_length"]:
            me["max_edge_length"] = round(me["max_edge_length"] * rnd.uniform(0.85, 1.3), 3)
        xi = rnd.choice(xis)
        if not me and xi < 1:
            xi = 1.0
        out.append(dict(film=f, holes=hs, terminals=ts, mesh=me, xi=xi))
    # ... of the primitives as specified (thorough: many; quick: a few)
    for _ in range(6 if ctx.quick else 260):
        fam = rnd.choice(["elongated", "tilted", "tilted", "mesh.smooth", "polygon.make_mesh"])
        if fam == "elongated":
            h = rnd.choice([0.5, 1, 2])
            w = round(h * rnd.uniform(30, 100), 1)
            f = dict(kind="box", w=w, h=h, center=(round(rnd.uniform(-5, 5), 1), round(rnd.uniform(-2, 2), 1)))
            if rnd.random() < 0.5:
                f["points"] = rnd.choice([20, 40, 60, 150])
            if rnd.random() < 0.3:
                f["w"], f["h"] = f["h"], f["w"]
            out.append(tag(dict(film=f, holes=[], terminals=[], mesh=dict(max_edge_length=round(1.1 * h, 2)), xi=rnd.choice([1.0, 2.0])), fam))
        elif fam == "tilted":
            ang = rnd.choice([25, 40, -30, 90, 117.5, 200, 270])
            c = (round(rnd.uniform(-2, 2), 2), round(rnd.uniform(-2, 2), 2))
            if rnd.random() < 0.5:
                f = dict(kind="box", w=round(rnd.uniform(4, 7), 1), h=round(rnd.uniform(2, 3.5), 1), points=rnd.choice([40, 60, 101]), center=c, angle=ang)
            else:
                f = dict(kind="ellipse", a=round(rnd.uniform(2.5, 3.5), 1), b=round(rnd.uniform(1.2, 2.0), 1), points=rnd.choice([30, 40, 56]), center=c, angle=ang)
            hs = [dict(kind=rnd.choice(["ellipse", "box"]), a=0.8, b=0.4, w=0.9, h=0.4, points=14, center=(c[0] + 0.3, c[1] - 0.1), angle=ang)] if rnd.random() < 0.6 else []
            out.append(tag(dict(film=f, holes=hs, terminals=[], mesh=dict(max_edge_length=rnd.choice([0.6, 0.8]), smooth=rnd.choice([0, 0, 5])), xi=rnd.choice(xis)), fam))
        elif fam == "mesh.smooth":
            out.append(tag(dict(film=copy.deepcopy(rnd.choice(films[:4])), holes=copy.deepcopy(rnd.choice(holesets[:3])), terminals=[],
                                mesh=dict(max_edge_length=rnd.choice([0.6, 0.8])), xi=rnd.choice(xis), via="mesh.smooth", smooth_again=rnd.choice([1, 2, 5, 20])), fam))
        else:
            out.append(tag(dict(film=copy.deepcopy(rnd.choice(films[:4] + films[6:7])), holes=[], terminals=[],
                                mesh=dict(max_edge_length=rnd.choice([0.6, 0.8]), smooth=rnd.choice([1, 3, 10])), xi=1.0, via="polygon.make_mesh"), fam))
    # ... and NON-CONVEX holes / films given vertex by vertex (own random stream: the matrix above stays as it was)
    # (appended: the order of the other descriptions, and which rejected traces get diagnosed first, stay as they were)
    out += nonconvex_matrix(ctx, random.Random(ctx.seed * 17 + 29))
    return out


# ---- outlines given vertex by vertex: NON-CONVEX holes and films (the harness makes the vertices, see meshgeom.explicit_points)
def c_shape(r_in, width, half, n=20, center=(0, 0), angle=0, **kw):
    """annular sector between r_in and r_in + width, opening angle 2 pi - 2 half; for large `half` its centroid lies in the opening"""
    return dict(kind="cshape", r_in=r_in, r_out=round(r_in + width, 3), half=half, n=n, center=center, angle=angle, **kw)


def _centred(verts, **kw):
    """explicit vertex list, moved so that its bounding box is centred at the local origin"""
    xs, ys = [v[0] for v in verts], [v[1] for v in verts]
    cx, cy = (min(xs) + max(xs)) / 2, (min(ys) + max(ys)) / 2
    return dict(kind="verts", verts=[[round(x - cx, 6), round(y - cy, 6)] for x, y in verts], **kw)


def l_shape(a, b, ta, tb, **kw):
    """an L: a x b bounding box, horizontal arm of thickness ta, vertical arm of thickness tb (thin arms: centroid outside)"""
    return _centred([[0, 0], [a, 0], [a, ta], [tb, ta], [tb, b], [0, b]], **kw)


def u_shape(w, h, t, tb, **kw):
    """a U: w x h bounding box, arms of thickness t, bottom of thickness tb (deep notch: centroid in the notch)"""
    return _centred([[0, 0], [w, 0], [w, h], [w - t, h], [w - t, tb], [t, tb], [t, h], [0, h]], **kw)


def plus_shape(a, t, **kw):
    """a plus sign of arm length a and arm thickness t: non-convex, centroid inside"""
    h = t / 2
    return _centred([[h, -a], [h, -h], [a, -h], [a, h], [h, h], [h, a], [-h, a], [-h, h], [-a, h], [-a, -h], [-h, -h], [-h, -a]], **kw)


def nonconvex_matrix(ctx, rnd):
    """film x holes where at least one outline is given vertex by vertex and is not convex (center = where the bounding box
    centre of an L / U / plus, or the circle centre of a C, goes; angle = turn about that point)"""
    tag = lambda d: dict(d, family="nonconvex")
    big = dict(kind="box", w=6, h=6, points=120)
    out = []
    # the holes alone in a 6 x 6 film; "out": the hole's centroid lies outside the hole
    fixed = [
        ([c_shape(1.0, 0.5, 2.4, n=40)], dict(max_edge_length=0.4), 0.5),                                   # C, out (opening 1.48 rad)
        ([c_shape(1.0, 0.5, 0.6, n=12, center=(-0.5, 0.3), angle=30)], dict(max_edge_length=0.6), 1.0),    # short arc ("banana"), inside
        ([u_shape(2.0, 1.6, 0.35, 0.3, center=(0.2, -0.1))], dict(max_edge_length=0.6), 1.0),               # U with a deep notch, out
        ([l_shape(1.6, 1.6, 0.9, 0.9, center=(-0.3, 0.2), angle=10)], dict(max_edge_length=0.6, smooth=5), 1.0),   # thick L, inside
        # C (out) around a small round hole that sits on the C's centroid
        ([c_shape(1.0, 0.5, 2.4, n=24, center=(0.1, -0.2), angle=25), dict(kind="circle", r=0.3, points=12, center=(0.42, -0.05))], dict(max_edge_length=0.6), 1.0),
        ([plus_shape(1.2, 0.5, center=(1.2, 1.0), angle=20), l_shape(1.8, 1.8, 0.3, 0.3, center=(-1.5, -1.5), reverse=True)],
         dict(max_edge_length=0.6), 0.5),                                                                     # plus (inside) + thin L (out)
    ]
    for hs, me, xi in fixed:
        out.append(tag(dict(film=big, holes=hs, terminals=[], mesh=me, xi=xi)))
    # non-convex FILMS given vertex by vertex, with a convex and with a non-convex hole
    out.append(tag(dict(film=l_shape(7, 7, 3.5, 3.5), holes=[dict(kind="circle", r=0.7, points=16, center=(-1.7, -1.7))],
                        terminals=[], mesh=dict(max_edge_length=0.7), xi=1.0)))
    out.append(tag(dict(film=c_shape(1.5, 2.5, 2.5, n=30), holes=[c_shape(2.4, 0.5, 0.9, n=10, angle=60)],
                        terminals=[], mesh=dict(max_edge_length=0.7), xi=1.0)))
    if ctx.quick:
        return out
    out.append(tag(dict(film=u_shape(8, 6, 2.5, 2.0), holes=[u_shape(1.6, 1.2, 0.3, 0.3, center=(-2.75, 0.5))],
                        terminals=[], mesh=dict(max_edge_length=0.7), xi=1.0)))
    boxes = [big, dict(kind="box", w=7, h=6, points=80, center=(0.3, -0.2)), dict(kind="box", w=6.5, h=6.5, points=60, angle=15)]
    films = boxes + [dict(kind="ellipse", a=3.8, b=3.4, points=60)]
    for _ in range(110):
        ang = rnd.choice([0, 0, 30, 90, 145, 180, 250])
        c = (round(rnd.uniform(-0.6, 0.6), 2), round(rnd.uniform(-0.6, 0.6), 2))
        sort = rnd.choice(["c", "c", "c+dot", "l", "u", "plus", "two"])
        film = copy.deepcopy(rnd.choice(boxes if sort == "two" else films))
        if sort in ("c", "c+dot", "two"):
            if sort == "two":
                c = (round(c[0] / 2, 2), round(c[1] / 2, 2))
            r_in = round(rnd.uniform(0.7, 0.9 if sort == "two" else 1.2), 2)
            h = c_shape(r_in, round(rnd.uniform(0.3, 0.4 if sort == "two" else 0.6), 2), rnd.choice([0.5, 0.9, 1.3, 1.7, 2.1, 2.4, 2.7, 2.9]),
                        n=rnd.choice([8, 14, 24, 40]), center=c, angle=ang, reverse=rnd.random() < 0.3)
            hs = [h]
            if sort == "c+dot":     # a small round hole somewhere in the C's inner disc (often near the C's centroid)
                rr = rnd.uniform(0.0, 1.0) * (r_in - 0.4)
                th = math.radians(ang) + rnd.uniform(-0.3, 0.3)
                hs.append(dict(kind="circle", r=0.25, points=10, center=(round(c[0] + rr * math.cos(th), 3), round(c[1] + rr * math.sin(th), 3))))
            if sort == "two":       # a second non-convex hole in a corner of the film
                hs.append(rnd.choice([l_shape(1.0, 1.2, rnd.choice([0.25, 0.6]), 0.3, center=(-2.2, -2.1)),
                                      u_shape(1.4, 1.0, 0.3, rnd.choice([0.25, 0.6]), center=(2.0, -2.3))]))
        elif sort == "l":
            a, b = round(rnd.uniform(1.2, 2.2), 1), round(rnd.uniform(1.2, 2.2), 1)
            hs = [l_shape(a, b, round(rnd.uniform(0.25, 1.0), 2), round(rnd.uniform(0.25, 1.0), 2), center=c, angle=ang, reverse=rnd.random() < 0.3)]
        elif sort == "u":
            w, hh = round(rnd.uniform(1.4, 2.4), 1), round(rnd.uniform(1.2, 2.0), 1)
            hs = [u_shape(w, hh, round(rnd.uniform(0.25, 0.5), 2), round(rnd.uniform(0.25, 0.9), 2), center=c, angle=ang, reverse=rnd.random() < 0.3)]
        else:
            hs = [plus_shape(round(rnd.uniform(0.9, 1.5), 1), round(rnd.uniform(0.3, 0.7), 2), center=c, angle=ang)]
        me = rnd.choice([dict(max_edge_length=0.6), dict(max_edge_length=0.5), dict(max_edge_length=0.7, smooth=5), dict(min_points=400),
                         dict(max_edge_length=0.6, min_points=300, smooth=2)])
        out.append(tag(dict(film=film, holes=hs, terminals=[], mesh=me, xi=rnd.choice([1.0, 0.5, 2.0]))))
    return out


def run(ctx):
    b = dict(BasisIds=[1, 3, 5] if ctx.quick else [1, 2, 3, 4, 5, 6], Families=["block", "subset", "ring"],
             Offsets=[1, 2] if ctx.quick else [1, 2, 3])
    ctx.cov["bounds"] = {"MeshGeom": b, "instances": "sub-complexes of acute integer lattices: blocks up to 16 sites, strips, every "
                         "edge-connected manifold subset (>= 2 triangles) of the 2x2 block, a ring with one hole",
                         "generated": "see gen_matrix: films x holes x terminals x mesh settings x coherence length; nonconvex_matrix: "
                         "non-convex holes / films given vertex by vertex (8 quick, 119 thorough)"}
    # ---- 1/2. design + export
    r = ctx.model_check("MeshGeom", mg.model_cfg(b, mg.THEOREMS + ["Emit"]), name="MeshGeom[theorems + instance export]",
                        required_actions=["Place", "Choose"])
    instances = mg.parse_instances(r)
    ctx.cov["exhaustive"] = True
    ctx.cov["instances_exported"] = len(instances)
    if not r.violated and len(instances) < 100:
        raise core.MachineryFailure(f"C07: only {len(instances)} exact instances exported")
    small = dict(b, BasisIds=b["BasisIds"][:1], Offsets=[1], Families=["block"])
    ctx.model_check("MeshGeom", mg.model_cfg(small, ["CanaryInteriorCellsTile"]),
                    name="MeshGeom[cells without boundary completion must not tile]", expect_violation="CanaryInteriorCellsTile", count=False)
    # ---- histories of Device operations: design + export
    hb = dict(MaxDevs=3, MaxOps=3, HOps=mg.HOPS)
    ctx.cov["bounds"]["DevHeap"] = dict(hb, thorough_extra="MaxDevs=4, MaxOps=4 (sampled replay), MaxOps=5 checked with VIEW")
    rh = ctx.model_check("DevHeap", mg.heap_cfg(hb, mg.HCLAUSES + ["HEmit"], export=True, view=False),
                         name="DevHeap[clauses + history export]", required_actions=list(mg.HACTION.values()))
    histories = mg.parse_histories(rh)
    ctx.model_check("DevHeap", mg.heap_cfg(dict(hb, MaxOps=2), ["MeshMatchesOwnOutline"], rebuild=False),
                    name="DevHeap[a mesh object shifted in place must break MeshMatchesOwnOutline]",
                    expect_violation="MeshMatchesOwnOutline", count=False)
    hrnd = random.Random(ctx.seed * 13 + 5)
    short = [c for c in histories if len(c) == 2]          # every chain of two operations (their prefixes come along)
    long_ = [c for c in histories if len(c) == 3]
    hrnd.shuffle(long_)
    if ctx.quick:
        histories = short + long_[:60]
    else:
        r4 = ctx.model_check("DevHeap", mg.heap_cfg(dict(hb, MaxDevs=4, MaxOps=4), mg.HCLAUSES + ["HEmit"], export=True, view=False),
                             name="DevHeap[MaxDevs=4, MaxOps=4, history export]", timeout=1200)
        h4 = [c for c in mg.parse_histories(r4) if len(c) == 4]
        hrnd.shuffle(h4)
        ctx.model_check("DevHeap", mg.heap_cfg(dict(hb, MaxDevs=4, MaxOps=5), mg.HCLAUSES), name="DevHeap[MaxDevs=4, MaxOps=5, VIEW]", timeout=1200)
        histories = short + long_ + h4[:1500]
    ctx.cov["histories_replayed"] = len(histories)
    # ---- spec -> code and natural meshes, in one pool
    per = 40
    jobs = [("exact_traces", dict(instances=instances[k:k + per])) for k in range(0, len(instances), per)]
    gens = gen_matrix(ctx)
    n_nonconvex = sum(1 for g in gens if g.get("family") == "nonconvex")
    jobs += [("gen_trace", g) for g in gens]
    jobs += [("hist_trace", dict(chain=c, device=["barhole", "ellipse"][n % 2])) for n, c in enumerate(histories)]
    # separate interpreters: a crash of the mesh generator is an observation; few, large batches (start-up dominates)
    res = mg.run_batches(ctx, jobs, batch=max(6, min(120, len(jobs) // 12 + 1)))
    exact, gen, refused, invalid, crashed, hist, histfail = [], [], [], [], [], [], []
    for x in res:
        for t in (x if isinstance(x, list) else [x]):
            {"exact": exact, "gen": gen, "refused": refused, "invalid": invalid, "crashed": crashed, "hist": hist, "histfail": histfail}[t["kind"]].append(t)
    for t in histfail[:3]:
        ctx.violation(f"C07:history:device-cannot-be-built:{t['key'].split(':')[0]}:{t['exc']}",
                      f"C07 (history): the plain device '{t['key'].split(':')[0]}' of the histories (boxes / circle / ellipse from the documented primitives) "
                      f"cannot be built or meshed: {t['exc']}: {t['msg']}", {"trace": t})
    ctx.cov["meshes_generated"] = len(gen)
    ctx.cov["descriptions_skipped_as_ill_formed"] = len(invalid)
    ctx.cov["mesh_generator_crashes"] = [t["key"] for t in crashed][:5]
    gens = [g for g in gens if json.dumps(g, sort_keys=True) not in {t["key"] for t in invalid}]
    ctx.cov["meshes_refused_by_the_code"] = [{"exc": t["exc"], "msg": t["msg"], "input": json.loads(t["key"])} for t in refused][:10]
    ctx.cov["meshes_refused_count"] = len(refused)
    if len(refused) * 2 > len(gens):
        raise core.MachineryFailure(f"C07: {len(refused)} of {len(gens)} device descriptions were refused by make_mesh: {refused[0]}")
    # ---- 3/4. code -> spec
    acc_e = mg.validate_parallel(ctx, exact, "exact")
    acc_g = mg.validate_parallel(ctx, gen, "generated", chunk=max(4, len(gen) // 8 + 1), nthreads=8)
    acc_h = mg.validate_parallel(ctx, hist, "histories", chunk=max(10, len(hist) // 8 + 1), nthreads=8,
                                 module="DevHeapTrace", cfg=mg.heap_trace_cfg())
    ctx.cov["traces_validated_against_impl"] += len(acc_e) + len(acc_g) + len(acc_h)
    for t in hist:
        ctx.note_case(t["key"], True)
    report_hist(ctx, hist, acc_h)
    opc = {}
    for t in hist:
        for e in t["ev"][1:]:
            opc[e["op"]] = opc.get(e["op"], 0) + 1
    ctx.cov["history_operations_executed"] = opc
    ctx.cov["histories_cut_short_by_a_refused_make_mesh"] = sum(1 for t in hist if t.get("truncated_by_refusal"))
    if not ctx.violations and any(o not in opc for o in mg.HOPS):
        raise core.MachineryFailure(f"C07: history operations never executed: {[o for o in mg.HOPS if o not in opc]}")
    for n, t in enumerate(exact):
        ctx.note_case(t["key"], True)
    for t in gen:
        ctx.note_case(t["key"], True)
    report(ctx, exact, acc_e, mg.CLAUSES_EXACT, "exact")
    report(ctx, gen, acc_g, mg.CLAUSES_GEN, "generated")
    okg = [gen[n] for n in sorted(acc_g)]
    ctx.cov["generated_stats"] = {
        "meshes": len(gen), "accepted": len(acc_g), "sites_total": sum(t["stats"]["sites"] for t in gen),
        "sites_well_centred": sum(t["stats"]["well_centred_sites"] for t in gen),
        "with_holes": sum(1 for t in gen if t["holes"]),
        "accepted_with_a_hole_flagged_mesh_False": sum(1 for n in acc_g if not all(gen[n].get("hole_mesh_flags", [True]))),
        "with_terminals": sum(1 for t in gen if t["TERM"]),
        "not_everywhere_well_centred": sum(1 for t in gen if t["stats"]["well_centred_sites"] < t["stats"]["sites"]),
        "max_sites": max([t["stats"]["sites"] for t in gen] or [0])}
    if not ctx.violations:
        if not any(t["holes"] for t in okg) or not any(t["TERM"] for t in okg) or not any(t["holes"] >= 2 for t in okg):
            raise core.MachineryFailure("C07: no accepted generated mesh with holes / two holes / terminals (vacuous)")
        def spec(t):
            return json.loads(t["key"])

        fams = {
            "elongated box (aspect >= 30) with its analytic rectangle": lambda s: s.get("family") == "elongated" and max(s["film"]["w"], s["film"]["h"]) >= 30 * min(s["film"]["w"], s["film"]["h"]),
            "elongated box with default points": lambda s: s.get("family") == "elongated" and "points" not in s["film"],
            "tilted box film (angle not a multiple of 180, w != h)": lambda s: s.get("family") == "tilted" and s["film"]["kind"] == "box" and s["film"]["angle"] % 180 != 0,
            "tilted ellipse film": lambda s: s.get("family") == "tilted" and s["film"]["kind"] == "ellipse" and s["film"]["angle"] % 180 != 0,
            "tilted hole": lambda s: s.get("family") == "tilted" and any(h.get("angle", 0) % 180 != 0 for h in s["holes"]),
            "flat sliver terminals": lambda s: s.get("family") == "sliver-terminals",
            "Mesh.smooth(n) result": lambda s: s.get("via") == "mesh.smooth",
            "Polygon.make_mesh(smooth=n) result": lambda s: s.get("via") == "polygon.make_mesh" and s["mesh"].get("smooth", 0) >= 1,
            # outlines given vertex by vertex (centroid inside / outside: decided by the harness on its own vertex list)
            "non-convex hole (vertex list) whose centroid lies inside the hole": lambda s: any(h["kind"] in mg.EXPLICIT and not mg.centroid_outside(h) for h in s["holes"]),
            "non-convex hole (vertex list) whose centroid lies OUTSIDE the hole": lambda s: any(h["kind"] in mg.EXPLICIT and mg.centroid_outside(h) for h in s["holes"]),
            "C-shaped hole (centroid outside) around a second hole": lambda s: len(s["holes"]) == 2 and s["holes"][0]["kind"] == "cshape" and mg.centroid_outside(s["holes"][0]) and s["holes"][1]["kind"] == "circle",
            "two holes, both non-convex": lambda s: sum(1 for h in s["holes"] if h["kind"] in mg.EXPLICIT) >= 2,
            "non-convex film (vertex list)": lambda s: s["film"]["kind"] in mg.EXPLICIT,
        }
        ctx.cov["generated_families_accepted"] = {k: sum(1 for t in okg if f(spec(t))) for k, f in fams.items()}
        ctx.cov["nonconvex_descriptions"] = {"given": n_nonconvex,
                                             "accepted": sum(1 for t in okg if spec(t).get("family") == "nonconvex"),
                                             "accepted_with_the_domain_from_the_vertex_lists": sum(1 for t in okg if spec(t).get("family") == "nonconvex" and t["ANA"]["have"]),
                                             "skipped_as_ill_formed": sum(1 for t in invalid if '"family": "nonconvex"' in t["key"]),
                                             "refused_by_the_code": sum(1 for t in refused if '"family": "nonconvex"' in t["key"])}
        nc = ctx.cov["nonconvex_descriptions"]
        if nc["accepted"] != nc["accepted_with_the_domain_from_the_vertex_lists"] or (ctx.quick and nc["skipped_as_ill_formed"]) \
                or 2 * nc["accepted"] < nc["given"]:
            raise core.MachineryFailure(f"C07: the non-convex family is not exercised as designed: {nc}")
        wc_sites, all_sites = sum(t["stats"]["well_centred_sites"] for t in okg), sum(t["stats"]["sites"] for t in okg)
        if 2 * wc_sites < all_sites:
            raise core.MachineryFailure(f"C07: only {wc_sites} of {all_sites} generated sites are well centred (per-site clauses vacuous)")
        ctx.cov["generated_with_analytic_domain"] = sum(1 for t in okg if t["ANA"]["have"])
        for k, v in ctx.cov["generated_families_accepted"].items():
            if not v:
                raise core.MachineryFailure(f"C07: no accepted generated mesh in the family '{k}' (vacuous)")
        for flag in ("ctor", "terminal-translate", "terminal-copy", "terminal-scale"):
            hit = [t for t in okg if f'"mesh_flag": "{flag}"' in t["key"]]
            if not hit or all(all(t["hole_mesh_flags"]) for t in hit):
                raise core.MachineryFailure(f"C07: no accepted mesh whose hole carries mesh=False through '{flag}' (vacuous)")
    for n in sorted(acc_e)[:1]:
        ctx.sample({"exact instance": exact[n]["key"], "P": exact[n]["P"], "T": exact[n]["T"],
                    "dual/edge (x1e6)": exact[n]["ob"]["R"], "areas (x1e6)": exact[n]["ob"]["A"]})
    for t in okg[:3]:
        ctx.sample({"generated": json.loads(t["key"]), "stats": t["stats"], "terminals": t["TERM"]})
    for n in sorted(acc_h)[:1]:
        ctx.sample({"history": hist[n]["key"], "observations": [{"op": e["op"], "has_mesh": e["has"]} for e in hist[n]["ev"]]})
    try:
        canaries(ctx, exact, acc_e, gen, acc_g)
        hist_canaries(ctx, hist, acc_h)
    except Exception as e:      # noqa: BLE001 - verdicts first: a canary that cannot be built on a violating tree is not the verdict
        if not ctx.violations:
            raise
        ctx.cov["machinery_problem_after_violations"] = f"{type(e).__name__}: {e}"[:300]
    ctx.cov["rule"] = ("exact: every acute lattice sub-complex inside the bounds (exhaustive), each run through Mesh.from_triangulation; "
                       "generated: one case per device description (film x holes x terminals x mesh settings x xi), "
                       "every site, edge and triangle of each mesh checked by TLC; distinct = distinct inputs")
    ctx.assume("Triangle (meshpy) is a black box: only its output is checked")
    ctx.assume("generated meshes: coordinates quantised at 1e-3 length units for the topological / tiling clauses; per-site areas and "
               "dual/edge ratios are compared (9 significant digits) with harness/meshgeom.ref_cot, itself validated by TLC against the "
               "exact rationals of MeshGeom on the integer instances in the same run")
    ctx.assume("outline membership of sites / edge midpoints is decided with shapely (distance <= 1e-9 x size)")
    ctx.assume("right-angled / cocircular triangulations and single-triangle meshes are refused by Mesh.from_triangulation and are not "
               "part of the exact binding (DESIGN.md D15)")


def report(ctx, traces, accepted, clauses, what, limit=4):
    rejected = [n for n in range(len(traces)) if n not in accepted]
    ctx.cov[f"rejected_{what}"] = len(rejected)
    for n in rejected[:limit]:
        t = traces[n]
        far, violated, tail = ctx.diagnose_trace("MeshGeomTrace", mg.strip_trace(t), mg.trace_cfg(clauses))
        clause = ",".join(v[2:] for v in violated) if violated else "unknown"
        if t["kind"] == "exact":
            detail = f"{t['key']}; outcome {t['ob']['exc']} {t['ob'].get('msg', '')}; {t.get('pydiff')}"
        else:
            detail = f"input {t['key']}; stats {t['stats']}"
            if "Terminals" in clause:
                detail += f"; terminals {t['TERM']}"
            # (a description of the rejected trace; TLC has decided)
            U, P, ana = t["U"], t["P"], t["ANA"]
            a2 = sum((P[b - 1][0] - P[a - 1][0]) * (P[c - 1][1] - P[a - 1][1]) - (P[b - 1][1] - P[a - 1][1]) * (P[c - 1][0] - P[a - 1][0]) for a, b, c in t["T"])
            chi = len(P) - len(t["E"]) + len(t["T"])
            if "Analytic" in clause or chi != 1 - t["holes"] or (ana["have"] and (abs(a2 - ana["area2"]) > 2 * t["PER"] + 4 or not all(ana["ain"]))):
                detail += f"; V - E + T = {chi} with {t['holes']} hole(s); triangles cover area {a2 / 2 / U / U:.4f}"
                if ana["have"]:
                    detail += (f", the specified film minus holes has area {ana['area2'] / 2 / U / U:.4f}; "
                               f"{sum(1 for x in ana['ain'] if not x)} of {len(P)} sites lie outside the specified domain")
            if "CellAreas" in clause:
                bad = [(i + 1, s["a"], s["c"]) for i, s in enumerate(t["SITE"]) if s["wc"] and abs(s["a"] - s["c"]) > t["tol"]][:3]
                detail += f"; (site, code area, cotangent area) {bad}"
            if "DualLengths" in clause:
                bad = [(t["E"][r], e["r"], e["w"]) for r, e in enumerate(t["EDGE"]) if e["wc"] and abs(e["r"] - e["w"]) > t["tol"]][:3]
                detail += f"; (edge, code dual/edge, cotangent weight) {bad}"
        cls = ""
        if t["kind"] == "gen" and "CellAreas" in clause:
            bad = [s for s in t["SITE"] if s["wc"] and abs(s["a"] - s["c"]) > t["tol"]]
            cls = "zero-cell:" if bad and all(s["a"] == 0 for s in bad) else ""
        ctx.violation(f"C07:{what}:{clause}:{cls}{t['key'][:200]}", f"C07 ({what}): clause {clause} is false: {detail}"[:1500],
                      {"trace": t, "violated": violated, "tlc_tail": tail})
    ctx.cov[f"rejected_{what}_inputs"] = [traces[n]["key"][:300] for n in rejected][:40]
    if len(rejected) > limit:
        ctx.cov["further_rejected_traces_not_diagnosed"] = ctx.cov.get("further_rejected_traces_not_diagnosed", 0) + len(rejected) - limit


def report_hist(ctx, hist, accepted, limit=4):
    rejected = [n for n in range(len(hist)) if n not in accepted]
    ctx.cov["rejected_histories"] = len(rejected)
    ctx.cov["rejected_histories_inputs"] = [hist[n]["key"] for n in rejected][:40]
    for n in rejected[:limit]:
        t = hist[n]
        far, violated, tail = ctx.diagnose_trace("DevHeapTrace", mg.strip_trace(t), mg.heap_trace_cfg(mg.HDIAG))
        e = t["ev"][far - 1] if 0 < far <= len(t["ev"]) else {}
        clause = ",".join(v[2:] for v in violated) if violated else "not-a-behaviour-of-DevHeap"
        detail = ""
        for g in e.get("gs", []):
            off = sum(1 for a, b in zip(g["BS"], g["OS"]) if a != b)
            if off or not all(g["TIN"]) or any(abs(x["len"] - x["cover"]) > 2 * x["maxedge"] + 2 for x in g["TERM"]):
                detail += (f" device {g['dev']}: {off} of {len(g['BS'])} sites boundary/outline mismatch, "
                           f"{sum(1 for x in g['TIN'] if not x)} of {len(g['TIN'])} triangles outside its film, terminals {g['TERM']};")
        ctx.violation(f"C07:history:{clause}:{t['key']}",
                      f"C07 (history): after step {far} ({e.get('op')}({e.get('d')})) of [{t['key']}] a live device's mesh no longer matches "
                      f"its own film/holes/terminals: clause {clause};{detail} mesh/no mesh per device {e.get('has')}"[:1500],
                      {"trace": t, "stuck_at": far, "violated": violated, "tlc_tail": tail})
    if len(rejected) > limit:
        ctx.cov["further_rejected_traces_not_diagnosed"] = ctx.cov.get("further_rejected_traces_not_diagnosed", 0) + len(rejected) - limit


def hist_canaries(ctx, hist, acc_h):
    rnd = random.Random(ctx.seed + 11)
    cand = [n for n in sorted(acc_h) if len(hist[n]["ev"]) >= 3 and len(hist[n]["ev"][-1]["gs"]) >= 2]
    if not cand:
        raise core.MachineryFailure("C07: no accepted history can carry a canary")
    bad = []
    t = copy.deepcopy(mg.strip_trace(hist[rnd.choice(cand)]))     # the mesh of the first device displaced by (1500, -500) quanta
    g = t["ev"][-1]["gs"][0]
    g["P"] = [[x + 1500, y - 500] for x, y in g["P"]]
    g["OS"] = [False] * len(g["OS"])
    bad.append(t)
    t = copy.deepcopy(mg.strip_trace(hist[rnd.choice(cand)]))     # mesh / no mesh misreported
    t["ev"][-1]["has"][0] = not t["ev"][-1]["has"][0]
    bad.append(t)
    t = copy.deepcopy(mg.strip_trace(hist[rnd.choice(cand)]))     # a terminal that lost its boundary edges
    for e in t["ev"]:
        for g in e["gs"]:
            if g["TERM"]:
                g["TERM"][0]["len"] = 0
    if any(g["TERM"] for e in t["ev"] for g in e["gs"]):
        bad.append(t)
    acc, r = ctx.validate_traces("DevHeapTrace", bad, mg.heap_trace_cfg(), name="canaries (corrupted histories)", count=False)
    if acc:
        raise core.MachineryFailure(f"C07: corrupted histories {sorted(acc)} were accepted — the binding is vacuous")
    ctx.cov["canaries_rejected"] += len(bad)


def canaries(ctx, exact, acc_e, gen, acc_g):
    rnd = random.Random(ctx.seed + 3)
    bad = []
    if not acc_e or not acc_g:
        raise core.MachineryFailure("C07: no accepted trace can carry a canary")
    for mut in ("area", "ratio", "bflag", "dir", "ref"):
        t = copy.deepcopy(mg.strip_trace(exact[rnd.choice(sorted(acc_e))]))
        ob = t["ob"]
        if mut == "area":
            ob["A"][0] += 7
        elif mut == "ratio":
            ob["R"][-1] -= 7
        elif mut == "bflag":
            ob["B"][0] = not ob["B"][0]
        elif mut == "ref":      # the reference numerics are themselves under validation
            ob["refA"][-1] += 7
        else:
            ob["D"][0][0] += 1
        bad.append(t)
    cand = sorted(acc_g)
    withterm = [n for n in cand if gen[n]["TERM"]]
    withana = [n for n in cand if gen[n]["ANA"]["have"]]
    vlist = [n for n in withana if '"family": "nonconvex"' in gen[n]["key"]]      # reference domain = the harness' own vertex lists
    for mut in ("outline", "holes", "flip", "cell", "dual", "term", "ana-area", "ana-nholes", "ana-site"):
        n = rnd.choice(withterm if mut == "term" and withterm else (vlist or withana or cand) if mut.startswith("ana") else cand)
        t = copy.deepcopy(mg.strip_trace(gen[n]))
        if mut.startswith("ana") and not t["ANA"]["have"]:
            continue
        if mut == "ana-area":        # the specified domain is larger than what the triangles cover
            t["ANA"]["area2"] += 2 * t["PER"] + 100
        elif mut == "ana-nholes":    # one specified hole was not carved (Euler characteristic against the specified number)
            t["ANA"]["nholes"] += 1
        elif mut == "ana-site":      # a site outside the specified domain
            t["ANA"]["ain"][len(t["ANA"]["ain"]) // 2] = False
        elif mut == "outline":
            i = t["BS"].index(False) if False in t["BS"] else 0
            t["OS"][i] = not t["OS"][i]
        elif mut == "holes":
            t["holes"] += 1
        elif mut == "flip":
            t["T"][0] = [t["T"][0][0], t["T"][0][2], t["T"][0][1]]
        elif mut == "cell":
            if not any(s_["wc"] for s_ in t["SITE"]):      # pick an accepted mesh that has a well-centred site
                n = next(m for m in cand if any(s_["wc"] for s_ in gen[m]["SITE"]))
                t = copy.deepcopy(mg.strip_trace(gen[n]))
            i = [k for k, s in enumerate(t["SITE"]) if s["wc"]][0]
            t["SITE"][i]["a"] += 50
        elif mut == "dual":
            if not any(s_["wc"] for s_ in t["EDGE"]):
                n = next(m for m in cand if any(s_["wc"] for s_ in gen[m]["EDGE"]))
                t = copy.deepcopy(mg.strip_trace(gen[n]))
            i = [k for k, s in enumerate(t["EDGE"]) if s["wc"]][0]
            t["EDGE"][i]["r"] += 50
        elif mut == "term":
            if not t["TERM"]:
                continue
            t["TERM"][0]["len"] = t["TERM"][0]["cover"] + 2 * t["TERM"][0]["maxedge"] + 10
        bad.append(t)
    tf = [dict(x) for x in bad]
    acc, r = ctx.validate_traces("MeshGeomTrace", tf, mg.trace_cfg(), name="canaries (corrupted observations)", count=False)
    if acc:
        raise core.MachineryFailure(f"C07: corrupted observations {sorted(acc)} were accepted — the binding is vacuous")
    ctx.cov["canaries_rejected"] += len(bad)


def replay(ctx, path):
    """`./check C07 --replay <file>`: rebuild the recorded mesh on the current tree and re-validate it."""
    rec = json.load(open(path))
    t = rec.get("trace")
    if not t:
        print(f"replay file {path} records a model-level counterexample:\n{rec.get('counterexample', '')[:3000]}")
        return 1
    tdgl = core.import_tdgl()
    if t["kind"] == "hist":
        new = mg.hist_trace(tdgl, dict(chain=t["chain"], device=t["device"]), None)
        acc, r = ctx.validate_traces("DevHeapTrace", [mg.strip_trace(new)], mg.heap_trace_cfg(), name="replay")
        if acc:
            print(f"replay: the recorded history is now accepted (property {ctx.pid} holds on it)")
            return 0
        report_hist(ctx, [new], set())
        for v in ctx.violations:
            print(f"VIOLATION property={ctx.pid} replay={v['replay']}\n  what: {v['what']}")
        return 1
    if t["kind"] == "exact":
        inst = {"name": "replayed", "b": 0, "o": 0, "m": 0, "n": 0, "exp": {"P": t["P"], "T": t["T"]}}
        new = mg.exact_observation(tdgl, inst)
        new["pydiff"] = None
        clauses = mg.CLAUSES_EXACT
    else:
        new = mg.gen_trace(tdgl, json.loads(t["key"]), None)
        clauses = mg.CLAUSES_GEN
        if new["kind"] == "refused":
            print(f"replay: make_mesh now refuses this input: {new['exc']} {new['msg']}")
            return 1
    acc, r = ctx.validate_traces("MeshGeomTrace", [mg.strip_trace(new)], mg.trace_cfg(), name="replay")
    if acc:
        print(f"replay: the recorded input is now accepted (property {ctx.pid} holds on it)")
        return 0
    report(ctx, [new], set(), clauses, "replay")
    for v in ctx.violations:
        print(f"VIOLATION property={ctx.pid} replay={v['replay']}\n  what: {v['what']}")
    return 1
