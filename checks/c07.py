"""C07 — mesh geometry is the Delaunay/Voronoi dual of the device domain.

Decided with spec/MeshGeom.tla (+ MeshGeomTrace.tla):
 1. TLC enumerates acute integer triangulations (sub-complexes of sheared lattices) and checks the theorems
    (orientation, incidence, Euler with holes, AreasTile, well-centredness); a design canary (cells without the
    boundary completion) must violate AreasTile.
 2. spec -> code: every instance is exported with its exact edges, boundary flags, cotangent weights and cell areas
    (rationals) and given to Mesh.from_triangulation.
 3. code -> spec: what the code computed is recorded and validated by TLC, which recomputes the exact rationals; the
    harness' float reference (ref_cot) is validated in the same traces.
 4. generated meshes (Device.make_mesh on boxes / ellipses / unions / resampled outlines, holes, terminals x mesh
    settings x coherence lengths) are recorded as one-state traces of quantised integers; MeshGeom!GenAll decides.
 5. histories (spec/DevHeap.tla): chains of Device operations on meshed devices (copy / deepcopy / copy.copy,
    translate in place or not, rotate, scale, the translation() context manager, make_mesh again) are enumerated by
    TLC (invariant MeshMatchesOwnOutline; the in-place-shifted shared mesh must violate it), replayed on real devices,
    and after every operation EVERY live device's mesh is validated against ITS OWN film / holes / terminals
    (MeshGeom!GenPlaced through DevHeapTrace).
"""
import copy
import json
import random

from harness import core, meshgeom as mg

LEVEL = "model_checking"


def gen_matrix(ctx):
    """Device descriptions: documented primitives x mesh settings x coherence length."""
    rnd = random.Random(ctx.seed * 31 + 7)
    films = [
        dict(kind="box", w=5, h=3, points=40),
        dict(kind="box", w=4, h=4, points=48, angle=30),
        dict(kind="ellipse", a=3, b=2, points=40),
        dict(kind="circle", r=2.2, points=36, center=(0.5, -0.5)),
        dict(kind="box", w=4, h=2, points=30, union=[dict(kind="box", w=2, h=4, points=30, center=(1, 1))]),
        dict(kind="box", w=5, h=3, points=40, union=[dict(kind="circle", r=1.2, points=24, center=(2.5, 0))]),
        dict(kind="ellipse", a=3, b=1.8, points=60, resample=34),
        dict(kind="box", w=5, h=3, points=44, minus=[dict(kind="box", w=1, h=1.5, points=20, center=(0, 1.2))], resample=50),
        dict(kind="box", w=5, h=3, points=48, reverse=True),
    ]
    holesets = [
        [],
        [dict(kind="circle", r=0.6, points=16, center=(0.2, 0.1))],
        [dict(kind="box", w=0.8, h=0.6, points=12, center=(-0.6, 0.2))],
        [dict(kind="circle", r=0.4, points=14, center=(-0.9, 0.3)), dict(kind="ellipse", a=0.5, b=0.3, points=14, center=(0.8, -0.3), reverse=True)],
    ]
    termsets = [
        [],
        [dict(kind="box", w=0.2, h=3, center=(-2.5, 0)), dict(kind="box", w=0.2, h=1.6, center=(2.5, 0.3))],
        [dict(kind="box", w=1.5, h=0.2, center=(0.3, 1.5)), dict(kind="box", w=0.2, h=1.0, center=(-2.5, -0.5))],
    ]
    meshes = [dict(max_edge_length=0.8), dict(max_edge_length=0.6, smooth=5), dict(max_edge_length=0, min_points=90),
              dict(max_edge_length=0.7, smooth=20), dict(), dict(max_edge_length=0.9, min_points=120, smooth=2),
              dict(max_edge_length=0)]
    xis = [1.0, 0.5, 2.0]
    out = []
    # a fixed core (every film once, every hole set, every terminal set, every mesh setting) ...
    for n, f in enumerate(films):
        hs = holesets[n % len(holesets)]
        box_film = f["kind"] == "box" and not f.get("angle") and f["w"] == 5 and not f.get("minus")
        ts = termsets[(n // 2) % len(termsets)] if box_film else []
        out.append(dict(film=f, holes=hs, terminals=ts, mesh=meshes[n % len(meshes)], xi=xis[n % 3]))
    out.append(dict(film=films[0], holes=holesets[1], terminals=termsets[1], mesh=dict(max_edge_length=0.8), xi=1.0))
    out.append(dict(film=films[0], holes=holesets[3], terminals=termsets[2], mesh=dict(max_edge_length=0.7, smooth=5), xi=0.5))
    out.append(dict(film=films[8], holes=[], terminals=termsets[1], mesh=dict(), xi=2.0, units="nm"))
    # holes that carry the documented option mesh=False: given to the constructor, or inherited from a polygon that was
    # once a terminal of another Device (Device.__init__ sets it in place; translate / copy / scale propagate it).
    # They are holes of the device all the same: the mesh must leave them out.
    for n, flag in enumerate(["ctor", "terminal-translate", "terminal-copy", "terminal-scale"]):
        hs = [dict(kind="box", w=0.8, h=0.5, points=12, center=(-0.8, 0.3), mesh_flag=flag)]
        if n % 2:
            hs.append(dict(kind="circle", r=0.4, points=14, center=(0.9, -0.3)))
        out.append(dict(film=films[0], holes=hs, terminals=termsets[n % 3], mesh=meshes[n % 2], xi=xis[n % 3]))
    # the primitives AS THE USER SPECIFIES THEM (checked against the harness' own rectangle / ellipse, see MeshGeom!GenAnalytic):
    # elongated boxes (aspect 30-100; default and small `points`), tilted boxes / ellipses / holes / terminals, flat terminal slivers
    ends = lambda w, h: [dict(kind="box", w=0.2, h=h, center=(-w / 2, 0)), dict(kind="box", w=0.2, h=h, center=(w / 2, 0))]
    tag = lambda d, t: dict(d, family=t)
    out.append(tag(dict(film=dict(kind="box", w=100, h=2), holes=[], terminals=ends(100, 2), mesh=dict(max_edge_length=2.0), xi=1.0), "elongated"))
    out.append(tag(dict(film=dict(kind="box", w=60, h=1), holes=[], terminals=[], mesh=dict(max_edge_length=1.2), xi=2.0), "elongated"))
    out.append(tag(dict(film=dict(kind="box", w=40, h=1, points=20), holes=[], terminals=ends(40, 1), mesh=dict(max_edge_length=1.0), xi=1.0), "elongated"))
    out.append(tag(dict(film=dict(kind="box", w=1, h=45, points=60, center=(3, -2)), holes=[], terminals=[], mesh=dict(max_edge_length=1.1), xi=1.0), "elongated"))
    out.append(tag(dict(film=dict(kind="box", w=6, h=3, points=60, center=(1, 0.5), angle=25),
                        holes=[dict(kind="ellipse", a=1.0, b=0.5, points=16, center=(1.5, 0.3), angle=25)],
                        terminals=[dict(kind="box", w=0.2, h=3, center=(-2, 0.5), angle=25), dict(kind="box", w=0.2, h=2, center=(4, 0.7), angle=25)],
                        mesh=dict(max_edge_length=0.7), xi=1.0), "tilted"))
    out.append(tag(dict(film=dict(kind="ellipse", a=3, b=1.5, points=40, center=(0.5, -0.3), angle=40),
                        holes=[dict(kind="box", w=1.0, h=0.4, points=12, center=(0.6, -0.2), angle=40)], terminals=[],
                        mesh=dict(max_edge_length=0.6, smooth=5), xi=0.5), "tilted"))
    out.append(tag(dict(film=dict(kind="box", w=5, h=2, points=48, center=(-1, 2), angle=90), holes=[], terminals=[], mesh=dict(max_edge_length=0.7), xi=1.0), "tilted"))
    out.append(tag(dict(film=dict(kind="box", w=5, h=3, points=40), holes=[],
                        terminals=[dict(kind="box", w=1.1, h=0.01, center=(0.3, 1.5)), dict(kind="box", w=2.0, h=0.02, center=(-0.5, -1.5))],
                        mesh=dict(max_edge_length=0.6), xi=1.0), "sliver-terminals"))
    # meshes that come out of Mesh.smooth itself: Mesh.smooth(n) on a device mesh, Polygon.make_mesh(smooth=n)
    out.append(tag(dict(film=films[0], holes=holesets[1], terminals=termsets[1], mesh=dict(max_edge_length=0.7), xi=1.0, via="mesh.smooth", smooth_again=1), "mesh.smooth"))
    out.append(tag(dict(film=films[2], holes=[], terminals=[], mesh=dict(max_edge_length=0.8), xi=0.5, via="mesh.smooth", smooth_again=5), "mesh.smooth"))
    out.append(tag(dict(film=films[0], holes=[], terminals=termsets[2], mesh=dict(max_edge_length=0.7, smooth=3), xi=1.0, via="polygon.make_mesh"), "polygon.make_mesh"))
    out.append(tag(dict(film=films[3], holes=[], terminals=[], mesh=dict(min_points=100, smooth=10), xi=1.0, via="polygon.make_mesh"), "polygon.make_mesh"))
    # a square with a fine mesh: Triangle puts right-angled triangles at the corners (circumcentre on the boundary edge)
    out.append(dict(film=dict(kind="box", w=4, h=4, points=52), holes=[], terminals=[], mesh=dict(min_points=300), xi=1.0))
    # ... and seeded random combinations
    n_rand = 20 if ctx.quick else 1000
    if not ctx.quick:
        meshes = meshes + [dict(max_edge_length=0.45), dict(max_edge_length=0.5, smooth=40), dict(min_points=300)]
    for _ in range(n_rand):
        f = copy.deepcopy(rnd.choice(films))
        if "points" in f:
            f["points"] = f["points"] + rnd.choice([0, 4, 9])
        hs = copy.deepcopy(rnd.choice(holesets))
        if hs and rnd.random() < 0.3:
            hs[rnd.randrange(len(hs))]["mesh_flag"] = rnd.choice(["ctor", "terminal-translate", "terminal-copy", "terminal-scale"])
        for h in hs:
            h["center"] = (round(h["center"][0] + rnd.uniform(-0.2, 0.2), 3), round(h["center"][1] + rnd.uniform(-0.2, 0.2), 3))
        box_film = f["kind"] == "box" and not f.get("angle") and f["w"] == 5 and not f.get("minus")
        ts = rnd.choice(termsets) if box_film else []
        me = dict(rnd.choice(meshes))
        if "max_edge_length" in me and me["max_edge_length"]:
            me["max_edge_length"] = round(me["max_edge_length"] * rnd.uniform(0.85, 1.3), 3)
        xi = rnd.choice(xis)
        if not me and xi < 1:
            xi = 1.0
        out.append(dict(film=f, holes=hs, terminals=ts, mesh=me, xi=xi))
    # ... of the primitives as specified (thorough: many; quick: a few)
    for _ in range(6 if ctx.quick else 260):
        fam = rnd.choice(["elongated", "tilted", "tilted", "mesh.smooth", "polygon.make_mesh"])
        if fam == "elongated":
            h = rnd.choice([0.5, 1, 2])
            w = round(h * rnd.uniform(30, 100), 1)
            f = dict(kind="box", w=w, h=h, center=(round(rnd.uniform(-5, 5), 1), round(rnd.uniform(-2, 2), 1)))
            if rnd.random() < 0.5:
                f["points"] = rnd.choice([20, 40, 60, 150])
            if rnd.random() < 0.3:
                f["w"], f["h"] = f["h"], f["w"]
            out.append(tag(dict(film=f, holes=[], terminals=[], mesh=dict(max_edge_length=round(1.1 * h, 2)), xi=rnd.choice([1.0, 2.0])), fam))
        elif fam == "tilted":
            ang = rnd.choice([25, 40, -30, 90, 117.5, 200, 270])
            c = (round(rnd.uniform(-2, 2), 2), round(rnd.uniform(-2, 2), 2))
            if rnd.random() < 0.5:
                f = dict(kind="box", w=round(rnd.uniform(4, 7), 1), h=round(rnd.uniform(2, 3.5), 1), points=rnd.choice([40, 60, 101]), center=c, angle=ang)
            else:
                f = dict(kind="ellipse", a=round(rnd.uniform(2.5, 3.5), 1), b=round(rnd.uniform(1.2, 2.0), 1), points=rnd.choice([30, 40, 56]), center=c, angle=ang)
            hs = [dict(kind=rnd.choice(["ellipse", "box"]), a=0.8, b=0.4, w=0.9, h=0.4, points=14, center=(c[0] + 0.3, c[1] - 0.1), angle=ang)] if rnd.random() < 0.6 else []
            out.append(tag(dict(film=f, holes=hs, terminals=[], mesh=dict(max_edge_length=rnd.choice([0.6, 0.8]), smooth=rnd.choice([0, 0, 5])), xi=rnd.choice(xis)), fam))
        elif fam == "mesh.smooth":
            out.append(tag(dict(film=copy.deepcopy(rnd.choice(films[:4])), holes=copy.deepcopy(rnd.choice(holesets[:3])), terminals=[],
                                mesh=dict(max_edge_length=rnd.choice([0.6, 0.8])), xi=rnd.choice(xis), via="mesh.smooth", smooth_again=rnd.choice([1, 2, 5, 20])), fam))
        else:
            out.append(tag(dict(film=copy.deepcopy(rnd.choice(films[:4] + films[6:7])), holes=[], terminals=[],
                                mesh=dict(max_edge_length=rnd.choice([0.6, 0.8]), smooth=rnd.choice([1, 3, 10])), xi=1.0, via="polygon.make_mesh"), fam))
    return out


def run(ctx):
    b = dict(BasisIds=[1, 3, 5] if ctx.quick else [1, 2, 3, 4, 5, 6], Families=["block", "subset", "ring"],
             Offsets=[1, 2] if ctx.quick else [1, 2, 3])
    ctx.cov["bounds"] = {"MeshGeom": b, "instances": "sub-complexes of acute integer lattices: blocks up to 16 sites, strips, every "
                         "edge-connected manifold subset (>= 2 triangles) of the 2x2 block, a ring with one hole",
                         "generated": "see gen_matrix: films x holes x terminals x mesh settings x coherence length"}
    # ---- 1/2. design + export
    r = ctx.model_check("MeshGeom", mg.model_cfg(b, mg.THEOREMS + ["Emit"]), name="MeshGeom[theorems + instance export]",
                        required_actions=["Place", "Choose"])
    instances = mg.parse_instances(r)
    ctx.cov["exhaustive"] = True
    ctx.cov["instances_exported"] = len(instances)
    if not r.violated and len(instances) < 100:
        raise core.MachineryFailure(f"C07: only {len(instances)} exact instances exported")
    small = dict(b, BasisIds=b["BasisIds"][:1], Offsets=[1], Families=["block"])
    ctx.model_check("MeshGeom", mg.model_cfg(small, ["CanaryInteriorCellsTile"]),
                    name="MeshGeom[cells without boundary completion must not tile]", expect_violation="CanaryInteriorCellsTile", count=False)
    # ---- histories of Device operations: design + export
    hb = dict(MaxDevs=3, MaxOps=3, HOps=mg.HOPS)
    ctx.cov["bounds"]["DevHeap"] = dict(hb, thorough_extra="MaxDevs=4, MaxOps=4 (sampled replay), MaxOps=5 checked with VIEW")
    rh = ctx.model_check("DevHeap", mg.heap_cfg(hb, mg.HCLAUSES + ["HEmit"], export=True, view=False),
                         name="DevHeap[clauses + history export]", required_actions=list(mg.HACTION.values()))
    histories = mg.parse_histories(rh)
    ctx.model_check("DevHeap", mg.heap_cfg(dict(hb, MaxOps=2), ["MeshMatchesOwnOutline"], rebuild=False),
                    name="DevHeap[a mesh object shifted in place must break MeshMatchesOwnOutline]",
                    expect_violation="MeshMatchesOwnOutline", count=False)
    hrnd = random.Random(ctx.seed * 13 + 5)
    short = [c for c in histories if len(c) == 2]          # every chain of two operations (their prefixes come along)
    long_ = [c for c in histories if len(c) == 3]
    hrnd.shuffle(long_)
    if ctx.quick:
        histories = short + long_[:60]
    else:
        r4 = ctx.model_check("DevHeap", mg.heap_cfg(dict(hb, MaxDevs=4, MaxOps=4), mg.HCLAUSES + ["HEmit"], export=True, view=False),
                             name="DevHeap[MaxDevs=4, MaxOps=4, history export]", timeout=1200)
        h4 = [c for c in mg.parse_histories(r4) if len(c) == 4]
        hrnd.shuffle(h4)
        ctx.model_check("DevHeap", mg.heap_cfg(dict(hb, MaxDevs=4, MaxOps=5), mg.HCLAUSES), name="DevHeap[MaxDevs=4, MaxOps=5, VIEW]", timeout=1200)
        histories = short + long_ + h4[:1500]
    ctx.cov["histories_replayed"] = len(histories)
    # ---- spec -> code and natural meshes, in one pool
    per = 40
    jobs = [("exact_traces", dict(instances=instances[k:k + per])) for k in range(0, len(instances), per)]
    gens = gen_matrix(ctx)
    jobs += [("gen_trace", g) for g in gens]
    jobs += [("hist_trace", dict(chain=c, device=["barhole", "ellipse"][n % 2])) for n, c in enumerate(histories)]
    # separate interpreters: a crash of the mesh generator is an observation; few, large batches (start-up dominates)
    res = mg.run_batches(ctx, jobs, batch=max(6, min(120, len(jobs) // 12 + 1)))
    exact, gen, refused, invalid, crashed, hist, histfail = [], [], [], [], [], [], []
    for x in res:
        for t in (x if isinstance(x, list) else [x]):
            {"exact": exact, "gen": gen, "refused": refused, "invalid": invalid, "crashed": crashed, "hist": hist, "histfail": histfail}[t["kind"]].append(t)
    for t in histfail[:3]:
        ctx.violation(f"C07:history:device-cannot-be-built:{t['key'].split(':')[0]}:{t['exc']}",
                      f"C07 (history): the plain device '{t['key'].split(':')[0]}' of the histories (boxes / circle / ellipse from the documented primitives) "
                      f"cannot be built or meshed: {t['exc']}: {t['msg']}", {"trace": t})
    ctx.cov["meshes_generated"] = len(gen)
    ctx.cov["descriptions_skipped_as_ill_formed"] = len(invalid)
    ctx.cov["mesh_generator_crashes"] = [t["key"] for t in crashed][:5]
    gens = [g for g in gens if json.dumps(g, sort_keys=True) not in {t["key"] for t in invalid}]
    ctx.cov["meshes_refused_by_the_code"] = [{"exc": t["exc"], "msg": t["msg"], "input": json.loads(t["key"])} for t in refused][:10]
    ctx.cov["meshes_refused_count"] = len(refused)
    if len(refused) * 2 > len(gens):
        raise core.MachineryFailure(f"C07: {len(refused)} of {len(gens)} device descriptions were refused by make_mesh: {refused[0]}")
    # ---- 3/4. code -> spec
    acc_e = mg.validate_parallel(ctx, exact, "exact")
    acc_g = mg.validate_parallel(ctx, gen, "generated", chunk=max(4, len(gen) // 8 + 1), nthreads=8)
    acc_h = mg.validate_parallel(ctx, hist, "histories", chunk=max(10, len(hist) // 8 + 1), nthreads=8,
                                 module="DevHeapTrace", cfg=mg.heap_trace_cfg())
    ctx.cov["traces_validated_against_impl"] += len(acc_e) + len(acc_g) + len(acc_h)
    for t in hist:
        ctx.note_case(t["key"], True)
    report_hist(ctx, hist, acc_h)
    opc = {}
    for t in hist:
        for e in t["ev"][1:]:
            opc[e["op"]] = opc.get(e["op"], 0) + 1
    ctx.cov["history_operations_executed"] = opc
    ctx.cov["histories_cut_short_by_a_refused_make_mesh"] = sum(1 for t in hist if t.get("truncated_by_refusal"))
    if not ctx.violations and any(o not in opc for o in mg.HOPS):
        raise core.MachineryFailure(f"C07: history operations never executed: {[o for o in mg.HOPS if o not in opc]}")
    for n, t in enumerate(exact):
        ctx.note_case(t["key"], True)
    for t in gen:
        ctx.note_case(t["key"], True)
    report(ctx, exact, acc_e, mg.CLAUSES_EXACT, "exact")
    report(ctx, gen, acc_g, mg.CLAUSES_GEN, "generated")
    okg = [gen[n] for n in sorted(acc_g)]
    ctx.cov["generated_stats"] = {
        "meshes": len(gen), "accepted": len(acc_g), "sites_total": sum(t["stats"]["sites"] for t in gen),
        "sites_well_centred": sum(t["stats"]["well_centred_sites"] for t in gen),
        "with_holes": sum(1 for t in gen if t["holes"]),
        "accepted_with_a_hole_flagged_mesh_False": sum(1 for n in acc_g if not all(gen[n].get("hole_mesh_flags", [True]))),
        "with_terminals": sum(1 for t in gen if t["TERM"]),
        "not_everywhere_well_centred": sum(1 for t in gen if t["stats"]["well_centred_sites"] < t["stats"]["sites"]),
        "max_sites": max([t["stats"]["sites"] for t in gen] or [0])}
    if not ctx.violations:
        if not any(t["holes"] for t in okg) or not any(t["TERM"] for t in okg) or not any(t["holes"] >= 2 for t in okg):
            raise core.MachineryFailure("C07: no accepted generated mesh with holes / two holes / terminals (vacuous)")
        def spec(t):
            return json.loads(t["key"])

        fams = {
            "elongated box (aspect >= 30) with its analytic rectangle": lambda s: s.get("family") == "elongated" and max(s["film"]["w"], s["film"]["h"]) >= 30 * min(s["film"]["w"], s["film"]["h"]),
            "elongated box with default points": lambda s: s.get("family") == "elongated" and "points" not in s["film"],
            "tilted box film (angle not a multiple of 180, w != h)": lambda s: s.get("family") == "tilted" and s["film"]["kind"] == "box" and s["film"]["angle"] % 180 != 0,
            "tilted ellipse film": lambda s: s.get("family") == "tilted" and s["film"]["kind"] == "ellipse" and s["film"]["angle"] % 180 != 0,
            "tilted hole": lambda s: s.get("family") == "tilted" and any(h.get("angle", 0) % 180 != 0 for h in s["holes"]),
            "flat sliver terminals": lambda s: s.get("family") == "sliver-terminals",
            "Mesh.smooth(n) result": lambda s: s.get("via") == "mesh.smooth",
            "Polygon.make_mesh(smooth=n) result": lambda s: s.get("via") == "polygon.make_mesh" and s["mesh"].get("smooth", 0) >= 1,
        }
        ctx.cov["generated_families_accepted"] = {k: sum(1 for t in okg if f(spec(t))) for k, f in fams.items()}
        wc_sites, all_sites = sum(t["stats"]["well_centred_sites"] for t in okg), sum(t["stats"]["sites"] for t in okg)
        if 2 * wc_sites < all_sites:
            raise core.MachineryFailure(f"C07: only {wc_sites} of {all_sites} generated sites are well centred (per-site clauses vacuous)")
        ctx.cov["generated_with_analytic_domain"] = sum(1 for t in okg if t["ANA"]["have"])
        for k, v in ctx.cov["generated_families_accepted"].items():
            if not v:
                raise core.MachineryFailure(f"C07: no accepted generated mesh in the family '{k}' (vacuous)")
        for flag in ("ctor", "terminal-translate", "terminal-copy", "terminal-scale"):
            hit = [t for t in okg if f'"mesh_flag": "{flag}"' in t["key"]]
            if not hit or all(all(t["hole_mesh_flags"]) for t in hit):
                raise core.MachineryFailure(f"C07: no accepted mesh whose hole carries mesh=False through '{flag}' (vacuous)")
    for n in sorted(acc_e)[:1]:
        ctx.sample({"exact instance": exact[n]["key"], "P": exact[n]["P"], "T": exact[n]["T"],
                    "dual/edge (x1e6)": exact[n]["ob"]["R"], "areas (x1e6)": exact[n]["ob"]["A"]})
    for t in okg[:3]:
        ctx.sample({"generated": json.loads(t["key"]), "stats": t["stats"], "terminals": t["TERM"]})
    for n in sorted(acc_h)[:1]:
        ctx.sample({"history": hist[n]["key"], "observations": [{"op": e["op"], "has_mesh": e["has"]} for e in hist[n]["ev"]]})
    try:
        canaries(ctx, exact, acc_e, gen, acc_g)
        hist_canaries(ctx, hist, acc_h)
    except Exception as e:      # noqa: BLE001 - verdicts first: a canary that cannot be built on a violating tree is not the verdict
        if not ctx.violations:
            raise
        ctx.cov["machinery_problem_after_violations"] = f"{type(e).__name__}: {e}"[:300]
    ctx.cov["rule"] = ("exact: every acute lattice sub-complex inside the bounds (exhaustive), each run through Mesh.from_triangulation; "
                       "generated: one case per device description (film x holes x terminals x mesh settings x xi), "
                       "every site, edge and triangle of each mesh checked by TLC; distinct = distinct inputs")
    ctx.assume("Triangle (meshpy) is a black box: only its output is checked")
    ctx.assume("generated meshes: coordinates quantised at 1e-3 length units for the topological / tiling clauses; per-site areas and "
               "dual/edge ratios are compared (9 significant digits) with harness/meshgeom.ref_cot, itself validated by TLC against the "
               "exact rationals of MeshGeom on the integer instances in the same run")
    ctx.assume("outline membership of sites / edge midpoints is decided with shapely (distance <= 1e-9 x size)")
    ctx.assume("right-angled / cocircular triangulations and single-triangle meshes are refused by Mesh.from_triangulation and are not "
               "part of the exact binding (DESIGN.md D15)")


def report(ctx, traces, accepted, clauses, what, limit=4):
    rejected = [n for n in range(len(traces)) if n not in accepted]
    ctx.cov[f"rejected_{what}"] = len(rejected)
    for n in rejected[:limit]:
        t = traces[n]
        far, violated, tail = ctx.diagnose_trace("MeshGeomTrace", mg.strip_trace(t), mg.trace_cfg(clauses))
        clause = ",".join(v[2:] for v in violated) if violated else "unknown"
        if t["kind"] == "exact":
            detail = f"{t['key']}; outcome {t['ob']['exc']} {t['ob'].get('msg', '')}; {t.get('pydiff')}"
        else:
            detail = f"input {t['key']}; stats {t['stats']}"
            if "Terminals" in clause:
                detail += f"; terminals {t['TERM']}"
            if "CellAreas" in clause:
                bad = [(i + 1, s["a"], s["c"]) for i, s in enumerate(t["SITE"]) if s["wc"] and abs(s["a"] - s["c"]) > t["tol"]][:3]
                detail += f"; (site, code area, cotangent area) {bad}"
            if "DualLengths" in clause:
                bad = [(t["E"][r], e["r"], e["w"]) for r, e in enumerate(t["EDGE"]) if e["wc"] and abs(e["r"] - e["w"]) > t["tol"]][:3]
                detail += f"; (edge, code dual/edge, cotangent weight) {bad}"
        cls = ""
        if t["kind"] == "gen" and "CellAreas" in clause:
            bad = [s for s in t["SITE"] if s["wc"] and abs(s["a"] - s["c"]) > t["tol"]]
            cls = "zero-cell:" if bad and all(s["a"] == 0 for s in bad) else ""
        ctx.violation(f"C07:{what}:{clause}:{cls}{t['key'][:200]}", f"C07 ({what}): clause {clause} is false: {detail}"[:1500],
                      {"trace": t, "violated": violated, "tlc_tail": tail})
    ctx.cov[f"rejected_{what}_inputs"] = [traces[n]["key"][:300] for n in rejected][:40]
    if len(rejected) > limit:
        ctx.cov["further_rejected_traces_not_diagnosed"] = ctx.cov.get("further_rejected_traces_not_diagnosed", 0) + len(rejected) - limit


def report_hist(ctx, hist, accepted, limit=4):
    rejected = [n for n in range(len(hist)) if n not in accepted]
    ctx.cov["rejected_histories"] = len(rejected)
    ctx.cov["rejected_histories_inputs"] = [hist[n]["key"] for n in rejected][:40]
    for n in rejected[:limit]:
        t = hist[n]
        far, violated, tail = ctx.diagnose_trace("DevHeapTrace", mg.strip_trace(t), mg.heap_trace_cfg(mg.HDIAG))
        e = t["ev"][far - 1] if 0 < far <= len(t["ev"]) else {}
        clause = ",".join(v[2:] for v in violated) if violated else "not-a-behaviour-of-DevHeap"
        detail = ""
        for g in e.get("gs", []):
            off = sum(1 for a, b in zip(g["BS"], g["OS"]) if a != b)
            if off or not all(g["TIN"]) or any(abs(x["len"] - x["cover"]) > 2 * x["maxedge"] + 2 for x in g["TERM"]):
                detail += (f" device {g['dev']}: {off} of {len(g['BS'])} sites boundary/outline mismatch, "
                           f"{sum(1 for x in g['TIN'] if not x)} of {len(g['TIN'])} triangles outside its film, terminals {g['TERM']};")
        ctx.violation(f"C07:history:{clause}:{t['key']}",
                      f"C07 (history): after step {far} ({e.get('op')}({e.get('d')})) of [{t['key']}] a live device's mesh no longer matches "
                      f"its own film/holes/terminals: clause {clause};{detail} mesh/no mesh per device {e.get('has')}"[:1500],
                      {"trace": t, "stuck_at": far, "violated": violated, "tlc_tail": tail})
    if len(rejected) > limit:
        ctx.cov["further_rejected_traces_not_diagnosed"] = ctx.cov.get("further_rejected_traces_not_diagnosed", 0) + len(rejected) - limit


def hist_canaries(ctx, hist, acc_h):
    rnd = random.Random(ctx.seed + 11)
    cand = [n for n in sorted(acc_h) if len(hist[n]["ev"]) >= 3 and len(hist[n]["ev"][-1]["gs"]) >= 2]
    if not cand:
        raise core.MachineryFailure("C07: no accepted history can carry a canary")
    bad = []
    t = copy.deepcopy(mg.strip_trace(hist[rnd.choice(cand)]))     # the mesh of the first device displaced by (1500, -500) quanta
    g = t["ev"][-1]["gs"][0]
    g["P"] = [[x + 1500, y - 500] for x, y in g["P"]]
    g["OS"] = [False] * len(g["OS"])
    bad.append(t)
    t = copy.deepcopy(mg.strip_trace(hist[rnd.choice(cand)]))     # mesh / no mesh misreported
    t["ev"][-1]["has"][0] = not t["ev"][-1]["has"][0]
    bad.append(t)
    t = copy.deepcopy(mg.strip_trace(hist[rnd.choice(cand)]))     # a terminal that lost its boundary edges
    for e in t["ev"]:
        for g in e["gs"]:
            if g["TERM"]:
                g["TERM"][0]["len"] = 0
    if any(g["TERM"] for e in t["ev"] for g in e["gs"]):
        bad.append(t)
    acc, r = ctx.validate_traces("DevHeapTrace", bad, mg.heap_trace_cfg(), name="canaries (corrupted histories)", count=False)
    if acc:
        raise core.MachineryFailure(f"C07: corrupted histories {sorted(acc)} were accepted — the binding is vacuous")
    ctx.cov["canaries_rejected"] += len(bad)


def canaries(ctx, exact, acc_e, gen, acc_g):
    rnd = random.Random(ctx.seed + 3)
    bad = []
    if not acc_e or not acc_g:
        raise core.MachineryFailure("C07: no accepted trace can carry a canary")
    for mut in ("area", "ratio", "bflag", "dir", "ref"):
        t = copy.deepcopy(mg.strip_trace(exact[rnd.choice(sorted(acc_e))]))
        ob = t["ob"]
        if mut == "area":
            ob["A"][0] += 7
        elif mut == "ratio":
            ob["R"][-1] -= 7
        elif mut == "bflag":
            ob["B"][0] = not ob["B"][0]
        elif mut == "ref":      # the reference numerics are themselves under validation
            ob["refA"][-1] += 7
        else:
            ob["D"][0][0] += 1
        bad.append(t)
    cand = sorted(acc_g)
    withterm = [n for n in cand if gen[n]["TERM"]]
    for mut in ("outline", "holes", "flip", "cell", "dual", "term"):
        n = rnd.choice(withterm if mut == "term" and withterm else cand)
        t = copy.deepcopy(mg.strip_trace(gen[n]))
        if mut == "outline":
            i = t["BS"].index(False) if False in t["BS"] else 0
            t["OS"][i] = not t["OS"][i]
        elif mut == "holes":
            t["holes"] += 1
        elif mut == "flip":
            t["T"][0] = [t["T"][0][0], t["T"][0][2], t["T"][0][1]]
        elif mut == "cell":
            if not any(s_["wc"] for s_ in t["SITE"]):      # pick an accepted mesh that has a well-centred site
                n = next(m for m in cand if any(s_["wc"] for s_ in gen[m]["SITE"]))
                t = copy.deepcopy(mg.strip_trace(gen[n]))
            i = [k for k, s in enumerate(t["SITE"]) if s["wc"]][0]
            t["SITE"][i]["a"] += 50
        elif mut == "dual":
            if not any(s_["wc"] for s_ in t["EDGE"]):
                n = next(m for m in cand if any(s_["wc"] for s_ in gen[m]["EDGE"]))
                t = copy.deepcopy(mg.strip_trace(gen[n]))
            i = [k for k, s in enumerate(t["EDGE"]) if s["wc"]][0]
            t["EDGE"][i]["r"] += 50
        elif mut == "term":
            if not t["TERM"]:
                continue
            t["TERM"][0]["len"] = t["TERM"][0]["cover"] + 2 * t["TERM"][0]["maxedge"] + 10
        bad.append(t)
    tf = [dict(x) for x in bad]
    acc, r = ctx.validate_traces("MeshGeomTrace", tf, mg.trace_cfg(), name="canaries (corrupted observations)", count=False)
    if acc:
        raise core.MachineryFailure(f"C07: corrupted observations {sorted(acc)} were accepted — the binding is vacuous")
    ctx.cov["canaries_rejected"] += len(bad)


def replay(ctx, path):
    """`./check C07 --replay <file>`: rebuild the recorded mesh on the current tree and re-validate it."""
    rec = json.load(open(path))
    t = rec.get("trace")
    if not t:
        print(f"replay file {path} records a model-level counterexample:\n{rec.get('counterexample', '')[:3000]}")
        return 1
    tdgl = core.import_tdgl()
    if t["kind"] == "hist":
        new = mg.hist_trace(tdgl, dict(chain=t["chain"], device=t["device"]), None)
        acc, r = ctx.validate_traces("DevHeapTrace", [mg.strip_trace(new)], mg.heap_trace_cfg(), name="replay")
        if acc:
            print(f"replay: the recorded history is now accepted (property {ctx.pid} holds on it)")
            return 0
        report_hist(ctx, [new], set())
        for v in ctx.violations:
            print(f"VIOLATION property={ctx.pid} replay={v['replay']}\n  what: {v['what']}")
        return 1
    if t["kind"] == "exact":
        inst = {"name": "replayed", "b": 0, "o": 0, "m": 0, "n": 0, "exp": {"P": t["P"], "T": t["T"]}}
        new = mg.exact_observation(tdgl, inst)
        new["pydiff"] = None
        clauses = mg.CLAUSES_EXACT
    else:
        new = mg.gen_trace(tdgl, json.loads(t["key"]), None)
        clauses = mg.CLAUSES_GEN
        if new["kind"] == "refused":
            print(f"replay: make_mesh now refuses this input: {new['exc']} {new['msg']}")
            return 1
    acc, r = ctx.validate_traces("MeshGeomTrace", [mg.strip_trace(new)], mg.trace_cfg(), name="replay")
    if acc:
        print(f"replay: the recorded input is now accepted (property {ctx.pid} holds on it)")
        return 0
    report(ctx, [new], set(), clauses, "replay")
    for v in ctx.violations:
        print(f"VIOLATION property={ctx.pid} replay={v['replay']}\n  what: {v['what']}")
    return 1
