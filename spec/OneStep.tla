------------------------------- MODULE OneStep -------------------------------
(***************************************************************************)
(* One solver step on small exact mesh instances (L2): composition of the  *)
(* finite-volume calculus (docs/background.rst eqs. gradient, divergence,  *)
(* laplacian, poisson-num) with the per-site update of PsiUpdate.          *)
(*                                                                         *)
(* A mesh instance: sites 1..N; edges k = <<i, j>> (orientation i -> j)    *)
(* with conductance W[k] = s_ij / e_ij, edge length EL[k], dual length     *)
(* S[k] = W[k] * EL[k]; cell areas A[i]; boundary edges (a subset of the   *)
(* edges; their length is the edge length) and terminals = sets of         *)
(* boundary edges.  All data are small positive integers: the identities   *)
(* below are algebraic and hold for ANY positive weights, so the instances *)
(* need not be metric realisations.                                        *)
(*                                                                         *)
(* Everything is stated area-weighted and doubled, so that 1/a_i and the   *)
(* factor 1/2 of the boundary (Neumann) matrix do not leave the integers:  *)
(*   Out(i, F)   = sum_j F_ij s_ij          net outflow of cell i          *)
(*   2 a_i (B mub)_i = sum_{b at i} len_b mub_b                            *)
(*   Poisson (poisson-num + Neumann flux):                                 *)
(*     a_i (Lap mu)_i = Out(i, Js - dA/dt) - (1/2) sum_{b at i} len_b mub_b*)
(*   Jn = -Grad mu - dA/dt                                                 *)
(***************************************************************************)
EXTENDS Integers, Sequences, FiniteSets, TLC

CONSTANTS MSumOthers,   \* TRUE: density_t = -(1/L_t) * sum of the OTHER terminals' currents (the documented rule)
          MEpsMinus,    \* TRUE: the nonlinear term is (eps - |psi|^2) psi (documented); FALSE: (eps + |psi|^2) (design canary)
          MJnWithDA,    \* TRUE: Jn = -Grad mu - dA/dt (documented); FALSE: dA/dt dropped (design canary)
          MNeumannHalf, \* TRUE: the Neumann matrix gives HALF of each boundary edge to each end (design canary: FALSE)
          EmitCurrents  \* TRUE: print the balanced assignments (spec -> code: acceptance by the real constructor)

PU == INSTANCE PsiUpdate WITH R <- 8, SMax <- 0, Emit <- FALSE, stage <- 0, zr <- 0, zi <- 0, wr <- 0, wi <- 0

RECURSIVE SumTo(_, _)
SumTo(f, n) == IF n = 0 THEN 0 ELSE f[n] + SumTo(f, n - 1)
Sum(f) == SumTo(f, Len(f))
Min(a, b) == IF a < b THEN a ELSE b

---------------------------------------------------------------------------
\* instances

\* 1: square with a diagonal (2 triangles); 2: strip of 4 triangles, 3 terminals, one terminal made of two
\* edges; 3: square with an interior site, 4 terminals; 4: annulus (hole bounded by sites 4,5,6), 2 terminals
EdgesOf(n) ==
  CASE n = 1 -> << <<1,2>>, <<2,3>>, <<3,4>>, <<1,4>>, <<1,3>> >>
    [] n = 2 -> << <<1,2>>, <<2,3>>, <<3,6>>, <<5,6>>, <<4,5>>, <<1,4>>, <<2,5>>, <<1,5>>, <<2,6>> >>
    [] n = 3 -> << <<1,2>>, <<2,3>>, <<3,4>>, <<1,4>>, <<1,5>>, <<2,5>>, <<3,5>>, <<4,5>> >>
    [] n = 4 -> << <<1,2>>, <<2,3>>, <<1,3>>, <<4,5>>, <<5,6>>, <<4,6>>, <<2,5>>, <<1,5>>, <<1,4>>, <<3,6>>, <<2,6>>, <<3,4>> >>
NSitesOf(n) == CASE n = 1 -> 4 [] n = 2 -> 6 [] n = 3 -> 5 [] n = 4 -> 6
\* boundary edges = the first NBnd edges (as in the code: stored in front); for 4: 1..3 outer, 4..6 hole
NBndOf(n) == CASE n = 1 -> 4 [] n = 2 -> 6 [] n = 3 -> 4 [] n = 4 -> 6
TermsOf(n) ==
  CASE n = 1 -> << {4}, {2} >>
    [] n = 2 -> << {6}, {3}, {1, 2} >>
    [] n = 3 -> << {1}, {3}, {2}, {4} >>
    [] n = 4 -> << {1}, {2} >>
NInst == 4
Variants == 1..3

VARIABLES phase, inst, var,       \* instance and weight variant
          bk, bi, bv,             \* basis perturbation of the background fields: kind, index, value
          cur,                    \* terminal currents (sequence of integers), den (denominator: 1 or 10)
          den,
          g4, step, dt            \* uniform state: gamma^2/2 in quarters; step machine of the adaptive rule
vars == <<phase, inst, var, bk, bi, bv, cur, den, g4, step, dt>>

E == EdgesOf(inst)
NE == Len(E)
N == NSitesOf(inst)
NB == NBndOf(inst)
Terms == TermsOf(inst)
NT == Len(Terms)
\* irregular positive integer weights, different for every variant
W(k) == 1 + ((k * var + inst) % 3)
EL(k) == 1 + ((k + 2 * var) % 3)
S(k) == W(k) * EL(k)
A(i) == 1 + ((i * var + 1) % 4)
BLen(b) == EL(b)

\* background fields (arbitrary integers) plus one basis perturbation
Pert(kind, idx) == IF bk = kind /\ bi = idx THEN bv ELSE 0
Mu(i) == ((i * i * 3) % 7) - 3 + Pert("mu", i)
Js(k) == ((k * 5) % 7) - 3 + Pert("js", k)
DA(k) == ((k * 3) % 5) - 2 + Pert("da", k)
MuB(b) == ((b * 2) % 5) - 2 + Pert("mub", b)

\* docs eq. divergence (area-weighted): sum over the edges at i of F_ij s_ij, F given per edge in the edge's
\* own orientation as the FLUX F_k s_k
Out(i, flux) == Sum([k \in 1..NE |-> IF E[k][1] = i THEN flux[k] ELSE IF E[k][2] = i THEN 0 - flux[k] ELSE 0])
\* docs eq. gradient: (g_j - g_i) / e_ij ; times s_ij this is W (g_j - g_i)
GradFlux(g) == [k \in 1..NE |-> W(k) * (g[E[k][2]] - g[E[k][1]])]
\* docs eq. laplacian (area-weighted): sum_j (g_j - g_i) s_ij / e_ij
LapA(i, g) == Sum([k \in 1..NE |-> IF E[k][1] = i THEN W(k) * (g[E[k][2]] - g[i])
                                   ELSE IF E[k][2] = i THEN W(k) * (g[E[k][1]] - g[i]) ELSE 0])
\* twice the area-weighted Neumann boundary term: each boundary edge gives half its length to each end
Bnd2(i, mub) == Sum([b \in 1..NB |-> IF E[b][1] = i \/ E[b][2] = i THEN BLen(b) * mub[b] ELSE 0])

muv == [i \in 1..N |-> Mu(i)]
mubv == [b \in 1..NB |-> MuB(b)]
FluxJs == [k \in 1..NE |-> Js(k) * S(k)]
FluxDA == [k \in 1..NE |-> DA(k) * S(k)]
\* normal current Jn = -Grad mu - dA/dt  (as a flux through the dual edge)
FluxJn == [k \in 1..NE |-> 0 - GradFlux(muv)[k] - (IF MJnWithDA THEN FluxDA[k] ELSE 0)]
FluxTotal == [k \in 1..NE |-> FluxJs[k] + FluxJn[k]]
FluxSrc == [k \in 1..NE |-> FluxJs[k] - FluxDA[k]]

\* 2 a_i ((Lap mu)_i - rhs_i)  with  rhs = Div(Js - dA/dt) - B mub
\* (mechanism side: the Poisson equation as it is solved, with the Neumann matrix of the mechanism)
Residual2(i) == 2 * LapA(i, muv) - (2 * Out(i, FluxSrc) - (IF MNeumannHalf THEN 1 ELSE 2) * Bnd2(i, mubv))
\* 2 a_i (Div(Js + Jn) - B mub)_i : net outflow of the cell minus what is injected through its boundary share
\* (property side: a cell's share of a terminal is half of each of its boundary edges -- geometry)
Defect2(i) == 2 * Out(i, FluxTotal) - Bnd2(i, mubv)

TerminalCells == {i \in 1..N : \E t \in 1..NT : \E b \in Terms[t] : E[b][1] = i \/ E[b][2] = i}

---------------------------------------------------------------------------
\* terminal currents (update_mu_boundary's documented rule) -- currents in units of 1/den

TermLen(t) == Sum([b \in 1..NB |-> IF b \in Terms[t] THEN BLen(b) ELSE 0])
\* numerator of the current density of terminal t (denominator TermLen(t))
DensNum(t) == 0 - Sum([k \in 1..NT |-> IF (k # t \/ ~MSumOthers) THEN cur[k] ELSE 0])
\* inflow through terminal t times TermLen(t):  sum_b len_b * DensNum / TermLen * TermLen
InflowTimesLen(t) == Sum([b \in 1..NB |-> IF b \in Terms[t] THEN BLen(b) * DensNum(t) ELSE 0])
Balanced(c) == Sum(c) = 0
\* the property's acceptance rule: every balanced assignment (to >= 2 terminals) is accepted
Accepts(c) == Balanced(c)

---------------------------------------------------------------------------
\* uniform state psi = 1, mu = 0, eps = 1, no links
\* w = z |psi|^2 + (psi + tau S ((eps -/+ |psi|^2) psi + Lap psi)), z = g  (U = 1 at mu = 0); gamma = 0 => S = 1
\* in quarters: z4 = g4, and with the documented sign the bracket vanishes whatever tau and S are
TauQ == {1, 4, 16}        \* tau = dt/u in quarters (1/4, 1, 4)
UniformW4(tq) == g4 + 4 + (IF MEpsMinus THEN 0 ELSE 2 * tq)    \* (eps + |psi|^2) psi = 2 psi, S = 1 (g4 = 0)

\* adaptive rule (docs "Adaptive time step"): after step n, if n > window the tentative step becomes
\* min(dt_max, (dt + dt_init / max(delta, 1e-10)) / 2); with delta = 0 the second term is 10^10 dt_init > dt_max
Window == 2
DtInit == 1
DtMax == 64
MaxSteps == 8

---------------------------------------------------------------------------
Init == /\ phase = "start" /\ inst = 1 /\ var = 1 /\ bk = "none" /\ bi = 0 /\ bv = 0
        /\ cur = <<>> /\ den = 1 /\ g4 = 0 /\ step = 0 /\ dt = DtInit

PickInst == /\ phase = "start"
            /\ \E n \in 1..NInst, v \in Variants : inst' = n /\ var' = v
            /\ phase' = "inst"
            /\ UNCHANGED <<bk, bi, bv, cur, den, g4, step, dt>>

PickFields == /\ phase = "inst"
              /\ \E kind \in {"none", "mu", "js", "da", "mub"}, v \in {0 - 2, 1, 3} :
                    \E idx \in 1..(CASE kind = "none" -> 1 [] kind = "mu" -> N [] kind = "mub" -> NB [] OTHER -> NE) :
                       bk' = kind /\ bi' = idx /\ bv' = v
              /\ phase' = "fields"
              /\ UNCHANGED <<inst, var, cur, den, g4, step, dt>>

Amps == (0 - 3)..3
PickCurrents == /\ phase = "inst"
                /\ \E c \in [1..NT -> Amps], d \in {1, 10} :
                      /\ Balanced(c) /\ cur' = c /\ den' = d
                /\ phase' = "currents"
                /\ UNCHANGED <<inst, var, bk, bi, bv, g4, step, dt>>

PickUniform == /\ phase = "inst"
               /\ \E g \in {0, 2, 8, 32} : g4' = g
               /\ phase' = "uniform" /\ step' = 0 /\ dt' = DtInit
               /\ UNCHANGED <<inst, var, bk, bi, bv, cur, den>>

\* one step of the uniform state: psi' = 1 (UniformStateStationary), so delta = 0
StepUniform == /\ phase = "uniform" /\ step < MaxSteps
               /\ step' = step + 1
               /\ dt' = IF step > Window THEN DtMax ELSE dt
               /\ UNCHANGED <<phase, inst, var, bk, bi, bv, cur, den, g4>>

Next == PickInst \/ PickFields \/ PickCurrents \/ PickUniform \/ StepUniform
Spec == Init /\ [][Next]_vars

---------------------------------------------------------------------------
\* theorems

TypeOK == phase \in {"start", "inst", "fields", "currents", "uniform"} /\ inst \in 1..NInst /\ var \in Variants

\* sanity of the instances: terminals are made of boundary edges, are disjoint, there are >= 2 of them
InstancesWellFormed ==
   phase # "start" => /\ \A t \in 1..NT : Terms[t] \subseteq 1..NB /\ Terms[t] # {}
                      /\ \A t, u \in 1..NT : t # u => Terms[t] \cap Terms[u] = {}
                      /\ NT >= 2
                      /\ \A k \in 1..NE : E[k][1] \in 1..N /\ E[k][2] \in 1..N /\ E[k][1] # E[k][2]

\* C01: the conservation defect of every cell IS minus the residual of the Poisson equation.
\* Hence, when the Poisson equation is solved, every cell that touches no terminal has zero net outflow
\* (also cells on insulating film edges and hole edges), and a terminal cell lets out exactly what is injected.
ConservationDefectEqualsPoissonResidual ==
   phase = "fields" => \A i \in 1..N : Defect2(i) = 0 - Residual2(i)
\* Div Grad = Lap with the weights s/e
LapIsDivGrad == phase = "fields" => \A i \in 1..N : Out(i, GradFlux(muv)) = LapA(i, muv)
\* what leaves one cell through an interior face enters the neighbour: the total outflow vanishes, so a solved
\* Poisson problem needs a vanishing total injection (balanced currents)
FluxesCancelPairwise == phase = "fields" => Sum([i \in 1..N |-> Out(i, FluxTotal)]) = 0
TotalInjectionIsTotalResidual ==
   phase = "fields" => Sum([i \in 1..N |-> Bnd2(i, mubv)]) + Sum([i \in 1..N |-> Defect2(i)]) = 0
\* each boundary edge gives its full length to its two ends together
BoundaryShares == phase = "fields" => Sum([i \in 1..N |-> Bnd2(i, mubv)]) = 2 * Sum([b \in 1..NB |-> BLen(b) * mubv[b]])

\* C01: the current that enters through terminal t is the requested one (for balanced assignments)
TerminalInflowIsRequestedCurrent ==
   phase = "currents" => \A t \in 1..NT : InflowTimesLen(t) = cur[t] * TermLen(t)
\* C01: balanced assignments are accepted
BalancedAccepted == phase = "currents" => Accepts(cur)

\* C17: rows of the Laplacian sum to zero: a constant has zero Laplacian and zero gradient (no supercurrent)
RowSumsZero == phase = "uniform" => \A c \in {1, 3} : \A i \in 1..N : LapA(i, [j \in 1..N |-> c]) = 0
NoGradientOfConstant == phase = "uniform" => \A k \in 1..NE : GradFlux([j \in 1..N |-> 1])[k] = 0
\* C17: psi' = 1, |psi'|^2 = 1 is the accepted (physical, unique) root for every gamma, tau
UniformStateStationary ==
   phase = "uniform" =>
      \A tq \in TauQ : (g4 = 0 \/ MEpsMinus) =>
          /\ PU!Solvable(g4, 0, UniformW4(tq), 0)
          /\ PU!Accept(g4, 0, UniformW4(tq), 0, 4, 0, 4, 1, 1)
\* C17: with psi = 1 (no supercurrent), no dA/dt and no injected current, mu = 0 solves the Poisson equation
\* and the normal current vanishes
ZeroPotentialSolves ==
   phase = "uniform" =>
      LET zero == [i \in 1..N |-> 0] IN
        \A i \in 1..N : LapA(i, zero) = 0 /\ \A k \in 1..NE : GradFlux(zero)[k] = 0
\* C17 / step control: delta = 0, so after the warm-up the step is dt_max, before it dt_init
AdaptiveStepGrowsToMax ==
   phase = "uniform" => /\ (step > Window + 1 => dt = DtMax)
                        /\ (step <= Window + 1 => dt = DtInit)
                        /\ dt <= DtMax

\* spec -> code: balanced assignments for the acceptance test  <<"I", den, <<i1, ..>>>>
EmittedCurrents == (phase = "currents" /\ EmitCurrents /\ var = 1) => PrintT(<<"I", den, cur>>)
=============================================================================
