--------------------------- MODULE DevHeapTrace ---------------------------
(***************************************************************************)
(* Trace validation for DevHeap (C07, histories).  A trace is a chain of   *)
(* Device operations executed on REAL meshed devices; after every          *)
(* operation the harness records, for every live device, whether it has a  *)
(* mesh and - if so - the quantised mesh together with the device's OWN    *)
(* outlines and terminals (the same record as for generated meshes, without *)
(* the per-site / per-edge part).  Accepted iff the execution is a          *)
(* behaviour of DevHeap (operation enabled, result identity, mesh / no      *)
(* mesh as specified) and every recorded mesh satisfies MeshGeom!GenPlaced  *)
(* against its own device: triangles tile film minus holes, boundary =      *)
(* outline, Euler, terminal lengths.                                       *)
(***************************************************************************)
EXTENDS DevHeap, MeshGeom, IOUtils, TLCExt

Batch == JsonDeserialize(IOEnv.TRACE_FILE)

VARIABLES tid, l
tvars == <<hvars, mesh, tid, l>>
X == Batch[tid]
Ev == X.ev[l]

TInit == tid \in 1 .. Len(Batch) /\ l = 1 /\ HInit /\ Init

Applied == CASE Ev.op = "copy" -> DoCopy(Ev.d)
             [] Ev.op = "deepcopy" -> DoDeepCopy(Ev.d)
             [] Ev.op = "shallowcopy" -> DoShallowCopy(Ev.d)
             [] Ev.op = "translatein" -> DoTranslateIn(Ev.d)
             [] Ev.op = "translateout" -> DoTranslateOut(Ev.d)
             [] Ev.op = "rotate" -> DoRotate(Ev.d)
             [] Ev.op = "scale" -> DoScale(Ev.d)
             [] Ev.op = "enter" -> DoEnter(Ev.d)
             [] Ev.op = "exit" -> DoExit
             [] Ev.op = "makemesh" -> DoMakeMesh(Ev.d)

\* what was observed on the real devices after the operation
ObservedOK(e) == /\ Len(e.has) = Len(devs')
                 /\ \A d \in 1 .. Len(e.has) : e.has[d] = (devs'[d].mesh # 0)
                 /\ e.res = hlast'.res
MeshesPlaced(e) == \A k \in 1 .. Len(e.gs) : GenPlaced(e.gs[k])

\* the first event is the observation of the fresh device (no operation)
TFirst == /\ l = 1 /\ l <= Len(X.ev) /\ Ev.op = "new"
          /\ Len(Ev.has) = 1 /\ Ev.has[1] /\ MeshesPlaced(Ev) = TRUE
          /\ l' = 2 /\ UNCHANGED <<hvars, mesh, tid>>
TStep == /\ l > 1 /\ l <= Len(X.ev)
         /\ Applied /\ ObservedOK(Ev) = TRUE
         /\ MeshesPlaced(Ev) = TRUE     \* "= TRUE": evaluated as a value (TLC unrolls quantifiers of an action recursively)
         /\ l' = l + 1 /\ UNCHANGED <<mesh, tid>>
TNext == TFirst \/ TStep
TSpec == TInit /\ [][TNext]_tvars

Accepted == (l = Len(X.ev) + 1) => PrintT(<<"ACCEPT", tid>>)
Progress == PrintT(<<"AT", tid, l>>)

\* diagnosis: which clause fails for the meshes recorded at the current event (evaluated before consuming it)
AtEv == l <= Len(X.ev)
D_Orientation == AtEv => \A k \in 1 .. Len(Ev.gs) : GenOrientation(Ev.gs[k])
D_BoundaryIsOutline == AtEv => \A k \in 1 .. Len(Ev.gs) : GenBoundaryIsOutline(Ev.gs[k])
D_TrianglesTileOwnFilm == AtEv => \A k \in 1 .. Len(Ev.gs) : GenTrianglesTile(Ev.gs[k])
D_Euler == AtEv => \A k \in 1 .. Len(Ev.gs) : GenEuler(Ev.gs[k])
D_Terminals == AtEv => \A k \in 1 .. Len(Ev.gs) : GenTerminals(Ev.gs[k])
=============================================================================
