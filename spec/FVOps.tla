------------------------------- MODULE FVOps -------------------------------
(***************************************************************************)
(* Exact discrete calculus of the finite-volume scheme (L2 of DESIGN.md,   *)
(* section 3.3), transcribed from docs/background.rst:                     *)
(*   eq. gradient       (grad g)_ij = (g_j - g_i) / e_ij                   *)
(*   eq. divergence     (div F)_i   = (1/a_i) SUM_{j in N(i)} F_ij s_ij    *)
(*   eq. laplacian      (lap g)_i   = (1/a_i) SUM_j (g_j - g_i) s_ij/e_ij  *)
(*   eq. grad-psi       ((grad - iA) psi)_ij = (U_ij psi_j - psi_i)/e_ij   *)
(*   eq. laplacian-psi  ((grad - iA)^2 psi)_i =                            *)
(*                      (1/a_i) SUM_j (U_ij psi_j - psi_i) s_ij/e_ij       *)
(*   eq. poisson-num    J_ij = Im{ psi_i^* (U_ij psi_j - psi_i) / e_ij }   *)
(* with U_ij = exp(-i A.e_ij), e_ji = -e_ij (hence U_ji = conj(U_ij)),     *)
(* F_ji = -F_ij, and the boundary-flux operator of property C03 (half of   *)
(* every boundary edge to each of its end points).                         *)
(*                                                                         *)
(* A mesh instance is a record of small integers; numbers are Gaussian     *)
(* rationals <<re, im, den>> in lowest terms; link variables are fourth    *)
(* roots of unity U = (-i)^q (A.e = q pi/2), gauge functions chi = c pi/2. *)
(* The instance universe is enumerated through Next (one choice per step)  *)
(* and the identities of C03 / C04 are invariants evaluated at the states  *)
(* where an instance is complete.  Statements are linear or sesquilinear:  *)
(* they are evaluated on basis vectors.                                    *)
(***************************************************************************)
EXTENDS Integers, Sequences, SequencesExt, FiniteSets, TLC, Json

CONSTANTS MeshIds,     \* which meshes of the universe (indices into Meshes)
          Patterns,    \* weight patterns 0..26 used for the abstract meshes
          MaxFree,     \* number of links enumerated over 0..3 (the others follow a fixed pattern)
          WithGauge    \* enumerate single-site gauge generators (C04)

-----------------------------------------------------------------------------
(* Gaussian rationals *)
Abs(x) == IF x < 0 THEN -x ELSE x
Min2(a, b) == IF a < b THEN a ELSE b
RECURSIVE GCD(_, _)
GCD(x, y) == IF y = 0 THEN x ELSE GCD(y, x % y)
LCM(x, y) == (x \div GCD(x, y)) * y
Nrm(a, b, d) == LET g == GCD(GCD(Abs(a), Abs(b)), d) IN <<a \div g, b \div g, d \div g>>   \* d > 0
Zero == <<0, 0, 1>>
One == <<1, 0, 1>>
QInt(n) == <<n, 0, 1>>
QFrac(n, d) == Nrm(n, 0, d)
QAdd(x, y) == IF x = Zero THEN y ELSE IF y = Zero THEN x ELSE
              LET g == GCD(x[3], y[3]) fx == y[3] \div g fy == x[3] \div g
              IN Nrm(x[1] * fx + y[1] * fy, x[2] * fx + y[2] * fy, x[3] * fx)
QMul(x, y) == IF x = Zero \/ y = Zero THEN Zero ELSE
              Nrm(x[1] * y[1] - x[2] * y[2], x[1] * y[2] + x[2] * y[1], x[3] * y[3])
QNeg(x) == <<-x[1], -x[2], x[3]>>
QConj(x) == <<x[1], -x[2], x[3]>>
QSub(x, y) == QAdd(x, QNeg(y))
QIm(x) == Nrm(x[2], 0, x[3])
IsG(x) == /\ x \in Int \X Int \X Int /\ x[3] > 0 /\ GCD(GCD(Abs(x[1]), Abs(x[2])), x[3]) = 1
\* sums: FoldLeft has a Java implementation that evaluates the summands once.  (TLC does not cache
\* LET definitions and operator arguments while it evaluates an invariant, so every value that is used
\* more than once below is bound by a quantifier over a singleton set: \A X \in {expr} : P(X).)
QSum(f) == FoldLeft(QAdd, Zero, f)                      \* f: sequence of Gaussian rationals
ISum(f) == FoldLeft(LAMBDA a, b : a + b, 0, f)          \* f: sequence of integers

\* link variable U = exp(-i q pi/2) = (-i)^q; gauge phase exp(i c pi/2) = i^c
U4(q) == CASE q % 4 = 0 -> <<1, 0, 1>> [] q % 4 = 1 -> <<0, -1, 1>>
           [] q % 4 = 2 -> <<-1, 0, 1>> [] OTHER -> <<0, 1, 1>>
Ph(c) == QConj(U4(c))

-----------------------------------------------------------------------------
(* The mesh universe.  Abstract meshes: topology + integer site positions  *)
(* (planar embedding, no unit-length edge vector); edge lengths, dual      *)
(* lengths (= w * len) and cell areas are arbitrary positive integers      *)
(* taken from a pattern.  Geometric meshes: patches of the lattice with    *)
(* basis (48,0),(24,32) (edge lengths 48,40,40; acute), whose Voronoi      *)
(* duals and cell areas are integers.                                      *)
(***************************************************************************)
Meshes == <<
  [name |-> "T1", geo |-> FALSE, n |-> 3,
   pos |-> << <<0,0>>, <<4,0>>, <<2,3>> >>, tris |-> << <<1,2,3>> >>,
   edges |-> << <<1,2>>, <<2,3>>, <<3,1>> >>, bidx |-> <<1,2,3>>],
  [name |-> "S4", geo |-> FALSE, n |-> 4,
   pos |-> << <<0,0>>, <<4,0>>, <<2,3>>, <<6,3>> >>, tris |-> << <<1,2,3>>, <<2,4,3>> >>,
   edges |-> << <<1,2>>, <<1,3>>, <<2,3>>, <<2,4>>, <<4,3>> >>, bidx |-> <<5,4,2,1>>],
  [name |-> "F5", geo |-> FALSE, n |-> 5,
   pos |-> << <<0,0>>, <<4,0>>, <<3,3>>, <<0,4>>, <<-3,2>> >>, tris |-> << <<1,2,3>>, <<1,3,4>>, <<1,4,5>> >>,
   edges |-> << <<1,2>>, <<1,3>>, <<2,3>>, <<1,4>>, <<3,4>>, <<5,1>>, <<4,5>> >>, bidx |-> <<1,3,5,6,7>>],
  [name |-> "S5", geo |-> FALSE, n |-> 5,
   pos |-> << <<0,0>>, <<4,0>>, <<2,3>>, <<6,3>>, <<8,0>> >>, tris |-> << <<1,2,3>>, <<2,4,3>>, <<2,5,4>> >>,
   edges |-> << <<2,3>>, <<2,4>>, <<1,2>>, <<1,3>>, <<3,4>>, <<2,5>>, <<5,4>> >>, bidx |-> <<3,4,5,6,7>>],
  [name |-> "C5", geo |-> FALSE, n |-> 5,
   pos |-> << <<0,0>>, <<4,0>>, <<4,4>>, <<0,4>>, <<2,2>> >>,
   tris |-> << <<1,2,5>>, <<2,3,5>>, <<3,4,5>>, <<4,1,5>> >>,
   edges |-> << <<1,5>>, <<2,5>>, <<5,3>>, <<5,4>>, <<1,2>>, <<2,3>>, <<3,4>>, <<4,1>> >>, bidx |-> <<8,7,6,5>>],
  [name |-> "A6", geo |-> FALSE, n |-> 6,
   pos |-> << <<0,0>>, <<12,0>>, <<6,10>>, <<4,2>>, <<8,2>>, <<6,5>> >>,
   tris |-> << <<1,2,5>>, <<1,5,4>>, <<2,3,6>>, <<2,6,5>>, <<3,1,4>>, <<3,4,6>> >>,
   edges |-> << <<1,5>>, <<4,5>>, <<1,4>>, <<2,5>>, <<2,6>>, <<5,6>>, <<3,6>>, <<3,4>>, <<6,4>>,
                <<1,2>>, <<2,3>>, <<3,1>> >>, bidx |-> <<2,6,9,10,11,12>>],
  [name |-> "D6", geo |-> FALSE, n |-> 6,
   pos |-> << <<0,0>>, <<4,0>>, <<2,3>>, <<10,0>>, <<14,0>>, <<12,3>> >>, tris |-> << <<1,2,3>>, <<4,5,6>> >>,
   edges |-> << <<1,2>>, <<2,3>>, <<1,3>>, <<4,5>>, <<5,6>>, <<4,6>> >>, bidx |-> <<1,2,3,4,5,6>>],
  [name |-> "G4", geo |-> TRUE, n |-> 4,
   pos |-> << <<0,0>>, <<48,0>>, <<24,32>>, <<72,32>> >>, tris |-> << <<1,2,3>>, <<2,4,3>> >>,
   edges |-> << <<1,2>>, <<1,3>>, <<2,3>>, <<2,4>>, <<3,4>> >>, bidx |-> <<1,2,4,5>>,
   len |-> <<48, 40, 40, 40, 48>>, dual |-> <<7, 15, 30, 15, 7>>, area |-> <<234, 534, 534, 234>>],
  [name |-> "G7", geo |-> TRUE, n |-> 7,
   pos |-> << <<0,0>>, <<48,0>>, <<24,32>>, <<-24,32>>, <<-48,0>>, <<-24,-32>>, <<24,-32>> >>,
   tris |-> << <<1,2,3>>, <<1,3,4>>, <<1,4,5>>, <<1,5,6>>, <<1,6,7>>, <<1,7,2>> >>,
   edges |-> << <<1,2>>, <<1,3>>, <<1,4>>, <<1,5>>, <<1,6>>, <<1,7>>,
                <<2,3>>, <<3,4>>, <<4,5>>, <<5,6>>, <<6,7>>, <<2,7>> >>, bidx |-> <<7,8,9,10,11,12>>,
   len |-> <<48, 40, 40, 48, 40, 40, 40, 48, 40, 40, 48, 40>>,
   dual |-> <<14, 30, 30, 14, 30, 30, 15, 7, 15, 15, 7, 15>>,
   area |-> <<1536, 468, 534, 534, 468, 534, 534>>]
>>

PatLen(e, p) == 1 + ((e + (p % 3)) % 3)
PatW(e, p) == 1 + (((2 * e) + ((p \div 3) % 3)) % 3)
PatArea(i, p) == 1 + ((i + (i \div 3) + (p \div 9)) % 3)

\* the complete instance (what the operators are functions of)
Instance(m, p) ==
  LET R == Meshes[m] ne == Len(R.edges) IN
  [n |-> R.n, edges |-> R.edges, bidx |-> R.bidx, tris |-> R.tris, pos |-> R.pos,
   dir |-> [e \in 1..ne |-> <<R.pos[R.edges[e][2]][1] - R.pos[R.edges[e][1]][1],
                               R.pos[R.edges[e][2]][2] - R.pos[R.edges[e][1]][2]>>],
   len |-> IF R.geo THEN R.len ELSE [e \in 1..ne |-> PatLen(e, p)],
   dual |-> IF R.geo THEN R.dual ELSE [e \in 1..ne |-> PatW(e, p) * PatLen(e, p)],
   area |-> IF R.geo THEN R.area ELSE [i \in 1..R.n |-> PatArea(i, p)]]

NE(M) == Len(M.edges)
NB(M) == Len(M.bidx)
Sites(M) == 1..M.n
ETail(M, e) == M.edges[e][1]      \* the edge (i, j) is oriented from i = Tail to j = Head
EHead(M, e) == M.edges[e][2]

WellFormed(M) ==
  /\ M.n \in Nat \ {0} /\ NE(M) > 0
  /\ \A e \in 1..NE(M) : /\ ETail(M, e) \in Sites(M) /\ EHead(M, e) \in Sites(M) /\ ETail(M, e) # EHead(M, e)
                         /\ M.len[e] \in Nat \ {0} /\ M.dual[e] \in Nat \ {0}
                         /\ M.dir[e] # <<0, 0>>
  /\ \A e, f \in 1..NE(M) : e # f => {ETail(M, e), EHead(M, e)} # {ETail(M, f), EHead(M, f)}
  /\ \A i \in Sites(M) : M.area[i] \in Nat \ {0}
  /\ Len(M.len) = NE(M) /\ Len(M.dual) = NE(M) /\ Len(M.dir) = NE(M) /\ Len(M.area) = M.n
  /\ \A b \in 1..NB(M) : M.bidx[b] \in 1..NE(M)
  /\ \A b, c \in 1..NB(M) : b # c => M.bidx[b] # M.bidx[c]

-----------------------------------------------------------------------------
(* The operators, as dense matrices [row -> [col -> Gaussian rational]] *)

\* (div F)_i = (1/a_i) SUM_j F_ij s_ij ; the value stored on edge e = (i, j) is F_ij = -F_ji
Div(M) == [i \in Sites(M) |-> [e \in 1..NE(M) |->
             IF i = ETail(M, e) THEN QFrac(M.dual[e], M.area[i])
             ELSE IF i = EHead(M, e) THEN QFrac(-M.dual[e], M.area[i]) ELSE Zero]]

\* ((grad - iA) psi)_e = (U_e psi_j - psi_i) / e_ij ; q = all zero gives the plain gradient
CovGrad(M, q) == [e \in 1..NE(M) |-> [k \in Sites(M) |->
             QAdd(IF k = EHead(M, e) THEN QMul(U4(q[e]), QFrac(1, M.len[e])) ELSE Zero,
                  IF k = ETail(M, e) THEN QFrac(-1, M.len[e]) ELSE Zero)]]

\* U_ij seen from site i along edge e: U_e if i is the tail, conj(U_e) if i is the head (e_ji = -e_ij)
LinkFrom(M, q, e, i) == IF i = ETail(M, e) THEN U4(q[e]) ELSE QConj(U4(q[e]))
Other(M, e, i) == IF i = ETail(M, e) THEN EHead(M, e) ELSE ETail(M, e)
Touches(M, e, i) == i = ETail(M, e) \/ i = EHead(M, e)

\* ((grad - iA)^2 psi)_i = (1/a_i) SUM_{j in N(i)} (U_ij psi_j - psi_i) s_ij / e_ij
CovLap(M, q) == [i \in Sites(M) |-> [k \in Sites(M) |->
   QSum([e \in 1..NE(M) |->
           IF ~Touches(M, e, i) THEN Zero
           ELSE QMul(QFrac(M.dual[e], M.len[e] * M.area[i]),
                     QAdd(IF k = Other(M, e, i) THEN LinkFrom(M, q, e, i) ELSE Zero,
                          IF k = i THEN QInt(-1) ELSE Zero))])]]

\* the same operator with the rows of the sites in F replaced by rows of the identity (pinned / Dirichlet rows:
\* property C06 fixes psi there); F = {} is the free operator
CovLapPinned(M, q, F) == [i \in Sites(M) |-> [k \in Sites(M) |->
   IF i \in F THEN (IF k = i THEN One ELSE Zero) ELSE CovLap(M, q)[i][k]]]

NoLinks(M) == [e \in 1..NE(M) |-> 0]
Grad(M) == CovGrad(M, NoLinks(M))
Lap(M) == CovLap(M, NoLinks(M))

\* boundary-flux operator: a flux density g_b through boundary edge b enters the cells of its two
\* end points, half of the edge length each:  (B g)_i = (1/a_i) SUM_{b ni i} g_b e_b / 2
NeumannB(M) == [i \in Sites(M) |-> [b \in 1..NB(M) |->
             IF Touches(M, M.bidx[b], i) THEN QFrac(M.len[M.bidx[b]], 2 * M.area[i]) ELSE Zero]]

\* J_e = Im{ conj(psi_i) (U_e psi_j - psi_i) / e_ij },  e = (i, j)
Supercurrent(M, q, psi) == [e \in 1..NE(M) |->
   QIm(QMul(QConj(psi[ETail(M, e)]),
            QMul(QFrac(1, M.len[e]), QSub(QMul(U4(q[e]), psi[EHead(M, e)]), psi[ETail(M, e)]))))]

MatMul(A, B, r, m, c) == [i \in 1..r |-> [k \in 1..c |-> QSum([e \in 1..m |-> QMul(A[i][e], B[e][k])])]]
MatVec(A, x, r, c) == [i \in 1..r |-> QSum([k \in 1..c |-> QMul(A[i][k], x[k])])]
IsMat(A, r, c) == /\ DOMAIN A = 1..r /\ \A i \in 1..r : DOMAIN A[i] = 1..c /\ \A k \in 1..c : IsG(A[i][k])
Basis(n, k) == [j \in 1..n |-> IF j = k THEN One ELSE Zero]

-----------------------------------------------------------------------------
(* The identities of C03, as predicates of a mesh and of the matrices      *)
(* (the same predicates are evaluated on the specification's own matrices  *)
(* here and on the matrices produced by the code in FVOpsTrace).  All      *)
(* arguments are expected to be bound values.                              *)

LapIsDivGradOn(M, L, D, G) == L = MatMul(D, G, M.n, NE(M), M.n)

\* SUM_i a_i (div F)_i = 0 for every edge field F (basis fields suffice)
WeightedDivSumsToZeroOn(M, D) ==
  \A e \in 1..NE(M) : QSum([i \in Sites(M) |-> QMul(QInt(M.area[i]), D[i][e])]) = Zero

\* SUM_i a_i (B g)_i = SUM_b e_b g_b
BoundaryFluxIntegratesOn(M, B) ==
  \A b \in 1..NB(M) : QSum([i \in Sites(M) |-> QMul(QInt(M.area[i]), B[i][b])]) = QInt(M.len[M.bidx[b]])

AW(M, L) == [i \in Sites(M) |-> [k \in Sites(M) |-> QMul(QInt(M.area[i]), L[i][k])]]
WeightedSymmetricOn(M, L) == \A W \in {AW(M, L)} : \A i, k \in Sites(M) : W[i][k] = W[k][i]
WeightedHermitianOn(M, L) == \A W \in {AW(M, L)} : \A i, k \in Sites(M) : W[i][k] = QConj(W[k][i])

\* integer form of the area-weighted scalar Laplacian: scale by the common denominator of the w = s/e
WScale(M) == FoldLeft(LCM, 1, [e \in 1..NE(M) |-> M.len[e] \div GCD(M.dual[e], M.len[e])])
IntegralOn(M, L) == \A W \in {AW(M, L)}, s \in {WScale(M)} : \A i, k \in Sites(M) : W[i][k][2] = 0 /\ s % W[i][k][3] = 0
IntAW(M, L, sgn) == LET mk(W, s) == [i \in Sites(M) |-> [k \in Sites(M) |-> sgn * W[i][k][1] * (s \div W[i][k][3])]]
                    IN CHOOSE A \in {mk(W, s) : W \in {AW(M, L)}, s \in {WScale(M)}} : TRUE

DropAt(s, k) == [j \in 1..(Len(s) - 1) |-> IF j < k THEN s[j] ELSE s[j + 1]]
\* determinant of the submatrix with the given row and column index sequences (Laplace expansion);
\* a recursive FUNCTION, so that its argument is a value
DetFn(A) == LET d[rc \in Seq(Int) \X Seq(Int)] ==
                  IF Len(rc[1]) = 0 THEN 1
                  ELSE ISum([k \in 1..Len(rc[2]) |->
                               IF A[rc[1][1]][rc[2][k]] = 0 THEN 0
                               ELSE (IF k % 2 = 1 THEN 1 ELSE -1) * A[rc[1][1]][rc[2][k]]
                                      * d[<<DropAt(rc[1], 1), DropAt(rc[2], k)>>]])
            IN d
Minor(A, S) == CHOOSE v \in {DetFn(A)[<<s, s>>] : s \in {SetToSeq(S)}} : TRUE

\* negative semi-definite: every principal minor of -(area-weighted Laplacian) is >= 0
NegSemiDefByMinorsOn(M, L) ==
  /\ IntegralOn(M, L)
  /\ \A N \in {IntAW(M, L, -1)} : \A S \in SUBSET Sites(M) : S = {} \/ Minor(N, S) >= 0
\* the quadratic form on the vectors with entries in {-1, 0, 1}
TernaryVectors(M) == [Sites(M) -> {-1, 0, 1}]
FormOn(A, x, n) == ISum([i \in 1..n |-> x[i] * ISum([k \in 1..n |-> A[i][k] * x[k]])])
NegSemiDefOnVectorsOn(M, L) ==
  /\ IntegralOn(M, L)
  /\ \A A \in {IntAW(M, L, 1)} : \A x \in TernaryVectors(M) : FormOn(A, x, M.n) <= 0

RECURSIVE Grow(_, _)
Grow(M, S) == IF \E e \in 1..NE(M) : (ETail(M, e) \in S) # (EHead(M, e) \in S)
              THEN Grow(M, S \cup {EHead(M, e) : e \in {f \in 1..NE(M) : ETail(M, f) \in S}}
                             \cup {ETail(M, e) : e \in {f \in 1..NE(M) : EHead(M, f) \in S}})
              ELSE S
Connected(M) == Grow(M, {1}) = Sites(M)
\* number of connected components = number of sites that are the smallest of their component
Components(M) == Cardinality({i \in Sites(M) : \A j \in Grow(M, {i}) : i <= j})

AnnihilatesConstantsOn(M, L) == \A i \in Sites(M) : QSum([k \in Sites(M) |-> L[i][k]]) = Zero
\* rank of a semi-definite matrix = size of its largest non-vanishing principal minor
KernelDimByMinorsIs(M, L, d) ==
  \A N \in {IntAW(M, L, -1)} :
     /\ (d < M.n => \E S \in SUBSET Sites(M) : Cardinality(S) = M.n - d /\ Minor(N, S) # 0)
     /\ \A S \in SUBSET Sites(M) : Cardinality(S) > M.n - d => Minor(N, S) = 0
KernelIsConstantsByMinorsOn(M, L) ==
  /\ AnnihilatesConstantsOn(M, L) /\ IntegralOn(M, L) /\ \A c \in {Components(M)} : KernelDimByMinorsIs(M, L, c)
KernelOnVectorsOn(M, L) ==     \* L x = 0 exactly for the x that are constant on every component
  /\ IntegralOn(M, L)
  /\ \A A \in {IntAW(M, L, 1)} :
       \A x \in TernaryVectors(M) :
          (\A i \in Sites(M) : ISum([k \in Sites(M) |-> A[i][k] * x[k]]) = 0)
            <=> (\A e \in 1..NE(M) : x[ETail(M, e)] = x[EHead(M, e)])

\* the gradient is exact on linear functions f = alpha x + beta y + gamma:
\* (grad f)_e e_ij = (alpha, beta) . (r_j - r_i)   [and e_ij = |r_j - r_i| on geometric instances]
LinearFns == { <<1, 0, 0>>, <<0, 1, 0>>, <<0, 0, 1>>, <<2, -3, 1>> }
GradExactOnLinearOn(M, G) ==
  \A c \in LinearFns :
    \A f \in {[i \in Sites(M) |-> QInt(c[1] * M.pos[i][1] + c[2] * M.pos[i][2] + c[3])]} :
      \A gf \in {MatVec(G, f, NE(M), M.n)} :
        \A e \in 1..NE(M) : QMul(QInt(M.len[e]), gf[e]) = QInt(c[1] * M.dir[e][1] + c[2] * M.dir[e][2])
DirIsDifferenceOfPositions(M) ==
  \A e \in 1..NE(M) : M.dir[e] = <<M.pos[EHead(M, e)][1] - M.pos[ETail(M, e)][1], M.pos[EHead(M, e)][2] - M.pos[ETail(M, e)][2]>>
GeoConsistent(M) ==
  /\ \A e \in 1..NE(M) : M.len[e] * M.len[e] = M.dir[e][1] * M.dir[e][1] + M.dir[e][2] * M.dir[e][2]
  \* Voronoi cell area = 1/4 SUM e s over the edges of the site
  /\ \A i \in Sites(M) : 4 * M.area[i] = ISum([e \in 1..NE(M) |-> IF Touches(M, e, i) THEN M.len[e] * M.dual[e] ELSE 0])

-----------------------------------------------------------------------------
(* C04: gauge transformations.  chi_i = c_i pi/2; psi -> psi exp(i chi);   *)
(* A -> A + grad chi, i.e. A.e_ij -> A.e_ij + chi_j - chi_i.               *)
GaugeQ(M, q, c) == [e \in 1..NE(M) |-> (q[e] + c[EHead(M, e)] - c[ETail(M, e)] + 8) % 4]
GaugePsi(M, psi, c) == [i \in Sites(M) |-> QMul(Ph(c[i]), psi[i])]

\* covariance: G' (D psi) = D_tail (G psi) on every edge, L' (D psi) = D (L psi) on every site,
\* where D = diag(exp(i chi)); on basis vectors psi = e_k this reads entrywise:
GradCovariantOn(M, G, G2, c) ==
  \A e \in 1..NE(M), k \in Sites(M) : QMul(G2[e][k], Ph(c[k])) = QMul(Ph(c[ETail(M, e)]), G[e][k])
LapCovariantOn(M, L, L2, c) ==
  \A i, k \in Sites(M) : QMul(L2[i][k], Ph(c[k])) = QMul(Ph(c[i]), L[i][k])

\* the supercurrent is a Hermitian form of psi: it is determined by its values on
\* e_k, e_k + e_m, e_k + i e_m, k < m  (polarisation)
PsiUniverse(M) ==
  {Basis(M.n, k) : k \in Sites(M)}
    \cup {[j \in Sites(M) |-> IF j = km[1] THEN One ELSE IF j = km[2] THEN z ELSE Zero] :
             km \in {p \in Sites(M) \X Sites(M) : p[1] < p[2]}, z \in {One, <<0, 1, 1>>}}
SupercurrentInvariantFor(M, q, c) ==
  \A q2 \in {GaugeQ(M, q, c)} : \A psi \in PsiUniverse(M) : \A psi2 \in {GaugePsi(M, psi, c)} :
      Supercurrent(M, q2, psi2) = Supercurrent(M, q, psi)
ModulusInvariantFor(M, c) ==
  \A psi \in PsiUniverse(M) : \A psi2 \in {GaugePsi(M, psi, c)} : \A i \in Sites(M) :
      QMul(QConj(psi2[i]), psi2[i]) = QMul(QConj(psi[i]), psi[i])

-----------------------------------------------------------------------------
(* The instance universe, one choice per step *)
VARIABLES mi, pat, qs, g, stage
vars == <<mi, pat, qs, g, stage>>

Inst == Instance(mi, pat)
NEdges == Len(Meshes[mi].edges)
NFree == Min2(MaxFree, NEdges)
FixedLink(e) == (e + mi) % 4
Q == [e \in 1..NEdges |-> IF e <= Len(qs) THEN qs[e] ELSE 0]
Chi == [i \in 1..Meshes[mi].n |-> IF i = g[1] THEN g[2] ELSE 0]

Init == /\ mi \in MeshIds /\ pat = 0 /\ qs = <<>> /\ g = <<0, 0>> /\ stage = "pattern"

PickPattern == /\ stage = "pattern"
               /\ \E p \in (IF Meshes[mi].geo THEN {0} ELSE Patterns) : pat' = p
               /\ stage' = "links" /\ UNCHANGED <<mi, qs, g>>
PickLink == /\ stage = "links" /\ Len(qs) < NFree
            /\ \E c \in 0..3 : qs' = Append(qs, c)
            /\ UNCHANGED <<mi, pat, g, stage>>
FillLinks == /\ stage = "links" /\ Len(qs) = NFree
             /\ qs' = [e \in 1..NEdges |-> IF e <= NFree THEN qs[e] ELSE FixedLink(e)]
             /\ stage' = "full" /\ UNCHANGED <<mi, pat, g>>
PickGauge == /\ WithGauge /\ stage = "full"
             /\ \E s \in 1..Meshes[mi].n, c \in 1..3 : g' = <<s, c>>
             /\ stage' = "gauge" /\ UNCHANGED <<mi, pat, qs>>
Next == PickPattern \/ PickLink \/ FillLinks \/ PickGauge
Spec == Init /\ [][Next]_vars

AtScalar == stage = "links" /\ qs = <<>>        \* mesh and weights complete
AtFull == stage = "full"                       \* links complete
AtGauge == stage = "gauge"                     \* gauge generator chosen
Small == Meshes[mi].n <= 6                     \* principal minors stay inside 32-bit integers

TypeOK == /\ mi \in 1..Len(Meshes) /\ pat \in 0..26 /\ qs \in Seq(0..3) /\ stage \in {"pattern", "links", "full", "gauge"}
InstanceWellFormed ==
  AtScalar => \A M \in {Inst} :
     /\ WellFormed(M) /\ DirIsDifferenceOfPositions(M) /\ (Meshes[mi].geo => GeoConsistent(M))
     /\ \A D \in {Div(M)} : IsMat(D, M.n, NE(M))
     /\ \A G \in {Grad(M)} : IsMat(G, NE(M), M.n)
     /\ \A L \in {Lap(M)} : IsMat(L, M.n, M.n)
     /\ \A B \in {NeumannB(M)} : IsMat(B, M.n, NB(M))

\* ---- C03
LapIsDivGrad == AtScalar => \A M \in {Inst} : \A L \in {Lap(M)}, D \in {Div(M)}, G \in {Grad(M)} : LapIsDivGradOn(M, L, D, G)
WeightedDivSumsToZero == AtScalar => \A M \in {Inst} : \A D \in {Div(M)} : WeightedDivSumsToZeroOn(M, D)
BoundaryFluxIntegrates == AtScalar => \A M \in {Inst} : \A B \in {NeumannB(M)} : BoundaryFluxIntegratesOn(M, B)
WeightedLapSymmetric == AtScalar => \A M \in {Inst} : \A L \in {Lap(M)} : WeightedSymmetricOn(M, L)
WeightedLapNegSemiDef == AtScalar => \A M \in {Inst} : \A L \in {Lap(M)} :
                            /\ NegSemiDefOnVectorsOn(M, L)
                            /\ (Small => NegSemiDefByMinorsOn(M, L))
KernelIsConstants == AtScalar => \A M \in {Inst} : \A L \in {Lap(M)} :
                            /\ AnnihilatesConstantsOn(M, L)
                            /\ KernelOnVectorsOn(M, L)
                            /\ (Small => KernelIsConstantsByMinorsOn(M, L))
                            /\ ((Small /\ Connected(M)) => KernelDimByMinorsIs(M, L, 1))
GradExactOnLinear == AtScalar => \A M \in {Inst} : \A G \in {Grad(M)} : GradExactOnLinearOn(M, G)
CovLapHermitian == AtFull => \A M \in {Inst}, q \in {Q} : \A L \in {CovLap(M, q)} : WeightedHermitianOn(M, L)
\* pinning touches exactly the pinned rows; pinning nothing is the free (Hermitian) operator
PinnedRowsOnly == AtFull => \A M \in {Inst}, q \in {Q} : \A L \in {CovLap(M, q)} :
                     \A F \in {{}, {1}, {1, M.n}, {2, 3}} : \A P \in {CovLapPinned(M, q, F)} :
                        \A i, k \in Sites(M) : P[i][k] = (IF i \in F THEN (IF k = i THEN One ELSE Zero) ELSE L[i][k])
\* sanity of the universe: the unstated variant (kernel = constants without connectedness) must FAIL on D6
KernelIsConstantsEvenIfDisconnected == (AtScalar /\ Small) => \A M \in {Inst} : \A L \in {Lap(M)} : KernelDimByMinorsIs(M, L, 1)
\* sanity of the invariants: a Laplacian that uses U_ij (not its conjugate) from both ends is not Hermitian
CovLapNoConj(M, q) == [i \in Sites(M) |-> [k \in Sites(M) |->
   QSum([e \in 1..NE(M) |-> IF ~Touches(M, e, i) THEN Zero
           ELSE QMul(QFrac(M.dual[e], M.len[e] * M.area[i]),
                     QAdd(IF k = Other(M, e, i) THEN U4(q[e]) ELSE Zero, IF k = i THEN QInt(-1) ELSE Zero))])]]
NoConjIsHermitian == AtFull => \A M \in {Inst}, q \in {Q} : \A L \in {CovLapNoConj(M, q)} : WeightedHermitianOn(M, L)

\* ---- C04
GaugeCovariant ==
  AtGauge => \A M \in {Inst}, q \in {Q}, c \in {Chi} : \A q2 \in {GaugeQ(M, q, c)} :
     /\ \A G \in {CovGrad(M, q)}, G2 \in {CovGrad(M, q2)} : GradCovariantOn(M, G, G2, c)
     /\ \A L \in {CovLap(M, q)}, L2 \in {CovLap(M, q2)} : LapCovariantOn(M, L, L2, c)
SupercurrentGaugeInvariant ==
  AtGauge => \A M \in {Inst}, q \in {Q}, c \in {Chi} : SupercurrentInvariantFor(M, q, c) /\ ModulusInvariantFor(M, c)
\* sanity: transforming psi with the opposite sign of chi is NOT a symmetry
WrongSignIsCovariant ==
  AtGauge => \A M \in {Inst}, q \in {Q}, c \in {Chi} :
     \A c2 \in {[i \in Sites(M) |-> (4 - c[i]) % 4]}, L \in {CovLap(M, q)}, L2 \in {CovLap(M, GaugeQ(M, q, c))} :
        LapCovariantOn(M, L, L2, c2)

\* ---- export of complete instances for the replay into the real code (spec -> code)
ExportRec == [mi |-> mi, pat |-> pat, name |-> Meshes[mi].name, geo |-> Meshes[mi].geo, q |-> Q, chi |-> Chi, mesh |-> Inst]
Emit == AtFull => PrintT(ToJson(ExportRec))             \* C03: mesh, weights, links
EmitGauge == AtGauge => PrintT(ToJson(ExportRec))       \* C04: ... and a gauge generator
=============================================================================
