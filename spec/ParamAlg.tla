------------------------------ MODULE ParamAlg ------------------------------
(***************************************************************************)
(* Arithmetic of tdgl.Parameter / tdgl.CompositeParameter (C16, and the    *)
(* parameter half of C14).                                                 *)
(*                                                                         *)
(* An expression is a tree over the leaves                                 *)
(*   P2  a 2-D parameter        f(x, y)                                    *)
(*   P3  a 3-D parameter        f(x, y, z)                                 *)
(*   PT  a time-dependent one   f(x, y, z, *, t)                           *)
(*   I   an int, F a float                                                 *)
(* and the operators + - * / ** in both operand orders (a number on the    *)
(* left goes through the reflected operator of the real class).            *)
(*                                                                         *)
(* PROPERTY part (what must hold, independent of any mechanism):           *)
(*   Eval / Fits / Expect   pointwise semantics with arity rules           *)
(*   TimeDep                some leaf is time-dependent                    *)
(*   structural equality    = equality of trees                            *)
(* MECHANISM part (how the pinned class does it; switches M* select the    *)
(* pinned or the repaired mechanism, the properties never mention them):   *)
(*   Build       CompositeParameter.__init__ (reads operand._use_cache)    *)
(*   Call        __call__ with the per-operand cache                       *)
(*   Retune      a keyword argument of the time-dependent leaves edited in *)
(*               place (Parameter.kwargs is a public attribute and part of *)
(*               the cache key)                                            *)
(*   Clear       _clear_cache recursion                                    *)
(*   Pickle/Unpickle   __getstate__/__setstate__: object = slot part       *)
(*               (time_dependent, _cache, _use_cache: __slots__ of the     *)
(*               base class) + dict part (left, right, operator)           *)
(*   Solve       TDGLSolver.__init__/solve: evaluate, clear, run, clear,   *)
(*               pickle into the output file                               *)
(*                                                                         *)
(* Values are exact dyadics: integers counting units of 1/Q, |v| <= Lim;   *)
(* U = "outside the exact evaluation domain" (division that is not exact   *)
(* or by zero, non-integer or large exponents, magnitudes beyond Lim):     *)
(* nothing is claimed about a value the model calls U.  The ENUMERATION of *)
(* trees is not restricted, only the evaluation domain is.                 *)
(***************************************************************************)
EXTENDS Integers, Sequences, FiniteSets, TLC, Json

CONSTANTS
  MaxLevel,        \* operator levels explored (2 = "depth 3" of the property: leaves count as depth 1)
  SampleMod,       \* 1: every tree;  n > 1: trees with 2 operator levels are sampled 1 in n
  VarMod,          \* the twinned / shipped-leaf / shipped-constant forms of trees with 2 or more operator levels: 1 in VarMod
  DeepMod,         \* trees with more than 2 operator levels are sampled 1 in DeepMod
  SampleSeed,
  MInitUseCache,   \* TRUE: CompositeParameter initialises its _use_cache slot (repaired); FALSE: pinned
  MClearByOperand, \* TRUE: _clear_cache tests the operand itself (repaired); FALSE: tests right._cache (pinned)
  MPickleSlots,    \* TRUE: the slot part is pickled too (repaired); FALSE: only __dict__ (pinned)
  MEqFlat,         \* TRUE (mutant): __eq__ compares the flattened traversals (operators in pre-order, leaves left to right)
  MReuseEqual,     \* TRUE (mutant): when the right operand compares equal to the left one its value is not computed but reused
  MRampClamp,      \* TRUE (mutant): the shipped linear ramp is computed as min(max(interpolation, initial), final)
  MCacheKeyXOnly,  \* TRUE (mutant): the operand cache is keyed by x (and t) only: y and z do not take part
  MConstDtype,     \* TRUE (mutant): tdgl.Constant takes the dtype of x: a fractional value is truncated at integer-typed points
  MCacheKeyBuffer, \* TRUE (mutant): the operand cache identifies an array argument by the memory it occupies, not by its content
  MCacheKeyTime,   \* TRUE: the operand cache is keyed by the time argument as well (pinned and repaired)
  MCacheKeyHashT,  \* FALSE: the time part of the cache key distinguishes all times (prescribed);  TRUE (pinned): it is CPython's
                   \* hash of the time, and hash(-1) = hash(-2) = -2 for ints and floats: the key cannot tell t = -1 from t = -2
  MCacheKeyHashK   \* the same for the keyword part of the key (the operand's keyword arguments): FALSE prescribed, TRUE pinned

VARIABLES
  tree,     \* the expression
  pc,       \* "grow" | "built" | "failed" | "cleared" | "pickled" | "copied" | "solved"
  orig,     \* the built object:   [td, filled, first, kw]
  copy,     \* the unpickled copy: [alive, td, filled, first, kw, eq]
  pickled,  \* what the pickle holds: [has (slot part present), td]
  last,     \* result of the latest Call / Eq / Clear / Solve:  [what, ...]
  ncalls

vars == <<tree, pc, orig, copy, pickled, last, ncalls>>

-----------------------------------------------------------------------------
(* exact dyadic arithmetic                                                 *)
Q == 64
Lim == 32768
U == 999999
Abs(a) == IF a < 0 THEN -a ELSE a
Sgn(a) == IF a < 0 THEN -1 ELSE 1
Norm(v) == IF v = U \/ Abs(v) > Lim THEN U ELSE v
Add(a, b) == IF a = U \/ b = U THEN U ELSE Norm(a + b)
Sub(a, b) == IF a = U \/ b = U THEN U ELSE Norm(a - b)
Mul(a, b) == IF a = U \/ b = U THEN U
             ELSE IF (Abs(a) * Abs(b)) % Q # 0 THEN U
             ELSE Norm(Sgn(a) * Sgn(b) * ((Abs(a) * Abs(b)) \div Q))
Div(a, b) == IF a = U \/ b = U \/ b = 0 THEN U
             ELSE IF (Abs(a) * Q) % Abs(b) # 0 THEN U
             ELSE Norm(Sgn(a) * Sgn(b) * ((Abs(a) * Q) \div Abs(b)))
RECURSIVE PowN(_, _)
PowN(a, k) == IF k = 0 THEN Q ELSE Mul(a, PowN(a, k - 1))
\* the square root of an exact perfect square is exact (Q = 8 * 8: a / Q = (s / Q)^2 iff a = r * r and s = 8 * r); of a negative
\* number it is not a real number, of anything else not a dyadic: outside the exact evaluation domain
SqrtQ == 8
Sqrt(a) == IF a = U \/ a < 0 THEN U
           ELSE IF \E r \in 0..182 : r * r = a THEN SqrtQ * (CHOOSE r \in 0..182 : r * r = a) ELSE U
Pow(a, b) == IF a = U \/ b = U THEN U
             ELSE IF b = Q \div 2 THEN Sqrt(a)
             ELSE IF Abs(b) % Q # 0 \/ Abs(b) > 4 * Q THEN U
             ELSE IF b >= 0 THEN PowN(a, b \div Q) ELSE Div(Q, PowN(a, Abs(b) \div Q))
Apply(op, a, b) == CASE op = "add" -> Add(a, b) [] op = "sub" -> Sub(a, b) [] op = "mul" -> Mul(a, b)
                     [] op = "div" -> Div(a, b) [] op = "pow" -> Pow(a, b)

-----------------------------------------------------------------------------
(* trees                                                                   *)
LeafKinds == {"P2", "P3", "PT", "I", "F"}
Ops == {"add", "sub", "mul", "div", "pow"}
Leaf(k) == [k |-> k]
Node(o, a, b) == [k |-> "N", op |-> o, l |-> a, r |-> b]
IsLeaf(t) == t.k # "N"
IsNum(t) == t.k \in {"I", "F"}
IsParam(t) == ~IsNum(t)
Max(a, b) == IF a > b THEN a ELSE b

RECURSIVE Level(_)
Level(t) == IF IsLeaf(t) THEN 0 ELSE 1 + Max(Level(t.l), Level(t.r))
RECURSIVE Kinds(_)
Kinds(t) == IF IsLeaf(t) THEN {t.k} ELSE Kinds(t.l) \cup Kinds(t.r)
RECURSIVE Size(_)
Size(t) == IF IsLeaf(t) THEN 1 ELSE 1 + Size(t.l) + Size(t.r)

T0 == {Leaf(k) : k \in LeafKinds}
T1 == T0 \cup {n \in {Node(o, a, b) : o \in Ops, a \in T0, b \in T0} : ~(IsNum(n.l) /\ IsNum(n.r))}

LeafCode(k) == CASE k = "P2" -> 1 [] k = "P3" -> 2 [] k = "PT" -> 3 [] k = "I" -> 4 [] k = "F" -> 5
                 [] k = "P2b" -> 6 [] k = "P3b" -> 7 [] k = "PTb" -> 8
                 [] k = "K2" -> 13 [] k = "K3" -> 14 [] k = "KC2" -> 15 [] k = "KC3" -> 16
                 [] k = "RU" -> 9 [] k = "RD" -> 10 [] k = "CF" -> 11 [] k = "CL" -> 12
OpCode(o) == CASE o = "add" -> 1 [] o = "sub" -> 2 [] o = "mul" -> 3 [] o = "div" -> 4 [] o = "pow" -> 5
RECURSIVE H(_)
H(t) == IF IsLeaf(t) THEN LeafCode(t.k) ELSE (H(t.l) * 31 + H(t.r) * 17 + OpCode(t.op) * 7 + 3) % 10007
\* chains of scalars: two numbers applied one after the other to a parameter leaf with the same operator, in both nestings
\* ((X op a) op b  and  a op (b op X)); always part of the enumeration (what an implementation may be tempted to regroup)
LeftChain(t) == ~IsLeaf(t) /\ IsNum(t.r) /\ ~IsLeaf(t.l) /\ t.l.op = t.op /\ IsNum(t.l.r) /\ IsLeaf(t.l.l) /\ IsParam(t.l.l)
RightChain(t) == ~IsLeaf(t) /\ IsNum(t.l) /\ ~IsLeaf(t.r) /\ t.r.op = t.op /\ IsNum(t.r.l) /\ IsLeaf(t.r.r) /\ IsParam(t.r.r)
ScalarChain(t) == LeftChain(t) \/ RightChain(t)
\* a number leaf of any value v (units of 1/Q): only ever the operand of an expression the chain is COMPARED with
Num(v) == [k |-> "C", v |-> v]
NumVal(t) == IF t.k = "I" THEN 2 * Q ELSE Q \div 2
Combos(a, b) == {Add(a, b), Sub(a, b), Mul(a, b), Div(a, b)} \ {U}
\* the single-operator expressions with one combined number in place of the two of the chain
Folded(t) == IF LeftChain(t) THEN {Node(t.op, t.l.l, Num(c)) : c \in Combos(NumVal(t.l.r), NumVal(t.r))}
             ELSE IF RightChain(t) THEN {Node(t.op, Num(c), t.r.r) : c \in Combos(NumVal(t.l), NumVal(t.r.l))}
             ELSE {}
Sampled(t) == \/ Level(t) <= 1
              \/ ScalarChain(t)
              \/ Level(t) = 2 /\ (SampleMod = 1 \/ (H(t) + SampleSeed) % SampleMod = 0)
              \/ Level(t) > 2 /\ (H(t) + SampleSeed) % DeepMod = 0
\* which trees with 2 or more operator levels are grown further: all of a sample, 1 in 97 of the complete set
GrowsOn(t) == Level(t) < 2 \/ SampleMod > 1 \/ (H(t) + SampleSeed) % 97 = 0

\* --- two further input dimensions -------------------------------------------------------------------------
\* (1) twins under equal operands: where the two operands of a node are the same expression, the right one is replaced
\*     by its twin (every parameter leaf by the twin leaf): operands that compare equal but are other computations
TwinKind(k) == CASE k = "P2" -> "P2b" [] k = "P3" -> "P3b" [] k = "PT" -> "PTb" [] k = "P2b" -> "P2" [] k = "P3b" -> "P3"
                 [] k = "PTb" -> "PT" [] OTHER -> k
BaseKind(k) == IF k \in {"P2b", "P3b", "PTb"} THEN TwinKind(k) ELSE k
HasTwin(tr) == Kinds(tr) \cap {"P2b", "P3b", "PTb"} # {}
RECURSIVE TwinAll(_)
TwinAll(tr) == IF IsLeaf(tr) THEN Leaf(TwinKind(tr.k)) ELSE Node(tr.op, TwinAll(tr.l), TwinAll(tr.r))
RECURSIVE Twinned(_)
Twinned(tr) == IF IsLeaf(tr) THEN tr
               ELSE IF tr.l = tr.r /\ IsParam(tr.l) THEN Node(tr.op, Twinned(tr.l), TwinAll(Twinned(tr.r)))
               ELSE Node(tr.op, Twinned(tr.l), Twinned(tr.r))
RECURSIVE HasEqualOperands(_)
HasEqualOperands(tr) == ~IsLeaf(tr) /\ ((tr.l = tr.r /\ IsParam(tr.l)) \/ HasEqualOperands(tr.l) \/ HasEqualOperands(tr.r))
\* (2) other shapes of the same flat reading: all trees with the same operators in pre-order and the same leaves from
\*     left to right (different bracketing / operator placement)
RECURSIVE PreOps(_)
PreOps(tr) == IF IsLeaf(tr) THEN <<>> ELSE <<tr.op>> \o PreOps(tr.l) \o PreOps(tr.r)
RECURSIVE Fringe(_)
Fringe(tr) == IF IsLeaf(tr) THEN <<tr>> ELSE Fringe(tr.l) \o Fringe(tr.r)
RECURSIVE Shapes(_, _)
Shapes(ops, lv) == IF Len(ops) = 0 THEN {lv[1]}
                   ELSE UNION {{Node(ops[1], a, b) : a \in Shapes(SubSeq(ops, 2, k + 1), SubSeq(lv, 1, k + 1)),
                                                       b \in Shapes(SubSeq(ops, k + 2, Len(ops)), SubSeq(lv, k + 2, Len(lv)))} :
                               k \in 0..(Len(ops) - 1)}
RECURSIVE ValidTree(_)
ValidTree(tr) == IsLeaf(tr) \/ (~(IsNum(tr.l) /\ IsNum(tr.r)) /\ ValidTree(tr.l) /\ ValidTree(tr.r))
SameFlat(tr) == {t \in Shapes(PreOps(tr), Fringe(tr)) : ValidTree(t)} \ {tr}

\* (3) leaves shipped with the package in place of the abstract ones: every 3-D leaf becomes ConstantField (variant 1) or
\*     CurrentLoop (variant 2, where the expression is linear and homogeneous in it), every time-dependent leaf a
\*     LinearRamp down (variant 1) or up (variant 2) with non-default initial / final / tmin / tmax
NoP3(tr) == "P3" \notin Kinds(tr)
RECURSIVE Deg1(_)
Deg1(tr) == IF IsLeaf(tr) THEN tr.k = "P3"
            ELSE CASE tr.op \in {"add", "sub"} -> Deg1(tr.l) /\ Deg1(tr.r)
                   [] tr.op = "mul" -> (Deg1(tr.l) /\ NoP3(tr.r)) \/ (NoP3(tr.l) /\ Deg1(tr.r))
                   [] tr.op = "div" -> Deg1(tr.l) /\ NoP3(tr.r)
                   [] OTHER -> FALSE
ShipKind(k, v, lin) == CASE k = "P3" -> (IF v = 2 /\ lin THEN "CL" ELSE "CF") [] k = "PT" -> (IF v = 1 THEN "RD" ELSE "RU") [] OTHER -> k
RECURSIVE ShipSubL(_, _, _)
ShipSubL(tr, v, lin) == IF IsLeaf(tr) THEN Leaf(ShipKind(tr.k, v, lin)) ELSE Node(tr.op, ShipSubL(tr.l, v, lin), ShipSubL(tr.r, v, lin))
ShipSub(tr, v) == ShipSubL(tr, v, Deg1(tr))
HasShipped(tr) == Kinds(tr) \cap {"RU", "RD", "CF", "CL"} # {}
Shippable(tr) == "P3" \in Kinds(tr) /\ Kinds(tr) \cap {"P2", "P2b", "P3b", "PTb"} = {} /\ ~HasShipped(tr)
VecArg(tr) == IF "CL" \in Kinds(tr) THEN "vec2" ELSE "vec"
\* (4) the shipped constant leaf in place of the float: F -> Constant(0.5, dim) (variant 1) or, where the expression is linear and
\*     homogeneous in it, Constant(0.5 + 1j, dim) (variant 2); dim = the dimension of the expression's other leaves
ConstKinds == {"K2", "K3", "KC2", "KC3"}
HasConst(tr) == Kinds(tr) \cap ConstKinds # {}
NoF(tr) == "F" \notin Kinds(tr)
RECURSIVE Deg1F(_)
Deg1F(tr) == IF IsLeaf(tr) THEN tr.k = "F"
             ELSE CASE tr.op \in {"add", "sub"} -> Deg1F(tr.l) /\ Deg1F(tr.r)
                    [] tr.op = "mul" -> (Deg1F(tr.l) /\ NoF(tr.r)) \/ (NoF(tr.l) /\ Deg1F(tr.r))
                    [] tr.op = "div" -> Deg1F(tr.l) /\ NoF(tr.r)
                    [] OTHER -> FALSE
RECURSIVE KonstSubL(_, _)
KonstSubL(tr, k) == IF IsLeaf(tr) THEN (IF tr.k = "F" THEN Leaf(k) ELSE tr) ELSE Node(tr.op, KonstSubL(tr.l, k), KonstSubL(tr.r, k))
KonstSub(tr, v) == LET two == "P2" \in Kinds(tr) IN
                   KonstSubL(tr, IF v = 2 /\ Deg1F(tr) THEN (IF two THEN "KC2" ELSE "KC3") ELSE (IF two THEN "K2" ELSE "K3"))
Konstable(tr) == "F" \in Kinds(tr) /\ ~HasTwin(tr) /\ ~HasShipped(tr) /\ ~HasConst(tr)

-----------------------------------------------------------------------------
(* PROPERTY: pointwise semantics                                           *)
(* evaluation points (x, y, z) and times, in units of 1/Q                  *)
Pts == << [x |-> 1 * Q, y |-> 0,      z |-> 1 * Q],
          [x |-> 96,    y |-> 32,     z |-> 0],
          [x |-> 0,     y |-> 1 * Q,  z |-> (-1) * Q],
          \* 4-6: the same x and z, y + 1 (a parallel line cut);  7-9: the same x and y, z + 0.5 (the same footprint, other height)
          [x |-> 1 * Q, y |-> 1 * Q,  z |-> 1 * Q], [x |-> 96, y |-> 96, z |-> 0], [x |-> 0, y |-> 2 * Q, z |-> (-1) * Q],
          [x |-> 1 * Q, y |-> 0,      z |-> 96],    [x |-> 96, y |-> 32, z |-> 32], [x |-> 0, y |-> 1 * Q, z |-> -32],
          \* 10-12: integer coordinates (delivered as integer-typed scalars / arrays)
          [x |-> 1 * Q, y |-> 0, z |-> 1 * Q], [x |-> 2 * Q, y |-> 1 * Q, z |-> 0], [x |-> 0, y |-> 1 * Q, z |-> (-1) * Q] >>
\* times (a time is any real number: the documented signature puts no sign or range on t): zero, positive, negative,
\* integral and fractional; -1 and -2 are both there
TimeSeq == <<0, 1 * Q, 3 * Q, (-1) * Q, (-2) * Q, -(Q \div 2)>>
Times == {TimeSeq[n] : n \in 1..Len(TimeSeq)}
\* the leaves used by the binding:  P2 = x + 2y - a (a=2),  P3 = x - y + z + b (b=1),
\* PT = x + y + 2z - c + t (c=1),  I = 2,  F = 0.5
\* vector-valued leaves are evaluated per component: p in 101..109 is (point, component) = ((p - 101) \div 3 + 1, (p - 101) % 3 + 1)
PtOf(p) == IF p <= 12 THEN p ELSE ((p - 101) \div 3) + 1
CompOf(p) == IF p <= 12 THEN 0 ELSE ((p - 101) % 3) + 1
\* the documented linear ramp: initial before tmin, final from tmax on, linear in between (written here, not taken from the package)
Ramp(t, tmin, tmax, ini, fin) == IF t < tmin THEN ini
                                 ELSE IF t < tmax THEN ini + ((fin - ini) * (t - tmin)) \div (tmax - tmin) ELSE fin
\* c = the keyword argument c of the time-dependent leaves PT / PTb: 1 as built; the dictionary Parameter.kwargs is a
\* public attribute, and editing it in place between two calls is an environment move (Retune)
KwSeq == <<1 * Q, (-1) * Q, (-2) * Q>>
KwVals == {KwSeq[n] : n \in 1..Len(KwSeq)}
\* the keyword arguments of the STATIC leaves are public and editable in the same way (RetuneS): s = the keyword b of
\* P3 / P3b (1 as built) and half the keyword a of P2 / P2b (2 as built).  kw = [c, s]: the keyword values an evaluation sees
KW(c, s) == [c |-> c, s |-> s]
KW0 == KW(Q, Q)
StaticKinds == {"P2", "P2b", "P3", "P3b"}
LeafValC(k, p, t, kw) ==
  CASE k = "P2" -> Pts[PtOf(p)].x + 2 * Pts[PtOf(p)].y - 2 * kw.s
    [] k = "P3" -> Pts[PtOf(p)].x - Pts[PtOf(p)].y + Pts[PtOf(p)].z + kw.s
    [] k = "PT" -> Pts[PtOf(p)].x + Pts[PtOf(p)].y + 2 * Pts[PtOf(p)].z - kw.c + t
    [] k = "I" -> 2 * Q
    [] k = "F" -> Q \div 2
    \* twins: another leaf of the same kind that the library's == cannot tell from the first (same function code and
    \* keyword names; the difference lives in a closure cell / in an array keyword below the comparison tolerance)
    \* but that computes other values:  P2b = P2 - 4,  P3b = P3 + 2,  PTb = PT - 3
    [] k = "P2b" -> Pts[PtOf(p)].x + 2 * Pts[PtOf(p)].y - 2 * kw.s - 4 * Q
    [] k = "P3b" -> Pts[PtOf(p)].x - Pts[PtOf(p)].y + Pts[PtOf(p)].z + kw.s + 2 * Q
    [] k = "PTb" -> Pts[PtOf(p)].x + Pts[PtOf(p)].y + 2 * Pts[PtOf(p)].z - kw.c + t - 3 * Q
    \* tdgl.Constant(value, dimensions): K2 / K3 = Constant(0.5, 2 / 3);  KC2 / KC3 = Constant(0.5 + 1j, 2 / 3), counted in units
    \* of its own (complex) value, in expressions that are linear and homogeneous in it
    [] k \in {"K2", "K3"} -> Q \div 2
    [] k \in {"KC2", "KC3"} -> Q
    \* leaves shipped with the package (tdgl.sources), against formulas written here:
    \*   RU = LinearRamp(tmin=0.5, tmax=2.5, initial=-0.5, final=1.5)   RD = LinearRamp(tmin=0.5, tmax=2.5, initial=1, final=0.25)
    \*   CF = ConstantField(2): the vector potential (-(y - yc), x - xc, 0) B/2 of a uniform field B = 2
    \*   CL = CurrentLoop(current, radius, center): counted in units of the loop's own vector potential at the point and
    \*        component (reference computed by the binding by direct quadrature of the Biot-Savart line integral); only
    \*        expressions that are linear and homogeneous in CL are built on it, and only the x, y components are read
    [] k = "RU" -> Ramp(t, Q \div 2, 5 * (Q \div 2), -(Q \div 2), 3 * (Q \div 2))
    [] k = "RD" -> Ramp(t, Q \div 2, 5 * (Q \div 2), Q, Q \div 4)
    \*        (the documented gauge: centred on the bounding box of the points it is evaluated on - here x in [0, 1.5], y in [0, 1])
    [] k = "CF" -> (CASE CompOf(p) = 1 -> -(Pts[PtOf(p)].y - Q \div 2) [] CompOf(p) = 2 -> Pts[PtOf(p)].x - 3 * (Q \div 4)
                      [] CompOf(p) = 3 -> 0 [] OTHER -> U)
    [] k = "CL" -> (IF CompOf(p) \in {1, 2} THEN Q ELSE U)
LeafVal(k, p, t) == LeafValC(k, p, t, KW0)

\* the values of ConstantField / CurrentLoop come out of unit conversions and are exact only up to rounding; whether an
\* exponent computed from them is an integer (which decides the value for a negative base) is then not decidable: a power
\* with such an exponent is outside the exact evaluation domain
InexactExp(tr) == tr.op = "pow" /\ Kinds(tr.r) \cap {"CF", "CL"} # {}
ApplyN(tr, a, b) == IF InexactExp(tr) THEN U ELSE Apply(tr.op, a, b)
RECURSIVE EvalC(_, _, _, _)
EvalC(tr, p, t, c) == IF IsLeaf(tr) THEN LeafValC(tr.k, p, t, c)
                      ELSE ApplyN(tr, EvalC(tr.l, p, t, c), EvalC(tr.r, p, t, c))
Eval(tr, p, t) == EvalC(tr, p, t, KW0)

TdKinds == {"PT", "PTb", "RU", "RD"}
TimeDep(tr) == Kinds(tr) \cap TdKinds # {}

\* argument forms: (x, y) | (x, y, z) | (x, y, t=) | (x, y, z, t=)
Forms == {"F2", "F3", "F2T", "F3T"}
FormDim(f) == IF f \in {"F2", "F2T"} THEN 2 ELSE 3
FormHasT(f) == f \in {"F2T", "F3T"}
LeafDim(k) == IF k \in {"P2", "P2b", "K2", "KC2"} THEN 2 ELSE 3
DimsFit(tr, f) == \A k \in Kinds(tr) \ {"I", "F"} : LeafDim(k) = FormDim(f)
\* "val": must return the pointwise value; "fail": must raise, not return anything;
\* "either": a time given to an expression without time dependence may be refused or ignored
Expect(tr, f) == IF ~DimsFit(tr, f) THEN "fail"
                 ELSE IF TimeDep(tr) /\ ~FormHasT(f) THEN "fail"
                 ELSE IF ~TimeDep(tr) /\ FormHasT(f) THEN "either"
                 ELSE "val"

\* scalar calls at one point, array call at all points
Args == {"s1", "s2", "s3", "arr"}
ArgPts(a) == CASE a = "s1" -> <<1>> [] a = "s2" -> <<2>> [] a = "s3" -> <<3>> [] a = "arr" -> <<1, 2, 3>>
               [] a = "arr2" -> <<3, 1, 2>> [] a = "arr3" -> <<2, 2, 1>>
               \* the (3, 3) array a vector-valued expression returns for the three points, row by row; its x, y columns
               [] a = "vec" -> <<101, 102, 103, 104, 105, 106, 107, 108, 109>> [] a = "vec2" -> <<101, 102, 104, 105, 107, 108>>
               \* only y changed / only z changed with respect to arr;  integer-typed points: as an array, as scalars
               [] a = "arrY" -> <<4, 5, 6>> [] a = "arrZ" -> <<7, 8, 9>>
               [] a = "arrI" -> <<10, 11, 12>> [] a = "i1" -> <<10>> [] a = "i2" -> <<11>>
\* how the points of an array call are DELIVERED over a sequence of calls: array contents arr / arr2 / arr3 (same shape)
\* in  "b1" an owned buffer overwritten in place between calls | "v1" a slice of a larger base buffer, overwritten in place
\*   | "s1" a strided view of a base buffer, overwritten in place | "tmp" temporaries created for the call and dropped
ArrArgs == {"arr", "arr2", "arr3", "arrY", "arrZ"}
IntArgs == {"arrI", "i1", "i2"}
XOf(a) == IF a \in {"arr", "arrY", "arrZ"} THEN "x1" ELSE a       \* contents with the same x coordinates
VecArgs == {"vec", "vec2"}
Bufs == {"b1", "v1", "s1", "tmp"}
EvalAtC(tr, a, t, c) == [n \in 1..Len(ArgPts(a)) |-> EvalC(tr, ArgPts(a)[n], t, c)]
EvalAt(tr, a, t) == EvalAtC(tr, a, t, KW0)

-----------------------------------------------------------------------------
(* MECHANISM                                                               *)
\* time_dependent as the class computes it: from the flags of the two operands
RECURSIVE TdMech(_)
TdMech(tr) == IF IsLeaf(tr) THEN tr.k \in TdKinds ELSE TdMech(tr.l) \/ TdMech(tr.r)
B2S(b) == IF b THEN "T" ELSE "F"

\* __init__ reads operand._use_cache of a time-dependent operand; a composite operand has that slot only
\* when it is initialised
RECURSIVE BuildOK(_)
BuildOK(tr) == \/ IsLeaf(tr)
               \/ /\ BuildOK(tr.l) /\ BuildOK(tr.r)
                  /\ \A o \in {tr.l, tr.r} : (o.k = "N" /\ TdMech(o)) => MInitUseCache

\* paths name the nodes: "o" root, then l / r
RECURSIVE ParamPaths(_, _)
ParamPaths(tr, p) == IF IsLeaf(tr) THEN (IF IsNum(tr) THEN {} ELSE {p})
                     ELSE {p} \cup ParamPaths(tr.l, p \o "l") \cup ParamPaths(tr.r, p \o "r")
\* operands that cache: time-dependent leaf parameters below a composite
RECURSIVE CachingPaths(_, _)
CachingPaths(tr, p) == IF IsLeaf(tr) THEN (IF tr.k \in TdKinds /\ p # "o" THEN {p} ELSE {})
                       ELSE CachingPaths(tr.l, p \o "l") \cup CachingPaths(tr.r, p \o "r")

\* _clear_cache: result [ok, c = paths whose cache was emptied]
RECURSIVE ClearRes(_, _)
ClearRes(tr, p) ==
  IF IsLeaf(tr) THEN [ok |-> TRUE, c |-> {p}]
  ELSE LET L == IF IsNum(tr.l) THEN [ok |-> TRUE, c |-> {}] ELSE ClearRes(tr.l, p \o "l")
           R == IF IsNum(tr.r) THEN [ok |-> TRUE, c |-> {}] ELSE ClearRes(tr.r, p \o "r")
       IN IF MClearByOperand THEN [ok |-> L.ok /\ R.ok, c |-> {p} \cup L.c \cup R.c]
          \* pinned: isinstance(self.right._cache, Parameter): a number has no _cache (raises before the left
          \* operand is reached); a parameter's _cache is a dict, so the right operand is never cleared
          ELSE IF IsNum(tr.r) THEN [ok |-> FALSE, c |-> {p}]
          ELSE [ok |-> L.ok, c |-> {p} \cup L.c]

HasCompositeOperand(tr) == ~IsLeaf(tr) /\ (tr.l.k = "N" \/ tr.r.k = "N")
SlotsPickled(tr) == MPickleSlots \/ IsLeaf(tr)   \* a plain Parameter is all slots; the default protocol keeps them

\* structural equality as the classes compute it (recursive __eq__)
RECURSIVE EqMech(_, _)
EqMech(a, b) == IF IsLeaf(a) \/ IsLeaf(b) THEN IsLeaf(a) /\ IsLeaf(b) /\ a.k = b.k
                ELSE IF MEqFlat THEN PreOps(a) = PreOps(b) /\ Fringe(a) = Fringe(b)
                ELSE a.op = b.op /\ EqMech(a.l, b.l) /\ EqMech(a.r, b.r)
\* what the library's == answers for two operands: it cannot tell a leaf from its twin
RECURSIVE LibEq(_, _)
LibEq(a, b) == IF IsLeaf(a) \/ IsLeaf(b) THEN IsLeaf(a) /\ IsLeaf(b) /\ BaseKind(a.k) = BaseKind(b.k)
               ELSE a.op = b.op /\ LibEq(a.l, b.l) /\ LibEq(a.r, b.r)
\* evaluation as the class does it: both operands are evaluated (a mutant reuses the left value for an "equal" right one)
\* a leaf as the shipped function computes it (a mutant clamps the interpolated ramp between initial and final)
MinI(a, b) == IF a < b THEN a ELSE b
LeafMechC(k, p, t, c) ==
                     IF MConstDtype /\ k \in {"K2", "K3"} /\ PtOf(p) \in 10..12 THEN 0
                     ELSE IF MRampClamp /\ k \in {"RU", "RD"}
                     THEN LET ini == IF k = "RU" THEN -(Q \div 2) ELSE Q
                              fin == IF k = "RU" THEN 3 * (Q \div 2) ELSE Q \div 4
                              v == ini + ((fin - ini) * (t - Q \div 2)) \div (2 * Q)
                          IN MinI(Max(v, ini), fin)
                     ELSE LeafValC(k, p, t, c)
LeafMech(k, p, t) == LeafMechC(k, p, t, KW0)
RECURSIVE EvalMech(_, _, _, _)
EvalMech(tr, p, t, c) == IF IsLeaf(tr) THEN LeafMechC(tr.k, p, t, c)
                         ELSE LET lv == EvalMech(tr.l, p, t, c) IN
                              IF MReuseEqual /\ IsParam(tr.l) /\ IsParam(tr.r) /\ LibEq(tr.l, tr.r) THEN ApplyN(tr, lv, lv)
                              ELSE ApplyN(tr, lv, EvalMech(tr.r, p, t, c))
EvalMechAt(tr, a, t, c) == [n \in 1..Len(ArgPts(a)) |-> EvalMech(tr, ArgPts(a)[n], t, c)]

\* the time part of the operand cache's key.  Prescribed: the time itself (distinct times, distinct keys).  Mechanisms that
\* do less: no time in the key at all; CPython's hash of the time, which maps -1 to -2 (-1 is the error return of tp_hash)
KeyT(t) == IF ~MCacheKeyTime THEN 0
           ELSE IF MCacheKeyHashT /\ t = (-1) * Q THEN (-2) * Q ELSE t
\* the keyword part of the key, likewise: the keyword values themselves | CPython's hash of them
KeyK(c) == IF MCacheKeyHashK /\ c = (-1) * Q THEN (-2) * Q ELSE c
\* time and keyword value seen by a caching operand: those of the first call at that argument whose key equals the key of
\* this call (o.first holds <<form, argument, time key, keyword key, time and keyword value the cached value was computed at>>)
Hit(o, f, a, t) == {e \in o.first : e[1] = f /\ e[2] = a /\ e[3] = KeyT(t) /\ e[4] = KeyK(o.kw)}
TEff(o, f, a, t) == IF Hit(o, f, a, t) # {} THEN (CHOOSE e \in Hit(o, f, a, t) : TRUE)[5] ELSE t
CEff(o, f, a, t) == IF Hit(o, f, a, t) # {} THEN (CHOOSE e \in Hit(o, f, a, t) : TRUE)[6] ELSE o.kw
\* (prescribed: nothing that depends on a static leaf's keyword is remembered across an edit of it - the static leaves'
\* keyword is the one of the object at the call)
CallVals(tr, o, f, t) == [a \in Args |-> IF IsLeaf(tr) THEN EvalMechAt(tr, a, t, KW(o.kw, o.ks))
                                         ELSE EvalMechAt(tr, a, TEff(o, f, a, t), KW(CEff(o, f, a, t), o.ks))]

None == [what |-> "none"]
Obj0 == [alive |-> FALSE, td |-> "unset", filled |-> {}, first |-> {}, bufs |-> {}, kw |-> Q, ks |-> Q, eq |-> "unset"]

-----------------------------------------------------------------------------
Init == /\ tree \in T0 /\ pc = "grow" /\ orig = Obj0 /\ copy = Obj0
        /\ pickled = [has |-> FALSE, td |-> "unset"] /\ last = None /\ ncalls = 0

\* enumeration of the expressions, one operator at a time (either side)
Grow == /\ pc = "grow" /\ Level(tree) < MaxLevel /\ GrowsOn(tree)
        /\ \E o \in Ops, s \in T1, side \in {"l", "r"} :
             LET nt == IF side = "l" THEN Node(o, tree, s) ELSE Node(o, s, tree) IN
               /\ Level(s) <= Level(tree)
               /\ ~(IsNum(nt.l) /\ IsNum(nt.r))
               /\ Sampled(nt)
               /\ tree' = nt
        /\ UNCHANGED <<pc, orig, copy, pickled, last, ncalls>>

\* the twinned form of an expression with equal operands somewhere (explored next to the expression itself)
HashSampled(t) == Level(t) <= 1 \/ (Level(t) = 2 /\ (SampleMod = 1 \/ (H(t) + SampleSeed) % SampleMod = 0))
                  \/ (Level(t) > 2 /\ (H(t) + SampleSeed) % DeepMod = 0)
VariantsOf(t) == HashSampled(t) /\ (Level(t) <= 1 \/ VarMod = 1 \/ (H(t) + SampleSeed) % VarMod = 0)
Twin == /\ pc = "grow" /\ HasEqualOperands(tree) /\ ~HasTwin(tree) /\ VariantsOf(tree)
        /\ tree' = Twinned(tree) /\ pc' = "twin"
        /\ UNCHANGED <<orig, copy, pickled, last, ncalls>>

\* the expression on shipped leaves (explored next to the expression itself)
Ship == /\ pc = "grow" /\ Shippable(tree) /\ VariantsOf(tree)
        /\ \E v \in {1, 2} : tree' = ShipSub(tree, v)
        /\ pc' = "ship"
        /\ UNCHANGED <<orig, copy, pickled, last, ncalls>>

\* the expression with the shipped constant in place of the float (explored next to the expression itself)
Konst == /\ pc = "grow" /\ Konstable(tree) /\ VariantsOf(tree)
         /\ \E v \in {1, 2} : tree' = KonstSub(tree, v)
         /\ pc' = "konst"
         /\ UNCHANGED <<orig, copy, pickled, last, ncalls>>

Build == /\ pc \in {"grow", "twin", "ship", "konst"} /\ IsParam(tree)
         /\ IF BuildOK(tree)
            THEN /\ pc' = "built"
                 /\ orig' = [Obj0 EXCEPT !.alive = TRUE, !.td = B2S(TdMech(tree))]
            ELSE /\ pc' = "failed" /\ UNCHANGED orig
         /\ UNCHANGED <<tree, copy, pickled, last, ncalls>>

\* one call form at one time, at every argument (three scalar points and the array of them);
\* fill = nodes whose cache holds something afterwards (chosen by the implementation)
CallOn(o, f, t, fill) ==
  [o EXCEPT !.filled = o.filled \cup fill,
            !.first = IF Expect(tree, f) = "val" /\ FormHasT(f)
                      THEN o.first \cup {<<f, a, KeyT(t), KeyK(o.kw), TEff(o, f, a, t), CEff(o, f, a, t)>> : a \in Args} ELSE o.first]
Call(f, t, fill) ==
  /\ pc = "built"
  /\ fill \subseteq ParamPaths(tree, "o")
  /\ last' = [what |-> "call", who |-> "orig", f |-> f, t |-> t, c |-> KW(orig.kw, orig.ks), kind |-> Expect(tree, f), vals |-> CallVals(tree, orig, f, t)]
  /\ orig' = CallOn(orig, f, t, fill)
  /\ ncalls' = ncalls + 1
  /\ UNCHANGED <<tree, pc, copy, pickled>>

\* the keyword argument c of every time-dependent leaf of the built object is set to c, in place
Retune(c) ==
  /\ pc = "built"
  /\ orig' = [orig EXCEPT !.kw = c]
  /\ last' = [what |-> "retune", c |-> c]
  /\ UNCHANGED <<tree, pc, copy, pickled, ncalls>>

\* the keyword argument of every static leaf (b of P3 / P3b, a of P2 / P2b) of the built object / of the unpickled copy
\* set in place: b = s, a = 2 s
RetuneS(who, s) ==
  /\ who \in {"orig", "copy"}
  /\ IF who = "orig" THEN pc = "built" /\ orig' = [orig EXCEPT !.ks = s] /\ UNCHANGED copy
                     ELSE pc = "copied" /\ copy' = [copy EXCEPT !.ks = s] /\ UNCHANGED orig
  /\ last' = [what |-> "retune", who |-> who, s |-> s]
  /\ UNCHANGED <<tree, pc, pickled, ncalls>>

Eq(other) ==
  /\ pc = "built"
  /\ last' = [what |-> "eq", other |-> other, res |-> EqMech(tree, other)]
  /\ UNCHANGED <<tree, pc, orig, copy, pickled, ncalls>>
\* (an expression with twins is only compared with expressions that have the same leaf in every position: what == should
\* say about a leaf and its twin is not part of the property)
Variants(tr) == {tr} \cup (IF IsLeaf(tr) THEN T0 \ {Leaf("I"), Leaf("F")}
                           ELSE IF HasTwin(tr) THEN {Node(o, tr.l, tr.r) : o \in Ops}
                           ELSE {Node(tr.op, tr.r, tr.l), tr.l, tr.r} \cup {Node(o, tr.l, tr.r) : o \in Ops} \cup SameFlat(tr) \cup Folded(tr))

\* an array call whose points arrive as content a in buffer b.  A cache that identifies the argument by its memory answers,
\* for its caching operands, with the value of the content it first saw there at that time
StaleArg(o, f, b, t, a) == IF MCacheKeyBuffer /\ \E e \in o.bufs : e[1] = f /\ e[2] = b /\ e[3] = t
                           THEN (CHOOSE e \in o.bufs : e[1] = f /\ e[2] = b /\ e[3] = t)[4]
                           ELSE IF MCacheKeyXOnly /\ \E e \in o.bufs : e[1] = f /\ e[3] = t /\ XOf(e[4]) = XOf(a)
                           THEN (CHOOSE e \in o.bufs : e[1] = f /\ e[3] = t /\ XOf(e[4]) = XOf(a))[4] ELSE a
RECURSIVE EvalD(_, _, _, _, _)
EvalD(tr, pcur, pold, t, root) ==
  IF IsLeaf(tr) THEN (IF tr.k \in TdKinds /\ ~root THEN LeafMech(tr.k, pold, t) ELSE LeafMech(tr.k, pcur, t))
  ELSE ApplyN(tr, EvalD(tr.l, pcur, pold, t, FALSE), EvalD(tr.r, pcur, pold, t, FALSE))
Deliver(f, t, a, b, fill) ==
  /\ pc = "built" /\ orig.kw = Q /\ orig.ks = Q /\ a \in ArrArgs \cup VecArgs \cup IntArgs /\ b \in Bufs
  /\ fill \subseteq ParamPaths(tree, "o")
  /\ LET sa == StaleArg(orig, f, b, t, a) IN
       last' = [what |-> "deliver", f |-> f, t |-> t, a |-> a, b |-> b, kind |-> Expect(tree, f),
                vals |-> [n \in 1..Len(ArgPts(a)) |-> EvalD(tree, ArgPts(a)[n], ArgPts(sa)[n], t, TRUE)]]
  /\ orig' = [orig EXCEPT !.filled = orig.filled \cup fill,
                          !.bufs = IF (b # "tmp" \/ MCacheKeyXOnly) /\ Expect(tree, f) = "val" /\ ~\E e \in orig.bufs : e[1] = f /\ e[2] = b /\ e[3] = t
                                   THEN orig.bufs \cup {<<f, b, t, a>>} ELSE orig.bufs]
  /\ ncalls' = ncalls + 1
  /\ UNCHANGED <<tree, pc, copy, pickled>>

Clear ==
  /\ pc = "built"
  /\ LET R == ClearRes(tree, "o") IN
       /\ orig' = [orig EXCEPT !.filled = orig.filled \ R.c, !.first = IF orig.filled \subseteq R.c THEN {} ELSE orig.first,
                               !.bufs = IF orig.filled \subseteq R.c THEN {} ELSE orig.bufs]
       /\ last' = [what |-> "clear", who |-> "orig", ok |-> R.ok, left |-> orig.filled \ R.c]
  /\ pc' = "cleared"
  /\ UNCHANGED <<tree, copy, pickled, ncalls>>

Pickle == /\ pc \in {"built", "cleared", "copied"}
          /\ pickled' = [has |-> SlotsPickled(tree), td |-> orig.td]
          /\ pc' = "pickled" /\ last' = None
          /\ UNCHANGED <<tree, orig, copy, ncalls>>

Unpickle == /\ pc = "pickled"
            /\ copy' = [Obj0 EXCEPT !.alive = TRUE, !.td = IF pickled.has THEN pickled.td ELSE "unset", !.kw = orig.kw, !.ks = orig.ks,
                                    !.eq = B2S(EqMech(tree, tree))]
            /\ pc' = "copied" /\ last' = None /\ ncalls' = 0
            /\ UNCHANGED <<tree, orig, pickled>>

\* the copy is exercised like the original; a composite that lost its slot part cannot read
\* time_dependent of a composite operand, nor its own _cache
CallCopy(f, t, fill) ==
  /\ pc = "copied"
  /\ fill \subseteq ParamPaths(tree, "o")
  /\ last' = [what |-> "call", who |-> "copy", f |-> f, t |-> t, c |-> KW(copy.kw, copy.ks),
              kind |-> IF pickled.has \/ ~HasCompositeOperand(tree) THEN Expect(tree, f) ELSE "broken",
              vals |-> CallVals(tree, copy, f, t)]
  /\ copy' = CallOn(copy, f, t, fill)
  /\ ncalls' = ncalls + 1
  /\ UNCHANGED <<tree, pc, orig, pickled>>

ClearCopy ==
  /\ pc = "copied"
  /\ last' = [what |-> "clear", who |-> "copy", ok |-> pickled.has /\ ClearRes(tree, "o").ok,
              left |-> IF pickled.has THEN copy.filled \ ClearRes(tree, "o").c ELSE copy.filled]
  /\ copy' = [copy EXCEPT !.filled = last'.left]
  /\ ncalls' = 1
  /\ UNCHANGED <<tree, pc, orig, pickled>>

\* TDGLSolver.__init__ evaluates the parameter at (x, y, z[, t=0]) and clears its cache; solve() clears it
\* again and stores the parameter (pickled) in the output file
AllLeaves3D(tr) == Kinds(tr) \cap {"P2", "P2b", "K2", "KC2"} = {}
Solve == /\ pc \in {"built", "cleared", "copied"}
         /\ last' = [what |-> "solve", ok |-> AllLeaves3D(tree) /\ ClearRes(tree, "o").ok, td |-> orig.td]
         /\ pc' = "solved"
         /\ UNCHANGED <<tree, orig, copy, pickled, ncalls>>

FillOf(f) == IF Expect(tree, f) = "val" /\ FormHasT(f) THEN CachingPaths(tree, "o") ELSE {}
CallTimes(f) == IF FormHasT(f) THEN Times ELSE {0}
\* the argument form in which the expression answers
ValForm(f) == Expect(tree, f) = "val" /\ f = (IF TimeDep(tree) THEN "F3T" ELSE IF DimsFit(tree, "F3") THEN "F3" ELSE "F2")
\* exploration order of the model-checking runs (the trace specification uses the actions without it)
MCall == pc = "built" /\ \E f \in Forms, t \in Times :
           /\ t \in CallTimes(f) /\ ncalls < 2 /\ last.what \in {"none", "call", "retune"}
           \* second call: same form, other time (every ordered pair of distinct times), where the form answers
           /\ (last.what = "call" => (last.f = f /\ FormHasT(f) /\ last.t # t /\ Expect(tree, f) # "fail" /\ orig.kw = Q /\ orig.ks = Q))
           \* after an edit of the keyword argument: the form that answers, at one time (the same before and after the edit)
           /\ (last.what = "retune" => (ValForm(f) /\ t = (IF FormHasT(f) THEN Q ELSE 0)))
           /\ Call(f, t, FillOf(f))
\* the keyword argument of the time-dependent leaves edited before the first call and between two calls at the same time
MRetune == /\ pc = "built" /\ orig.ks = Q /\ TimeDep(tree) /\ ~HasShipped(tree) /\ Expect(tree, "F3T") = "val"
           /\ \/ last.what = "none" /\ ncalls = 0
              \/ last.what = "call" /\ ncalls = 1 /\ last.f = "F3T" /\ last.t = Q
           /\ \E c \in KwVals \ {orig.kw} : Retune(c)
\* the keyword argument of the static leaves, likewise (one edit; time-dependent expressions and static ones, in the form
\* that answers)
MRetuneS == /\ pc = "built" /\ orig.kw = Q /\ orig.ks = Q /\ ~HasShipped(tree) /\ Kinds(tree) \cap StaticKinds # {}
            /\ \E f \in Forms : /\ ValForm(f)
                                 /\ \/ last.what = "none" /\ ncalls = 0
                                    \/ last.what = "call" /\ ncalls = 1 /\ last.f = f /\ last.t = (IF FormHasT(f) THEN Q ELSE 0)
            /\ \E s \in KwVals \ {orig.ks} : RetuneS("orig", s)
MClear == orig.kw = Q /\ orig.ks = Q /\ Clear
\* at most two deliveries, into the same owned buffer, at one time, in the argument form the expression answers
\* an expression on shipped leaves: the whole (3, 3) array at each time
MShipDeliver == pc = "built" /\ HasShipped(tree) /\ ncalls < 1 /\ last.what = "none"
                /\ \E f \in Forms, t \in Times : ValForm(f) /\ t \in CallTimes(f) /\ Deliver(f, t, VecArg(tree), "tmp", {})
\* integer-typed points (array and scalars) for an expression on the shipped constant
MIntDeliver == pc = "built" /\ HasConst(tree) /\ ncalls < 1 /\ last.what = "none"
               /\ \E f \in Forms, a \in IntArgs : ValForm(f) /\ Deliver(f, IF FormHasT(f) THEN Q ELSE 0, a, "tmp", {})
MDeliver == pc = "built" /\ ~HasShipped(tree) /\ ncalls < 2 /\ last.what \in {"none", "deliver"}
            /\ \E f \in Forms, a \in ArrArgs :
                  /\ ValForm(f) /\ (last.what = "deliver" => last.a # a)
                  /\ Deliver(f, IF FormHasT(f) THEN Q ELSE 0, a, "b1", FillOf(f))
MCallCopy == pc = "copied" /\ \E f \in Forms, t \in Times : t \in CallTimes(f) /\ ncalls < 1 /\ CallCopy(f, t, FillOf(f))
MEq == last.what = "none" /\ \E other \in Variants(tree) : Eq(other)
MPickle == pc = "cleared" /\ Pickle
MClearCopy == last.what # "clear" /\ ClearCopy
MSolve == pc = "copied" /\ Solve
Next == Grow \/ Twin \/ Ship \/ Konst \/ Build \/ MShipDeliver \/ MIntDeliver \/ MDeliver \/ MCall \/ MRetune \/ MRetuneS \/ MEq \/ MClear \/ MPickle \/ Unpickle \/ MCallCopy \/ MClearCopy \/ MSolve

Spec == Init /\ [][Next]_vars

-----------------------------------------------------------------------------
(* PROPERTY clauses (C16; PickleRoundTrip also C14)                        *)
TypeOK == /\ pc \in {"grow", "twin", "ship", "konst", "built", "failed", "cleared", "pickled", "copied", "solved"}
          /\ Level(tree) <= MaxLevel /\ ncalls \in 0..2 /\ orig.kw \in KwVals /\ copy.kw \in KwVals /\ orig.ks \in KwVals /\ copy.ks \in KwVals

\* a call that must answer answers the pointwise combination of its operands' values (at the time of the call, with the
\* operands' keyword arguments as they are at the call); a call that must fail does not answer (kinds are part of the result)
EvalIsPointwise ==
  /\ last.what = "call" =>
       /\ last.kind \in {"val", "fail", "either"}
       /\ last.kind \in {"val", "either"} => \A a \in Args : last.vals[a] = EvalAtC(tree, a, last.t, last.c)
  \* ... whatever memory the points arrive in, and whatever was there before
  /\ last.what = "deliver" =>
       /\ last.kind \in {"val", "fail", "either"}
       /\ last.kind \in {"val", "either"} => last.vals = EvalAt(tree, last.a, last.t)
TimeDepIffSomeOperand == orig.alive => orig.td = B2S(TimeDep(tree))
EqIsStructural == last.what = "eq" => (last.res <=> (last.other = tree))
NestingTotal == pc # "failed"
ClearCacheTotal == last.what = "clear" => (last.ok /\ last.left = {})
PickleRoundTrip == copy.alive => (copy.td = orig.td /\ copy.eq = "T")
SolverAcceptsComposite == last.what = "solve" => (last.ok <=> AllLeaves3D(tree)) /\ last.td = B2S(TimeDep(tree))

\* which trees the binding hands to the real solver (leaves concretised as a vector potential, a scalar
\* ramp and numbers): three-dimensional leaves, a field somewhere, and operators that keep it finite
OkOp(n) == n.op \in {"add", "sub", "mul"} \/ (n.op = "div" /\ IsNum(n.r))
SolverDomain(tr) == /\ AllLeaves3D(tr) /\ "P3" \in Kinds(tr) /\ ~HasTwin(tr) /\ ~HasShipped(tr) /\ ~HasConst(tr)
                    /\ \/ IsLeaf(tr)
                       \/ /\ OkOp(tr)
                          /\ \A c \in {tr.l, tr.r} : IsLeaf(c) \/ (Level(c) = 1 /\ OkOp(c))

\* export: one line per expression with what the property expects of it (replayed against the real classes)
Emit == (pc \in {"built", "failed"} /\ last.what = "none") =>
          PrintT(ToJson([tree |-> tree, td |-> TimeDep(tree), level |-> Level(tree), h |-> H(tree),
                         solver |-> SolverDomain(tree), twin |-> HasTwin(tree), ship |-> HasShipped(tree), konst |-> HasConst(tree),
                         eqs |-> IF HasTwin(tree) THEN {} ELSE SameFlat(tree) \cup Folded(tree), chain |-> ScalarChain(tree),
                         expect |-> [f \in Forms |-> Expect(tree, f)],
                         vals |-> [f \in Forms |-> [n \in 1..Len(TimeSeq) |-> [a \in Args |-> EvalAt(tree, a, TimeSeq[n])]]]]))
=============================================================================
