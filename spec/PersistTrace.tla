---------------------------- MODULE PersistTrace ----------------------------
(***************************************************************************)
(* Trace validation for Persist: an object built with the REAL classes is  *)
(* saved and loaded back with the real to_hdf5 / from_hdf5; the trace      *)
(* carries                                                                 *)
(*   made   the record of content identities of the object that is saved   *)
(*   save   what an independent reader (h5py) finds in the file            *)
(*   load   the record abstracted from the object that was loaded, the     *)
(*          answer of the class's own == / equals, and for a mesh whether  *)
(*          it was recomputed from its triangulation                       *)
(*   remove the file was removed; a second made / save / load follows on   *)
(*          the SAME path with another object of the same shape            *)
(* and must be a behaviour of Persist; LoadSaveIdentity,                   *)
(* FileHoldsContent and MeshRestoredEqualsRecomputed are evaluated in      *)
(* every state.                                                            *)
(***************************************************************************)
EXTENDS Persist, IOUtils, TLCExt

Batch == JsonDeserialize(IOEnv.TRACE_FILE)

VARIABLES tid, l
tvars == <<vars, tid, l>>
T == Batch[tid]
Ev == T.ev[l]

TInit == /\ tid \in 1..Len(Batch) /\ l = 1
         /\ kind = Batch[tid].kind /\ shape = Batch[tid].shape /\ pc = "choose"
         /\ saved = Nothing /\ file = Nothing /\ loaded = Nothing /\ memo = Nothing /\ recomp = NoMesh /\ cursor = Nothing /\ gen = 1

IsEv(e) == l <= Len(T.ev) /\ Ev.ev = e /\ l' = l + 1 /\ UNCHANGED tid

\* the object that was built has the shape that was asked for
ShapeMatches(s, sv) ==
  CASE kind = "options" -> sv = s
    [] kind = "device" -> /\ Len(sv.holes) = s.holes /\ Len(sv.terminals) = s.terms
                          /\ (sv.probe_points # 0) = (s.probes > 0)
                          /\ (sv.layer["conductivity"] # 0) = s.cond
                          /\ HasMesh(sv.mesh) = s.mesh
                          /\ \A a \in MeshArrays : s.mesh => sv.mesh[a] # 0
    [] kind = "mesh" -> \A a \in MeshArrays : sv[a] # 0
    [] kind = "solution" -> /\ Len(sv.frames) = s.nframes /\ SolOK(s) /\ sv.frames[s.cur] # 0
                            /\ sv.dyn.dt # 0 /\ sv.dyn.time # 0 /\ sv.times # 0 /\ sv.closest # 0
                            /\ sv.mesh # 0 /\ sv.currents # 0
                            \* a run without a completed step (one frame) has no per-step records at all
                            /\ (sv.dyn.mu # 0) = (s.probes /\ s.nframes > 1) /\ (sv.dyn.theta # 0) = (s.probes /\ s.nframes > 1)
                            /\ (sv.dyn.screening_iterations # 0) = (s.screening /\ s.nframes > 1)

\* recomp: the identities of Mesh.from_triangulation(sites, elements) of the object that is about to be saved
\* (the consistency of the object's mesh with its triangulation is also a guard here, so that an object that violates
\* SavedMeshIsMeshOfItsTriangulation is a rejected trace and the other traces of the batch are still examined)
MeshOfRec(sv) == CASE kind = "device" -> sv.mesh [] kind = "mesh" -> sv [] kind = "solution" -> sv.mesh [] OTHER -> NoMesh
TMade == /\ IsEv("made") /\ Materialise(Ev.saved, IF kind = "options" THEN NoMesh ELSE Ev.recomp) /\ ShapeMatches(shape, Ev.saved)
         /\ (kind # "options" => MeshOfRec(Ev.saved) = Ev.recomp)

TSave == /\ IsEv("save") /\ Ev.ok /\ Save
         /\ CASE kind = "options" -> file' = Ev.rec
              [] kind \in {"device", "mesh"} -> file'.present = SeqToSet(Ev.present) /\ file'.rec = Ev.rec
              [] kind = "solution" -> file'.frames = Ev.rec.frames /\ file'.mesh = Ev.rec.mesh

TLoad == /\ IsEv("load") /\ Ev.ok /\ Load
         /\ Ev.eq = "T"
         /\ CASE kind = "mesh" -> loaded'.rec = Ev.rec /\ loaded'.recomputed = Ev.recomputed
              [] OTHER -> loaded' = Ev.rec

\* the second object saved under the path must really be another one (else the history shows nothing)
\* the frame shown by the ONE browsed object after solve_step = k, against the file content logged at the save event
\* Ev.views: the views a cache-free reader (a fresh Solution.from_hdf5 per step) derives from every recorded step;
\* Ev.view: the views of the ONE browsed object after solve_step = k
TBrowse == /\ IsEv("browse") /\ Ev.ok /\ BrowseV(Ev.k, Ev.views)
           /\ cursor'.frame = Ev.frame
           /\ cursor'.view = Ev.view
TRemove == /\ IsEv("remove") /\ Ev.ok /\ Remove
TMadeAgain == pc = "removed" => (Ev.saved # saved)
TNext == (TMade /\ TMadeAgain) \/ TSave \/ TLoad \/ TBrowse \/ TRemove
TSpec == TInit /\ [][TNext]_tvars

Accepted == (l = Len(T.ev) + 1) => PrintT(<<"ACCEPT", tid>>)
Progress == PrintT(<<"AT", tid, l>>)
=============================================================================
