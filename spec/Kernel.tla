------------------------------- MODULE Kernel -------------------------------
(***************************************************************************)
(* Schedules of the parallel numba kernels of py-tdgl (C09, DESIGN 3.10).  *)
(*                                                                         *)
(* A kernel is a loop nest.  The loop marked `prange` (the outermost one   *)
(* when the decorator says parallel=True) is executed by nt threads that   *)
(* claim its indices one at a time in ANY order (a superset of numba's     *)
(* static chunks); the loops outside it are run by the master, one         *)
(* fork/join region per iteration; the loops inside it are run by the      *)
(* claiming thread.  An accumulator (`name += term`) is thread-PRIVATE     *)
(* iff it is initialised inside the parallel body (init >= depth of the    *)
(* prange loop), otherwise every thread updates the one shared variable.   *)
(* Every access to shared state (the output array, a shared accumulator)   *)
(* is one atomic step; private work is folded into the step that follows   *)
(* it (private steps commute with everything).                             *)
(*                                                                         *)
(* Floating-point addition is modelled as NON-associative and              *)
(* non-commutative: a sum IS its expression tree, written as a sequence    *)
(* of integers (-1 = "(", -2 = ")", leaves = codes of the iteration that   *)
(* contributed the term).  The output starts as garbage unless the kernel  *)
(* allocates it with zeros.  fastmath=True lets the compiler reassociate   *)
(* the sequential folds: the association is chosen ONCE per compilation    *)
(* (cg), it is the same code for every thread and every call.              *)
(*                                                                         *)
(* The loop SKELETON of every kernel is a constant, extracted from the     *)
(* real source by harness/kernelsk.py (an AST visitor):                    *)
(*   [name, loops : Seq("prange"|"range"), ext : Seq(Nat),                 *)
(*    accs   : Seq([init : -1..D, add : 1..D]),                            *)
(*    stores : Seq([at : 0..D, idx : Seq([var : 0..D, off : Int]),         *)
(*                  src : Seq(acc id)]),                                   *)
(*    outadds: Seq([at, idx]),   shape : Seq(Nat),                         *)
(*    outinit : "garbage"|"zero", fastmath, parallel : BOOLEAN]            *)
(* init/add/at are depths of loop bodies (0 = function level); an index    *)
(* term is  (loop variable of depth var, or 0) + off.                      *)
(***************************************************************************)
EXTENDS Integers, Sequences, FiniteSets, TLC

CONSTANTS Skeletons,    \* sequence of skeletons (see above)
          MaxT,         \* thread counts 1..MaxT
          Codegens      \* associations the compiler may choose under fastmath: subset of {"seq", "lanes"}

VARIABLES ski,          \* which kernel
          nt,           \* number of threads of this behaviour
          cg,           \* association of sequential folds chosen by the compiler
          mp,           \* master: position in the master program
          active,       \* a parallel region is open
          ru,           \* iteration vector of the loops outside the region
          claimed,      \* parallel indices already handed out in this region
          th,           \* th[t] = [x |-> claimed index or 0, ip |-> position in the body of that index]
          loc,          \* loc[t][a] = private accumulator a of thread t (two lanes)
          sh,           \* sh[a] = shared / master-level accumulator a
          out,          \* the output array: cell -> abstract value
          touched,      \* shared locations accessed in the open region, with the parallel index that did it
          hist          \* claim order (history; exported as a schedule to replay)

vars == <<ski, nt, cg, mp, active, ru, claimed, th, loc, sh, out, touched, hist>>

(* ------------------------------------------------------------------ abstract arithmetic *)
G      == -9                       \* garbage of an uninitialised buffer
Undef  == -8                       \* a variable read before assignment
Zero   == <<0>>
Leaf(c) == <<c>>
Add(a, b) == <<-1>> \o a \o b \o <<-2>>
HasJunk(v) == \E n \in 1..Len(v) : v[n] \in {G, Undef}

RECURSIVE FlatN(_, _)
FlatN(f, n) == IF n = 0 THEN <<>> ELSE FlatN(f, n - 1) \o f[n]

RECURSIVE Code(_)
Code(v) == IF Len(v) = 0 THEN 0 ELSE 10 * Code(SubSeq(v, 1, Len(v) - 1)) + v[Len(v)]

(* ------------------------------------------------------------------ the program of a skeleton *)
Depth(sk) == Len(sk.loops)
ParDepth(sk) ==
  IF ~sk.parallel \/ ~(\E d \in 1..Depth(sk) : sk.loops[d] = "prange") THEN 0
  ELSE CHOOSE d \in 1..Depth(sk) : /\ sk.loops[d] = "prange"
                                   /\ \A e \in 1..(d - 1) : sk.loops[e] # "prange"

Op(kind, a, cell, src, t, j) == [op |-> kind, a |-> a, cell |-> cell, src |-> src, t |-> t, j |-> j]

CellOf(idx, v) == [m \in 1..Len(idx) |-> (IF idx[m].var = 0 THEN 0 ELSE v[idx[m].var]) + idx[m].off]

Inits(sk, d) ==
  FlatN([a \in 1..Len(sk.accs) |-> IF sk.accs[a].init = d THEN <<Op("init", a, <<>>, <<>>, 0, 0)>> ELSE <<>>], Len(sk.accs))
Adds(sk, d, v) ==
  FlatN([a \in 1..Len(sk.accs) |-> IF sk.accs[a].add = d
                                     THEN <<Op("add", a, <<>>, <<>>, 10 * Code(v) + a, IF d = 0 THEN 0 ELSE v[d])>> ELSE <<>>],
        Len(sk.accs))
OutAdds(sk, d, v) ==
  FlatN([n \in 1..Len(sk.outadds) |-> IF sk.outadds[n].at = d
                                        THEN <<Op("outadd", 0, CellOf(sk.outadds[n].idx, v), <<>>, 10 * Code(v), 0)>> ELSE <<>>],
        Len(sk.outadds))
Stores(sk, d, v) ==
  FlatN([n \in 1..Len(sk.stores) |-> IF sk.stores[n].at = d
                                       THEN <<Op("store", 0, CellOf(sk.stores[n].idx, v), sk.stores[n].src, 10 * Code(v), 0)>> ELSE <<>>],
        Len(sk.stores))

\* the body of loop d for iteration vector v (Len(v) = d); d = 0 is the whole function
RECURSIVE Body(_, _, _)
Body(sk, d, v) ==
  Inits(sk, d)
  \o (IF d < Depth(sk) THEN FlatN([i \in 1..sk.ext[d + 1] |-> Body(sk, d + 1, Append(v, i))], sk.ext[d + 1]) ELSE <<>>)
  \o Adds(sk, d, v) \o OutAdds(sk, d, v) \o Stores(sk, d, v)

\* what the master runs: the loops outside the parallel one; "region" stands for the fork/join
RECURSIVE MBody(_, _, _, _)
MBody(sk, p, d, u) ==
  Inits(sk, d)
  \o (IF d = p - 1 THEN <<Op("region", 0, u, <<>>, 0, 0)>>
      ELSE FlatN([i \in 1..sk.ext[d + 1] |-> MBody(sk, p, d + 1, Append(u, i))], sk.ext[d + 1]))
  \o Adds(sk, d, u) \o OutAdds(sk, d, u) \o Stores(sk, d, u)

MProg(sk) == IF ParDepth(sk) = 0 THEN Body(sk, 0, <<>>) ELSE MBody(sk, ParDepth(sk), 0, <<>>)
MProgs == [s \in 1..Len(Skeletons) |-> MProg(Skeletons[s])]

RECURSIVE Vecs(_, _)      \* index vectors of the first n axes of extents e
Vecs(e, n) == IF n = 0 THEN {<<>>} ELSE {Append(v, i) : v \in Vecs(e, n - 1), i \in 1..e[n]}
Cells(sk) == Vecs(sk.shape, Len(sk.shape))
InitOut(sk) == [c \in Cells(sk) |-> IF sk.outinit = "zero" THEN Zero ELSE <<G>>]
UndefAccs(sk) == [a \in 1..Len(sk.accs) |-> <<<<Undef>>, <<Undef>>>>]

(* ------------------------------------------------------------------ semantics of one operation *)
ApplyAcc(st, o, cgv) ==
  IF o.op = "init" THEN [st EXCEPT ![o.a] = <<Zero, Zero>>]
  ELSE LET lane == IF cgv = "lanes" THEN (o.j % 2) + 1 ELSE 1
       IN [st EXCEPT ![o.a][lane] = Add(@, Leaf(o.t))]
ReadAcc(st, a, cgv) == IF cgv = "lanes" THEN Add(st[a][1], st[a][2]) ELSE st[a][1]

StoreVal(o, Rd(_)) ==
  IF Len(o.src) = 0 THEN Leaf(o.t)
  ELSE <<-3>> \o FlatN([n \in 1..Len(o.src) |-> Rd(o.src[n])], Len(o.src)) \o <<-4>>

\* sequential semantics (one thread, program order): the reference every schedule must reproduce
SeqApply(st, o, cgv) ==
  LET Rd(a) == ReadAcc(st.acc, a, cgv) IN
  CASE o.op \in {"init", "add"} -> [st EXCEPT !.acc = ApplyAcc(st.acc, o, cgv)]
    [] o.op = "store"  -> [st EXCEPT !.out[o.cell] = StoreVal(o, Rd)]
    [] o.op = "outadd" -> [st EXCEPT !.out[o.cell] = Add(@, Leaf(o.t))]
    [] OTHER -> st
RECURSIVE SeqExec(_, _, _, _)
SeqExec(ops, n, st, cgv) == IF n > Len(ops) THEN st ELSE SeqExec(ops, n + 1, SeqApply(st, ops[n], cgv), cgv)

(* ------------------------------------------------------------------ the state machine *)
\* tables (constant level: evaluated once by TLC)
ParDepths == [s \in 1..Len(Skeletons) |-> ParDepth(Skeletons[s])]
CellTab == [s \in 1..Len(Skeletons) |-> Cells(Skeletons[s])]
\* body of the parallel loop per (outer vector, parallel index)
TBodies == [s \in 1..Len(Skeletons) |->
             IF ParDepths[s] = 0 THEN <<>>
             ELSE [v \in Vecs(Skeletons[s].ext, ParDepths[s]) |-> Body(Skeletons[s], ParDepths[s], v)]]
InBounds(sk, ops) == \A n \in 1..Len(ops) : ops[n].op \in {"store", "outadd"} => ops[n].cell \in Cells(sk)
InBoundsTab == [s \in 1..Len(Skeletons) |-> InBounds(Skeletons[s], Body(Skeletons[s], 0, <<>>))]

\* reference: the state of the sequential execution when the master is at position n of its program
\* (a region stands for the whole parallel loop run in index order by one thread)
SeqMaster(st, o, s, cgv) ==
  IF o.op = "region"
  THEN LET e == Skeletons[s].ext[ParDepths[s]] IN
       SeqExec(FlatN([x \in 1..e |-> TBodies[s][Append(o.cell, x)]], e), 1, st, cgv)
  ELSE SeqApply(st, o, cgv)
RECURSIVE RefPrefix(_, _, _)
RefPrefix(s, cgv, n) ==
  IF n = 1 THEN [acc |-> UndefAccs(Skeletons[s]), out |-> InitOut(Skeletons[s])]
  ELSE SeqMaster(RefPrefix(s, cgv, n - 1), MProgs[s][n - 1], s, cgv)
RefAt == [s \in 1..Len(Skeletons) |-> [c \in {"seq", "lanes"} |->
            [n \in 1..(Len(MProgs[s]) + 1) |-> RefPrefix(s, c, n)]]]

SK == Skeletons[ski]
P  == ParDepths[ski]
MP == MProgs[ski]
IsShared(a) == SK.accs[a].init < P
Idle == [x |-> 0, ip |-> 0]

Init ==
  /\ ski \in 1..Len(Skeletons)
  /\ nt \in 1..MaxT
  /\ cg \in (IF Skeletons[ski].fastmath THEN Codegens ELSE {"seq"})
  /\ mp = 1 /\ active = FALSE /\ ru = <<>> /\ claimed = {}
  /\ th = [t \in 1..MaxT |-> Idle]
  /\ loc = [t \in 1..MaxT |-> UndefAccs(Skeletons[ski])]
  /\ sh = UndefAccs(Skeletons[ski])
  /\ out = InitOut(Skeletons[ski])
  /\ touched = {}
  /\ hist = <<>>

\* the master executes one statement of the sequential part, or opens a region
MasterStep ==
  /\ ~active /\ mp <= Len(MP)
  /\ LET o == MP[mp]
         Rd(a) == ReadAcc(sh, a, cg) IN
     IF o.op = "region"
     THEN /\ active' = TRUE /\ ru' = o.cell /\ claimed' = {} /\ touched' = {}
          /\ UNCHANGED <<mp, sh, out>>
     ELSE /\ mp' = mp + 1
          /\ sh' = IF o.op \in {"init", "add"} THEN ApplyAcc(sh, o, cg) ELSE sh
          /\ out' = CASE o.op = "store"  -> [out EXCEPT ![o.cell] = StoreVal(o, Rd)]
                      [] o.op = "outadd" -> [out EXCEPT ![o.cell] = Add(@, Leaf(o.t))]
                      [] OTHER -> out
          /\ UNCHANGED <<active, ru, claimed, touched>>
  /\ UNCHANGED <<ski, nt, cg, th, loc, hist>>

\* an idle thread takes any index that nobody has taken
Claim(t) ==
  /\ active /\ t <= nt /\ th[t].x = 0
  /\ \E x \in (1..SK.ext[P]) \ claimed :
       /\ claimed' = claimed \cup {x}
       /\ th' = [th EXCEPT ![t] = [x |-> x, ip |-> 1]]
       /\ hist' = Append(hist, x)
  /\ loc' = [loc EXCEPT ![t] = UndefAccs(SK)]
  /\ UNCHANGED <<ski, nt, cg, mp, active, ru, sh, out, touched>>

\* private operations starting at ip (they touch nothing another thread can see)
RECURSIVE RunPriv(_, _, _)
RunPriv(ops, ip, l) ==
  IF ip > Len(ops) THEN [ip |-> ip, l |-> l]
  ELSE IF ops[ip].op \in {"init", "add"} /\ ~IsShared(ops[ip].a)
       THEN RunPriv(ops, ip + 1, ApplyAcc(l, ops[ip], cg))
       ELSE [ip |-> ip, l |-> l]

\* a working thread performs its next access to shared state (with the private work around it)
Step(t) ==
  /\ active /\ th[t].x # 0
  /\ LET ops == TBodies[ski][Append(ru, th[t].x)]
         r1 == RunPriv(ops, th[t].ip, loc[t]) IN
     IF r1.ip > Len(ops)
     THEN /\ th' = [th EXCEPT ![t] = Idle]
          /\ loc' = [loc EXCEPT ![t] = UndefAccs(SK)]
          /\ UNCHANGED <<sh, out, touched>>
     ELSE LET o == ops[r1.ip]
              Rd(a) == IF IsShared(a) THEN ReadAcc(sh, a, cg) ELSE ReadAcc(r1.l, a, cg)
              r2 == RunPriv(ops, r1.ip + 1, r1.l)
              \* locations of shared state this step reads or writes (an accumulator a is written as <<0, a>>)
              locs == (IF o.op \in {"store", "outadd"} THEN {o.cell} ELSE {<<0, o.a>>})
                      \cup {<<0, o.src[n]>> : n \in {m \in 1..Len(o.src) : IsShared(o.src[m])}} IN
          /\ touched' = touched \cup {<<l, th[t].x>> : l \in locs}
          /\ sh' = IF o.op \in {"init", "add"} THEN ApplyAcc(sh, o, cg) ELSE sh
          /\ out' = CASE o.op = "store"  -> [out EXCEPT ![o.cell] = StoreVal(o, Rd)]
                      [] o.op = "outadd" -> [out EXCEPT ![o.cell] = Add(@, Leaf(o.t))]
                      [] OTHER -> out
          /\ IF r2.ip > Len(ops)
             THEN th' = [th EXCEPT ![t] = Idle] /\ loc' = [loc EXCEPT ![t] = UndefAccs(SK)]
             ELSE th' = [th EXCEPT ![t] = [x |-> th[t].x, ip |-> r2.ip]] /\ loc' = [loc EXCEPT ![t] = r2.l]
  /\ UNCHANGED <<ski, nt, cg, mp, active, ru, claimed, hist>>

\* join: every index done
EndRegion ==
  /\ active /\ claimed = 1..SK.ext[P] /\ \A t \in 1..MaxT : th[t].x = 0
  /\ active' = FALSE /\ mp' = mp + 1
  /\ UNCHANGED <<ski, nt, cg, ru, claimed, th, loc, sh, out, touched, hist>>

Next == MasterStep \/ EndRegion \/ \E t \in 1..MaxT : Claim(t) \/ Step(t)
Spec == Init /\ [][Next]_vars

Done == ~active /\ mp > Len(MP)

(* ------------------------------------------------------------------ properties *)
\* every write lands inside the output array
StoresInBounds == InBoundsTab[ski]

\* C09: the result does not depend on the interleaving, on the claim order or on the number of threads:
\* every terminal state holds the result of the one-thread, program-order execution
\* (stated at every join, not only at the end: whenever no region is open, the output and the master-level
\* accumulators are those of the sequential execution at the same program position)
ScheduleIndependent ==
  ~active => LET ref == RefAt[ski][cg][mp] IN
             /\ out = ref.out
             /\ \A a \in 1..Len(SK.accs) : IsShared(a) \/ P = 0 => sh[a] = ref.acc[a]

\* the discipline that makes it so ("owner computes"): inside one region no location of shared state is
\* accessed on behalf of two different parallel indices.  Checked because it fails after a few steps when
\* the skeleton is wrong, where the differing results themselves appear only at the join.
OwnerComputes == \A p1, p2 \in touched : p1[1] = p2[1] => p1[2] = p2[2]

\* C09: no cell of the output still holds (or was computed from) the garbage the buffer started with,
\* and no accumulator was read before it was initialised
NoGarbageLeft == Done => \A c \in CellTab[ski] : ~HasJunk(out[c])

\* NOT part of C09 (reported for information): with fastmath the bits depend on the association chosen by
\* the compiler, i.e. reproducibility is per build (same numba/LLVM/CPU), not across builds
CodegenIndependent == Done => out = RefAt[ski]["seq"][Len(MP) + 1].out

CodegenReport == (Done /\ out # RefAt[ski]["seq"][Len(MP) + 1].out) => PrintT(<<"CODEGEN", SK.name, cg>>)

\* schedules for replay into the real kernels
Emit == Done => PrintT(<<"SCHED", SK.name, nt, cg, hist>>)

(* ------------------------------------------------------------------ documentation *)
\* The skeletons as extracted at the pinned commit (the check regenerates them from the source at every run).
PinnedSkeletons == <<
  [name |-> "get_A_induced_numba", loops |-> <<"prange", "range", "range">>, ext |-> <<3, 2, 3>>,
   accs |-> <<[init |-> 2, add |-> 3]>>,
   stores |-> <<[at |-> 2, idx |-> <<[var |-> 1, off |-> 0], [var |-> 2, off |-> 0]>>, src |-> <<1>>]>>,
   outadds |-> <<>>, shape |-> <<3, 2>>, outinit |-> "garbage", fastmath |-> TRUE, parallel |-> TRUE],
  [name |-> "euclidean_distance_2d", loops |-> <<"prange", "range">>, ext |-> <<3, 2>>, accs |-> <<>>,
   stores |-> <<[at |-> 2, idx |-> <<[var |-> 1, off |-> 0], [var |-> 2, off |-> 0]>>, src |-> <<>>]>>,
   outadds |-> <<>>, shape |-> <<3, 2>>, outinit |-> "garbage", fastmath |-> TRUE, parallel |-> TRUE],
  [name |-> "_biot_savart_1d_vector", loops |-> <<"prange", "range">>, ext |-> <<3, 3>>, accs |-> <<>>, stores |-> <<>>,
   outadds |-> <<[at |-> 2, idx |-> <<[var |-> 1, off |-> 0]>>]>>, shape |-> <<3>>, outinit |-> "zero",
   fastmath |-> TRUE, parallel |-> TRUE],
  [name |-> "_biot_savart_2d_z", loops |-> <<"prange", "range">>, ext |-> <<3, 3>>,
   accs |-> <<[init |-> 1, add |-> 2], [init |-> 1, add |-> 2]>>,
   stores |-> <<[at |-> 1, idx |-> <<[var |-> 1, off |-> 0]>>, src |-> <<1, 2>>]>>,
   outadds |-> <<>>, shape |-> <<3>>, outinit |-> "garbage", fastmath |-> TRUE, parallel |-> TRUE] >>
=============================================================================
