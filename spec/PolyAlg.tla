------------------------------ MODULE PolyAlg ------------------------------
(***************************************************************************)
(* C18 - polygon and device geometry operations mean what they say.        *)
(*                                                                         *)
(* Shapes are sets of unit cells of a (2H x 2H) integer grid centred at    *)
(* the origin (cell <<x,y>> is the square [x,x+1] x [y,y+1]), i.e.         *)
(* rectilinear polygons.  A heap of objects (tdgl.Polygon instances) and   *)
(* of devices (tdgl.Device instances referring to polygons BY REFERENCE).  *)
(* One action per public operation of tdgl.Polygon / tdgl.Device:          *)
(*   New(box)  Union/Intersection/Difference(a,b)  Rotate(q*90deg, origin) *)
(*   Translate(dx,dy)  Scale(fx,fy, origin)  (each with inplace)  Copy     *)
(*   Poke (the user writes into the array returned by .points)             *)
(*   MkDev(film, holes)  DevCopy  DevTranslate(inplace)  DevRotate DevScale*)
(* Error semantics of the set operations: the result is a Polygon iff its  *)
(* cell set is non-empty, edge-connected and hole-free (and, for an        *)
(* intersection, the closed operands do not also touch elsewhere);         *)
(* otherwise the operation raises ValueError and nothing changes.          *)
(*                                                                         *)
(* Every object carries what the harness can observe on the real class:    *)
(* cells (membership of the cell centres), area, bounding box, closed,     *)
(* ccw (signed area > 0) and buf (identity of the vertex buffer).          *)
(* The mechanism switches M* describe how the code obtains the result (as  *)
(* the anchors of C18 name it); the specification is the instance with all *)
(* switches TRUE, the other instances are design canaries: each must       *)
(* violate the clause it belongs to.                                       *)
(*                                                                         *)
(* The last part (RelHolds) states the clauses for shapes that have no cell    *)
(* model (circles, ellipses, arbitrary angles) as relations between        *)
(* quantised observations.                                                 *)
(***************************************************************************)
EXTENDS Integers, Sequences, FiniteSets, TLC, Json

CONSTANTS H,                \* half width of the grid
          Boxes,            \* box codes (see BoxOf)
          MinBoxes, MaxBoxes, MaxOps,   \* operations start once MinBoxes..MaxBoxes boxes exist
          Quarters,         \* quarter turns, subset of 1..3
          Shifts,           \* pair codes of <<dx,dy>>
          Factors,          \* pair codes of <<fx,fy>>, fx, fy in {-2,-1,1,2}
          Origins,          \* pair codes of <<ox,oy>>
          MaxHoles,
          Chained,          \* TRUE: every operation involves the result of the previous one (chains proper)
          PolyOps,          \* subset of {"setop","rotate","translate","scale","copy","poke"}
          DevOps,           \* subset of {"mkdev","devcopy","devtranslate","devrotate","devscale"}
          TiltQuarters,     \* New: the `angle` argument of the primitive, in quarter turns (subset of 0..3)
          ProbeModes,       \* how MkDev chooses probe points: subset of {"none","inside","outside"}
          MSubIsDifference, \* `a - b` / difference() is the set difference
          MCopyOnTransform, \* polygon = self if inplace else self.copy()
          MOrient,          \* the points setter re-orients the ring counter-clockwise
          MCopyFresh,       \* copy() owns a fresh vertex buffer
          MDeviceUsesHoles, \* Device.contains_points removes the holes
          MProbeOrigin,     \* Device.rotate / scale move the probe points about the SAME origin as the polygons
          Export            \* keep the chain in `hist` and print it at the end (behaviour export)

VARIABLES objs,   \* heap of polygons: sequence of object records
          devs,   \* heap of devices: [film, holes (sequence of object ids), inside (cells), probes (doubled points)]
          nb,     \* next fresh buffer id
          nops,   \* operations performed so far
          last,   \* the last operation, with the heap before it (one-step history)
          hist    \* the chain of operations so far (export only)

vars == <<objs, devs, nb, nops, last, hist>>
view == <<objs, devs, nb, nops, last>>

----------------------------------------------------------------------------
\* codecs: cfg files cannot hold tuples, so tuples of small integers (-8..7) travel as nibbles
Nib(c, k) == ((c \div (16 ^ k)) % 16) - 8
PairOf(c) == <<Nib(c, 1), Nib(c, 0)>>
BoxOf(c)  == <<Nib(c, 3), Nib(c, 2), Nib(c, 1), Nib(c, 0)>>      \* <<x0, y0, x1, y1>>

Abs(x) == IF x < 0 THEN -x ELSE x
Min(S) == CHOOSE x \in S : \A y \in S : x <= y
Max(S) == CHOOSE x \in S : \A y \in S : x >= y

Cells == (-H .. H - 1) \X (-H .. H - 1)
Pad   == (-H - 1 .. H) \X (-H - 1 .. H)
BoxCells(b) == {c \in Cells : b[1] <= c[1] /\ c[1] < b[3] /\ b[2] <= c[2] /\ c[2] < b[4]}

\* ---- exact images of cell sets under the affine maps of the API
Rot1(c, o) == <<o[1] + o[2] - c[2] - 1, o[2] - o[1] + c[1]>>         \* 90 degrees counter-clockwise about o
RotN(c, o, q) == IF q = 0 THEN c ELSE IF q = 1 THEN Rot1(c, o)
                 ELSE IF q = 2 THEN Rot1(Rot1(c, o), o) ELSE Rot1(Rot1(Rot1(c, o), o), o)
RotSet(S, o, q) == {RotN(c, o, q) : c \in S}
ShiftSet(S, s) == {<<c[1] + s[1], c[2] + s[2]>> : c \in S}
ScaleAxis(x, f, o) == LET lo == IF f > 0 THEN o + f * (x - o) ELSE o + f * (x + 1 - o)
                      IN  lo .. (lo + Abs(f) - 1)
ScaleSet(S, f, o) == UNION {ScaleAxis(c[1], f[1], o[1]) \X ScaleAxis(c[2], f[2], o[2]) : c \in S}
InGrid(S) == S \subseteq Cells
\* probe points are kept in DOUBLED coordinates <<2x, 2y>> (a cell centre is <<2cx+1, 2cy+1>>; scaling by 2 about
\* an integer origin sends it to a grid vertex): the same affine maps, exactly
Centre2(c) == <<2 * c[1] + 1, 2 * c[2] + 1>>
Shift2(P, s) == <<P[1] + 2 * s[1], P[2] + 2 * s[2]>>
RotP1(P, o) == <<2 * o[1] - (P[2] - 2 * o[2]), 2 * o[2] + (P[1] - 2 * o[1])>>
Rot2(P, o, q) == IF q = 0 THEN P ELSE IF q = 1 THEN RotP1(P, o)
                 ELSE IF q = 2 THEN RotP1(RotP1(P, o), o) ELSE RotP1(RotP1(RotP1(P, o), o), o)
Scale2(P, f, o) == <<2 * o[1] + f[1] * (P[1] - 2 * o[1]), 2 * o[2] + f[2] * (P[2] - 2 * o[2])>>
\* the cells whose closed square holds the (doubled) point P: one cell for a centre, two or four on grid lines
AxisCells(X) == IF X % 2 = 1 THEN {(X - 1) \div 2} ELSE {X \div 2 - 1, X \div 2}
Touch(P) == AxisCells(P[1]) \X AxisCells(P[2])
\* all probe points strictly inside / each one strictly inside or strictly outside (else: on an outline, not claimed)
ProbesIn(pr, ins) == \A k \in 1 .. Len(pr) : Touch(pr[k]) \subseteq ins
ProbesClear(pr, ins) == \A k \in 1 .. Len(pr) : Touch(pr[k]) \subseteq ins \/ Touch(pr[k]) \cap ins = {}
CellLess(a, b) == a[1] < b[1] \/ (a[1] = b[1] /\ a[2] < b[2])
MinCell(S) == CHOOSE c \in S : \A d \in S : c = d \/ CellLess(c, d)
MaxCell(S) == CHOOSE c \in S : \A d \in S : c = d \/ CellLess(d, c)

\* ---- which cell sets are polygons (simple, simply connected, with interior)
Nbrs(c) == {<<c[1] + 1, c[2]>>, <<c[1] - 1, c[2]>>, <<c[1], c[2] + 1>>, <<c[1], c[2] - 1>>}
RECURSIVE Reach(_, _, _)
Reach(S, seen, front) ==
  IF front = {} THEN seen
  ELSE LET nxt == ((UNION {Nbrs(c) : c \in front}) \cap S) \ seen IN Reach(S, seen \cup nxt, nxt)
Connected(S) == S = {} \/ LET c0 == CHOOSE c \in S : TRUE IN Reach(S, {c0}, {c0}) = S
HoleFree(S) == Connected(Pad \ S)
IsPolygon(S) == S # {} /\ Connected(S) /\ HoleFree(S)

\* The operands are closed sets: their intersection also holds every edge / corner where they merely touch.  Such
\* a lower-dimensional leftover outside the closure of the common cells makes the result a collection, not a
\* polygon (measured on the real class: ValueError "unexpected type").
Around(v) == {<<v[1] - 1, v[2] - 1>>, <<v[1], v[2] - 1>>, <<v[1] - 1, v[2]>>, <<v[1], v[2]>>}
StrayContact(A, B) ==
  \/ \E c1 \in A \ B : \E c2 \in Nbrs(c1) : c2 \in B \ A
  \/ \E v \in (-H .. H) \X (-H .. H) : Around(v) \cap A # {} /\ Around(v) \cap B # {} /\ Around(v) \cap A \cap B = {}
SetOpRaises(kind, A, B, S) == ~IsPolygon(S) \/ (kind = "intersection" /\ StrayContact(A, B))

BBox(S) == IF S = {} THEN <<0, 0, 0, 0>>
           ELSE <<Min({c[1] : c \in S}), Min({c[2] : c \in S}), Max({c[1] : c \in S}) + 1, Max({c[2] : c \in S}) + 1>>

\* compact transport of cell sets: one bit mask per row (row y = -H .. H-1, bit x+H)
RowCode(S, y) == LET f[x \in -H - 1 .. H - 1] == IF x = -H - 1 THEN 0
                                                 ELSE f[x - 1] + (IF <<x, y>> \in S THEN 2 ^ (x + H) ELSE 0)
                 IN  f[H - 1]
Rows(S) == [r \in 1 .. 2 * H |-> RowCode(S, r - H - 1)]
FromRows(rows) == {c \in Cells : (rows[c[2] + H + 1] \div (2 ^ (c[1] + H))) % 2 = 1}

\* TLCEval: cell sets are stored enumerated (TLC's lazy set values do not survive the state queue)
MkObj(S, ccw, b) == [cells |-> TLCEval(S), area |-> Cardinality(S), bbox |-> BBox(S), ccw |-> ccw, closed |-> TRUE, buf |-> b]
Obs(o) == [cells |-> o.cells, area |-> o.area, bbox |-> o.bbox, ccw |-> o.ccw, closed |-> o.closed]

Pointwise(kind, ina, inb) == CASE kind = "union" -> ina \/ inb
                               [] kind = "intersection" -> ina /\ inb
                               [] kind = "difference" -> ina /\ ~inb
SetOpCells(kind, A, B) == {c \in Cells : Pointwise(kind, c \in A, c \in B)}
\* what the code computes (mechanism)
SetOpMech(kind, A, B) == IF kind = "difference" /\ ~MSubIsDifference THEN SetOpCells("intersection", A, B)
                         ELSE SetOpCells(kind, A, B)

HoleCells(os, dv) == UNION {os[dv.holes[k]].cells : k \in 1 .. Len(dv.holes)}
InsideSpec(os, dv) == os[dv.film].cells \ HoleCells(os, dv)
InsideMech(os, dv) == IF MDeviceUsesHoles THEN InsideSpec(os, dv) ELSE os[dv.film].cells
Refresh(os, ds) == [d \in 1 .. Len(ds) |-> [ds[d] EXCEPT !.inside = TLCEval(InsideMech(os, ds[d]))]]

Leader(os, i) == Min({j \in 1 .. Len(os) : os[j].buf = os[i].buf})

----------------------------------------------------------------------------
NoOp == [op |-> "init", kind |-> "", a |-> 0, b |-> 0, inplace |-> FALSE, q |-> 0, par |-> <<0, 0>>,
         org |-> <<0, 0>>, hs |-> <<>>, pm |-> "none", probes |-> <<>>, res |-> 0, out |-> "ok"]

Snapshot(os, ds) == [objs |-> [i \in 1 .. Len(os) |-> [rows |-> Rows(os[i].cells), area |-> os[i].area, bbox |-> os[i].bbox,
                                                      ccw |-> os[i].ccw, closed |-> os[i].closed, lead |-> Leader(os, i)]],
                     devs |-> [d \in 1 .. Len(ds) |-> [film |-> ds[d].film, holes |-> ds[d].holes, inside |-> Rows(ds[d].inside),
                                                      probes |-> ds[d].probes]]]

Init == /\ objs = <<>> /\ devs = <<>> /\ nb = 1 /\ nops = 0
        /\ last = [o |-> NoOp, pre |-> <<>>, pdevs |-> <<>>]
        /\ hist = <<>>

\* common epilogue of every operation
Commit(o, os, ds, nbuf, isop) ==
  LET ds2 == Refresh(os, ds) IN
  /\ objs' = os /\ devs' = ds2 /\ nb' = nbuf
  /\ nops' = nops + (IF isop THEN 1 ELSE 0)
  /\ last' = [o |-> o, pre |-> objs, pdevs |-> devs]
  /\ hist' = IF Export THEN Append(hist, o) ELSE hist

IsObj(a) == a \in 1 .. Len(objs)
IsDev(d) == d \in 1 .. Len(devs)

\* the geometry primitive box(w, h, center=c, angle=90 q): "rotated counterclockwise about (0, 0) AFTER translating
\* to the centre", i.e. the same region as Polygon(box(w, h, center=c)).rotate(90 q)
DoNew(bx, q) ==
  LET S == RotSet(BoxCells(BoxOf(bx)), <<0, 0>>, q) IN
  /\ S # {} /\ InGrid(S)
  /\ Commit([NoOp EXCEPT !.op = "new", !.a = bx, !.q = q, !.res = Len(objs) + 1],
            Append(objs, MkObj(S, TRUE, nb)), devs, nb + 1, FALSE)

DoSetOp(kind, a, b) ==
  /\ IsObj(a) /\ IsObj(b)
  /\ LET S == SetOpMech(kind, objs[a].cells, objs[b].cells)
         o == [NoOp EXCEPT !.op = "setop", !.kind = kind, !.a = a, !.b = b] IN
       IF SetOpRaises(kind, objs[a].cells, objs[b].cells, S)
       THEN Commit([o EXCEPT !.out = "ValueError"], objs, devs, nb, TRUE)
       ELSE Commit([o EXCEPT !.res = Len(objs) + 1], Append(objs, MkObj(S, TRUE, nb)), devs, nb + 1, TRUE)

\* polygon = self if inplace else self.copy(); polygon.points = image   (the setter allocates)
TransformObjs(os, a, inplace, img, reflect, nbuf) ==
  LET self == inplace \/ ~MCopyOnTransform
      res  == IF self THEN a ELSE Len(os) + 1
      os1  == IF self THEN os ELSE Append(os, MkObj(os[a].cells, os[a].ccw, nbuf))
      ccw2 == IF MOrient THEN TRUE ELSE (IF reflect THEN ~os[a].ccw ELSE os[a].ccw)
  IN  [os1 EXCEPT ![res] = MkObj(img, ccw2, nbuf + 1)]
TransformRes(os, a, inplace) == IF inplace \/ ~MCopyOnTransform THEN a ELSE Len(os) + 1

DoRotate(a, q, oc, inplace) ==
  /\ IsObj(a)
  /\ LET img == RotSet(objs[a].cells, PairOf(oc), q) IN
     /\ InGrid(img)
     /\ Commit([NoOp EXCEPT !.op = "rotate", !.a = a, !.q = q, !.org = PairOf(oc), !.inplace = inplace,
                            !.res = TransformRes(objs, a, inplace)],
               TransformObjs(objs, a, inplace, img, FALSE, nb), devs, nb + 2, TRUE)

DoTranslate(a, sc, inplace) ==
  /\ IsObj(a)
  /\ LET img == ShiftSet(objs[a].cells, PairOf(sc)) IN
     /\ InGrid(img)
     /\ Commit([NoOp EXCEPT !.op = "translate", !.a = a, !.par = PairOf(sc), !.inplace = inplace,
                            !.res = TransformRes(objs, a, inplace)],
               TransformObjs(objs, a, inplace, img, FALSE, nb), devs, nb + 2, TRUE)

DoScale(a, fc, oc, inplace) ==
  /\ IsObj(a)
  /\ LET f == PairOf(fc)
         img == ScaleSet(objs[a].cells, f, PairOf(oc)) IN
     /\ f[1] # 0 /\ f[2] # 0
     /\ InGrid(img)
     /\ Commit([NoOp EXCEPT !.op = "scale", !.a = a, !.par = f, !.org = PairOf(oc), !.inplace = inplace,
                            !.res = TransformRes(objs, a, inplace)],
               TransformObjs(objs, a, inplace, img, f[1] * f[2] < 0, nb), devs, nb + 2, TRUE)

DoCopy(a) ==
  /\ IsObj(a)
  /\ Commit([NoOp EXCEPT !.op = "copy", !.a = a, !.res = Len(objs) + 1],
            Append(objs, MkObj(objs[a].cells, objs[a].ccw, IF MCopyFresh THEN nb ELSE objs[a].buf)), devs, nb + 1, TRUE)

\* a.points[:] += (dx, dy): a raw write into the vertex buffer; every object that shares it moves
DoPoke(a, sc) ==
  /\ IsObj(a)
  /\ LET img == ShiftSet(objs[a].cells, PairOf(sc)) IN
     /\ InGrid(img)
     /\ Commit([NoOp EXCEPT !.op = "poke", !.a = a, !.par = PairOf(sc), !.inplace = TRUE, !.res = a],
               [i \in 1 .. Len(objs) |-> IF objs[i].buf = objs[a].buf THEN MkObj(img, objs[i].ccw, objs[i].buf) ELSE objs[i]],
               devs, nb, TRUE)

Distinct(hs) == \A j, k \in 1 .. Len(hs) : j # k => hs[j] # hs[k]
\* Device(film, holes, probe_points): the probe points (two of them, or none) are validated against the device at
\* construction: ValueError unless every one lies inside the film and outside every hole
\* "outside": one probe in a hole of the film if there is such a cell, else anywhere outside
ProbeChoice(pm, ins, inhole) ==
  CASE pm = "none" -> <<>>
    [] pm = "inside" -> <<Centre2(MinCell(ins)), Centre2(MaxCell(ins))>>
    [] pm = "outside" -> <<Centre2(IF inhole # {} THEN MinCell(inhole) ELSE MinCell(Cells \ ins)),
                           Centre2(IF ins # {} THEN MaxCell(ins) ELSE MaxCell(Cells))>>
DoMkDev(f, hs, pm) ==
  /\ IsObj(f) /\ \A k \in 1 .. Len(hs) : IsObj(hs[k]) /\ hs[k] # f
  /\ Distinct(hs)
  /\ LET dv0 == [film |-> f, holes |-> hs, inside |-> {}, probes |-> <<>>]
         ins == InsideSpec(objs, dv0)
     IN  /\ (pm = "inside" => Cardinality(ins) >= 2) /\ (pm = "outside" => ins # Cells)
         /\ LET pr == ProbeChoice(pm, ins, objs[f].cells \cap HoleCells(objs, dv0))
                o == [NoOp EXCEPT !.op = "mkdev", !.a = f, !.hs = hs, !.pm = pm, !.probes = pr]
                ok == ProbesIn(pr, InsideMech(objs, dv0))
            IN  IF ok THEN Commit([o EXCEPT !.res = Len(devs) + 1], objs, Append(devs, [dv0 EXCEPT !.probes = pr]), nb, TRUE)
                ELSE Commit([o EXCEPT !.out = "ValueError"], objs, devs, nb, TRUE)

\* Device.copy(): new polygons (film, then the holes in order), each owning a fresh buffer
CopiedObjs(os, dv, nbuf) ==
  os \o <<MkObj(os[dv.film].cells, os[dv.film].ccw, nbuf)>>
     \o [k \in 1 .. Len(dv.holes) |-> MkObj(os[dv.holes[k]].cells, os[dv.holes[k]].ccw, nbuf + k)]
CopiedDev(os, dv) == [film |-> Len(os) + 1, holes |-> [k \in 1 .. Len(dv.holes) |-> Len(os) + 1 + k], inside |-> {},
                      probes |-> dv.probes]
DevMembers(dv) == <<dv.film>> \o dv.holes

\* every new Device validates its probe points against its film and holes AS THEY ARE NOW (they are referred to by
\* reference and may have been moved in place since): Device.copy() - and with it every non-in-place transform -
\* raises ValueError when a probe point no longer lies inside
DoDevCopy(d) ==
  /\ IsDev(d)
  /\ ProbesClear(devs[d].probes, InsideMech(objs, devs[d]))
  /\ IF ProbesIn(devs[d].probes, InsideMech(objs, devs[d]))
     THEN Commit([NoOp EXCEPT !.op = "devcopy", !.a = d, !.res = Len(devs) + 1],
                 CopiedObjs(objs, devs[d], nb), Append(devs, CopiedDev(objs, devs[d])), nb + 1 + Len(devs[d].holes), TRUE)
     ELSE Commit([NoOp EXCEPT !.op = "devcopy", !.a = d, !.out = "ValueError"], objs, devs, nb, TRUE)

\* device transforms: (a copy of) every polygon of the device is transformed in place
MapMembers(os, ms, Img(_), reflect, nbuf) ==
  [i \in 1 .. Len(os) |->
     IF \E k \in 1 .. Len(ms) : ms[k] = i
     THEN LET k == CHOOSE k \in 1 .. Len(ms) : ms[k] = i IN
          MkObj(Img(os[i].cells), IF MOrient THEN TRUE ELSE (IF reflect THEN ~os[i].ccw ELSE os[i].ccw), nbuf + k)
     ELSE os[i]]

DevTransform(o, d, inplace, Img(_), ImgP(_), reflect) ==
  LET dv  == devs[d]
      os1 == IF inplace THEN objs ELSE CopiedObjs(objs, dv, nb)
      dv0 == IF inplace THEN dv ELSE CopiedDev(objs, dv)
      dv1 == [dv0 EXCEPT !.probes = [k \in 1 .. Len(dv.probes) |-> ImgP(dv.probes[k])]]
      ds1 == IF inplace THEN [devs EXCEPT ![d] = dv1] ELSE Append(devs, dv1)
      nb1 == nb + 1 + Len(dv.holes)
      ms  == DevMembers(dv1)
  IN  /\ \A k \in 1 .. Len(ms) : InGrid(Img(os1[ms[k]].cells))
      /\ (~inplace => ProbesClear(dv.probes, InsideMech(objs, dv)))
      /\ IF inplace \/ ProbesIn(dv.probes, InsideMech(objs, dv))
         THEN Commit([o EXCEPT !.a = d, !.inplace = inplace, !.res = IF inplace THEN d ELSE Len(devs) + 1],
                     MapMembers(os1, ms, Img, reflect, nb1), ds1, nb1 + Len(ms) + 1, TRUE)
         ELSE Commit([o EXCEPT !.a = d, !.inplace = inplace, !.out = "ValueError"], objs, devs, nb, TRUE)

DoDevTranslate(d, sc, inplace) ==
  /\ IsDev(d)
  /\ LET Img(S) == ShiftSet(S, PairOf(sc))
         ImgP(P) == Shift2(P, PairOf(sc)) IN
       DevTransform([NoOp EXCEPT !.op = "devtranslate", !.par = PairOf(sc)], d, inplace, Img, ImgP, FALSE)
DoDevRotate(d, q, oc) ==
  /\ IsDev(d)
  /\ LET Img(S) == RotSet(S, PairOf(oc), q)
         ImgP(P) == Rot2(P, IF MProbeOrigin THEN PairOf(oc) ELSE <<0, 0>>, q) IN
       DevTransform([NoOp EXCEPT !.op = "devrotate", !.q = q, !.org = PairOf(oc)], d, FALSE, Img, ImgP, FALSE)
DoDevScale(d, fc, oc) ==
  /\ IsDev(d)
  /\ LET f == PairOf(fc)
         Img(S) == ScaleSet(S, f, PairOf(oc))
         ImgP(P) == Scale2(P, f, IF MProbeOrigin THEN PairOf(oc) ELSE <<0, 0>>) IN
       /\ f[1] # 0 /\ f[2] # 0
       /\ DevTransform([NoOp EXCEPT !.op = "devscale", !.par = f, !.org = PairOf(oc)], d, FALSE, Img, ImgP, f[1] * f[2] < 0)

----------------------------------------------------------------------------
\* enumeration inside the bounds (boxes first, in non-decreasing code order, then operations)
New == /\ nops = 0 /\ Len(objs) < MaxBoxes /\ devs = <<>>
       /\ \E bx \in Boxes, q \in TiltQuarters : (last.o.op = "new" => bx >= last.o.a) /\ DoNew(bx, q)
Ids == 1 .. Len(objs)
HoleSeqs == {<<>>} \cup (IF MaxHoles >= 1 THEN {<<j>> : j \in Ids} ELSE {})
                   \cup (IF MaxHoles >= 2 THEN {<<j, k>> : j, k \in Ids} ELSE {})
CanOp == nops < MaxOps /\ objs # <<>> /\ (nops > 0 \/ Len(objs) >= MinBoxes)
DevOpNames == {"mkdev", "devcopy", "devtranslate", "devrotate", "devscale"}
MemberSet(dv) == {dv.film} \cup {dv.holes[k] : k \in 1 .. Len(dv.holes)}
Free == ~Chained \/ nops = 0 \/ last.o.out # "ok"
Foc(S) == IF Free THEN TRUE
          ELSE IF last.o.op \in DevOpNames THEN MemberSet(devs[last.o.res]) \cap S # {} ELSE last.o.res \in S
FocD(d) == IF Free THEN TRUE
           ELSE IF last.o.op \in DevOpNames THEN d = last.o.res ELSE last.o.res \in MemberSet(devs[d])
ASetOp == CanOp /\ "setop" \in PolyOps /\ \E kind \in {"union", "intersection", "difference"}, a, b \in Ids : Foc({a, b}) /\ DoSetOp(kind, a, b)
ARotate == CanOp /\ "rotate" \in PolyOps /\ \E a \in Ids, q \in Quarters, oc \in Origins, ip \in BOOLEAN : Foc({a}) /\ DoRotate(a, q, oc, ip)
ATranslate == CanOp /\ "translate" \in PolyOps /\ \E a \in Ids, sc \in Shifts, ip \in BOOLEAN : Foc({a}) /\ DoTranslate(a, sc, ip)
AScale == CanOp /\ "scale" \in PolyOps /\ \E a \in Ids, fc \in Factors, oc \in Origins, ip \in BOOLEAN : Foc({a}) /\ DoScale(a, fc, oc, ip)
ACopy == CanOp /\ "copy" \in PolyOps /\ \E a \in Ids : Foc({a}) /\ DoCopy(a)
APoke == CanOp /\ "poke" \in PolyOps /\ \E a \in Ids, sc \in Shifts : Foc({a}) /\ DoPoke(a, sc)
AMkDev == CanOp /\ "mkdev" \in DevOps /\ \E f \in Ids, hs \in HoleSeqs, pm \in ProbeModes : Foc({f} \cup {hs[k] : k \in 1 .. Len(hs)}) /\ DoMkDev(f, hs, pm)
ADevCopy == CanOp /\ "devcopy" \in DevOps /\ \E d \in 1 .. Len(devs) : FocD(d) /\ DoDevCopy(d)
ADevTranslate == CanOp /\ "devtranslate" \in DevOps /\ \E d \in 1 .. Len(devs), sc \in Shifts, ip \in BOOLEAN : FocD(d) /\ DoDevTranslate(d, sc, ip)
ADevRotate == CanOp /\ "devrotate" \in DevOps /\ \E d \in 1 .. Len(devs), q \in Quarters, oc \in Origins : FocD(d) /\ DoDevRotate(d, q, oc)
ADevScale == CanOp /\ "devscale" \in DevOps /\ \E d \in 1 .. Len(devs), fc \in Factors, oc \in Origins : FocD(d) /\ DoDevScale(d, fc, oc)
Next == \/ New \/ ASetOp \/ ARotate \/ ATranslate \/ AScale \/ ACopy \/ APoke
        \/ AMkDev \/ ADevCopy \/ ADevTranslate \/ ADevRotate \/ ADevScale
Spec == Init /\ [][Next]_vars

\* behaviour export: every chain (prefix-closed) with the expected abstract heap after its last step;
\* the harness reassembles complete chains with the expected heap after every step
Emit == (Export /\ hist # <<>>) => PrintT(ToJson([ops |-> hist, exp |-> Snapshot(objs, devs)]))

----------------------------------------------------------------------------
\* The clauses of C18, as predicates of the last operation, the heap before it and the heap after it.
L == last.o
Pre == last.pre
Ok == L.out = "ok"
NPre == Len(Pre)
Transforms == {"rotate", "translate", "scale"}
DevTransforms == {"devtranslate", "devrotate", "devscale"}
Det == IF L.op \in {"scale", "devscale"} THEN Abs(L.par[1] * L.par[2]) ELSE 1
ImageOf(S) == CASE L.op \in {"rotate", "devrotate"} -> RotSet(S, L.org, L.q)
                [] L.op \in {"translate", "devtranslate", "poke"} -> ShiftSet(S, L.par)
                [] L.op \in {"scale", "devscale"} -> ScaleSet(S, L.par, L.org)
ImageP(P) == CASE L.op = "devrotate" -> Rot2(P, L.org, L.q)
               [] L.op = "devtranslate" -> Shift2(P, L.par)
               [] L.op = "devscale" -> Scale2(P, L.par, L.org)
\* for a device transform: pairs <<object before, object after>>
DevPairs == IF L.op \in DevTransforms /\ L.out = "ok"
            THEN LET old == DevMembers(last.pdevs[L.a])
                     new == DevMembers(devs[L.res])
                 IN  {<<old[k], new[k]>> : k \in 1 .. Len(old)}
            ELSE {}

TypeOK == /\ \A i \in 1 .. Len(objs) : objs[i].cells \subseteq Cells /\ objs[i].cells # {}
          /\ \A d \in 1 .. Len(devs) : devs[d].film \in 1 .. Len(objs) /\ devs[d].inside \subseteq Cells

\* what the observations say about one object is coherent: area = number of member cells, bbox = their hull
AreaMatchesMembership == \A i \in 1 .. Len(objs) : objs[i].area = Cardinality(objs[i].cells) /\ objs[i].bbox = BBox(objs[i].cells)

\* vertices always stored closed and counter-clockwise (also after reflections)
StoredClosedAndCCW == \A i \in 1 .. Len(objs) : objs[i].closed /\ objs[i].ccw

\* rotation and translation preserve area, scaling multiplies it by |fx*fy|
AreaLaw == /\ (L.op \in Transforms /\ Ok) => objs[L.res].area = Det * Pre[L.a].area
           /\ \A p \in DevPairs : objs[p[2]].area = Det * Pre[p[1]].area

\* points map consistently with the shapes: the image of the shape is the shape of the image
PointsMapWithShapes == /\ (L.op \in Transforms /\ Ok) => objs[L.res].cells = ImageOf(Pre[L.a].cells)
                       /\ \A p \in DevPairs : objs[p[2]].cells = ImageOf(Pre[p[1]].cells)
                       \* the probe points of a device travel with its film and holes
                       /\ (L.op \in DevTransforms /\ Ok) =>
                             LET old == last.pdevs[L.a].probes
                                 new == devs[L.res].probes
                             IN  Len(new) = Len(old) /\ \A k \in 1 .. Len(old) : new[k] = ImageP(old[k])

\* union / intersection / difference agree with point-wise membership of the operands;
\* they raise exactly when the point-wise result is not a polygon
SetOpsArePointwise ==
  L.op = "setop" =>
    LET S == SetOpCells(L.kind, Pre[L.a].cells, Pre[L.b].cells) IN
      IF Ok THEN L.res = NPre + 1 /\ Len(objs) = NPre + 1 /\ objs[L.res].cells = S
      ELSE L.out = "ValueError" /\ SetOpRaises(L.kind, Pre[L.a].cells, Pre[L.b].cells, S) /\ Len(objs) = NPre

Unchanged(I) == \A i \in I : Obs(objs[i]) = Obs(Pre[i])
DevsUnchanged == \A d \in 1 .. Len(last.pdevs) : devs[d] = last.pdevs[d]

\* non-in-place operations (and failed ones) never mutate anything that existed before
NonInplaceNeverMutates ==
  (L.op \in {"new", "setop", "copy", "mkdev", "devcopy", "devrotate", "devscale"}
     \/ (L.op \in Transforms \cup {"devtranslate"} /\ ~L.inplace) \/ ~Ok)
  => Unchanged(1 .. NPre) /\ DevsUnchanged

\* in-place returns self, not-in-place returns a new object
InplaceReturnsSelf ==
  /\ (L.op \in Transforms /\ L.inplace) => L.res = L.a /\ Len(objs) = NPre
  /\ (L.op \in Transforms /\ ~L.inplace) => L.res = NPre + 1 /\ Len(objs) = NPre + 1
  /\ (L.op = "devtranslate" /\ L.inplace) => L.res = L.a /\ Len(objs) = NPre /\ Len(devs) = Len(last.pdevs)
  /\ (L.op \in DevTransforms /\ ~L.inplace /\ Ok) => L.res = Len(last.pdevs) + 1 /\ Len(devs) = Len(last.pdevs) + 1

\* copies never alias: no two objects share a buffer, a copy equals its original, and mutating one
\* object (in place or through its vertex array) changes no other object
CopiesDoNotAlias ==
  /\ \A i, j \in 1 .. Len(objs) : i # j => objs[i].buf # objs[j].buf
  /\ L.op = "copy" => L.res = NPre + 1 /\ Len(objs) = NPre + 1 /\ Obs(objs[L.res]) = Obs(Pre[L.a])
  /\ (L.op = "devcopy" /\ Ok) => /\ Len(devs) = Len(last.pdevs) + 1
                         /\ LET old == DevMembers(last.pdevs[L.a])
                                new == DevMembers(devs[L.res]) IN
                              /\ Len(old) = Len(new) /\ devs[L.res].probes = last.pdevs[L.a].probes
                              /\ \A k \in 1 .. Len(old) : new[k] > NPre /\ Obs(objs[new[k]]) = Obs(Pre[old[k]])
  /\ ((L.op \in Transforms /\ L.inplace) \/ L.op = "poke") => Unchanged((1 .. NPre) \ {L.a})
  /\ (L.op = "devtranslate" /\ L.inplace) =>
        Unchanged((1 .. NPre) \ {DevMembers(last.pdevs[L.a])[k] : k \in 1 .. Len(DevMembers(last.pdevs[L.a]))})

\* a point is inside a device exactly when it is inside the film and outside every hole
DeviceIsFilmMinusHoles == \A d \in 1 .. Len(devs) : devs[d].inside = InsideSpec(objs, devs[d])

\* transforms, copies and device operations never fail on valid shapes
Constructs == L.op \in {"mkdev", "devcopy"} \/ (L.op \in DevTransforms /\ ~L.inplace)
OnlySetOpsFail == ~Ok => (L.op = "setop" \/ Constructs)
\* whenever a Device is constructed (also by copy() and by the non-in-place transforms) its probe points are accepted
\* exactly when all of them lie inside the film and outside every hole, as these are at that moment
ProbesValidatedAtConstruction ==
  Constructs =>
    LET pr == IF L.op = "mkdev" THEN L.probes ELSE last.pdevs[L.a].probes
        ins == IF L.op = "mkdev" THEN InsideSpec(Pre, [film |-> L.a, holes |-> L.hs]) ELSE InsideSpec(Pre, last.pdevs[L.a])
    IN  IF ProbesIn(pr, ins) THEN Ok /\ Len(devs) = Len(last.pdevs) + 1 /\ (L.op = "mkdev" => devs[L.res].probes = L.probes)
        ELSE L.out = "ValueError" /\ Len(devs) = Len(last.pdevs) /\ Len(objs) = NPre

\* a primitive given with angle = 90 q is the untilted one turned counter-clockwise about (0, 0)
PrimitiveAngleIsCounterClockwise ==
  L.op = "new" => Ok /\ L.res = Len(objs) /\ objs[L.res].cells = RotSet(BoxCells(BoxOf(L.a)), <<0, 0>>, L.q)

Clauses == /\ TypeOK /\ OnlySetOpsFail /\ ProbesValidatedAtConstruction /\ PrimitiveAngleIsCounterClockwise /\ AreaMatchesMembership /\ StoredClosedAndCCW /\ AreaLaw /\ PointsMapWithShapes
           /\ SetOpsArePointwise /\ NonInplaceNeverMutates /\ InplaceReturnsSelf /\ CopiesDoNotAlias
           /\ DeviceIsFilmMinusHoles

----------------------------------------------------------------------------
\* Relations for shapes without a cell model (circles, ellipses, any angle).  All numbers are
\* quantised integers; q is the quantum count (areas in 1e-6 units), bits are memberships of probes.
RelArea(a0, a1, num, den) == Abs(a1 * den - a0 * num) <= den + num + (a0 \div 1000000)
AllSame(x, y) == Len(x) = Len(y) /\ \A k \in 1 .. Len(x) : x[k] = y[k]
RelHolds(e) ==
  CASE e.rel = "area"   -> RelArea(e.a0, e.a1, e.num, e.den)                \* area law under a transform of determinant num/den
    [] e.rel = "flags"  -> e.closed /\ e.ccw                                  \* stored closed and counter-clockwise
    [] e.rel = "bits"   -> AllSame(e.x, e.y)                                  \* probes map consistently with the shape
    [] e.rel = "setop"  -> /\ Len(e.a) = Len(e.r) /\ Len(e.b) = Len(e.r)     \* set operations are point-wise
                           /\ \A k \in 1 .. Len(e.r) : e.r[k] = Pointwise(e.kind, e.a[k], e.b[k])
    [] e.rel = "same"   -> AllSame(e.x, e.y)                                  \* the original did not move
    [] e.rel = "moved"  -> ~AllSame(e.x, e.y)                                 \* the mutated object did (non-vacuity)
    [] e.rel = "zero"   -> \A k \in 1 .. Len(e.x) : Abs(e.x[k]) <= e.tol            \* quantised deviation from the mapped points
    [] e.rel = "ident"  -> e.same = e.expect                                  \* result is self iff inplace
    [] e.rel = "dev"    -> /\ Len(e.film) = Len(e.dev)                        \* device = film minus holes
                           /\ \A k \in 1 .. Len(e.dev) :
                                 e.dev[k] = (e.film[k] /\ \A h \in 1 .. Len(e.holes) : ~e.holes[h][k])
=============================================================================
