---------------------------- MODULE StepCtlTrace ----------------------------
(***************************************************************************)
(* Trace validation for StepCtl: a batch of executions recorded from the   *)
(* REAL TDGLSolver.update (harness/stepctl.py) is checked to be a set of   *)
(* behaviours of StepCtl; the property clauses of StepCtl are evaluated in *)
(* every state reached while consuming each trace.                         *)
(*                                                                         *)
(* Two kinds of trace (field `mode`):                                      *)
(*                                                                         *)
(* "exact"  scripted physics (spec -> code replays).  All step sizes,      *)
(*          deltas and potentials are dyadic, the abstraction maps the     *)
(*          code's floats to the model's fixed-point integers (relative    *)
(*          1e-9, anything else is BOT, which no action accepts) and the   *)
(*          FULL actions of StepCtl (control and numeric parts) must match.*)
(*                                                                         *)
(* "flags"  natural runs of the real solver (real physics, arbitrary       *)
(*          floats).  This is the VARIANT in which numeric values are      *)
(*          replaced by relation flags: the abstraction evaluates, in      *)
(*          floating point and with a tight tolerance, relations between   *)
(*          the logged values ("this attempt's dt is the previous one      *)
(*          times the multiplier", "the new tentative step equals the      *)
(*          documented formula evaluated on the logged window", "the       *)
(*          Polyak relation holds between the logged arrays", ...) and     *)
(*          reports the SET of relations that hold.  The trace is checked  *)
(*          against the CONTROL parts of the same StepCtl actions (pc,     *)
(*          step, screening iteration, retry counter, convergence flag);   *)
(*          which relation is required where is decided here from the      *)
(*          control state (history), not by the harness.  The numeric      *)
(*          variables of StepCtl stay at their initial values.             *)
(*          Frames read back from the output file are `frame` events:      *)
(*          quantised mismatch between the stored induced potential and    *)
(*          the double sum over the stored currents, in 1/1000 of the      *)
(*          tolerance.                                                     *)
(*                                                                         *)
(* `restart` events mark the end of the thermalisation stage (the next      *)
(* update is called with step 0 again); they bind StageRestart.            *)
(* Test (top of the screening loop) has no observable call and is a silent *)
(* step.  A raise is the `raise` event that follows the action which made  *)
(* pc = "raised".                                                          *)
(***************************************************************************)
EXTENDS StepCtl, IOUtils, TLCExt

Batch == JsonDeserialize(IOEnv.TRACE_FILE)

VARIABLES tid, l, obs
tvars == <<vars, tid, l, obs>>

T == Batch[tid]
Ev == T.ev[l]
SeqToSet(sq) == {sq[n] : n \in 1..Len(sq)}
Rels == SeqToSet(Ev.rels)
Exact == T.mode = "exact"
Flags == T.mode = "flags"

CfgOf(tr) == [thermal |-> tr.cfg.thermal, adaptive |-> tr.cfg.adaptive, screening |-> tr.cfg.screening, window |-> tr.cfg.window,
              retries |-> tr.cfg.retries, mulexp |-> tr.cfg.mulexp, inite |-> tr.cfg.inite, maxe |-> tr.cfg.maxe,
              maxiter |-> tr.cfg.maxiter, tolexp |-> tr.cfg.tolexp, alphaexp |-> tr.cfg.alphaexp,
              betaq |-> tr.cfg.betaq]

\* what the abstraction reported about the last event (flags mode); all TRUE / 0 when nothing is claimed
ObsOk == [pos |-> TRUE, lemax |-> TRUE, isinit |-> TRUE, azero |-> TRUE, frame |-> FALSE, mism |-> 0]

TInit == /\ tid \in 1..Len(Batch) /\ l = 1 /\ obs = ObsOk /\ InitWith(CfgOf(Batch[tid]))

IsEv(e) == l <= Len(T.ev) /\ Ev.ev = e /\ l' = l + 1 /\ UNCHANGED tid
Silent(A) == A /\ UNCHANGED <<tid, l, obs>>
Pair(x) == <<x[1], x[2]>>

-----------------------------------------------------------------------------
(* exact mode *)
XBegin == /\ IsEv("begin") /\ Begin /\ step = Ev.step /\ tent = Ev.tent /\ UNCHANGED obs
XLinks == /\ IsEv("links") /\ Links /\ Aind = Pair(Ev.a) /\ UNCHANGED obs
XRefuse == /\ IsEv("attempt") /\ Ev.refused /\ Refuse /\ dt = Ev.dt /\ UNCHANGED obs
XAnswer == /\ IsEv("attempt") /\ ~Ev.refused /\ Answer(Ev.delta) /\ dt = Ev.dt /\ UNCHANGED obs
XInduced == /\ IsEv("induced") /\ InducedWith(Pair(Ev.k))
            /\ Aind' = Pair(Ev.a) /\ vel' = Pair(Ev.v) /\ conv' = Ev.conv /\ UNCHANGED obs
XFinish == /\ IsEv("return") /\ Finish /\ dt = Ev.dt /\ tent' = Ev.tent
           /\ (Screening => s = Ev.iters) /\ Aind = Pair(Ev.a) /\ UNCHANGED obs
XRaise == /\ IsEv("raise") /\ pc = "raised" /\ why = Ev.why /\ pc' = "dead"
          /\ UNCHANGED <<cfg, stage, step, s, retries, nref, why, conv, prevconv, kcalls, nvars, obs>>
XRestart == /\ IsEv("restart") /\ StageRestart /\ UNCHANGED obs
XNext == XRestart \/ XBegin \/ XLinks \/ XRefuse \/ XAnswer \/ XInduced \/ XFinish \/ XRaise \/ Silent(Test)

-----------------------------------------------------------------------------
(* flags mode: control parts + relation flags *)
\* which relation the dt of an attempt must satisfy, from the control history
NeedDt == IF retries > 0 THEN "mult" ELSE IF s = 0 THEN "tent" ELSE "keep"
DtObs == [ObsOk EXCEPT !.pos = Ev.pos, !.lemax = Ev.lemax, !.isinit = Ev.isinit]

\* every update but the first of the run starts from what the previous one returned (also across the stage restart)
FirstUpdate == step = 0 /\ stage = (IF cfg.thermal THEN 1 ELSE 2)
\* ... and the very first update of a run starts with tentative_dt = dt_init (InitWith), whatever the run was seeded from
FBegin == /\ IsEv("begin") /\ BeginCtl /\ step = Ev.step /\ (FirstUpdate \/ "carried" \in Rels)
          /\ (FirstUpdate => "tentinit" \in Rels)
          /\ obs' = ObsOk /\ UNCHANGED nvars
FLinks == /\ IsEv("links") /\ LinksCtl /\ "iterate" \in Rels /\ obs' = ObsOk /\ UNCHANGED nvars
FRefuse == /\ IsEv("attempt") /\ Ev.refused /\ RefuseCtl /\ NeedDt \in Rels /\ obs' = DtObs /\ UNCHANGED nvars
FAnswer == /\ IsEv("attempt") /\ ~Ev.refused /\ AnswerCtl /\ NeedDt \in Rels /\ obs' = DtObs /\ UNCHANGED nvars
FInduced == /\ IsEv("induced") /\ InducedCtl(Ev.conv) /\ {"polyak", "error", "kernel"} \subseteq Rels
            /\ obs' = ObsOk /\ UNCHANGED nvars
FFinish == /\ IsEv("return") /\ FinishCtl
           /\ "last" \in Rels                                   \* the step returned is the one of the answered attempt
           /\ (IF Adaptive /\ step > Window THEN "rule" ELSE "unchanged") \in Rels
           /\ (Screening => s = Ev.iters)
           /\ obs' = [DtObs EXCEPT !.azero = Ev.azero] /\ UNCHANGED nvars
FRaise == /\ IsEv("raise") /\ pc = "raised" /\ why = Ev.why /\ pc' = "dead" /\ obs' = ObsOk
          /\ UNCHANGED <<cfg, stage, step, s, retries, nref, why, conv, prevconv, kcalls, nvars>>
\* a frame read back from the output file after the run
FFrame == /\ IsEv("frame") /\ pc \in {"begin", "dead"}
          /\ obs' = [ObsOk EXCEPT !.frame = TRUE, !.mism = Ev.mism, !.azero = Ev.azero]
          /\ UNCHANGED vars
FRestart == /\ IsEv("restart") /\ StageRestartCtl /\ obs' = ObsOk /\ UNCHANGED nvars
\* after the run: the options object handed to tdgl.solve compared with itself before the run, field by field;
\* `changed` lists the fields that differ: a run must not rewrite what the caller asked for
FOptions == /\ IsEv("options") /\ pc \in {"begin", "dead"} /\ Len(Ev.changed) = 0 /\ obs' = ObsOk /\ UNCHANGED vars
\* how tdgl.solve ended: the error raised inside update (retries exhausted, iteration limit) must come out of the run -
\* "raises an error instead of continuing" - whether it happens at step 0, at a multiple of save_every or in thermalisation
FSolveEnd == /\ IsEv("solve") /\ pc \in {"begin", "dead"} /\ Ev.raised = (IF pc = "dead" THEN why ELSE "none")
             /\ obs' = ObsOk /\ UNCHANGED vars
FNext == FSolveEnd \/ FOptions \/ FRestart \/ FBegin \/ FLinks \/ FRefuse \/ FAnswer \/ FInduced \/ FFinish \/ FRaise \/ FFrame
         \/ Silent(TestCtl /\ UNCHANGED nvars)

TNext == (Exact /\ XNext) \/ (Flags /\ FNext)
TSpec == TInit /\ [][TNext]_tvars

\* clauses on the reported observations (flags mode; trivially true in exact mode)
ObsDtPositive == obs.pos
ObsDtAtMostMax == obs.lemax
ObsNonAdaptiveDtIsInit == ~Adaptive => obs.isinit
ObsNoScreeningInducedZero == ~Screening => obs.azero
\* "a modest multiple of the tolerance".  Since /repo 2699d13 the exit test measures the mismatch between the kernel
\* output and the iterate that is returned and stored, so a stored frame reproduces the double sum over its own stored
\* currents to the tolerance itself: measured worst case over the thorough matrix (tolerances 1e-4..1e-2, five
\* (alpha, beta) pairs incl. under-damped (0.5, 0.5) and (0.7, 0.3), bar / barhole / ring / tee / film, m / mm / nm units)
\* is 0.99 tol.  History: 3 (round 0), then 10 while the test was on the increment (momentum left up to 5 tol, and up
\* to 227 tol after 5f32cc7: zero crossing with momentum, the defect repaired by 2699d13); back to 3.
\* Gross errors (dropped area factor, wrong prefactor) are >= 100 tol.
FrameTolMultiple == 3
ObsFrameSelfConsistent == (obs.frame /\ Screening) => obs.mism <= FrameTolMultiple * 1000

Accepted == (l = Len(T.ev) + 1 /\ pc \in {"begin", "dead"}) => PrintT(<<"ACCEPT", tid>>)
Progress == PrintT(<<"AT", tid, l>>)
=============================================================================
