---------------------------- MODULE RunCounters ----------------------------
(***************************************************************************)
(* Counters-only abstraction of the run loop of TdglRun (repaired          *)
(* mechanism: the stop test precedes the update), used to lift two C05     *)
(* clauses from TLC's bounds to ALL save intervals k >= 1 and ALL run      *)
(* lengths with an inductive invariant discharged by Apalache              *)
(*   Init => IndInv   and   IndInv /\ Next => IndInv'                      *)
(* The refinement link to TdglRun is by construction: i, applied, bstep    *)
(* are TdglRun's variables of the same names, `cleared` is the step of the *)
(* last Clear, `fstep/fcontent/frecs` describe the last frame written.     *)
(***************************************************************************)
EXTENDS Integers

CONSTANT
  \* @type: Int;
  K

VARIABLES
  \* @type: Str;
  pc,
  \* @type: Int;
  i,
  \* @type: Int;
  applied,
  \* @type: Int;
  bstep,
  \* @type: Int;
  cleared,
  \* @type: Int;
  fstep,
  \* @type: Int;
  fcontent,
  \* @type: Int;
  frecs,
  \* @type: Int;
  fprev

ConstInit == K \in Nat /\ K >= 1

Init == /\ pc = "label" /\ i = 0 /\ applied = 0 /\ bstep = 0 /\ cleared = 0
        /\ fstep = -1 /\ fcontent = -1 /\ frecs = 0 /\ fprev = -1

\* Label + Save + Clear at multiples of k
Label == /\ pc = "label"
         /\ IF i % K = 0
              THEN /\ fprev' = fstep /\ fstep' = i /\ fcontent' = applied /\ frecs' = bstep
                   /\ bstep' = 0 /\ cleared' = i
              ELSE UNCHANGED <<fprev, fstep, fcontent, frecs, bstep, cleared>>
         /\ pc' = "stop"
         /\ UNCHANGED <<i, applied>>

\* the environment decides whether the requested time has been reached
Stop == /\ pc = "stop"
        /\ \/ pc' = "update"
           \/ pc' = "final"
        /\ UNCHANGED <<i, applied, bstep, cleared, fprev, fstep, fcontent, frecs>>

Update == /\ pc = "update"
          /\ applied' = applied + 1 /\ i' = i + 1 /\ bstep' = bstep + 1
          /\ pc' = "label"
          /\ UNCHANGED <<cleared, fprev, fstep, fcontent, frecs>>

Final == /\ pc = "final"
         /\ IF i % K # 0
              THEN /\ fprev' = fstep /\ fstep' = i /\ fcontent' = applied /\ frecs' = bstep
              ELSE UNCHANGED <<fprev, fstep, fcontent, frecs>>
         /\ pc' = "done"
         /\ UNCHANGED <<i, applied, bstep, cleared>>

Next == Label \/ Stop \/ Update \/ Final

\* ---- the C05 clauses, for every k and every run length
FrameHoldsExactlyStepUpdates == fstep >= 0 => fcontent = fstep
RecordsCoverStepsSincePreviousFrame == (fstep >= 0 /\ fprev >= 0) => frecs = fstep - fprev
FinalFrameIsLastStep == pc = "done" => fstep = i
FramesAtMultiplesUntilFinal == (pc # "done" /\ fstep >= 0) => fstep % K = 0

\* ---- inductive invariant
IndInv ==
  /\ K >= 1
  /\ pc \in {"label", "stop", "update", "final", "done"}
  /\ i >= 0 /\ applied = i
  /\ cleared >= 0 /\ cleared <= i /\ cleared % K = 0
  /\ bstep = i - cleared
  /\ i - cleared <= K
  /\ (pc \in {"stop", "update", "final", "done"} => i - cleared < K)
  /\ (pc = "label" /\ i > 0 => cleared < i)
  /\ (pc = "label" /\ i = 0 => fstep = -1 /\ fprev = -1)
  /\ fstep >= -1 /\ fprev >= -1
  /\ (i > 0 \/ pc # "label" => fstep >= 0)
  /\ (fstep >= 0 => fcontent = fstep)
  /\ (pc # "done" => (fstep >= 0 => fstep = cleared))
  /\ (pc # "done" /\ fstep < 0 => i = 0 /\ pc = "label")
  /\ ((fstep >= 0 /\ fprev >= 0) => frecs = fstep - fprev)
  /\ (fprev >= 0 => fprev % K = 0 /\ fprev < fstep)
  /\ (fprev < 0 /\ fstep >= 0 => fstep = 0 /\ frecs = 0)
  /\ (pc = "done" => fstep = i /\ (fprev >= 0 => fprev = cleared \/ (i % K = 0 /\ fstep = cleared)))
  /\ (pc # "done" /\ fprev >= 0 => fprev = fstep - K)

\* initial predicate in assignment form for the inductive step (Apalache)
IndInit == /\ pc \in {"label", "stop", "update", "final", "done"}
           /\ i \in Int /\ applied \in Int /\ bstep \in Int /\ cleared \in Int
           /\ fstep \in Int /\ fcontent \in Int /\ frecs \in Int /\ fprev \in Int
           /\ IndInv

Props == /\ FrameHoldsExactlyStepUpdates /\ RecordsCoverStepsSincePreviousFrame
         /\ FinalFrameIsLastStep /\ FramesAtMultiplesUntilFinal
=============================================================================
