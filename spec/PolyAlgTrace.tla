--------------------------- MODULE PolyAlgTrace ---------------------------
(***************************************************************************)
(* Trace validation for PolyAlg (C18).                                     *)
(*                                                                         *)
(* kind = "chain": a chain of operations executed with REAL tdgl.Polygon / *)
(* tdgl.Device objects; after every operation the harness abstracts every  *)
(* live object (membership of the cell centres as row masks, area, bbox,   *)
(* closed, ccw, buffer leader, identity of the returned object, exception  *)
(* class) and every live device (film, holes, membership).                 *)
(*   Strict = TRUE : the execution must be a behaviour of PolyAlg: the     *)
(*     operation named by the event is applied to the model heap and the   *)
(*     resulting heap, result identity and outcome must equal what was     *)
(*     observed; the clauses of C18 are evaluated in every state.          *)
(*   Strict = FALSE: the heap is taken from the observation alone and the  *)
(*     clauses decide (used to name the clause an execution breaks).       *)
(* kind = "rel": a sequence of relations between quantised observations of *)
(* shapes that have no cell model (circles, ellipses, arbitrary angles);   *)
(* each must satisfy RelHolds.                                             *)
(***************************************************************************)
EXTENDS PolyAlg, IOUtils, TLCExt

CONSTANT Strict

Batch == JsonDeserialize(IOEnv.TRACE_FILE)

VARIABLES tid, l
tvars == <<vars, tid, l>>

T == Batch[tid]
Ev == T.ev[l]

TInit == tid \in 1 .. Len(Batch) /\ l = 1 /\ Init

IsEv == l <= Len(T.ev) /\ l' = l + 1 /\ UNCHANGED tid

ObsObj(r) == [cells |-> FromRows(r.rows), area |-> r.area, bbox |-> <<r.bbox[1], r.bbox[2], r.bbox[3], r.bbox[4]>>,
              ccw |-> r.ccw, closed |-> r.closed, buf |-> r.lead]
ObsDev(r) == [film |-> r.film, holes |-> r.holes, inside |-> FromRows(r.inside),
              probes |-> [k \in 1 .. Len(r.probes) |-> <<r.probes[k][1], r.probes[k][2]>>]]

HeapMatches(os, ds) ==
  /\ Len(os) = Len(Ev.objs)
  /\ \A i \in 1 .. Len(os) : Obs(os[i]) = Obs(ObsObj(Ev.objs[i])) /\ Leader(os, i) = Ev.objs[i].lead
  /\ Len(ds) = Len(Ev.devs)
  /\ \A d \in 1 .. Len(ds) : ds[d] = ObsDev(Ev.devs[d])

Applied ==
  CASE Ev.op = "new"          -> DoNew(Ev.box, Ev.q)
    [] Ev.op = "setop"        -> DoSetOp(Ev.kind, Ev.a, Ev.b)
    [] Ev.op = "rotate"       -> DoRotate(Ev.a, Ev.q, Ev.orgc, Ev.inplace)
    [] Ev.op = "translate"    -> DoTranslate(Ev.a, Ev.parc, Ev.inplace)
    [] Ev.op = "scale"        -> DoScale(Ev.a, Ev.parc, Ev.orgc, Ev.inplace)
    [] Ev.op = "copy"         -> DoCopy(Ev.a)
    [] Ev.op = "poke"         -> DoPoke(Ev.a, Ev.parc)
    [] Ev.op = "mkdev"        -> DoMkDev(Ev.a, Ev.hs, Ev.pm)
    [] Ev.op = "devcopy"      -> DoDevCopy(Ev.a)
    [] Ev.op = "devtranslate" -> DoDevTranslate(Ev.a, Ev.parc, Ev.inplace)
    [] Ev.op = "devrotate"    -> DoDevRotate(Ev.a, Ev.q, Ev.orgc)
    [] Ev.op = "devscale"     -> DoDevScale(Ev.a, Ev.parc, Ev.orgc)

TStrict == /\ Strict /\ T.kind = "chain" /\ IsEv
           /\ Applied
           /\ last'.o.out = Ev.out /\ last'.o.res = Ev.res
           /\ HeapMatches(objs', devs')

OpOf(e) == [op |-> e.op, kind |-> e.kind, a |-> IF e.op = "new" THEN e.box ELSE e.a, b |-> e.b, inplace |-> e.inplace,
            q |-> e.q, par |-> PairOf(e.parc), org |-> PairOf(e.orgc), hs |-> e.hs, pm |-> e.pm,
            probes |-> [k \in 1 .. Len(e.probes) |-> <<e.probes[k][1], e.probes[k][2]>>], res |-> e.res, out |-> e.out]

TLoose == /\ ~Strict /\ T.kind = "chain" /\ IsEv
          /\ objs' = [i \in 1 .. Len(Ev.objs) |-> ObsObj(Ev.objs[i])]
          /\ devs' = [d \in 1 .. Len(Ev.devs) |-> ObsDev(Ev.devs[d])]
          /\ last' = [o |-> OpOf(Ev), pre |-> objs, pdevs |-> devs]
          /\ nops' = nops + 1 /\ UNCHANGED <<nb, hist>>

TRel == /\ T.kind = "rel" /\ IsEv
        /\ RelHolds(Ev)
        /\ UNCHANGED vars

TNext == TStrict \/ TLoose \/ TRel
TSpec == TInit /\ [][TNext]_tvars

Accepted == (l = Len(T.ev) + 1) => PrintT(<<"ACCEPT", tid>>)
Progress == PrintT(<<"AT", tid, l>>)
=============================================================================
