---------------------------- MODULE TdglRunTrace ----------------------------
(***************************************************************************)
(* Trace validation for TdglRun: a batch of executions recorded from the   *)
(* real tdgl.solve (scripted or natural update function) is checked to be  *)
(* a set of behaviours of TdglRun; the property invariants of TdglRun are  *)
(* evaluated in every state reached while consuming each trace.            *)
(*                                                                         *)
(* One logged event per observable action; actions without an event        *)
(* (Label, Clear, Stop, ...) are silent steps that do not advance l.       *)
(***************************************************************************)
EXTENDS TdglRun, Json, IOUtils, TLCExt

Batch == JsonDeserialize(IOEnv.TRACE_FILE)

VARIABLES tid, l
tvars == <<vars, tid, l>>

T == Batch[tid]
Ev == T.ev[l]
SeqToSet(s) == {s[n] : n \in 1..Len(s)}
CfgOf(tr) == [k |-> tr.cfg.k, solveT |-> tr.cfg.solveT, skipT |-> tr.cfg.skipT, out |-> tr.cfg.out,
              foreign |-> SeqToSet(tr.cfg.foreign), bad |-> tr.cfg.bad]

\* coarse traces log only reject / open / close / return (used for the rejection family, C19)
Coarse == T.coarse

TInit == /\ tid \in 1..Len(Batch) /\ l = 1 /\ InitWith(CfgOf(Batch[tid]))

IsEv(e) == l <= Len(T.ev) /\ Ev.ev = e /\ l' = l + 1 /\ UNCHANGED tid
Silent(A) == A /\ UNCHANGED <<tid, l>>

FsMatches(f, logged) == \A n \in Names : f[n] = logged[n]

\* validation phases: passing on is silent, rejecting is an event that names the phase
TPass == Silent((Build \/ Ctor \/ PreSolve) /\ pc' # "rejected")
TReject == /\ IsEv("reject") /\ (Build \/ Ctor \/ PreSolve) /\ pc' = "rejected"
           /\ Ev.phase = pc

TOpen == /\ IsEv("open") /\ OpenFiles
         /\ serial' = Ev.serial /\ FsMatches(fs', Ev.fs)

\* a frame written completely: the event carries what the writer was given
TSaveOk == /\ IsEv("save") /\ Ev.outcome = "ok" /\ SaveEnd
           /\ LET f == frames'[Len(frames')] IN
                /\ f.step = Ev.step /\ f.time = Ev.time /\ f.content = Ev.content
                /\ f.hasrs = Ev.hasrs /\ f.rs = Ev.rs

TSaveFault == /\ IsEv("save") /\ Ev.outcome \in {"KI", "Err", "KIR"} /\ pc \in {"save", "final"}
              /\ Fault(Ev.outcome, Ev.at) /\ i = Ev.step

TUpdateOk == /\ IsEv("update") /\ Ev.outcome = "ok" /\ Update
             /\ i = Ev.i /\ Ev.uid = NextUid
             /\ Ev.dt = (IF Saving THEN simdts'[Len(simdts')] ELSE tdts'[Len(tdts')])
             /\ applied' = Ev.content

TUpdateFault == /\ IsEv("update") /\ Ev.outcome \in {"KI", "Err", "KIR"} /\ pc = "update"
                /\ Fault(Ev.outcome, Ev.at) /\ i = Ev.i

\* faults outside the loop: while the context is being set up (pc = "run") or the solution assembled
TOuterFault == /\ IsEv("fault") /\ pc = Ev.where /\ Ev.outcome \in {"KI", "Err"}
               /\ Fault(Ev.outcome, Ev.at)

DiskFrame(f) == [step |-> f.step, time |-> f.time, content |-> f.content, hasrs |-> f.hasrs,
                 rs |-> f.rs, complete |-> f.complete]
TClose == /\ IsEv("close") /\ Close
          /\ FsMatches(fs', Ev.fs)
          /\ (~Coarse =>
                /\ Len(Ev.frames) = Len(frames)
                /\ \A n \in 1..Len(frames) :
                      IF frames[n].complete THEN DiskFrame(Ev.frames[n]) = frames[n]
                      ELSE ~Ev.frames[n].complete)    \* what a partial frame holds is not specified

TReturn == /\ IsEv("return") /\ pc \in {"returned", "rejected"}
           /\ result = Ev.result
           /\ FsMatches(fs, Ev.fs)
           /\ ((result = "solution" /\ ~Coarse) =>
                                      /\ Ev.ltimes = LoadedTimes
                                      /\ Ev.luids = LoadedUids
                                      /\ Ev.range = <<0, Len(frames) - 1>>)
           \* the documented accessors of the returned Solution (DynamicsData.time, the frame cursor addressed from
           \* the front and from the back, closest_solve_step; the harness folds voltage / phase_difference /
           \* time_slice / closest_time / mean_voltage into ltcum) are projections of the same frames and records
           /\ ((result = "solution" /\ ~Coarse /\ Ev.acc = 1) =>
                                      /\ Ev.ltcum = LoadedCum
                                      /\ (Ev.cur = 1 => Ev.lcur = CursorView)
                                      /\ Ev.lclosest = [n \in 1..Len(LoadedTimes) |-> n - 1])
           /\ pc' = "done"
           /\ UNCHANGED <<cfg, fs, serial, stage, i, t, applied, tapplied, buf, bstep, frames, wr,
                          cancelled, err, result, faults, simdts, tdts, flog>>

TNext == \/ TPass \/ TReject \/ TOpen \/ TSaveOk \/ TSaveFault \/ TUpdateOk \/ TUpdateFault
         \/ TClose \/ TReturn \/ TOuterFault
         \/ Silent(Run) \/ Silent(Label) \/ Silent(SaveBegin) \/ Silent(Clear) \/ Silent(Stop)
         \/ Silent(Final) \/ Silent(StageEnd) \/ Silent(Assemble)
         \/ (Coarse /\ (Silent(Update) \/ Silent(SaveEnd)))

TSpec == TInit /\ [][TNext]_tvars

\* Diagnosis only (C19).  No action of TdglRun lets an ill-posed problem pass the last validation phase, so TSpec
\* rejects a trace in which the implementation did so at its `open` event ("no matching action").  TSpecFollow follows
\* the implementation that one step further, so that TLC reports the clause that is false in the state reached
\* (IllPosedNeverRuns) together with that state.  Acceptance of traces is always decided with TSpec.
TPassIllPosed == Silent(/\ pc = "presolve" /\ cfg.bad # "none"
                        /\ l <= Len(T.ev) /\ Ev.ev = "open"
                        /\ pc' = "open"
                        /\ UNCHANGED <<cfg, fs, serial, stage, i, t, applied, tapplied, buf, bstep, frames, wr,
                                       cancelled, err, result, faults, simdts, tdts, flog>>)
TSpecFollow == TInit /\ [][TNext \/ TPassIllPosed]_tvars

Accepted == (l = Len(T.ev) + 1 /\ pc = "done") => PrintT(<<"ACCEPT", tid>>)
Progress == PrintT(<<"AT", tid, l>>)
=============================================================================
