---------------------------- MODULE OpsCacheTrace ----------------------------
(***************************************************************************)
(* Trace validation for OpsCache: executions recorded from the real        *)
(* MeshOperators (level "ops": sequences of set_link_exponents calls on    *)
(* injected exact meshes and on a generated mesh) and from the real        *)
(* TDGLSolver (level "step": natural runs observed through run-time        *)
(* wrappers) must be behaviours of OpsCache; the property invariants are   *)
(* evaluated in every state reached.                                       *)
(*                                                                         *)
(* Trace header: [level, inst, mode, scr, dyn, v, seed, form, v0, exact, driven, ev]   *)
(* and, optionally, hist (device history, default "fresh").                *)
(* exact = TRUE: the logged (quantised) matrix entries are bound to the    *)
(* model's matrices; otherwise only the abstract flags are bound.          *)
(***************************************************************************)
EXTENDS OpsCache, IOUtils, TLCExt

Batch == JsonDeserialize(IOEnv.TRACE_FILE)

VARIABLES tid, l
tvars == <<vars, tid, l>>

T == Batch[tid]
Ev == T.ev[l]

TInit == /\ tid \in 1..Len(Batch) /\ l = 1
         /\ cfg = [inst |-> Batch[tid].inst, mode |-> Batch[tid].mode, scr |-> Batch[tid].scr,
                   dyn |-> Batch[tid].dyn, v |-> Batch[tid].v, seed |-> Batch[tid].seed,
                   form |-> Batch[tid].form, v0 |-> Batch[tid].v0,
                   hist |-> IF "hist" \in DOMAIN Batch[tid] THEN Batch[tid].hist ELSE "fresh"]
         /\ InitCommon
         /\ pc = IF Batch[tid].level = "ops" THEN "ops" ELSE "ctor"

IsEv(e) == l <= Len(T.ev) /\ Ev.ev = e /\ l' = l + 1 /\ UNCHANGED tid
Silent(A) == A /\ UNCHANGED <<tid, l>>

\* the logged equal/unequal flags compare with a freshly constructed MeshOperators that gets the same fixed_sites
\* / fix_psi as the one in use: the rows the build pins (mechanism), not the rows that are to be pinned (property)
HeldEqualsBuild(L, G, q) == L = BuildLap(M, q, BuildFixed) /\ G = BuildGrad(M, q)
PinClass(L) == IF FixedSites = {} THEN "na"
               ELSE IF \A i \in FixedSites : IsIdentityRow(M, L, i) THEN "identity"
               ELSE IF \A i \in FixedSites : ~IsIdentityRow(M, L, i) THEN "plain"
               ELSE "mixed"
OtherPinned(L) == \E i \in SitesOf(M) \ FixedSites : IsIdentityRow(M, L, i)

\* what every observation of the operators carries
\* rowsexact: the identity rows are exactly the rows of the sites the documented API names as terminal sites
\* (Device.terminal_info(); the sites handed to MeshOperators on the exact instances) - checked alongside the
\* geometric classification, independently of it
RowsExactlyOnPinned(L) == \A i \in SitesOf(M) : IsIdentityRow(M, L, i) = (i \in BuildFixed)
OpsObs(L, G) == /\ Ev.pinrows = PinClass(L)
                /\ Ev.other = OtherPinned(L)
                /\ Ev.rowsexact = RowsExactlyOnPinned(L)

(* ---- level "ops": one event per set_link_exponents call ---- *)
TOpsCall ==
  /\ pc = "ops"
  /\ IsEv(IF built THEN "refresh" ELSE "build")
  /\ OpsCall(Ev.q, Ev.form)          \* the logged delivery form: fresh array / same buffer overwritten / view of it
  /\ T.exact => /\ Ev.lap = LapSeq(M, lap')
                /\ Ev.grad = GradSeq(M, grad')
  /\ Ev.lap_eq = (lap' = BuildLap(M, linkQ', BuildFixed))
  /\ Ev.grad_eq = (grad' = BuildGrad(M, linkQ'))
  \* generated mesh: the held matrices against a reference assembled by the harness from the raw site coordinates
  /\ ~T.exact => Ev.ref_eq = (lap' = BuildLap(M, linkQ', BuildFixed) /\ grad' = BuildGrad(M, linkQ'))
  /\ OpsObs(lap', grad')

(* ---- level "step": the real solver ---- *)
TCtor == /\ IsEv("ctor") /\ Ctor
         /\ Ev.fresh = (linkQ' = QOfPot(M, 0, 0) /\ HeldEqualsBuild(lap', grad', QOfPot(M, 0, 0)))
         /\ Ev.ref = HeldEqualsBuild(lap', grad', QOfPot(M, 0, 0))    \* vs. the harness's reference operator (raw coordinates)
         /\ OpsObs(lap', grad')
         /\ Ev.term = tv'

TField == IsEv("field") /\ Field(Ev.a)

TLinks == /\ IsEv("links")
          /\ \/ TrigRefresh /\ Ev.arg_applied
             \/ Links /\ Ev.arg_total
          /\ Ev.eq = HeldEqualsBuild(lap', grad', linkQ')
          /\ Ev.ref = HeldEqualsBuild(lap', grad', linkQ')
          /\ OpsObs(lap', grad')

TEuler == /\ IsEv("euler") /\ Euler(Ev.retried)
          /\ Ev.fresh = (linkQ = LatestQ /\ HeldEqualsBuild(lap, grad, LatestQ))
          /\ Ev.ref = HeldEqualsBuild(lap, grad, LatestQ)
          /\ OpsObs(lap, grad)
          /\ Ev.term = tv'
          /\ Ev.stepfresh = stepFresh'      \* the step recomputed with freshly built operators gives the same psi

TInduced == /\ IsEv("induced")
            /\ \E again \in BOOLEAN : Induced(Ev.chg, again)

TFinish == /\ IsEv("finish") /\ Finish
           /\ Ev.term = tv
           \* the same on the sites Device.terminal_info() names (when the mechanism takes the current terminals'
           \* sites for terminal sites; otherwise that observation is about other sites and constrains nothing)
           /\ (MechSites = FixedSites) => Ev.term_api = tv
           /\ (~cfg.scr => Ev.ops_applied = (linkQ = QOfPot(M, curA, 0)))

\* the run is over: what the saved frames and the whole history show
TEnd == /\ IsEv("end") /\ pc = "idle" /\ pc' = "end"
        /\ Ev.frames = (IF cfg.v = "none" THEN "free" ELSE IF drifted THEN "drift" ELSE "eq")
        /\ Ev.steps = step
        /\ T.driven => /\ Ev.nonterm_evolved         \* sites outside terminals are never pinned
                       /\ Ev.nonterm_differs
                       /\ (cfg.v = "none" => Ev.term_evolved)
        /\ UNCHANGED <<cfg, hist, aliasvars, opsvars, step, s, curA, prevA, ind, tv, drifted, memoLap, stepFresh>>

TNext == \/ TOpsCall
         \/ TCtor \/ TField \/ TLinks \/ TEuler \/ TInduced \/ TFinish \/ TEnd
         \/ (l <= Len(T.ev) /\ Ev.ev # "end" /\ Silent(BeginStep))     \* no step begins after the last one
         \/ Silent(TrigSkip) \/ Silent(NoLinks)

TSpec == TInit /\ [][TNext]_tvars

Accepted == (l = Len(T.ev) + 1 /\ pc \in {"ops", "end"}) => PrintT(<<"ACCEPT", tid>>)

(* The property clauses as reporting invariants: a false clause prints the trace id, the   *)
(* position and the clause (and lets TLC go on, so that every recorded execution of the   *)
(* batch is judged in one run); the harness turns every BAD line into a VIOLATION.        *)
Chk(name, P) == P \/ PrintT(<<"BAD", tid, l, name>>)
TrTypeOK == Chk("TypeOK", TypeOK)
TrRefreshEqualsRebuild == Chk("RefreshEqualsRebuild", RefreshEqualsRebuild)
TrFixedRowsAreIdentity == Chk("FixedRowsAreIdentity", FixedRowsAreIdentity)
TrNoOtherRowPinned == Chk("NoOtherRowPinned", NoOtherRowPinned)
TrLapHermitianOnFreeBlock == Chk("LapHermitianOnFreeBlock", LapHermitianOnFreeBlock)
TrOperatorsMatchLatestA == Chk("OperatorsMatchLatestA", OperatorsMatchLatestA)
TrPinnedSitesStayPinned == Chk("PinnedSitesStayPinned", PinnedSitesStayPinned)
TrUnsetMeansFree == Chk("UnsetMeansFree", UnsetMeansFree)
TrNoScreeningNoInduced == Chk("NoScreeningNoInduced", NoScreeningNoInduced)
TrEulerUsesLatestOperators == Chk("EulerUsesLatestOperators", EulerUsesLatestOperators)
Progress == PrintT(<<"AT", tid, l>>)
=============================================================================
