-------------------------- MODULE FieldKernelsTrace --------------------------
(***************************************************************************)
(* Validation of what the real field code did against FieldKernels.        *)
(* A trace is [tol, ev]; events                                            *)
(*  [ev |-> "field", src, el, co, bz, bv, A, r]  an exact instance (one    *)
(*      evaluation point, elements el) evaluated by `src` (the real numba  *)
(*      kernels through biot_savart_2d in some unit choice / the harness'  *)
(*      reference sums): observed numerators over L3 (bz: 3 integers for   *)
(*      j1, j2 and co[1] j1 + co[2] j2; bv: 3 x 3) and over L1 (A: 3 x 2);  *)
(*      <<>> where a form was not evaluated; r = largest distance of an    *)
(*      observed value from the integer it was rounded to, in quanta       *)
(*  [ev |-> "conv", u, v, ten, mu, r]  convert_field(1, v, u) observed as  *)
(*      10^ten * mu0^mu (1 +- r quanta)                                    *)
(*  [ev |-> "rel", name, a, b]  two quantised observations of the real     *)
(*      code that the named relation requires to agree within tol          *)
(*  [ev |-> "loopq", regime, rexp, nonfinite, a, b]  the closed-form loop   *)
(*      potential (a) and the harness' quadrature of mu0 I/4pi \oint dl/|r-r'| *)
(*      (b) at the points of one regime of one loop, component by          *)
(*      component, quantised to 1e-9 of each point's scale; nonfinite =    *)
(*      number of NaN / inf components the real code returned              *)
(* The state carries the instance / units of the event, so the relations   *)
(* of FieldKernels are evaluated as invariants on what was observed.       *)
(***************************************************************************)
EXTENDS FieldKernels, Json, IOUtils, TLCExt

Batch == JsonDeserialize(IOEnv.TRACE_FILE)

VARIABLES tid, l
tvars == <<tid, l, mode, el, co, fu, fv, fw>>

T == Batch[tid]
Ev == T.ev[l]
RelNames == {"Linear", "ScalarEqualsVectorZ", "TotalIsSumOfParts", "MatchesDirectSum", "HBConsistent", "UnitChoice",
             "LoopLinear", "LoopScaling", "LoopSymmetry", "AppliedPlusInduced",
             "HistoryIndependent",   \* a query on a Solution that has answered other queries = the same query on a freshly loaded one
             "LoopTranslation",      \* A(r; centre c) = A(r - c; centre 0), also through the CurrentLoop Parameter
             "AppliedAtFrameTime",   \* the applied part of a loaded frame is the Parameter at THAT frame's recorded time
             "InputFormIndependent"} \* integer / list / (m,2)+zs / (m,3) forms of the same points give the same answer
Abs(x) == IF x < 0 THEN -x ELSE x
Related(a, b, tol) == Len(a) = Len(b) /\ \A j \in 1..Len(a) : Abs(a[j] - b[j]) <= tol

Tup2(s) == <<s[1], s[2]>>
Tup3(s) == <<s[1], s[2], s[3]>>
AsElem(e) == [d |-> Tup3(e.d), a |-> e.a, j1 |-> Tup2(e.j1), j2 |-> Tup2(e.j2)]
AsEl(s) == [n \in 1..Len(s) |-> AsElem(s[n])]
FU(x) == [kind |-> x[1], e |-> x[2]]

TInit == /\ tid \in 1..Len(Batch) /\ l = 1
         /\ mode = "start" /\ el = <<>> /\ co = <<1, 1>> /\ fu = UH /\ fv = UH /\ fw = UH

FieldEvent ==
  /\ Ev.ev = "field"
  /\ LET s == AsEl(Ev.el)
         c == Tup2(Ev.co)
         JX(e) == JC(c, e) IN
       /\ Len(s) >= 1 /\ \A n \in 1..Len(s) : s[n].d \in Disp /\ s[n].d[3] = s[1].d[3]
       /\ Len(Ev.bz) > 0 => Tup3(Ev.bz) = <<BzNum(s, J1), BzNum(s, J2), BzNum(s, JX)>>
       /\ Len(Ev.bv) > 0 => /\ Tup3(Ev.bv[1]) = BvecNum(s, J1) /\ Tup3(Ev.bv[2]) = BvecNum(s, J2)
                            /\ Tup3(Ev.bv[3]) = BvecNum(s, JX)
       /\ Len(Ev.A) > 0 => /\ Tup2(Ev.A[1]) = ANum(s, J1) /\ Tup2(Ev.A[2]) = ANum(s, J2) /\ Tup2(Ev.A[3]) = ANum(s, JX)
       /\ Len(Ev.bz) + Len(Ev.bv) + Len(Ev.A) > 0
       /\ el' = s /\ co' = c
  /\ Ev.r >= 0 /\ Ev.r <= T.tol
  /\ mode' = "inst" /\ UNCHANGED <<fu, fv, fw>>

ConvEvent ==
  /\ Ev.ev = "conv"
  /\ FU(Ev.u) \in FieldUnits /\ FU(Ev.v) \in FieldUnits
  /\ [ten |-> Ev.ten, mu |-> Ev.mu] = Conv(FU(Ev.u), FU(Ev.v))
  /\ Ev.r >= 0 /\ Ev.r <= T.tol
  /\ mode' = "units" /\ fu' = FU(Ev.u) /\ fv' = FU(Ev.v) /\ fw' = FU(Ev.u) /\ UNCHANGED <<el, co>>

RelEvent ==
  /\ Ev.ev = "rel" /\ Ev.name \in RelNames
  /\ Len(Ev.a) > 0 /\ Related(Ev.a, Ev.b, T.tol)
  /\ UNCHANGED <<mode, el, co, fu, fv, fw>>

\* the clause "closed form = quadrature" (FieldKernels!LoopMatchesQuadrature): finite, zero reference on the axis, within tol
LoopEvent ==
  /\ Ev.ev = "loopq"
  /\ Ev.regime \in LoopRegimes /\ Ev.rexp \in LoopRexp(Ev.regime)
  /\ LoopMatchesQuadrature(Ev.regime, Ev.a, Ev.b, Ev.nonfinite, T.tol)
  /\ UNCHANGED <<mode, el, co, fu, fv, fw>>

TNext == /\ l <= Len(T.ev)
         /\ (FieldEvent \/ ConvEvent \/ RelEvent \/ LoopEvent)
         /\ l' = l + 1 /\ UNCHANGED tid
TSpec == TInit /\ [][TNext]_tvars

Accepted == (l = Len(T.ev) + 1) => PrintT(<<"ACCEPT", tid>>)
Progress == PrintT(<<"AT", tid, l>>)
=============================================================================
