--------------------------- MODULE ParamAlgTrace ---------------------------
(***************************************************************************)
(* Trace validation for ParamAlg: what the REAL tdgl.Parameter /           *)
(* CompositeParameter objects did (build, ==, calls at scalar and array    *)
(* arguments, keyword arguments of the time-dependent leaves edited in     *)
(* place, _clear_cache, pickle / unpickle, the copy exercised again,       *)
(* TDGLSolver / solve) is checked to be a behaviour of ParamAlg, with the  *)
(* property clauses evaluated in every state.                              *)
(*                                                                         *)
(* A trace = [tree, ev]; the tree is the nested record of ParamAlg.        *)
(* Observed values: integers in units of 1/Q, NOTEXACT for anything that is   *)
(* not an exact dyadic of the domain (nan, inf, complex, too large);       *)
(* a raised exception is logged with its class.                            *)
(***************************************************************************)
EXTENDS ParamAlg, IOUtils, TLCExt

Batch == JsonDeserialize(IOEnv.TRACE_FILE)

VARIABLES tid, l
tvars == <<vars, tid, l>>

T == Batch[tid]
Ev == T.ev[l]
SeqToSet(s) == {s[n] : n \in 1..Len(s)}
NOTEXACT == 888888   \* logged for a value that is no exact dyadic of the domain; never equals a model value
ArithExc == {"ZeroDivisionError", "OverflowError", "FloatingPointError"}

TInit == /\ tid \in 1..Len(Batch) /\ l = 1
         /\ tree = Batch[tid].tree /\ pc = "grow" /\ orig = Obj0 /\ copy = Obj0
         /\ pickled = [has |-> FALSE, td |-> "unset"] /\ last = None /\ ncalls = 0

IsEv(e) == l <= Len(T.ev) /\ Ev.ev = e /\ l' = l + 1 /\ UNCHANGED tid

\* an observation o = [k |-> "v", v |-> <<ints>>] or [k |-> "x", cls |-> class name] against the model's
\* answer (kind, exp): where the model's value is U nothing is claimed about that element
ValsOK(o, exp) == /\ o.k = "v" /\ Len(o.v) = Len(exp)
                  /\ \A n \in 1..Len(exp) : exp[n] = U \/ o.v[n] = exp[n]
ArithOK(o, exp) == o.k = "x" /\ o.cls \in ArithExc /\ \E n \in 1..Len(exp) : exp[n] = U
ObsOK(o, kind, exp) ==
  CASE kind = "val" -> ValsOK(o, exp) \/ ArithOK(o, exp)
    [] kind = "fail" -> o.k = "x"
    [] kind = "either" -> o.k = "x" \/ ValsOK(o, exp)
    [] OTHER -> FALSE

TBuild == /\ IsEv("build") /\ Build
          /\ Ev.ok <=> (pc' = "built")
          /\ Ev.ok => Ev.td = orig'.td

TEq == /\ IsEv("eq") /\ Eq(Ev.other)
       /\ Ev.res = B2S(last'.res)

TCall == /\ IsEv("call") /\ Ev.who = "orig" /\ Call(Ev.f, Ev.t, SeqToSet(Ev.fill))
         /\ \A a \in Args : ObsOK(Ev.obs[a], last'.kind, last'.vals[a])
TRetune == IsEv("retune") /\ Ev.who = "orig" /\ Retune(Ev.c)
TRetuneS == IsEv("retune_s") /\ RetuneS(Ev.who, Ev.s)
TDeliver == /\ IsEv("deliver") /\ Deliver(Ev.f, Ev.t, Ev.a, Ev.b, SeqToSet(Ev.fill))
            /\ ObsOK(Ev.obs, last'.kind, last'.vals)
TCallCopy == /\ IsEv("call") /\ Ev.who = "copy" /\ CallCopy(Ev.f, Ev.t, SeqToSet(Ev.fill))
             /\ \A a \in Args : ObsOK(Ev.obs[a], last'.kind, last'.vals[a])

TClear == /\ IsEv("clear") /\ Ev.who = "orig" /\ Clear
          /\ Ev.ok = last'.ok /\ SeqToSet(Ev.left) = last'.left
TClearCopy == /\ IsEv("clear") /\ Ev.who = "copy" /\ ClearCopy
              /\ Ev.ok = last'.ok /\ SeqToSet(Ev.left) = last'.left

TPickle == IsEv("pickle") /\ Pickle /\ Ev.ok
TUnpickle == /\ IsEv("unpickle") /\ Unpickle /\ Ev.ok
             /\ Ev.td = copy'.td /\ Ev.eq = copy'.eq

TSolve == /\ IsEv("solve") /\ Solve
          /\ Ev.ok = last'.ok
          /\ Ev.ok => Ev.td = last'.td

TNext == TBuild \/ TEq \/ TCall \/ TRetune \/ TRetuneS \/ TDeliver \/ TCallCopy \/ TClear \/ TClearCopy \/ TPickle \/ TUnpickle \/ TSolve
TSpec == TInit /\ [][TNext]_tvars

Accepted == (l = Len(T.ev) + 1) => PrintT(<<"ACCEPT", tid>>)
Progress == PrintT(<<"AT", tid, l>>)
=============================================================================
