------------------------------ MODULE TdglRun ------------------------------
(***************************************************************************)
(* One call of tdgl.solve as a state machine.                              *)
(*                                                                         *)
(* Mirrors, one action per critical section:                               *)
(*   TDGLSolver.__init__ / TDGLSolver.solve   (validation order)           *)
(*   DataHandler.__enter__ / _create_output_file / close                   *)
(*   Runner.run / Runner._run_stage           (loop, stop test, final save)*)
(*   DataHandler.save_time_step               (frame writer, 2 sub-steps)  *)
(*   RunningState.append / clear              (per-step record buffer)     *)
(*   Solution.__init__ / DynamicsData.from_hdf5 / Solution.times (reader)  *)
(*                                                                         *)
(* Time is counted in integer ticks.  The environment chooses the step     *)
(* used by every update, and where faults (KeyboardInterrupt / error) hit. *)
(* Mechanism switches M* select between the mechanism of the pinned tree   *)
(* and the repaired one; the properties below do not mention them.         *)
(***************************************************************************)
EXTENDS Integers, Sequences, FiniteSets, TLC

CONSTANTS
  Ks,            \* save_every values
  SolveTs,       \* solve_time values (ticks)
  SkipTs,        \* skip_time values (ticks; 0 = no thermalisation)
  DTS,           \* ticks an update may use
  MaxFaults,     \* number of faults the environment may inject
  FaultKinds,    \* subset of {"KI", "Err"}
  OutModes,      \* subset of {"temp", "path"}
  Foreigns,      \* set of sets of pre-existing (foreign) file names, e.g. {{}, {"o0"}, {"t0"}}
  BadClasses,    \* classes of ill-posed input offered; "none" = well-posed
  MStopBeforeUpdate,   \* TRUE: stop test precedes the update (repaired); FALSE: follows it (pinned)
  MSqueeze,            \* TRUE: per-step buffers squeezed on write and read back as they are (pinned)
  MTimesZeroFirst,     \* TRUE: loaded times start at 0 (repaired); FALSE: cumsum only (pinned)
  MRollback,           \* TRUE: a frame whose writing is interrupted is removed again
  MCleanClash,         \* TRUE: output created before a .tmp name clash is removed again
  MEmptyLoads,         \* TRUE: a file without any per-step record can be loaded
  MSaveValid,          \* TRUE: only the valid part of the record buffer is written
  MFinalGuard,         \* TRUE: a KeyboardInterrupt during the final save is caught like one in the loop
  MResumeRepeats       \* TRUE: a paused simulation that is resumed repeats the interrupted step (FALSE: skips it)

VARIABLES
  cfg,        \* [k, solveT, skipT, out, foreign, bad] chosen once
  pc,
  fs,         \* file name -> "absent" | "foreign" | "open" | "closed"
  serial,     \* serial number of the output actually used (-1 before)
  stage,      \* "none" | "thermal" | "sim"
  i, t,       \* loop index and time (ticks) of the current stage
  applied,    \* number of updates applied to the carried values (content id)
  tapplied,   \* of which during thermalisation
  buf, bstep, \* running-state buffer (slot -> record uid, 0 = empty) and write index
  frames,     \* frames in the output file
  wr,         \* sub-step of the frame writer
  cancelled, err, result,
  faults,     \* faults injected so far
  simdts,     \* ticks used by the update calls of the recorded stage, in call order
  tdts,       \* same for thermalisation (history; replay script)
  flog        \* faults injected: sequence of [kind, where, stage, i, at]

vars == <<cfg, pc, fs, serial, stage, i, t, applied, tapplied, buf, bstep, frames, wr,
          cancelled, err, result, faults, simdts, tdts, flog>>

Names == {"o0", "t0", "o1", "t1", "o2", "t2", "o3", "t3"}
MaxSerial == 3      \* the environment leaves the last candidate free, so the search always succeeds
OName(s) == IF s = 0 THEN "o0" ELSE IF s = 1 THEN "o1" ELSE IF s = 2 THEN "o2" ELSE "o3"
TName(s) == IF s = 0 THEN "t0" ELSE IF s = 1 THEN "t1" ELSE IF s = 2 THEN "t2" ELSE "t3"

\* Ill-posed input (cfg.bad # "none") must be rejected by one of the three phases that
\* precede the creation of any file:
\*   "build": Polygon / Device / Layer / SolverOptions construction;
\*   "ctor": TDGLSolver.__init__;  "presolve": TDGLSolver.solve before the DataHandler is entered.
\* Which phase rejects a given class is an implementation choice and is left open.

K == cfg.k
ZeroBuf == [j \in 0..K-1 |-> 0]
EndOf(s) == IF s = "thermal" THEN cfg.skipT ELSE cfg.solveT
Saving == stage = "sim"

FS0(c) == [n \in Names |-> IF c.out = "path" /\ n \in c.foreign THEN "foreign" ELSE "absent"]

InitWith(c) ==
  /\ cfg = c
  /\ pc = "build" /\ fs = FS0(c) /\ serial = -1
  /\ stage = "none" /\ i = 0 /\ t = 0 /\ applied = 0 /\ tapplied = 0
  /\ buf = [j \in 0..c.k-1 |-> 0] /\ bstep = 0 /\ frames = <<>> /\ wr = 0
  /\ cancelled = FALSE /\ err = FALSE /\ result = "pending" /\ faults = 0
  /\ simdts = <<>> /\ tdts = <<>> /\ flog = <<>>

CfgSpace == {c \in [k : Ks, solveT : SolveTs, skipT : SkipTs, out : OutModes, foreign : Foreigns, bad : BadClasses] :
               c.out = "temp" => c.foreign = {}}
Init == \E c \in CfgSpace : InitWith(c)

-----------------------------------------------------------------------------
(* Validation: every phase either rejects the class it owns or passes on. *)

Phase(p, nextpc) ==
  /\ pc = p
  /\ \/ /\ cfg.bad # "none"                           \* reject
        /\ pc' = "rejected" /\ result' = "rejected"
     \/ /\ (cfg.bad = "none" \/ p # "presolve")         \* pass on (the last phase must not pass ill-posed input)
        /\ pc' = nextpc /\ UNCHANGED result
  /\ UNCHANGED <<cfg, fs, serial, stage, i, t, applied, tapplied, buf, bstep, frames, wr,
                 cancelled, err, faults, simdts, tdts, flog>>

Build    == Phase("build", "ctor")
Ctor     == Phase("ctor", "presolve")
PreSolve == Phase("presolve", "open")

-----------------------------------------------------------------------------
(* DataHandler.__enter__: exclusive creation of <name>[-n].h5 then <...>.tmp *)

\* outcome of trying serial s on file system f: <<success, f'>>
TrySerial(f, s) ==
  IF f[OName(s)] # "absent" THEN <<FALSE, f>>
  ELSE IF f[TName(s)] # "absent"
         THEN <<FALSE, IF MCleanClash THEN f ELSE [f EXCEPT ![OName(s)] = "closed"]>>  \* stray empty output (its handle is dropped)
         ELSE <<TRUE, [f EXCEPT ![OName(s)] = "open", ![TName(s)] = "open"]>>

OpenFiles ==
  /\ pc = "open"
  /\ LET r0 == TrySerial(fs, 0)
         r1 == TrySerial(r0[2], 1)
         r2 == TrySerial(r1[2], 2)
         r3 == TrySerial(r2[2], 3)
     IN IF r0[1] THEN fs' = r0[2] /\ serial' = 0
        ELSE IF r1[1] THEN fs' = r1[2] /\ serial' = 1
        ELSE IF r2[1] THEN fs' = r2[2] /\ serial' = 2
        ELSE fs' = r3[2] /\ serial' = 3
  /\ pc' = "run"
  /\ UNCHANGED <<cfg, stage, i, t, applied, tapplied, buf, bstep, frames, wr,
                 cancelled, err, result, faults, simdts, tdts, flog>>

-----------------------------------------------------------------------------
(* Runner.run / Runner._run_stage *)

Run ==
  /\ pc = "run"
  /\ stage' = IF cfg.skipT > 0 THEN "thermal" ELSE "sim"
  /\ i' = 0 /\ t' = 0 /\ pc' = "label"
  /\ UNCHANGED <<cfg, fs, serial, applied, tapplied, buf, bstep, frames, wr,
                 cancelled, err, result, faults, simdts, tdts, flog>>

AfterSavePc == IF MStopBeforeUpdate THEN "stop" ELSE "update"

\* (only after a resume) the regular frame of step i is already in the file: the repeated step does not save it again
AlreadySaved == MResumeRepeats /\ Saving /\ Len(frames) > 0 /\ frames[Len(frames)].step = i /\ frames[Len(frames)].complete

Label ==
  /\ pc = "label"
  /\ pc' = IF i % K = 0 /\ ~AlreadySaved THEN (IF Saving THEN "save" ELSE "clear") ELSE AfterSavePc
  /\ wr' = 0
  /\ UNCHANGED <<cfg, fs, serial, stage, i, t, applied, tapplied, buf, bstep, frames,
                 cancelled, err, result, faults, simdts, tdts, flog>>

\* what the writer stores as the running state of a frame
StoredBuf == IF MSaveValid THEN [j \in 0..K-1 |-> IF j < bstep THEN buf[j] ELSE 0] ELSE buf

NewFrame(regular) ==
  [step |-> i, time |-> t, content |-> applied,
   hasrs |-> i # 0,
   rs |-> IF i = 0 THEN <<>> ELSE [j \in 1..K |-> StoredBuf[j-1]],
   complete |-> FALSE]

\* frame writer: wr = 0 nothing written; wr = 1 group exists, datasets incomplete
SaveBegin ==
  /\ (pc = "save" \/ (pc = "final" /\ Saving /\ i % K # 0)) /\ wr = 0
  /\ frames' = Append(frames, NewFrame(pc = "save"))
  /\ wr' = 1
  /\ UNCHANGED <<cfg, pc, fs, serial, stage, i, t, applied, tapplied, buf, bstep,
                 cancelled, err, result, faults, simdts, tdts, flog>>

SaveEnd ==
  /\ pc \in {"save", "final"} /\ wr = 1
  /\ frames' = [frames EXCEPT ![Len(frames)].complete = TRUE]
  /\ wr' = 0
  /\ pc' = IF pc = "save" THEN "clear" ELSE "stageend"
  /\ UNCHANGED <<cfg, fs, serial, stage, i, t, applied, tapplied, buf, bstep,
                 cancelled, err, result, faults, simdts, tdts, flog>>

Clear ==
  /\ pc = "clear"
  /\ buf' = ZeroBuf /\ bstep' = 0
  /\ pc' = AfterSavePc
  /\ UNCHANGED <<cfg, fs, serial, stage, i, t, applied, tapplied, frames, wr,
                 cancelled, err, result, faults, simdts, tdts, flog>>

NextUid == IF Saving THEN Len(simdts) + 1 ELSE -(Len(tdts) + 1)
\* record left behind by an update that was interrupted after appending it (1 tick)
GhostUid == IF Saving THEN 1000 + Len(simdts) + 1 ELSE -(1000 + Len(tdts) + 1)
IsGhost(u) == u >= 1000 \/ u <= -1000

\* the update function: uses nd ticks, appends its record at bstep, returns new values
Update ==
  /\ pc = "update"
  /\ \E nd \in DTS :
       /\ buf' = [buf EXCEPT ![bstep] = NextUid]
       /\ IF Saving THEN simdts' = Append(simdts, nd) /\ UNCHANGED tdts
                    ELSE tdts' = Append(tdts, nd) /\ UNCHANGED simdts
       /\ applied' = applied + 1
       /\ tapplied' = IF Saving THEN tapplied ELSE tapplied + 1
       /\ IF MStopBeforeUpdate
            THEN /\ t' = t + nd /\ i' = i + 1 /\ bstep' = bstep + 1 /\ pc' = "label"
            ELSE /\ pc' = "stop" /\ UNCHANGED <<t, i, bstep>>
  /\ UNCHANGED <<cfg, fs, serial, stage, frames, wr, cancelled, err, result, faults, flog>>

LastDt == IF Saving THEN simdts[Len(simdts)] ELSE tdts[Len(tdts)]

Stop ==
  /\ pc = "stop"
  /\ IF t >= EndOf(stage)
       THEN pc' = "final" /\ UNCHANGED <<t, i, bstep>>
       ELSE IF MStopBeforeUpdate
              THEN pc' = "update" /\ UNCHANGED <<t, i, bstep>>
              ELSE /\ t' = t + LastDt /\ i' = i + 1 /\ bstep' = bstep + 1 /\ pc' = "label"
  /\ UNCHANGED <<cfg, fs, serial, stage, applied, tapplied, buf, frames, wr,
                 cancelled, err, result, faults, simdts, tdts, flog>>

\* after the loop: one more frame if the last step is not a multiple of k
Final ==
  /\ pc = "final" /\ wr = 0
  /\ ~(Saving /\ i % K # 0)
  /\ pc' = "stageend"
  /\ UNCHANGED <<cfg, fs, serial, stage, i, t, applied, tapplied, buf, bstep, frames, wr,
                 cancelled, err, result, faults, simdts, tdts, flog>>
FinalSaveEnabled == pc = "final" /\ Saving /\ i % K # 0

StageEnd ==
  /\ pc = "stageend"
  /\ IF stage = "thermal" /\ ~cancelled
       THEN /\ stage' = "sim" /\ i' = 0 /\ t' = 0 /\ buf' = ZeroBuf /\ bstep' = 0 /\ pc' = "label"
       ELSE /\ pc' = "assemble" /\ UNCHANGED <<stage, i, t, buf, bstep>>
  /\ UNCHANGED <<cfg, fs, serial, applied, tapplied, frames, wr, cancelled, err, result,
                 faults, simdts, tdts, flog>>

-----------------------------------------------------------------------------
(* Faults.  In the update: "pre" = before any effect, "post" = after the   *)
(* record was appended but before the new values were handed back.  In the *)
(* frame writer: wr = 0 ("pre", nothing on disk) or wr = 1 ("mid").        *)

RollbackFrames == IF MRollback /\ wr = 1 THEN SubSeq(frames, 1, Len(frames) - 1) ELSE frames

FaultSite(at) ==
  \/ pc = "update" /\ at \in {"pre", "post"}
  \/ pc = "save" /\ at = (IF wr = 0 THEN "pre" ELSE "mid")
  \/ FinalSaveEnabled /\ at = (IF wr = 0 THEN "pre" ELSE "mid")
  \/ pc = "run" /\ at = "setup"          \* inside the DataHandler context before the loop: save_mesh, fixed values
  \/ pc = "assemble" /\ at = "assemble"   \* after the loop: Solution(...) / Solution.to_hdf5()

\* kind "KIR": pause_on_interrupt (the default) — a KeyboardInterrupt inside the loop is answered with "continue":
\* the loop carries on.  What the interrupted step had already done (a partial frame, an appended record) is
\* undone or overwritten, and the step is repeated with the same index and time.
Fault(kind, at) ==
  /\ faults < MaxFaults /\ kind \in FaultKinds /\ FaultSite(at)
  /\ (kind = "KIR" => pc \in {"update", "save"})
  /\ faults' = faults + 1
  /\ flog' = Append(flog, [kind |-> kind, where |-> pc, stage |-> stage, i |-> i, at |-> at])
  /\ buf' = IF pc = "update" /\ at = "post" THEN [buf EXCEPT ![bstep] = GhostUid] ELSE buf
  /\ frames' = RollbackFrames
  /\ wr' = 0
  /\ i' = IF kind = "KIR" /\ ~MResumeRepeats THEN i + 1 ELSE i
  /\ IF kind = "KIR"
       THEN pc' = "label" /\ UNCHANGED <<cancelled, err>>               \* resumed
       ELSE IF kind = "KI" /\ pc \in {"update", "save"}
       THEN cancelled' = TRUE /\ pc' = "final" /\ UNCHANGED err        \* caught inside the loop
       ELSE IF kind = "KI" /\ pc = "final" /\ MFinalGuard
       THEN cancelled' = TRUE /\ pc' = "stageend" /\ UNCHANGED err
       ELSE err' = TRUE /\ pc' = "close" /\ UNCHANGED cancelled        \* propagates (also KI in the final save)
  /\ UNCHANGED <<cfg, fs, serial, stage, t, applied, tapplied, bstep, result, simdts, tdts>>

-----------------------------------------------------------------------------
(* Reader: what Solution.__init__ reconstructs from the file.              *)

RECURSIVE Concat(_, _)
Concat(fr, n) == IF n = 0 THEN <<>>
                 ELSE Concat(fr, n-1) \o (IF fr[n].hasrs THEN SelectSeq(fr[n].rs, LAMBDA x : x # 0) ELSE <<>>)
LoadedUids == Concat(frames, Len(frames))
DtOf(u) == IF IsGhost(u) THEN 1 ELSE IF u > 0 THEN simdts[u] ELSE tdts[-u]
LoadedDts == [n \in 1..Len(LoadedUids) |-> DtOf(LoadedUids[n])]

RECURSIVE Sum(_, _)
Sum(s, n) == IF n = 0 THEN 0 ELSE s[n] + Sum(s, n-1)
Cum(s) == [n \in 1..Len(s) |-> Sum(s, n)]
Every(s) == [j \in 1..((Len(s) + K - 1) \div K) |-> s[(j-1)*K + 1]]
LoadedTimes ==
  LET c == IF MTimesZeroFirst THEN <<0>> \o Cum(LoadedDts) ELSE Cum(LoadedDts)
      e == Every(c)
  IN IF Len(c) = 0 THEN <<>> ELSE IF e[Len(e)] = c[Len(c)] THEN e ELSE Append(e, c[Len(c)])

\* DynamicsData.time, and what the frame cursor (Solution.solve_step, load_tdgl_data) shows for every frame
LoadedCum == Cum(LoadedDts)
CursorView == [n \in 1..Len(frames) |-> <<frames[n].step, frames[n].time, frames[n].content>>]

LoadFails ==
  \/ Len(frames) = 0
  \/ (~MEmptyLoads /\ \A n \in 1..Len(frames) : ~frames[n].hasrs)
  \/ (MSqueeze /\ K = 1 /\ \E n \in 1..Len(frames) : frames[n].hasrs)
  \/ ~frames[Len(frames)].complete

\* Solution(...) is assembled inside the DataHandler context
Assemble ==
  /\ pc = "assemble"
  /\ IF stage = "thermal" THEN result' = "none" /\ UNCHANGED err
     ELSE IF LoadFails THEN result' = "pending" /\ err' = TRUE
     ELSE result' = "solution" /\ UNCHANGED err
  /\ pc' = "close"
  /\ UNCHANGED <<cfg, fs, serial, stage, i, t, applied, tapplied, buf, bstep, frames, wr,
                 cancelled, faults, simdts, tdts, flog>>

\* DataHandler.__exit__ -> close(): close output, remove .tmp, remove the temp dir
Close ==
  /\ pc = "close"
  /\ fs' = IF cfg.out = "temp" THEN [n \in Names |-> "absent"]
           ELSE [fs EXCEPT ![OName(serial)] = "closed", ![TName(serial)] = "absent"]
  /\ result' = IF err THEN "raised" ELSE result
  /\ pc' = "returned"
  /\ UNCHANGED <<cfg, serial, stage, i, t, applied, tapplied, buf, bstep, frames, wr,
                 cancelled, err, faults, simdts, tdts, flog>>

Done == pc \in {"returned", "rejected"} /\ UNCHANGED vars

Next == Build \/ Ctor \/ PreSolve \/ OpenFiles \/ Run \/ Label \/ SaveBegin \/ SaveEnd \/ Clear
        \/ Update \/ Stop \/ Final \/ StageEnd \/ Assemble \/ Close
        \/ (\E kd \in FaultKinds, at \in {"pre", "post", "mid", "setup", "assemble"} : Fault(kd, at))
        \/ Done

Spec == Init /\ [][Next]_vars

-----------------------------------------------------------------------------
(* Properties.  Named after the clause of the listed property they encode. *)

NFrames == Len(frames)
Returned == pc = "returned"
WriterFaults == {n \in 1..Len(flog) : flog[n].where \in {"save", "final"}}
PostFaults == {n \in 1..Len(flog) : flog[n].at = "post"}
Multiples(n) == {m \in 0..n : m % K = 0}

(* ---- C05 ---- *)
\* a frame labelled step s holds the state after exactly s updates (of the recorded stage)
FrameHoldsExactlyStepUpdates ==
  \A n \in 1..NFrames : frames[n].content = tapplied + frames[n].step
\* ... and its time is the sum of the first s time steps
FrameTimeIsSumOfSteps ==
  \A n \in 1..NFrames : frames[n].step <= Len(simdts) /\ frames[n].time = Sum(simdts, frames[n].step)
\* frames at steps 0, k, 2k, ... and at the final step
FramesAtMultiplesAndEnd ==
  (Returned /\ stage = "sim" /\ WriterFaults = {}) =>
     LET want == Multiples(i) \cup (IF err THEN {} ELSE {i}) IN     \* an error propagates: no final frame
     /\ NFrames = Cardinality(want)
     /\ \A n \in 1..NFrames : frames[n].step \in want
     /\ \A n \in 1..NFrames-1 : frames[n].step < frames[n+1].step
\* while running: frames so far are at increasing multiples of k
FramesSoFarAtMultiples ==
  (pc \in {"label", "update", "stop", "clear"} /\ WriterFaults = {}) =>
     /\ \A n \in 1..NFrames : frames[n].step % K = 0
     /\ \A n \in 1..NFrames-1 : frames[n].step + K = frames[n+1].step
     /\ (NFrames > 0 => frames[1].step = 0)
\* per-step records: frame n carries exactly the records of the steps since frame n-1, in order
FrameRecords(n) == SelectSeq(frames[n].rs, LAMBDA x : x # 0)
RecordsOncePerStepInOrder ==
  \A n \in 2..NFrames :
     LET lo == frames[n-1].step  hi == frames[n].step
     IN frames[n].complete => FrameRecords(n) = [j \in 1..(hi - lo) |-> lo + j]
FirstFrameHasNoRecords == NFrames > 0 => FrameRecords(1) = <<>>
\* the run stops at the first step whose time reaches the requested solve time
StopsAtFirstStepReachingSolveTime ==
  (Returned /\ stage = "sim" /\ ~cancelled /\ ~err) =>
     /\ t >= cfg.solveT
     /\ t = Sum(simdts, i)
     /\ (i > 0 => Sum(simdts, i-1) < cfg.solveT)
\* thermalisation steps are never recorded; recorded time restarts from zero
ThermalisationNeverRecorded ==
  /\ (stage = "thermal" => NFrames = 0)
  /\ \A n \in 1..NFrames : \A j \in 1..Len(frames[n].rs) : frames[n].rs[j] >= 0
RecordedTimeRestartsAtZero == NFrames > 0 => frames[1].step = 0 /\ frames[1].time = 0
\* what the loaded solution reports
LoadedTimesAreFrameTimes ==
  (Returned /\ result = "solution") => LoadedTimes = [n \in 1..NFrames |-> frames[n].time]
LoadedDynamicsAreTheRecords ==
  (Returned /\ result = "solution") => LoadedUids = [j \in 1..frames[NFrames].step |-> j]
\* a run that nobody disturbs yields a solution
UndisturbedRunLoads == (Returned /\ faults = 0) => result = "solution"

(* ---- C11 (model half) ---- *)
\* the content of a frame is a function of its step label alone: not of k, the output
\* destination, or when the run was stopped; hence a run continued from its final frame
\* (content = label) reproduces the frames of the uninterrupted run.
ContentIndependentOfRecording == FrameHoldsExactlyStepUpdates
ResumeReproduces ==
  (Returned /\ result = "solution") =>
     /\ frames[NFrames].content = tapplied + frames[NFrames].step
     /\ (WriterFaults = {} => frames[NFrames].step = i)

(* ---- C15 ---- *)
AllHandlesClosedOnReturn == Returned => \A n \in Names : fs[n] # "open"
NoTempLeft == Returned => \A s \in 0..MaxSerial : fs[TName(s)] \in {"absent", "foreign"}
TempDirRemoved == (Returned /\ cfg.out = "temp") => \A n \in Names : fs[n] = "absent"
ForeignFilesUntouched == \A n \in Names : (cfg.out = "path" /\ n \in cfg.foreign) => fs[n] = "foreign"
NoStrayOutput ==
  (Returned /\ cfg.out = "path") =>
     \A s \in 0..MaxSerial : fs[OName(s)] = (IF s = serial THEN "closed"
                                     ELSE IF OName(s) \in cfg.foreign THEN "foreign" ELSE "absent")
FreshNameChosen == (serial >= 0 /\ cfg.out = "path") => OName(serial) \notin cfg.foreign /\ TName(serial) \notin cfg.foreign
OutputHoldsOnlyCompleteFrames == Returned => \A n \in 1..NFrames : frames[n].complete
AllKI == \A n \in 1..Len(flog) : flog[n].kind = "KI"
LoopFaultsOnly == \A n \in 1..Len(flog) : flog[n].where \in {"update", "save", "final"}
CancelGivesUsableSolution ==
  (Returned /\ Len(flog) > 0 /\ AllKI /\ LoopFaultsOnly) =>
     IF \E n \in 1..Len(flog) : flog[n].stage = "sim"
       THEN (NFrames > 0 => result = "solution")     \* nothing recorded yet: nothing to return
       ELSE result = "none"
ErrorPropagates == (Returned /\ \E n \in 1..Len(flog) : flog[n].kind = "Err") => result = "raised"

\* Known finding F-ghost (see known_findings.json): an update interrupted AFTER it appended its
\* per-step record leaves that record in the buffer, and the final frame of the cancelled run
\* stores it.  The clauses below are the same clauses with exactly that history excluded.
KnownGhostRecord == PostFaults # {}
RecordsOncePerStepInOrderModKnown == KnownGhostRecord \/ RecordsOncePerStepInOrder
LoadedDynamicsModKnown == KnownGhostRecord \/ LoadedDynamicsAreTheRecords
LoadedTimesModKnown == KnownGhostRecord \/ LoadedTimesAreFrameTimes

(* ---- C19 ---- *)
RejectedBeforeAnyFile == pc = "rejected" => fs = FS0(cfg) /\ serial = -1 /\ NFrames = 0
IllPosedNeverRuns == cfg.bad # "none" => \/ pc \in {"build", "ctor", "presolve", "rejected"}
                                         \/ (pc = "done" /\ result = "rejected")

TypeOK == /\ pc \in {"build", "ctor", "presolve", "rejected", "open", "run", "label", "save", "clear", "update",
                     "stop", "final", "stageend", "assemble", "close", "returned", "done"}
          /\ bstep \in 0..K /\ (pc = "update" => bstep < K)
          /\ wr \in 0..1
=============================================================================
