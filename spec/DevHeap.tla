------------------------------ MODULE DevHeap ------------------------------
(***************************************************************************)
(* C07, histories: the mesh of a device is the mesh of ITS OWN film, holes *)
(* and terminals, whatever was done afterwards to other Device objects     *)
(* obtained from it.                                                       *)
(*                                                                         *)
(* A heap in the style of PolyAlg: devices refer to a polygon set (film +  *)
(* holes + terminals) and to a mesh object (0 = no mesh) BY REFERENCE.     *)
(* A polygon set and a mesh each sit at a pose <<tx, ty, tag>> (tag names  *)
(* the non-translational part: every rotate / scale result gets a fresh    *)
(* one).  Actions = the public Device operations:                          *)
(*   copy()          new polygons, SAME mesh object (as the code does)     *)
(*   deepcopy        new polygons, new mesh                                *)
(*   shallowcopy     copy.copy: same polygons, same mesh                   *)
(*   translate(inplace=True)   moves the polygons; the mesh is REBUILT as  *)
(*                   a new object at the new pose (mechanism MRebuild)     *)
(*   translate(inplace=False), rotate, scale   new device without mesh     *)
(*   enter / exit    the translation() context manager                     *)
(*   makemesh        a fresh mesh at the device's pose                     *)
(* In-place operations on a device whose polygons are shared with another  *)
(* device (after copy.copy) are outside the universe: a shallow copy shares *)
(* its film by definition.                                                 *)
(* MRebuild = FALSE is the design canary (the mesh object is shifted in    *)
(* place): MeshMatchesOwnOutline must fail.                                *)
(***************************************************************************)
EXTENDS Integers, Sequences, FiniteSets, TLC, Json

CONSTANTS MaxDevs, MaxOps, HOps, ShiftX, ShiftY, MRebuild, HExport

VARIABLES devs, polys, meshes, stack, ntag, nops, hlast, hhist
hvars == <<devs, polys, meshes, stack, ntag, nops, hlast, hhist>>
hview == <<devs, polys, meshes, stack, ntag, nops, hlast>>

Move(p, sx, sy) == <<p[1] + sx, p[2] + sy, p[3]>>
Has(ds) == [d \in 1 .. Len(ds) |-> ds[d].mesh # 0]

HInit == /\ devs = <<[poly |-> 1, mesh |-> 1]>> /\ polys = <<<<0, 0, 0>>>> /\ meshes = <<<<0, 0, 0>>>>
         /\ stack = <<>> /\ ntag = 1 /\ nops = 0
         /\ hlast = [op |-> "new", d |-> 0, res |-> 1] /\ hhist = <<>>

Done(op, d, res, ds, ps, ms) ==
  /\ devs' = ds /\ polys' = ps /\ meshes' = ms /\ nops' = nops + 1
  /\ hlast' = [op |-> op, d |-> d, res |-> res]
  /\ hhist' = IF HExport THEN Append(hhist, [op |-> op, d |-> d, res |-> res, has |-> Has(ds)]) ELSE hhist

IsDev(d) == d \in 1 .. Len(devs)
Unshared(d) == \A e \in 1 .. Len(devs) : e # d => devs[e].poly # devs[d].poly
Room == Len(devs) < MaxDevs

DoCopy(d) == /\ IsDev(d)
             /\ Done("copy", d, Len(devs) + 1, Append(devs, [poly |-> Len(polys) + 1, mesh |-> devs[d].mesh]),
                     Append(polys, polys[devs[d].poly]), meshes)
             /\ UNCHANGED <<stack, ntag>>
DoDeepCopy(d) ==
  /\ IsDev(d)
  /\ IF devs[d].mesh = 0
     THEN Done("deepcopy", d, Len(devs) + 1, Append(devs, [poly |-> Len(polys) + 1, mesh |-> 0]), Append(polys, polys[devs[d].poly]), meshes)
     ELSE Done("deepcopy", d, Len(devs) + 1, Append(devs, [poly |-> Len(polys) + 1, mesh |-> Len(meshes) + 1]),
               Append(polys, polys[devs[d].poly]), Append(meshes, meshes[devs[d].mesh]))
  /\ UNCHANGED <<stack, ntag>>
DoShallowCopy(d) == /\ IsDev(d)
                    /\ Done("shallowcopy", d, Len(devs) + 1, Append(devs, devs[d]), polys, meshes)
                    /\ UNCHANGED <<stack, ntag>>

\* translate(dx, dy, inplace=True): polygons moved in place; the mesh is rebuilt (a new object) or, with the
\* mechanism switched off, the shared mesh object is shifted in place
InPlace(op, d, sx, sy) ==
  LET p == devs[d].poly
      m == devs[d].mesh
      ps == [polys EXCEPT ![p] = Move(@, sx, sy)]
  IN  IF m = 0 THEN Done(op, d, d, devs, ps, meshes)
      ELSE IF MRebuild THEN Done(op, d, d, [devs EXCEPT ![d].mesh = Len(meshes) + 1], ps, Append(meshes, ps[p]))
      ELSE Done(op, d, d, devs, ps, [meshes EXCEPT ![m] = Move(@, sx, sy)])
DoTranslateIn(d) == IsDev(d) /\ Unshared(d) /\ InPlace("translatein", d, ShiftX, ShiftY) /\ UNCHANGED <<stack, ntag>>
DoEnter(d) == IsDev(d) /\ Unshared(d) /\ stack = <<>> /\ InPlace("enter", d, ShiftX, ShiftY) /\ stack' = <<d>> /\ UNCHANGED ntag
DoExit == /\ stack # <<>> /\ Unshared(stack[1])
          /\ InPlace("exit", stack[1], -ShiftX, -ShiftY) /\ stack' = <<>> /\ UNCHANGED ntag

\* non-in-place transforms: a new device with new polygons and NO mesh
DoTranslateOut(d) == /\ IsDev(d)
                     /\ Done("translateout", d, Len(devs) + 1, Append(devs, [poly |-> Len(polys) + 1, mesh |-> 0]),
                             Append(polys, Move(polys[devs[d].poly], ShiftX, ShiftY)), meshes)
                     /\ UNCHANGED <<stack, ntag>>
Fresh(op, d) == /\ IsDev(d)
                /\ Done(op, d, Len(devs) + 1, Append(devs, [poly |-> Len(polys) + 1, mesh |-> 0]),
                        Append(polys, <<polys[devs[d].poly][1], polys[devs[d].poly][2], ntag>>), meshes)
                /\ ntag' = ntag + 1 /\ UNCHANGED stack
DoRotate(d) == Fresh("rotate", d)
DoScale(d) == Fresh("scale", d)
DoMakeMesh(d) == /\ IsDev(d)
                 /\ Done("makemesh", d, d, [devs EXCEPT ![d].mesh = Len(meshes) + 1], polys, Append(meshes, polys[devs[d].poly]))
                 /\ UNCHANGED <<stack, ntag>>

Can(op) == nops < MaxOps /\ op \in HOps
ACopy == Can("copy") /\ Room /\ \E d \in 1 .. Len(devs) : DoCopy(d)
ADeepCopy == Can("deepcopy") /\ Room /\ \E d \in 1 .. Len(devs) : DoDeepCopy(d)
AShallowCopy == Can("shallowcopy") /\ Room /\ \E d \in 1 .. Len(devs) : DoShallowCopy(d)
ATranslateIn == Can("translatein") /\ \E d \in 1 .. Len(devs) : DoTranslateIn(d)
ATranslateOut == Can("translateout") /\ Room /\ \E d \in 1 .. Len(devs) : DoTranslateOut(d)
ARotate == Can("rotate") /\ Room /\ \E d \in 1 .. Len(devs) : DoRotate(d)
AScale == Can("scale") /\ Room /\ \E d \in 1 .. Len(devs) : DoScale(d)
AEnter == Can("enter") /\ \E d \in 1 .. Len(devs) : DoEnter(d)
AExit == Can("exit") /\ DoExit
AMakeMesh == Can("makemesh") /\ \E d \in 1 .. Len(devs) : DoMakeMesh(d)
HNext == ACopy \/ ADeepCopy \/ AShallowCopy \/ ATranslateIn \/ ATranslateOut \/ ARotate \/ AScale \/ AEnter \/ AExit \/ AMakeMesh
HSpec == HInit /\ [][HNext]_hvars

\* ---- the clauses
\* every live device's mesh sits where that device's own film / holes / terminals sit
MeshMatchesOwnOutline == \A d \in 1 .. Len(devs) : devs[d].mesh # 0 => meshes[devs[d].mesh] = polys[devs[d].poly]
\* documented: non-in-place transforms return a device without mesh; copies keep it; in place returns self
ResultShape ==
  /\ hlast.op \in {"translateout", "rotate", "scale"} => hlast.res = Len(devs) /\ devs[hlast.res].mesh = 0
  /\ hlast.op \in {"copy", "deepcopy", "shallowcopy"} => hlast.res = Len(devs) /\ (devs[hlast.res].mesh # 0) = (devs[hlast.d].mesh # 0)
  /\ hlast.op \in {"translatein", "enter", "exit", "makemesh"} => hlast.res = hlast.d
  /\ hlast.op = "makemesh" => devs[hlast.d].mesh # 0
HClauses == MeshMatchesOwnOutline /\ ResultShape

HEmit == (HExport /\ hhist # <<>>) => PrintT(ToJson(hhist))
=============================================================================
