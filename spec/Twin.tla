-------------------------------- MODULE Twin --------------------------------
(***************************************************************************)
(* Relations between the observations of several real runs (L3).           *)
(*                                                                         *)
(* A trace is a sequence of observations [run, key, q]: run = which run    *)
(* made it, key = what is observed (e.g. the step label of a frame, or     *)
(* "step s / quantity x"), q = a sequence of integers: interned hash ids   *)
(* (tol = 0, bit-for-bit claims: C09, C11) or quantised gauge-invariant    *)
(* observables (tol > 0 quanta: C04, C08).                                 *)
(* The first observation of a key defines it; every later observation of   *)
(* the same key, by whichever run, must be related to it.  A trace is      *)
(* accepted iff every observation can be consumed.                         *)
(***************************************************************************)
EXTENDS Integers, Sequences, FiniteSets, TLC, Json, IOUtils, TLCExt

Batch == JsonDeserialize(IOEnv.TRACE_FILE)

VARIABLES tid, l, seen, runs
vars == <<tid, l, seen, runs>>

T == Batch[tid]
Ev == T.ev[l]
Abs(x) == IF x < 0 THEN -x ELSE x
Related(a, b, tol) == /\ Len(a) = Len(b)
                      /\ \A j \in 1..Len(a) : Abs(a[j] - b[j]) <= tol

Init == /\ tid \in 1..Len(Batch) /\ l = 1 /\ seen = <<>> /\ runs = {}

\* seen is a sequence of [key, q] pairs (keys are strings)
Lookup(k) == {n \in 1..Len(seen) : seen[n].key = k}

Observe ==
  /\ l <= Len(T.ev)
  /\ LET hits == Lookup(Ev.key) IN
       IF hits = {} THEN seen' = Append(seen, [key |-> Ev.key, q |-> Ev.q])
       ELSE /\ \A n \in hits : Related(seen[n].q, Ev.q, T.tol)
            /\ UNCHANGED seen
  /\ runs' = runs \cup {Ev.run}
  /\ l' = l + 1
  /\ UNCHANGED tid

Next == Observe
Spec == Init /\ [][Next]_vars

\* every key was observed consistently so far (kept as an explicit invariant: one definition per key)
OneDefinitionPerKey == \A a, b \in 1..Len(seen) : seen[a].key = seen[b].key => a = b
\* non-vacuity: an accepted trace must compare at least two runs
Accepted == (l = Len(T.ev) + 1) => (Cardinality(runs) >= T.minruns /\ PrintT(<<"ACCEPT", tid>>))
Progress == PrintT(<<"AT", tid, l>>)
=============================================================================
