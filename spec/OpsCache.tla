------------------------------- MODULE OpsCache -------------------------------
(***************************************************************************)
(* The finite-volume operators of py-tdgl as a CACHE with an in-place      *)
(* refresh path (C10), and the pinning of the order parameter on current   *)
(* terminals (C06).  DESIGN.md 3.3 (RefreshEqualsRebuild,                  *)
(* FixedRowsAreIdentity), 3.2 (OperatorsMatchLatestA,                      *)
(* PinnedSitesStayPinned), 5/C10, 5/C06.                                   *)
(*                                                                         *)
(* Code modelled:                                                          *)
(*   tdgl/finite_volume/operators.py  MeshOperators.set_link_exponents     *)
(*        first call  = Build   (build_gradient / build_laplacian)         *)
(*        later calls = Refresh (only the link-variable entries are        *)
(*                      overwritten, masked by laplacian_free_rows)        *)
(*   tdgl/solver/solver.py  TDGLSolver.__init__ (Ctor) and .update:        *)
(*        refresh trigger for a time-dependent applied potential, refresh  *)
(*        in every screening iteration, Euler step, value on terminals.    *)
(*                                                                         *)
(* Two specifications over one state:                                      *)
(*   SpecOps  - the environment hands arbitrary link configurations to the *)
(*              cache (sequences of length 1..MaxCalls);                   *)
(*   SpecStep - the solver drives the cache: Ctor, then per step           *)
(*              Field / Trigger / (Links, Euler, Induced)* / Finish.       *)
(*                                                                         *)
(* Exact arithmetic: a mesh instance carries small integer weights, edge   *)
(* lengths and cell areas; link variables are fourth roots of unity        *)
(* U = (-i)^q, i.e. A.e = q*pi/2; matrix entries are Gaussian integers     *)
(* <<re, im>> after scaling row i of the Laplacian by area[i] and row e of *)
(* the gradient by len[e].  Build* transcribe docs/background.rst          *)
(* (laplacian-psi, grad-psi), Refresh* transcribe the update-in-place of   *)
(* the code (index lists + mask).                                          *)
(***************************************************************************)
EXTENDS Integers, Sequences, FiniteSets, TLC, Json

CONSTANTS
  Insts,       \* mesh instances explored: subset of {"strip6", "fan5"}
  Modes,       \* pinned sets: subset of {"none", "terminals", "disabled"}
  QIds,        \* ids of the link configurations the environment offers (SpecOps)
  MaxCalls,    \* SpecOps: sequences of 1..MaxCalls vector potentials
  DForms,      \* SpecOps: how the caller hands a potential over: subset of {"fresh", "inplace", "view"}
               \*   "fresh"   a newly allocated array per call
               \*   "inplace" the caller keeps ONE work buffer, overwrites it in place and passes the same object again
               \*   "view"    the caller overwrites a base buffer and passes a view / slice of it (shares its memory)
               \* All are equivalent ways of delivering the sequence A_1..A_n.
  Scrs,        \* SpecStep: subset of BOOLEAN  (include_screening)
  Dyns,        \* SpecStep: subset of BOOLEAN  (time-dependent applied potential)
  Vs,          \* SpecStep: subset of {"zero", "nonzero", "none"} (terminal_psi class)
  Forms,       \* SpecStep: how options.terminal_psi was configured: subset of {"keyword", "assign", "replace", "copy",
               \* "deepcopy", "pickle", "file"}; with "assign" the options object was CONSTRUCTED with value class v0 and
               \* terminal_psi was assigned afterwards (None -> value, value -> None, value -> other value).  The pin
               \* semantics must depend on the value the solver reads (v) only.
  Seeds,       \* SpecStep: subset of {"configured", "other"}: the initial state (psi_init, or a seed_solution whose
               \* terminal values are / are not the configured terminal_psi)
  Hists,       \* SpecStep: history of the Device OBJECT the solver is handed: subset of {"fresh", "edited", "reset"}
               \*   "fresh"  no terminal polygon was changed since the device was constructed
               \*   "edited" the device was meshed and USED (terminal_info() / a solve), then a terminal polygon of the
               \*            same object was changed in place (Polygon.translate/rotate/scale(inplace=True), points = ...)
               \*            and the device was NOT meshed again (the mesh depends on film and holes only)
               \*   "reset"  a terminal polygon was changed in place and nothing evaluated on the present mesh predates
               \*            the change (changed before the first use, or the device was meshed again afterwards)
               \* The CURRENT terminals are the polygons as they are when the solver is constructed (term); term0 is
               \* the site set of the terminals as they were when the device was last used before the change.
  MaxSteps, MaxIter, AMax, IMax,
  \* ---- mechanism switches -------------------------------------------------
  MTrigger,    \* "prev_close": refresh iff not allclose(A_now, A_previous_step)  [pinned code]
               \* "exact"     : refresh iff A_now # A_previous_step              [candidate repair]
  MReimpose,   \* what is written onto the terminal sites after the Euler step:
               \*   "never"            identity row only [pinned code]
               \*   "nonzero"          the configured value, when it is nonzero (`if options.terminal_psi`)
               \*   "configured"       the configured value, whenever one is configured (`is not None`)
               \*   "incoming_nonzero" mutant: the values the step came in with (configured nonzero only)
  MReimposeOnRetry, \* TRUE: ... after EVERY accepted Euler step; FALSE: mutant (only when the first
               \* evaluation of |psi|^2 succeeded; a step that was retried with a smaller dt is not re-pinned)
  MMask,       \* TRUE [code]: refresh rewrites free rows only; FALSE: mutant (design canary)
  MBothHalves, \* TRUE [code]: both the U and the conj(U) entries are rewritten; FALSE: mutant
  MFreshLinks, \* TRUE [code]: link variables recomputed on every call; FALSE: mutant (cached from first refresh)
  MFixPsi,     \* TRUE [code]: rows are pinned only when fix_psi; FALSE: mutant (fix_psi ignored)
  MUnitDirs,   \* FALSE [code]: the link exponent of edge e is A . (r_j - r_i); TRUE: mutant (A . unit vector of the edge, in the
               \* build AND in the refresh: they agree with each other, only the first-principles Build* disagrees)
  MMemoLpsi,   \* FALSE [code]: every Euler step multiplies psi by the Laplacian held at that moment; TRUE: mutant
               \* (the product psi_laplacian @ psi is memoised per psi array, i.e. per solve step: screening iterations
               \* >= 2 use the product formed before the Laplacian was refreshed)
  MSkipEqual,  \* FALSE [code]: every call rebuilds / refreshes; TRUE: mutant ("already up to date" short-cut: return
               \* when the incoming array compares equal to self.link_exponents, which is a REFERENCE to the caller's array)
  MFixFlag,    \* "at_use" [code]: fix_psi = (terminal_psi is not None) is read when the solver is constructed;
               \* "at_construction": mutant (computed once when the options object is constructed: stale after an
               \* attribute assignment)
  MTermInfo    \* "current" [code]: the terminal sites are evaluated from the terminal polygons whenever a solver is
               \* constructed; "per_mesh": mutant (evaluated once per mesh and kept: stale after an in-place change of a
               \* terminal polygon of a device that is not meshed again)

-----------------------------------------------------------------------------
(* Gaussian integers *)
Zero == <<0, 0>>
U4(k) == CASE k % 4 = 0 -> <<1, 0>> [] k % 4 = 1 -> <<0, -1>> [] k % 4 = 2 -> <<-1, 0>> [] OTHER -> <<0, 1>>
Conj(z) == <<z[1], -z[2]>>
Scale(k, z) == <<k * z[1], k * z[2]>>

(* Mesh instances: sites 1..n, oriented edges (i, j), Laplacian weight w = dual/len, *)
(* edge length len, cell area, terminals (sets of sites).  Orientation is mixed on   *)
(* purpose (i > j occurs).  term0: the sites of the terminals BEFORE an in-place     *)
(* change of a terminal polygon (some sites stay, some leave, some enter).           *)
InstData ==
  [ strip6 |-> [ name  |-> "strip6", n |-> 6,
                 edges |-> << <<1,2>>, <<1,3>>, <<2,3>>, <<2,4>>, <<4,3>>, <<3,5>>, <<4,5>>, <<4,6>>, <<6,5>> >>,
                 w     |-> <<2, 1, 3, 1, 2, 1, 3, 2, 1>>,
                 len   |-> <<1, 2, 1, 2, 1, 2, 1, 2, 1>>,
                 area  |-> <<2, 3, 4, 4, 3, 2>>,
                 term  |-> {1, 2, 5, 6}, term0 |-> {1, 2, 3, 4} ],
    fan5   |-> [ name  |-> "fan5", n |-> 5,
                 edges |-> << <<1,2>>, <<2,3>>, <<3,4>>, <<4,1>>, <<1,5>>, <<2,5>>, <<5,3>>, <<5,4>> >>,
                 w     |-> <<1, 2, 1, 3, 2, 1, 1, 2>>,
                 len   |-> <<2, 1, 2, 1, 1, 2, 1, 2>>,
                 area  |-> <<3, 2, 3, 2, 4>>,
                 term  |-> {1, 3}, term0 |-> {1, 2} ] ]

NE(m) == Len(m.edges)
SitesOf(m) == 1..m.n
EdgesOf(m) == 1..NE(m)

(* Link configurations offered in SpecOps: id k |-> q in [edges -> 0..3]; id 1 is the zero potential *)
QC == << <<0,0,0>>, <<1,0,0>>, <<0,1,0>>, <<1,3,0>>, <<2,0,0>>, <<0,0,1>>, <<3,1,1>>, <<2,2,0>> >>
QOfId(m, k) == [e \in EdgesOf(m) |-> (QC[k][1] + QC[k][2] * e + QC[k][3] * e * e) % 4]

(* Link configuration of a total potential (applied level a, induced id i) in SpecStep:   *)
(* injective for a < 4^(NE-4), i < 4^4 (base-4 digits spread over the edges).             *)
Pow4 == <<1, 4, 16, 64, 256, 1024>>
Digit(x, k) == (x \div Pow4[k]) % 4
QOfPot(m, a, i) == [e \in EdgesOf(m) |-> IF e <= NE(m) - 4 THEN Digit(a, e) ELSE Digit(i, e - (NE(m) - 4))]

-----------------------------------------------------------------------------
(* Build: the operators from scratch (docs/background.rst).                  *)
(*   area_i (Lap psi)_i = sum_{j ~ i} w_ij (U_ij psi_j - psi_i),  U_ji = conj(U_ij)  *)
(*   len_e  (Grad psi)_e = U_e psi_j - psi_i  for e = (i, j)                          *)
(* Rows of pinned sites P are identity rows (eigenvalue 1; scaled: area_i).           *)
SumW(m, i) ==
  LET S[k \in 0..NE(m)] ==
        IF k = 0 THEN 0
        ELSE S[k - 1] + (IF m.edges[k][1] = i \/ m.edges[k][2] = i THEN m.w[k] ELSE 0)
  IN S[NE(m)]

\* constant tables per instance (evaluated once): the edge joining i and j (+e: e = (i, j), -e: e = (j, i),
\* 0: none) and the sum of the weights around a site
EdgeTab == [name \in DOMAIN InstData |->
              LET m == InstData[name] IN
              [i \in SitesOf(m), j \in SitesOf(m) |->
                 IF \E e \in EdgesOf(m) : m.edges[e] = <<i, j>> THEN CHOOSE e \in EdgesOf(m) : m.edges[e] = <<i, j>>
                 ELSE IF \E e \in EdgesOf(m) : m.edges[e] = <<j, i>> THEN -(CHOOSE e \in EdgesOf(m) : m.edges[e] = <<j, i>>)
                 ELSE 0]]
SumWTab == [name \in DOMAIN InstData |-> [i \in SitesOf(InstData[name]) |-> SumW(InstData[name], i)]]

BuildLap(m, q, P) ==
  [i \in SitesOf(m), j \in SitesOf(m) |->
     IF i \in P THEN (IF i = j THEN <<m.area[i], 0>> ELSE Zero)
     ELSE IF i = j THEN <<-SumWTab[m.name][i], 0>>
     ELSE LET e == EdgeTab[m.name][i, j] IN
          IF e > 0 THEN Scale(m.w[e], U4(q[e]))                 \* U_ij
          ELSE IF e < 0 THEN Scale(m.w[-e], Conj(U4(q[-e])))    \* U_ji = conj(U_ij)
          ELSE Zero]

BuildGrad(m, q) ==
  [e \in EdgesOf(m), s \in SitesOf(m) |->
     IF s = m.edges[e][2] THEN U4(q[e])
     ELSE IF s = m.edges[e][1] THEN <<-1, 0>>
     ELSE Zero]

(* Refresh: what the code overwrites in place.  The Laplacian link entries are the list   *)
(* k = 1..2NE: (edges[k][1], edges[k][2]) -> w U, (edges[k-NE][2], edges[k-NE][1]) -> w conj U *)
LinkRow(m, k) == IF k <= NE(m) THEN m.edges[k][1] ELSE m.edges[k - NE(m)][2]
LinkCol(m, k) == IF k <= NE(m) THEN m.edges[k][2] ELSE m.edges[k - NE(m)][1]
LinkVal(m, q, k) == IF k <= NE(m) THEN Scale(m.w[k], U4(q[k]))
                    ELSE Scale(m.w[k - NE(m)], Conj(U4(q[k - NE(m)])))
FreeRowsOf(m, P) == [k \in 1..2 * NE(m) |-> LinkRow(m, k) \notin P]

\* entry (i, j) is overwritten iff it occurs in the (masked, possibly truncated) list of link entries
RefreshLap(m, L, q, mask) ==
  LET top == IF MBothHalves THEN 2 * NE(m) ELSE NE(m) IN
  [i \in SitesOf(m), j \in SitesOf(m) |->
     LET e == EdgeTab[m.name][i, j]
         k == IF e > 0 THEN e ELSE IF e < 0 THEN NE(m) - e ELSE 0     \* LinkRow(k) = i, LinkCol(k) = j
     IN IF k # 0 /\ k <= top /\ mask[k] THEN LinkVal(m, q, k) ELSE L[i, j]]

RefreshGrad(m, G, q) ==
  [e \in EdgesOf(m), s \in SitesOf(m) |-> IF s = m.edges[e][2] THEN U4(q[e]) ELSE G[e, s]]

IsIdentityRow(m, L, i) == \A j \in SitesOf(m) : L[i, j] = (IF i = j THEN <<m.area[i], 0>> ELSE Zero)

-----------------------------------------------------------------------------
VARIABLES
  cfg,       \* [inst, mode, scr, dyn, v, seed, form, v0, hist]
  built,     \* psi_gradient is not None
  lap, grad, \* the matrices currently held (scaled, dense)
  freeRows,  \* laplacian_free_rows[: 2 NE] as stored by the first build
  linkQ,     \* the link configuration last handed to set_link_exponents (operators.link_exponents)
  firstQ,    \* link configuration of the first refresh (used only by the MFreshLinks = FALSE mutant)
  calls,     \* number of set_link_exponents calls so far
  hist,      \* history of [q |-> id, f |-> delivery form] handed in (SpecOps; exported for replay)
  \* ---- aliasing: operators.link_exponents = xp.asarray(arg) is a reference to the caller's array ----
  heldBuf,   \* what self.link_exponents refers to: 0 = an array nobody else writes to, 1 = the caller's work buffer
  heldVal,   \* its content when heldBuf = 0
  bufQ,      \* current content of the caller's work buffer (views share it)
  \* ---- solver level (SpecStep) ----
  pc, step, s,
  curA,      \* applied potential of this step (integer level)
  prevA,     \* self.current_A_applied: the value seen by the PREVIOUS step
  ind,       \* identity of the induced potential A_induced
  tv,        \* value class on terminal sites: "eq" (= configured), "drift", "free" (nothing configured),
             \* "seed" (initial state only: the seed's values, different from the configured one)
  drifted,   \* history: tv was "drift" at some step (what the saved frames show)
  memoLap,   \* the Laplacian whose product with psi is cached for this step (<<>>: none; MMemoLpsi mutant only)
  stepFresh  \* the last Euler step USED the operators of the latest total potential (what it did with psi)

opsvars == <<built, lap, grad, freeRows, linkQ, firstQ, calls>>
stepvars == <<pc, step, s, curA, prevA, ind, tv, drifted, memoLap, stepFresh>>
aliasvars == <<heldBuf, heldVal, bufQ>>
vars == <<cfg, opsvars, aliasvars, hist, stepvars>>

M == InstData[cfg.inst]
FixedSites == IF cfg.mode = "none" THEN {} ELSE M.term      \* the sites of the CURRENT terminals (property)
\* the sites the solver takes for terminal sites (mechanism): MeshOperators.fixed_sites, psi_init, re-imposition
MechSites == IF cfg.mode = "none" THEN {}
             ELSE IF MTermInfo = "per_mesh" /\ cfg.hist = "edited" THEN M.term0 ELSE M.term
FixPsi == cfg.mode # "disabled"                               \* MeshOperators.fix_psi
Eff == IF FixPsi THEN FixedSites ELSE {}                      \* the rows that are to be pinned (property)
\* the fix_psi flag the MeshOperators actually get (mechanism)
OpsFixPsi == IF ~MFixPsi THEN TRUE
             ELSE IF MFixFlag = "at_construction" /\ cfg.form = "assign" THEN cfg.v0 # "none"
             ELSE FixPsi
BuildFixed == IF OpsFixPsi THEN MechSites ELSE {}             \* the rows the build pins (mechanism)

\* the link configuration the mechanism works with (q[e] = 2/pi A.(r_j - r_i); with unit vectors it is divided by len)
MechQ(q) == IF MUnitDirs THEN [e \in EdgesOf(M) |-> q[e] \div M.len[e]] ELSE q

(* ---- the cache ---- *)
Build(q) ==
  /\ ~built
  /\ built' = TRUE
  /\ lap' = BuildLap(M, MechQ(q), BuildFixed)
  /\ grad' = BuildGrad(M, MechQ(q))
  /\ freeRows' = FreeRowsOf(M, BuildFixed)
  /\ linkQ' = q
  /\ firstQ' = firstQ
  /\ calls' = calls + 1

Refresh(q) ==
  /\ built
  /\ LET qq == MechQ(IF MFreshLinks \/ firstQ = <<>> THEN q ELSE firstQ)
         mask == IF OpsFixPsi /\ MMask THEN freeRows ELSE [k \in 1..2 * NE(M) |-> TRUE]
     IN /\ lap' = RefreshLap(M, lap, qq, mask)
        /\ grad' = RefreshGrad(M, grad, qq)
  /\ linkQ' = q
  /\ firstQ' = IF firstQ = <<>> THEN q ELSE firstQ
  /\ calls' = calls + 1
  /\ UNCHANGED <<built, freeRows>>

SetLinkExponents(q) == Build(q) \/ Refresh(q)

(* ---- properties of the cache (C10, C06 operator level) ---- *)
RefreshEqualsRebuild ==
  built => /\ lap = BuildLap(M, linkQ, Eff)
           /\ grad = BuildGrad(M, linkQ)
FixedRowsAreIdentity == built => \A i \in Eff : IsIdentityRow(M, lap, i)
NoOtherRowPinned == built => \A i \in SitesOf(M) \ Eff : ~IsIdentityRow(M, lap, i)
LapHermitianOnFreeBlock ==      \* sanity of the transcription: area-weighted free block is Hermitian
  built => \A i, j \in SitesOf(M) \ Eff : lap[i, j] = Conj(lap[j, i])

-----------------------------------------------------------------------------
(* SpecOps: arbitrary sequences of vector potentials *)
AllVs == {"zero", "nonzero", "none"}
Cfgs == {c \in [inst : Insts, mode : Modes, scr : Scrs, dyn : Dyns, v : Vs, seed : Seeds, form : Forms, v0 : AllVs,
                 hist : Hists] :
           /\ (c.form # "assign") => c.v0 = c.v
           /\ (c.mode = "none") => c.hist = "fresh"          \* no terminals: nothing to change
           /\ (c.v = "none") = (c.mode = "disabled")
           /\ (c.mode = "none") => c.v = "zero"}

InitCommon ==
  /\ built = FALSE /\ lap = <<>> /\ grad = <<>> /\ freeRows = <<>> /\ linkQ = <<>> /\ firstQ = <<>>
  /\ calls = 0 /\ hist = <<>> /\ heldBuf = 0 /\ heldVal = <<>> /\ bufQ = <<>>
  /\ step = 0 /\ s = 0 /\ curA = 0 /\ prevA = 0 /\ ind = 0 /\ tv = "unset" /\ drifted = FALSE
  /\ memoLap = <<>> /\ stepFresh = TRUE

InitOps == /\ cfg \in [inst : Insts, mode : Modes, scr : {FALSE}, dyn : {FALSE}, v : {"zero"}, seed : {"configured"},
                          form : {"keyword"}, v0 : {"zero"}, hist : {"fresh"}]
           /\ InitCommon /\ pc = "ops"

(* One call of set_link_exponents as the caller sees it.  With "inplace"/"view" the caller first writes the new *)
(* potential into its buffer - so what self.link_exponents shows at that moment is the NEW value when it        *)
(* refers to that buffer.                                                                                         *)
SeenHeld(q, f) == IF heldBuf = 1 THEN (IF f = "fresh" THEN bufQ ELSE q) ELSE heldVal
OpsCall(k, f) ==
  LET q == QOfId(M, k) IN
  /\ pc = "ops" /\ calls < MaxCalls
  /\ bufQ' = IF f = "fresh" THEN bufQ ELSE q
  /\ IF MSkipEqual /\ built /\ SeenHeld(q, f) = q
       THEN \* mutant: returns before touching anything (not even self.link_exponents)
            /\ linkQ' = q /\ calls' = calls + 1
            /\ UNCHANGED <<built, lap, grad, freeRows, firstQ, heldBuf, heldVal>>
       ELSE /\ SetLinkExponents(q)
            /\ heldBuf' = IF f = "fresh" THEN 0 ELSE 1
            /\ heldVal' = q
  /\ hist' = Append(hist, [q |-> k, f |-> f])
  /\ UNCHANGED <<cfg, stepvars>>
OpsBuild == ~built /\ \E k \in QIds, f \in DForms : OpsCall(k, f)                   \* first call: builds
OpsRefresh == built /\ \E k \in QIds : OpsCall(k, "fresh")                          \* later calls: refresh in place
\* the same memory is delivered again (possibly with new content): buffer passed before, overwritten, passed again
OpsRefreshAliased == built /\ heldBuf = 1 /\ \E k \in QIds, f \in DForms \ {"fresh"} : OpsCall(k, f)
OpsRefreshFirstAlias == built /\ heldBuf = 0 /\ \E k \in QIds, f \in DForms \ {"fresh"} : OpsCall(k, f)
NextOps == OpsBuild \/ OpsRefresh \/ OpsRefreshAliased \/ OpsRefreshFirstAlias
SpecOps == InitOps /\ [][NextOps]_vars

-----------------------------------------------------------------------------
(* SpecStep: the solver drives the cache *)
Abs(x) == IF x < 0 THEN -x ELSE x
Close(a, b) == Abs(a - b) <= 1        \* chain: consecutive levels are close (allclose), distant ones are not

InitStep == /\ cfg \in Cfgs /\ InitCommon /\ pc = "ctor"

\* TDGLSolver.__init__: operators built for A_applied(t = 0); the initial state is psi_init
\* (psi_init[terminals] = terminal_psi) or the seed_solution, whose terminal values are an environment choice
Ctor ==
  /\ pc = "ctor"
  /\ Build(QOfPot(M, 0, 0))
  \* psi_init carries the configured value on the sites the solver takes for terminal sites
  /\ tv' = IF cfg.v = "none" THEN "free"
           ELSE IF cfg.seed = "configured" \/ FixedSites = {} THEN (IF MechSites = FixedSites THEN "eq" ELSE "drift")
           ELSE "seed"
  /\ pc' = "idle"
  /\ UNCHANGED <<cfg, hist, aliasvars, step, s, curA, prevA, ind, drifted, memoLap, stepFresh>>

BeginStep ==
  /\ pc = "idle" /\ step < MaxSteps
  /\ pc' = IF cfg.dyn THEN "field" ELSE "loop"
  /\ s' = 0
  /\ memoLap' = <<>>                     \* a new solve step comes with a new psi array
  /\ UNCHANGED <<cfg, hist, aliasvars, opsvars, step, curA, prevA, ind, tv, drifted, stepFresh>>

\* update_applied_vector_potential(time): the environment moves along the chain
Field(a) ==
  /\ pc = "field"
  /\ curA' = a
  /\ pc' = "trigger"
  /\ UNCHANGED <<cfg, hist, aliasvars, opsvars, step, s, prevA, ind, tv, drifted, memoLap, stepFresh>>

Changed == IF MTrigger = "prev_close" THEN ~Close(curA, prevA) ELSE curA # prevA

TrigRefresh ==
  /\ pc = "trigger" /\ Changed
  /\ Refresh(QOfPot(M, curA, 0))          \* set_link_exponents(current_A_applied): applied part only
  /\ prevA' = curA
  /\ pc' = "loop"
  /\ UNCHANGED <<cfg, hist, aliasvars, step, s, curA, ind, tv, drifted, memoLap, stepFresh>>

TrigSkip ==
  /\ pc = "trigger" /\ ~Changed
  /\ prevA' = curA                          \* self.current_A_applied is overwritten every step
  /\ pc' = "loop"
  /\ UNCHANGED <<cfg, hist, aliasvars, opsvars, step, s, curA, ind, tv, drifted, memoLap, stepFresh>>

\* screening: set_link_exponents(current_A_applied + A_induced) in every iteration
Links ==
  /\ pc = "loop" /\ cfg.scr
  /\ Refresh(QOfPot(M, curA, ind))
  /\ pc' = "euler"
  /\ UNCHANGED <<cfg, hist, aliasvars, step, s, curA, prevA, ind, tv, drifted, memoLap, stepFresh>>

NoLinks ==
  /\ pc = "loop" /\ ~cfg.scr
  /\ pc' = "euler"
  /\ UNCHANGED <<cfg, hist, aliasvars, opsvars, step, s, curA, prevA, ind, tv, drifted, memoLap, stepFresh>>

(* The Euler step on a terminal site.  With an identity row (L psi)_i = psi_i, so the   *)
(* update of psi_i is  psi_i + dt/u sqrt(..) ((eps - |psi_i|^2) psi_i + psi_i): it      *)
(* leaves 0 at 0 and moves every other value (background.rst, eq. for psi^{n+1}).        *)
PinnedRowsAreIdentity == \A i \in FixedSites : IsIdentityRow(M, lap, i)
\* retried: the first solve_for_psi_squared evaluation was refused and the step was accepted with a smaller dt
\* (adaptive_euler_step); an environment choice.  The re-imposition concerns nonzero values only (0 is kept by
\* the identity row, as in the code: `if options.terminal_psi and len(fixed_sites)`).
EulerValue(retried) ==
  LET path == ~retried \/ MReimposeOnRetry IN
  IF cfg.v = "none" THEN "free"
  ELSE IF FixedSites = {} THEN "eq"
  ELSE IF MechSites # FixedSites THEN "drift"      \* some current terminal site is treated as a free site: it evolves
  ELSE IF path /\ (MReimpose = "configured" \/ (MReimpose = "nonzero" /\ cfg.v = "nonzero")) THEN "eq"
  ELSE IF path /\ MReimpose = "incoming_nonzero" /\ cfg.v = "nonzero" THEN (IF tv = "eq" THEN "eq" ELSE "drift")
  ELSE IF tv = "eq" /\ cfg.v = "zero" /\ PinnedRowsAreIdentity THEN "eq"
  ELSE "drift"

LatestQ == QOfPot(M, curA, IF cfg.scr THEN ind ELSE 0)      \* link configuration of the latest total potential
\* what the step does with psi: L psi with the Laplacian in force (or, mutant, the memoised product)
UsedLap == IF MMemoLpsi /\ memoLap # <<>> THEN memoLap ELSE lap
Euler(retried) ==
  /\ pc = "euler"
  /\ tv' = EulerValue(retried)
  /\ drifted' = (drifted \/ tv' = "drift")
  /\ stepFresh' = (UsedLap = BuildLap(M, LatestQ, BuildFixed))   \* vs. a fresh build with the same fixed_sites / fix_psi
  /\ memoLap' = IF MMemoLpsi THEN UsedLap ELSE <<>>
  /\ pc' = IF cfg.scr THEN "induced" ELSE "finish"
  /\ UNCHANGED <<cfg, hist, aliasvars, opsvars, step, s, curA, prevA, ind>>
EulerStep == pc = "euler" /\ \E retried \in BOOLEAN : Euler(retried)

\* get_induced_vector_potential: a new induced potential (or, converged exactly, the same)
Induced(chg, again) ==
  /\ pc = "induced"
  /\ ind' = ind + chg
  /\ IF again THEN /\ s < MaxIter /\ s' = s + 1 /\ pc' = "loop"
              ELSE /\ s' = s /\ pc' = "finish"
  /\ UNCHANGED <<cfg, hist, aliasvars, opsvars, step, curA, prevA, tv, drifted, memoLap, stepFresh>>

Finish ==
  /\ pc = "finish"
  /\ step' = step + 1
  /\ pc' = "idle"
  /\ UNCHANGED <<cfg, hist, aliasvars, opsvars, s, curA, prevA, ind, tv, drifted, memoLap, stepFresh>>

InducedStep == pc = "induced" /\ \E chg \in {0, 1}, again \in BOOLEAN : (ind + chg <= IMax) /\ Induced(chg, again)
FieldStep == pc = "field" /\ \E a \in 0..AMax : Field(a)

NextStep ==
  \/ Ctor \/ BeginStep
  \/ FieldStep
  \/ TrigRefresh \/ TrigSkip \/ Links \/ NoLinks \/ EulerStep
  \/ InducedStep
  \/ Finish
SpecStep == InitStep /\ [][NextStep]_vars

(* ---- properties at solver level ---- *)
OpsFresh == /\ linkQ = LatestQ
            /\ lap = BuildLap(M, LatestQ, Eff)
            /\ grad = BuildGrad(M, LatestQ)
\* C10: no Euler step ever runs with stale or partially updated operators
OperatorsMatchLatestA == (pc = "euler") => OpsFresh
\* C10: ... observed on what the step DOES with psi, not only on the operator object
EulerUsesLatestOperators == stepFresh
\* C06: on every terminal site the order parameter equals the CONFIGURED value at every step, for every initial
\* state.  Steps are counted from the first update: the state before it (frame 0 of a seeded run) is the seed's,
\* tv = "seed", and no Euler step ever produces "seed" again.
PinnedSitesStayPinned == (cfg.v # "none" /\ tv # "unset") => (tv = "eq" \/ (tv = "seed" /\ pc \in {"ctor", "idle", "field", "trigger", "loop", "euler"} /\ step = 0 /\ s = 0))
\* C06: terminal value unset => nothing is pinned
UnsetMeansFree == (cfg.v = "none" /\ built) => (tv = "free" /\ \A i \in SitesOf(M) : ~IsIdentityRow(M, lap, i))
NoScreeningNoInduced == ~cfg.scr => ind = 0

TypeOK ==
  /\ cfg.inst \in Insts /\ cfg.mode \in {"none", "terminals", "disabled"} /\ cfg.hist \in {"fresh", "edited", "reset"}
  /\ built \in BOOLEAN /\ calls \in Nat
  /\ pc \in {"ops", "ctor", "idle", "field", "trigger", "loop", "euler", "induced", "finish", "end"}
  /\ tv \in {"unset", "eq", "drift", "free", "seed"}
  /\ built => /\ DOMAIN lap = SitesOf(M) \X SitesOf(M)
              /\ DOMAIN grad = EdgesOf(M) \X SitesOf(M)

\* the potential -> link configuration map must not identify distinct potentials inside the bounds:
\* it is decoded back (digits), so staleness can never be hidden by a coincidence of the encoding
DecodeA(m, q) == LET S[k \in 0..NE(m) - 4] == IF k = 0 THEN 0 ELSE S[k - 1] + q[k] * Pow4[k] IN S[NE(m) - 4]
DecodeI(m, q) == LET S[k \in 0..4] == IF k = 0 THEN 0 ELSE S[k - 1] + q[NE(m) - 4 + k] * Pow4[k] IN S[4]
Min(a, b) == IF a < b THEN a ELSE b
ASSUME \A name \in Insts :
          LET m == InstData[name] IN
          \* a change of a terminal polygon: some sites stay terminal sites, some leave, some enter
          /\ m.term \cap m.term0 # {} /\ m.term \ m.term0 # {} /\ m.term0 \ m.term # {} /\ m.term0 \subseteq 1..m.n
          /\ AMax < Pow4[NE(m) - 4 + 1] /\ IMax < Pow4[5]        \* base-4 digits: unique representation
          /\ \A k \in 1..2 * NE(m) : EdgeTab[name][LinkRow(m, k), LinkCol(m, k)] = (IF k <= NE(m) THEN k ELSE NE(m) - k)
          /\ \A a \in 0..Min(AMax, 20), i \in 0..Min(IMax, 20) :
                LET q == QOfPot(m, a, i) IN DecodeA(m, q) = a /\ DecodeI(m, q) = i

(* ---- export for the replay against the real MeshOperators (spec -> code) ---- *)
LapSeq(m, L) == [i \in SitesOf(m) |-> [j \in SitesOf(m) |-> L[i, j]]]
GradSeq(m, G) == [e \in EdgesOf(m) |-> [j \in SitesOf(m) |-> G[e, j]]]
\* every maximal sequence (its prefixes are the shorter sequences)
EmitSeq == (pc = "ops" /\ calls = MaxCalls) =>
             PrintT(ToJson([kind |-> "seq", inst |-> cfg.inst, mode |-> cfg.mode, seq |-> [n \in 1..Len(hist) |-> hist[n].q],
                            forms |-> [n \in 1..Len(hist) |-> hist[n].f]]))
\* the instance and, per (instance, pinned set, link configuration), the matrices a fresh build must give
EmitExpected == (pc = "ops" /\ calls = 1) =>
             PrintT(ToJson([kind |-> "expect", inst |-> cfg.inst, mode |-> cfg.mode, q |-> hist[1].q,
                            qv |-> QOfId(M, hist[1].q), lap |-> LapSeq(M, lap), grad |-> GradSeq(M, grad),
                            n |-> M.n, edges |-> M.edges, w |-> M.w, len |-> M.len, area |-> M.area,
                            fixed |-> [i \in SitesOf(M) |-> i \in FixedSites], fixpsi |-> FixPsi]))

\* hide the history when checking properties
ViewOps == <<cfg, opsvars, aliasvars, stepvars>>
ViewStep == <<cfg, built, lap, grad, freeRows, linkQ, firstQ, stepvars>>
=============================================================================
