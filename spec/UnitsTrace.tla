----------------------------- MODULE UnitsTrace -----------------------------
(***************************************************************************)
(* Validation of what real TDGLSolver instances (one physical device       *)
(* expressed in several unit systems, one shared dimensionless mesh) and   *)
(* the real vector-potential code did, against Units.                      *)
(*                                                                         *)
(* A trace is [tol, ev]; events                                            *)
(*  [ev |-> "abs",   q, u, m, r]   scale q observed in unit system u;      *)
(*        m = the exponent vector the harness evaluated numerically        *)
(*        (must be the model's), r = |observed / value(m) - 1| in quanta   *)
(*  [ev |-> "ratio", q, u1, u2, e, r]  observed(u1)/observed(u2) =         *)
(*        10^e * (1 +- r quanta): the model says the ratio is a pure       *)
(*        power of ten with exactly that exponent                          *)
(*  [ev |-> "flux",  u, n, r]   n mesh triangles; largest deviation of the *)
(*        oriented link-exponent sum on solver.current_A_applied from the  *)
(*        model's 2 pi flux / Phi0, in quanta                              *)
(*  [ev |-> "tri",   p, o2, e4]  exact integer triangle p handed to the    *)
(*        real symmetric-gauge code with gauge origin o2/2: observed       *)
(*        4/B * link exponents (integers)                                  *)
(* The state carries the unit systems / triangle of the event, so the      *)
(* invariants of Units are evaluated on exactly what was observed.         *)
(***************************************************************************)
EXTENDS Units, Json, IOUtils, TLCExt

Batch == JsonDeserialize(IOEnv.TRACE_FILE)

VARIABLES tid, l, kinds
tvars == <<tid, l, kinds, mode, u1, u2, tri, org>>

T == Batch[tid]
Ev == T.ev[l]
US(v) == [l |-> v[1], f |-> v[2], c |-> v[3]]
AsMono(m) == [k \in Basis |-> m[k]]

TInit == /\ tid \in 1..Len(Batch) /\ l = 1 /\ kinds = {}
         /\ mode = "start" /\ u1 = U0 /\ u2 = U0 /\ tri = T0 /\ org = <<0, 0>>

AbsEvent ==
  /\ Ev.ev = "abs" /\ Ev.q \in ScaleNames /\ US(Ev.u) \in UnitSystems
  /\ DOMAIN Ev.m = Basis
  /\ AsMono(Ev.m) = Scales(US(Ev.u))[Ev.q]
  /\ Ev.r >= 0 /\ Ev.r <= T.tol
  /\ mode' = "units" /\ u1' = US(Ev.u) /\ u2' = US(Ev.u) /\ UNCHANGED <<tri, org>>

RatioEvent ==
  /\ Ev.ev = "ratio" /\ Ev.q \in ScaleNames /\ US(Ev.u1) \in UnitSystems /\ US(Ev.u2) \in UnitSystems
  /\ LET a == Scales(US(Ev.u1))[Ev.q]
         b == Scales(US(Ev.u2))[Ev.q] IN
       /\ \A k \in Basis \ {"ten"} : a[k] = b[k]
       /\ Ev.e = a["ten"] - b["ten"]
  /\ Ev.r >= 0 /\ Ev.r <= T.tol
  /\ mode' = "units" /\ u1' = US(Ev.u1) /\ u2' = US(Ev.u2) /\ UNCHANGED <<tri, org>>

FluxEvent ==
  /\ Ev.ev = "flux" /\ US(Ev.u) \in UnitSystems
  /\ Ev.n > 0 /\ Ev.r >= 0 /\ Ev.r <= T.tol
  /\ mode' = "units" /\ u1' = US(Ev.u) /\ u2' = US(Ev.u) /\ UNCHANGED <<tri, org>>

TriEvent ==
  /\ Ev.ev = "tri"
  /\ LET t == <<<<Ev.p[1][1], Ev.p[1][2]>>, <<Ev.p[2][1], Ev.p[2][2]>>, <<Ev.p[3][1], Ev.p[3][2]>>>>
         o == <<Ev.o2[1], Ev.o2[2]>> IN
       /\ Area2(t) # 0
       /\ <<Ev.e4[1], Ev.e4[2], Ev.e4[3]>> = TriE4(t, o)
       /\ tri' = t /\ org' = o
  /\ mode' = "tri" /\ UNCHANGED <<u1, u2>>

TNext == /\ l <= Len(T.ev)
         /\ (AbsEvent \/ RatioEvent \/ FluxEvent \/ TriEvent)
         /\ l' = l + 1 /\ kinds' = kinds \cup {Ev.ev} /\ UNCHANGED tid
TSpec == TInit /\ [][TNext]_tvars

Accepted == (l = Len(T.ev) + 1) => PrintT(<<"ACCEPT", tid>>)
Progress == PrintT(<<"AT", tid, l>>)
=============================================================================
