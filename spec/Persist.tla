------------------------------ MODULE Persist ------------------------------
(***************************************************************************)
(* Save / load of py-tdgl objects as a write/read protocol over records     *)
(* (C14).                                                                   *)
(*                                                                          *)
(* kinds of object                                                          *)
(*   "options"  SolverOptions inside a Solution file                        *)
(*              (Solution._save_to_hdf5_file / Solution.from_hdf5)          *)
(*   "device"   Layer / Polygon / Device .to_hdf5 / .from_hdf5              *)
(*   "mesh"     Mesh.to_hdf5(compress) / Mesh.from_hdf5                     *)
(*   "solution" the data of every recorded step, the per-step dynamics      *)
(*              (Solution.to_hdf5 to a new file / in place / after the      *)
(*              output file was deleted / of a run with output_file=None;   *)
(*              Solution.from_hdf5(step)), Solution.times,                  *)
(*              closest_solve_step                                          *)
(* (parameters: spec/ParamAlg.tla, clause PickleRoundTrip).                 *)
(*                                                                          *)
(* A record is made of content identities: option values are tokens         *)
(* ("d" the dataclass default, "n" a non-default value, "c" a complex       *)
(* value, "N" None); arrays and polygons are integers that the binding      *)
(* assigns by content (equal integers <=> bit-identical content, 0 = not    *)
(* there / None).  A history uses ONE path: save X, load, remove the file,   *)
(* save Y (same shape, other content) under the same path, load: the second *)
(* load must give Y.  Save produces the FILE (what an independent reader sees  *)
(* in the HDF5 file), Load produces the loaded record from the file alone.  *)
(* Mechanism switches M* select how the pinned code or a mutant does it;    *)
(* the properties do not mention them.                                      *)
(***************************************************************************)
EXTENDS Integers, Sequences, FiniteSets, TLC, Json

CONSTANTS
  Kinds,          \* kinds enumerated by this run, subset of {"options", "device", "mesh", "solution"}
  MaxDev,         \* option records: at most MaxDev fields deviate from the defaults
  PairMod, Seed,  \* records with more than one deviating field that does not involve a None-able field: 1 in PairMod
  MSkip,          \* which option values Save leaves out: "none" (pinned and repaired) | "falsy" (mutant)
  MLoadMissing,   \* what Load takes for an option that is not in the file: "default" (pinned) | "none" (repaired)
  MLayerCond,     \* TRUE: Layer.to_hdf5 stores the conductivity (when there is one)
  MRestoreDual,   \* TRUE: a mesh restored from stored arrays takes the stored dual/Voronoi arrays as well
  MPolyAsHeld,    \* TRUE: Polygon.to_hdf5 stores the points as the object holds them (closed, counter-clockwise)
  MDynAlways,     \* TRUE: a solution without a file writes its per-step dynamics whether or not there are probe points
  MTransformRebuilds,  \* TRUE: a transformation of a meshed object leaves a mesh whose every derived array belongs to the
                       \* transformed triangulation (FALSE, mutant: the Voronoi polygons keep their old position)
  MBrowseResetsViews, \* TRUE: setting solve_step also renews what the Solution derives lazily from the step it holds (sheet current
                      \* densities, vorticity); FALSE (mutant): a view computed for an earlier step survives the move
  MBrowseRereads, \* TRUE: setting solve_step on a loaded Solution reads every array of that step from the file (FALSE, mutant:
                  \* the disorder parameter of the step loaded first is kept)
  MMemoByPath     \* TRUE (mutant): the reader memoises what it loaded by path and serves it again (FALSE: cache-free reader)

VARIABLES kind, shape, saved,
          file,     \* the file system: what the ONE path used by this history currently holds (Nothing = no file)
          loaded, pc,
          memo,     \* what a memoising reader remembers for the path (first thing it loaded); unused by a cache-free reader
          recomp,   \* the mesh recomputed from the triangulation (sites, elements) of the object that is saved:
                    \* what Mesh.from_triangulation gives for it (NoMesh when the object has no mesh)
          cursor,   \* browsing ONE loaded Solution with solve_step = k: [k, idx (1-based position of the step in the file), frame]
          gen       \* generation: 1 = first object saved under the path, 2 = after the file was removed and the
                    \* path re-used for another object of the same shape (same array shapes, other content)
vars == <<kind, shape, saved, file, loaded, pc, memo, recomp, cursor, gen>>

SeqToSet(s) == {s[n] : n \in 1..Len(s)}
-----------------------------------------------------------------------------
(* SolverOptions                                                            *)
OptNames == <<"solve_time", "skip_time", "dt_init", "dt_max", "adaptive", "adaptive_window", "max_solve_retries",
              "adaptive_time_step_multiplier", "output_file", "terminal_psi", "gpu", "sparse_solver",
              "pause_on_interrupt", "save_every", "progress_interval", "monitor", "monitor_update_interval",
              "field_units", "current_units", "include_screening", "max_iterations_per_step",
              "screening_tolerance", "screening_step_size", "screening_step_drag">>
OptSet == SeqToSet(OptNames)
\* value tokens a field may take (gpu / sparse_solver: the alternatives need hardware / packages)
OptVals(f) == CASE f = "terminal_psi" -> {"d", "n", "c", "N"}
                [] f \in {"gpu", "sparse_solver"} -> {"d"}
                [] OTHER -> {"d", "n"}
\* "d" of output_file is None itself; terminal_psi (default 0.0) may be None: "unset"
IsNone(f, v) == v = "N" \/ (f = "output_file" /\ v = "d")
NoneTok(f) == IF f = "output_file" THEN "d" ELSE "N"
\* Python truth value of the concrete value behind a token
Falsy(f, v) == \/ IsNone(f, v)
               \/ v = "d" /\ f \in {"skip_time", "gpu", "progress_interval", "monitor", "include_screening", "terminal_psi"}
               \/ v = "n" /\ f \in {"adaptive", "pause_on_interrupt"}
Required(f) == f = "solve_time"          \* no dataclass default
OptDefault == [f \in OptSet |-> "d"]
Deviating(r) == {f \in OptSet : r[f] # "d"}
NoneAble == {"output_file", "terminal_psi"}
Idx(f) == CHOOSE n \in 1..Len(OptNames) : OptNames[n] = f
TokCode(v) == CASE v = "d" -> 0 [] v = "n" -> 1 [] v = "c" -> 2 [] v = "N" -> 3
RECURSIVE SumOver(_, _)
SumOver(S, r) == IF S = {} THEN 0 ELSE LET f == CHOOSE x \in S : TRUE IN (Idx(f) * 7 + TokCode(r[f]) * 3 + SumOver(S \ {f}, r) * 13) % 10007
SampledRec(r) == \/ Cardinality(Deviating(r)) <= 1
                 \/ Deviating(r) \cap NoneAble # {}
                 \/ PairMod = 1 \/ (SumOver(Deviating(r), r) + Seed) % PairMod = 0

Skipped(f, v) == IF MSkip = "none" THEN IsNone(f, v) ELSE Falsy(f, v)
OptFileOf(r) == [f \in {g \in OptSet : ~Skipped(g, r[g])} |-> r[f]]
OptLoadOf(fl) == [f \in OptSet |-> IF f \in DOMAIN fl THEN fl[f]
                                   ELSE IF MLoadMissing = "none" THEN NoneTok(f)
                                   ELSE IF Required(f) THEN "X" ELSE "d"]

-----------------------------------------------------------------------------
(* Device / Layer / Polygon: records of content identities                  *)
LayerFields == {"london_lambda", "coherence_length", "thickness", "conductivity", "u", "gamma", "z0"}
MeshArrays == {"sites", "elements", "boundary_indices", "areas", "dual_sites", "voronoi_polygons",
               "centers", "edges", "boundary_edge_indices", "directions", "edge_lengths", "dual_edge_lengths"}
MeshTop == {"sites", "elements", "boundary_indices", "areas", "edge_mesh", "dual_sites",
            "voronoi_polygons_flat", "voronoi_split_indices"}
NoMesh == [a \in MeshArrays |-> 0]
HasMesh(m) == m # NoMesh

\* symbolic identities for the model-checking runs (the binding supplies real ones)
MeshSeq == <<"sites", "elements", "boundary_indices", "areas", "dual_sites", "voronoi_polygons", "centers", "edges",
            "boundary_edge_indices", "directions", "edge_lengths", "dual_edge_lengths">>
SymMeshG(g) == [a \in MeshArrays |-> 1000 * (g - 1) + 50 + (CHOOSE n \in 1..12 : MeshSeq[n] = a)]
SymMesh == SymMeshG(1)
\* the mesh an object holds after its pre-save history: consistent, unless an in-place translation is not followed by a rebuild
SymHeldMesh(s, g) == IF MTransformRebuilds \/ s.pre \notin {"translate", "context"} THEN SymMeshG(g)
                     ELSE [SymMeshG(g) EXCEPT !.voronoi_polygons = 7777]
SymDevice(s, g) == [name |-> 1, length_units |-> 2,
                 layer |-> [f \in LayerFields |-> IF f = "conductivity" THEN (IF s.cond THEN 47 ELSE 0) ELSE 40 + g],
                 film |-> 10, holes |-> [n \in 1..s.holes |-> 10 + n], terminals |-> [n \in 1..s.terms |-> 20 + n],
                 probe_points |-> IF s.probes > 0 THEN 30 + s.probes + 100 * g ELSE 0,
                 mesh |-> IF s.mesh THEN SymHeldMesh(s, g) ELSE NoMesh]
\* pre: what happened to the object between meshing and saving
\*   "none" | "translate" (translate(inplace=True) of the meshed device) | "context" (saved inside `with device.translation(..)`)
\*   | "rotate" / "scale" (these drop the mesh; meshed again afterwards)
Pres == {"none", "translate", "context", "rotate", "scale"}
DeviceShapes == {s \in [holes : 0..2, terms : {0, 2, 3}, probes : {0, 2, 3}, cond : BOOLEAN, mesh : BOOLEAN, savemesh : BOOLEAN, pre : Pres] :
                   s.pre # "none" => s.mesh}
\* the identity of the points the file holds when a polygon is NOT stored as held: some other content
NotAsHeld(id) == id + 1000
PolyStored(id) == IF MPolyAsHeld THEN id ELSE NotAsHeld(id)
\* the file: which optional members exist, and the content stored
DevicePresent(s, sv) == {"layer", "film"} \cup (IF Len(sv.terminals) > 0 THEN {"terminals"} ELSE {})
                           \cup (IF Len(sv.holes) > 0 THEN {"holes"} ELSE {})
                           \cup (IF sv.probe_points # 0 THEN {"probe_points"} ELSE {})
                           \cup (IF s.savemesh /\ HasMesh(sv.mesh) THEN {"mesh"} ELSE {})
DeviceFileOf(s, sv) ==
  [present |-> DevicePresent(s, sv),
   rec |-> [sv EXCEPT !.mesh = IF s.savemesh THEN sv.mesh ELSE NoMesh,
                      !.layer = [sv.layer EXCEPT !["conductivity"] = IF MLayerCond THEN sv.layer["conductivity"] ELSE 0],
                      !.film = PolyStored(sv.film),
                      !.holes = [n \in 1..Len(sv.holes) |-> PolyStored(sv.holes[n])],
                      !.terminals = [n \in 1..Len(sv.terminals) |-> PolyStored(sv.terminals[n])]]]
\* Load normalises polygons (closes, orients); content that was stored as held is unchanged by that
DeviceLoadOf(fl) == fl.rec

-----------------------------------------------------------------------------
(* Mesh                                                                     *)
MeshShapes == [compress : BOOLEAN, pre : Pres]
MeshPresent(s) == IF s.compress THEN {"sites", "elements"} ELSE MeshTop
MeshFileOf(s, sv) == [present |-> MeshPresent(s),
                      rec |-> IF s.compress THEN [a \in MeshArrays |-> IF a \in {"sites", "elements"} THEN sv[a] ELSE 0] ELSE sv]
Restorable(fl) == MeshTop \subseteq fl.present
\* a mesh is a function of its triangulation: recomputing from (sites, elements) gives the arrays of the mesh
\* that was saved (Recompute is the identity on the triangulation identities of a consistent mesh)
Recompute(tri, sv) == IF tri.sites = sv.sites /\ tri.elements = sv.elements THEN sv ELSE NoMesh
MeshLoadOf(fl, sv) ==
  IF Restorable(fl) THEN [rec |-> IF MRestoreDual THEN fl.rec ELSE [fl.rec EXCEPT !.dual_sites = 0, !.voronoi_polygons = 0],
                          recomputed |-> FALSE]
  ELSE [rec |-> Recompute(fl.rec, sv), recomputed |-> TRUE]

-----------------------------------------------------------------------------
(* Solution: frames (data of every recorded step) and per-step dynamics     *)
\* modes: to_hdf5 to a new path (the output file is copied) | in place | after the output file was deleted |
\* a solution produced with output_file=None (its temporary file is gone when solve() returns).
\* probes / screening decide which per-step records exist (mu, theta at the probe points; screening_iterations)
\* dyn: which inputs of the run depend on time, so that every frame stores its own array of them:
\*   "none" | "eps" (disorder_epsilon(r, *, t), a plain function) | "A" (time-dependent applied vector potential) | "both"
SolShapes == {s \in [mode : {"copy", "inplace", "deleted", "nofile", "solved"}, nframes : {1, 2, 3, 4, 12}, cur : {1, 2, 3, 4, 12}, probes : BOOLEAN,
                      screening : BOOLEAN, dyn : {"none", "eps", "A", "both"}] :
                  /\ s.dyn # "none" => (s.probes /\ ~s.screening)
                  \* (more recorded steps than nine: the frame names no longer sort as text in step order)
                  /\ s.nframes = 12 => (s.probes /\ s.dyn = "none" /\ s.cur \in {1, 12})}
\* "solved": the file tdgl.solve itself wrote under output_file.  solve() returns the last step.
SolOK(s) == s.cur <= s.nframes /\ (s.mode \in {"nofile", "solved"} => s.cur = s.nframes)
NoFile(s) == s.mode \in {"deleted", "nofile"}
DynFields == {"dt", "time", "mu", "theta", "screening_iterations"}
SymDyn(s) == [dt |-> 91, time |-> 92, mu |-> IF s.probes THEN 93 ELSE 0, theta |-> IF s.probes THEN 94 ELSE 0,
              screening_iterations |-> IF s.screening THEN 95 ELSE 0]
LostDyn == [f \in DynFields |-> 0]
\* a solution = the data of every recorded step, the per-step dynamics, and what is derived from them:
\* Solution.times and closest_solve_step at a fixed set of query times
\* ... the mesh the solution lives on, and the current densities computed from the current step on that mesh
SymSolution(s, g) == [frames |-> [n \in 1..s.nframes |-> 1000 * (g - 1) + 100 + n], dyn |-> SymDyn(s), times |-> 96, closest |-> 97,
                      mesh |-> 98 + 1000 * (g - 1), currents |-> 99 + 1000 * (g - 1)]
\* without a file to copy only the step held in memory can be written, together with the whole dynamics
SolFileOf(s, sv) == IF NoFile(s) THEN [frames |-> <<sv.frames[s.cur]>>, dyn |-> IF MDynAlways \/ s.probes THEN sv.dyn ELSE LostDyn, mesh |-> sv.mesh]
                    ELSE [frames |-> sv.frames, dyn |-> sv.dyn, mesh |-> sv.mesh]
\* times / closest_solve_step are functions of the dynamics (and of save_every, an option)
\* the current densities are a function of the data of the current step and of the mesh
SolLoadOf(fl, sv) == [frames |-> fl.frames, dyn |-> fl.dyn,
                      times |-> IF fl.dyn = sv.dyn THEN sv.times ELSE 0, closest |-> IF fl.dyn = sv.dyn THEN sv.closest ELSE 0,
                      mesh |-> fl.mesh, currents |-> IF fl.mesh = sv.mesh THEN sv.currents ELSE 0]
SolExpected(s, sv) == [sv EXCEPT !.frames = IF NoFile(s) THEN <<sv.frames[s.cur]>> ELSE sv.frames]

-----------------------------------------------------------------------------
Nothing == [none |-> TRUE]
Init == /\ kind \in Kinds /\ pc = "choose" /\ shape = (IF kind = "options" THEN OptDefault ELSE Nothing)
        /\ saved = Nothing /\ file = Nothing /\ loaded = Nothing /\ memo = Nothing /\ recomp = NoMesh /\ cursor = Nothing /\ gen = 1

\* enumeration of the records, one field at a time (fields in declaration order, so every record is reached once)
Deviate == /\ pc = "choose" /\ kind = "options" /\ Cardinality(Deviating(shape)) < MaxDev
           /\ \E f \in OptSet : \E v \in OptVals(f) \ {"d"} :
                /\ \A g \in Deviating(shape) : Idx(g) < Idx(f)
                /\ SampledRec([shape EXCEPT ![f] = v])
                /\ shape' = [shape EXCEPT ![f] = v]
           /\ UNCHANGED <<kind, saved, file, loaded, pc, memo, recomp, gen, cursor>>
Shape == /\ pc = "choose" /\ kind # "options" /\ shape = Nothing
         /\ shape' \in (CASE kind = "device" -> DeviceShapes [] kind = "mesh" -> MeshShapes
                          [] kind = "solution" -> {s \in SolShapes : SolOK(s)})
         /\ UNCHANGED <<kind, saved, file, loaded, pc, memo, recomp, gen, cursor>>
\* the object exists (built by the binding; symbolic identities in the model-checking runs)
SymSaved == CASE kind = "options" -> shape [] kind = "device" -> SymDevice(shape, gen)
              [] kind = "mesh" -> SymHeldMesh(shape, gen) [] kind = "solution" -> SymSolution(shape, gen)
SymRecomp == CASE kind = "device" -> (IF shape.mesh THEN SymMeshG(gen) ELSE NoMesh) [] kind = "mesh" -> SymMeshG(gen)
               [] kind = "solution" -> SymSolution(shape, gen).mesh [] OTHER -> NoMesh
\* (also: after the file was removed, ANOTHER object of the same shape is about to be saved under the same path)
Materialise(sv, rc) == /\ pc \in {"choose", "removed"} /\ shape # Nothing
                       /\ saved' = sv /\ recomp' = rc /\ pc' = "made"
                       /\ UNCHANGED <<kind, shape, file, loaded, memo, gen, cursor>>
Save == /\ pc = "made"
        /\ file' = (CASE kind = "options" -> OptFileOf(saved) [] kind = "device" -> DeviceFileOf(shape, saved)
                      [] kind = "mesh" -> MeshFileOf(shape, saved) [] kind = "solution" -> SolFileOf(shape, saved))
        /\ pc' = "saved"
        /\ UNCHANGED <<kind, shape, saved, loaded, memo, recomp, gen, cursor>>
\* a cache-free reader answers from the file alone
Fresh == CASE kind = "options" -> OptLoadOf(file) [] kind = "device" -> DeviceLoadOf(file)
           [] kind = "mesh" -> MeshLoadOf(file, saved) [] kind = "solution" -> SolLoadOf(file, saved)
Load == /\ pc = "saved"
        /\ loaded' = IF MMemoByPath /\ memo # Nothing THEN memo ELSE Fresh
        /\ memo' = IF memo = Nothing THEN Fresh ELSE memo
        /\ pc' = "loaded"
        /\ UNCHANGED <<kind, shape, saved, file, recomp, gen, cursor>>
\* the file is removed (os.remove / Solution.delete_hdf5); the path is free for the next object
\* browsing the steps of ONE loaded Solution: solve_step = 0 is the first recorded step, k > 0 the step k, k < 0 counts from
\* the last one.  The object then shows the data the FILE holds for that step.
BrowseIdx(k) == LET n == Len(file.frames) IN IF k < 0 THEN n + k + 1 ELSE k + 1
\* views: what the object derives from the step it holds (sheet current densities, vorticity - computed lazily and cached on
\* the object); views[i] is what a cache-free reader derives from recorded step i (symbolic in the model-checking runs)
SymViews == [i \in 1..Len(file.frames) |-> 5000 + file.frames[i]]
BrowseV(k, views) ==
             /\ pc = "loaded" /\ kind = "solution"
             /\ LET n == Len(file.frames) IN k \in (-n)..(IF NoFile(shape) THEN 0 ELSE n - 1)
             /\ Len(views) = Len(file.frames)
             /\ cursor' = [k |-> k, idx |-> BrowseIdx(k),
                           frame |-> IF MBrowseRereads \/ shape.dyn \notin {"eps", "both"} \/ cursor = Nothing THEN file.frames[BrowseIdx(k)]
                                     ELSE 0,     \* (mutant: the step's data with the disorder parameter of another step - no recorded step)
                           view |-> IF MBrowseResetsViews \/ cursor = Nothing THEN views[BrowseIdx(k)] ELSE cursor.view,
                           expview |-> views[BrowseIdx(k)]]
             /\ UNCHANGED <<kind, shape, saved, file, loaded, pc, memo, recomp, gen>>
Browse(k) == BrowseV(k, SymViews)
Remove == /\ pc = "loaded" /\ gen = 1 /\ kind # "options"
          /\ file' = Nothing /\ gen' = 2 /\ pc' = "removed" /\ cursor' = Nothing
          /\ UNCHANGED <<kind, shape, saved, loaded, memo, recomp>>

MMaterialise == Materialise(SymSaved, SymRecomp)
MBrowse == pc = "loaded" /\ \E k \in -12..11 : Browse(k)
Next == Deviate \/ Shape \/ MMaterialise \/ Save \/ Load \/ MBrowse \/ Remove
Spec == Init /\ [][Next]_vars

-----------------------------------------------------------------------------
(* PROPERTY clauses                                                         *)
TypeOK == /\ kind \in {"options", "device", "mesh", "solution"}
          /\ pc \in {"choose", "made", "saved", "loaded", "removed"} /\ gen \in {1, 2}
\* what was loaded is what was saved LAST under the path, field by field (a device saved without its mesh has none
\* afterwards; a solution whose file was deleted keeps the step it held)
Expected == CASE kind = "options" -> saved
              [] kind = "device" -> [saved EXCEPT !.mesh = IF shape.savemesh THEN saved.mesh ELSE NoMesh]
              [] kind = "mesh" -> saved
              [] kind = "solution" -> SolExpected(shape, saved)
LoadedRec == IF kind = "mesh" THEN loaded.rec ELSE loaded
LoadSaveIdentity == pc = "loaded" => LoadedRec = Expected
\* an independent reader finds in the file the content the object holds (polygons closed and oriented as held)
FileHoldsContent == (pc \in {"saved", "loaded"} /\ kind = "device") =>
                       /\ file.rec.film = saved.film /\ file.rec.holes = saved.holes /\ file.rec.terminals = saved.terminals
\* whatever happened to an object before it was saved (meshed, then moved in place, saved inside a temporary
\* translation, rotated / scaled and meshed again), the mesh it holds is the mesh of its triangulation - EVERY derived
\* array (areas, dual sites, Voronoi polygons, edge centres / directions / lengths)
HeldMesh == CASE kind = "device" -> saved.mesh [] kind = "mesh" -> saved [] kind = "solution" -> saved.mesh [] OTHER -> NoMesh
SavedMeshIsMeshOfItsTriangulation == (pc \in {"made", "saved", "loaded"} /\ kind # "options") => HeldMesh = recomp
\* a mesh restored from stored arrays and one recomputed from the triangulation are the same mesh (so the full and
\* the compressed storage form of one mesh load back as the same mesh)
MeshRestoredEqualsRecomputed ==
  /\ (pc = "loaded" /\ kind = "mesh") => /\ loaded.rec = recomp
                                         /\ loaded.recomputed <=> ~Restorable(file)
  /\ (pc = "loaded" /\ kind = "device" /\ shape.savemesh) => loaded.mesh = recomp
  /\ (pc = "loaded" /\ kind = "solution") => loaded.mesh = recomp

\* every step shown while browsing one Solution is the step the file holds (forwards, backwards, negative indices)
BrowsedStepIsRecordedStep == cursor # Nothing => cursor.frame = file.frames[cursor.idx]
\* ... and everything the object derives from the step it holds belongs to THAT step (no view of an earlier step survives)
BrowsedViewsBelongToStep == cursor # Nothing => cursor.view = cursor.expview

\* export of the enumerated records / shapes (materialised by the binding with the real classes)
Emit == (pc = "made" /\ gen = 1) => PrintT(ToJson([kind |-> kind, shape |-> shape]))
=============================================================================
