------------------------------- MODULE RunObs -------------------------------
(***************************************************************************)
(* What every recorded frame of ONE real run must satisfy (L3).            *)
(*                                                                         *)
(* A trace = the observations of one run of the real solver (or of one     *)
(* call of its constructor), in order:                                     *)
(*  "ctor"    [nums, den, accepted]   terminal currents nums/den handed to *)
(*            the real TDGLSolver constructor; accepted = it did not raise *)
(*  "frame0"  [init]  the first recorded frame is exactly the initial      *)
(*            state (psi = 1 or the terminal value, mu = 0, no currents)   *)
(*  "cons"    [step, cells, terms]  a recorded frame with step >= 1:       *)
(*            cells[i] = [d, out, inj, term]: net outflow of super+normal  *)
(*            current of cell i and the current injected through the       *)
(*            cell's share of a terminal; out, inj in coarse quanta        *)
(*            (1e-6 of the largest edge flux), d = out - inj in fine       *)
(*            quanta (1e-12 of it), term = the cell touches a terminal;    *)
(*            terms[t] = [d, inflow, req]: current entering through        *)
(*            terminal t and the current the user requested (user units,   *)
(*            quanta relative to the largest requested current)            *)
(*  "stat"    [step, psi1, mu0, js0, jn0, ind0, dts]  a recorded frame of  *)
(*            an undriven run: exact-equality flags (bitwise) and the      *)
(*            classes of the time steps recorded since the previous frame; *)
(*            dev = largest deviation of any field from the uniform state  *)
(*            in fine quanta (1e-12); seeded = the rounding seed of the    *)
(*            call site `psi_laplacian @ psi` at psi = 1 exceeds half an   *)
(*            ulp of 1.0 for the largest step of the run, i.e. the         *)
(*            assembled Laplacian CAN move psi off 1.0 in one step         *)
(*            (computed from the real operators of the run)                *)
(*            ("init" = dt_init, "max" = dt_max, "other")                  *)
(*  "edit"    [how, changed, sites]  (optional) between two solves on ONE  *)
(*            Device object the terminals of the meshed device were edited *)
(*            WITHOUT re-meshing (a terminal polygon translated / scaled / *)
(*            rotated in place, its points assigned, the tuple of          *)
(*            terminals replaced); changed / sites = number of boundary    *)
(*            edges / boundary sites whose terminal membership differs     *)
(*            before and after the edit (raw coordinates against the       *)
(*            polygons the harness specified).  From then on the injection *)
(*            of every "cons" frame and the pinned sites of "frame0" are   *)
(*            those of the terminals IN FORCE: such events carry epoch =   *)
(*            number of edits that preceded the solve.                     *)
(*  "query"   [what]  (optional) the device was only asked something       *)
(*            (terminal_info(), a solver constructed but not run, copy())  *)
(* Header: T.cfg = [adaptive, window, driven, screening] and optionally    *)
(* edits = number of "edit" events the history is meant to contain.        *)
(* Guarded = TRUE: the clauses guard the actions (accepted iff all hold);  *)
(* Guarded = FALSE: everything is consumed and Diagnosis names the clauses *)
(* that a trace violates.                                                  *)
(***************************************************************************)
EXTENDS Integers, Sequences, FiniteSets, TLC, Json, IOUtils, TLCExt

CONSTANTS Guarded,
          Known,      \* TRUE: the bitwise clause is demanded modulo the open known finding (see ExactlyStationaryModKnown)
          Tol,        \* fine quanta  (1e-12 each): conservation defect
          CTol        \* coarse quanta (1e-6 each)

Batch == JsonDeserialize(IOEnv.TRACE_FILE)

VARIABLES tid, l,
          ninit,      \* number of steps taken with dt_init so far
          dtphase,    \* "init" | "max" | "bad": class of the step-size history
          nsteps,     \* steps recorded so far
          seenReq,    \* some terminal carried a non-zero requested current in a checked frame
          epoch,      \* number of terminal edits consumed so far
          reqSince,   \* a checked frame carried a non-zero requested current since the last edit
          histOK,     \* every edit moved some boundary edge; every frame was judged against the terminals in force
          ok          \* vector of clause verdicts over everything consumed (sequence of booleans)
vars == <<tid, l, ninit, dtphase, nsteps, seenReq, epoch, reqSince, histOK, ok>>
hist == <<epoch, reqSince, histOK>>

T == Batch[tid]
NEv == Len(T.ev)
Ev == T.ev[l]
Abs(x) == IF x < 0 THEN 0 - x ELSE x
\* optional fields (traces without a history of edits do not carry them)
EpochOf(e) == IF "epoch" \in DOMAIN e THEN e.epoch ELSE 0
Edits == IF "edits" \in DOMAIN T.cfg THEN T.cfg.edits ELSE 0

RECURSIVE SumTo(_, _)
SumTo(f, n) == IF n = 0 THEN 0 ELSE f[n] + SumTo(f, n - 1)

---------------------------------------------------------------------------
\* clauses on one event

\* C01: every balanced assignment of currents to >= 2 terminals is accepted
BalancedAccepted(e) == (Len(e.nums) >= 2 /\ SumTo(e.nums, Len(e.nums)) = 0) => e.accepted

\* C01: at every recorded step the current leaving each cell equals the current injected through the cell's
\* share of a terminal, and is zero for every other cell
CellOK(c) == /\ Abs(c.d) <= Tol
             /\ Abs(c.out - c.inj) <= CTol
             /\ (~c.term => c.inj = 0)
CellOutflowEqualsInjectionAt(e) == \A n \in 1..Len(e.cells) : CellOK(e.cells[n])
\* C01: the current entering through each terminal is the requested one
TermOK(t) == Abs(t.d) <= Tol /\ Abs(t.inflow - t.req) <= CTol
TerminalInflowEqualsRequestedAt(e) == \A n \in 1..Len(e.terms) : TermOK(e.terms[n])

\* C17: psi = 1 bitwise, mu = 0, no supercurrent, no normal current, no induced potential
ExactlyStationaryAt(e) == e.psi1 /\ e.mu0 /\ e.js0 /\ e.jn0 /\ e.ind0
\* Open known finding C17:rounding-seed: the rows of the assembled covariant Laplacian do not sum to exactly zero in
\* floating point; where that seed exceeds half an ulp of 1.0 the bitwise clause fails at the last bits.  The clause modulo
\* the finding demands bit-exactness wherever the seed cannot act (seeded = FALSE); the un-weakened clause stays available.
\* The finding concerns the amplitude only (psi stays real, so mu, both currents and the induced potential remain exactly 0
\* on the real code): only the flag psi1 is waived for seeded runs.
ExactlyStationaryModKnownAt(e) == (e.seeded \/ e.psi1) /\ e.mu0 /\ e.js0 /\ e.jn0 /\ e.ind0
BitwiseClauseAt(e) == IF Known THEN ExactlyStationaryModKnownAt(e) ELSE ExactlyStationaryAt(e)
\* a weaker clause kept apart so that a deviation at rounding level (last bits) and a gross one are told apart
StationaryToRoundingAt(e) == e.dev >= 0 /\ e.dev <= Tol

\* step-size history: dt_init during the warm-up, then dt_max for ever
RECURSIVE Phase(_, _, _)
Phase(ph, dts, n) ==      \* phase after consuming dts[n..]
   IF n > Len(dts) THEN ph
   ELSE Phase(IF ph = "bad" \/ dts[n] = "other" THEN "bad"
              ELSE IF dts[n] = "max" THEN "max"
              ELSE IF ph = "max" THEN "bad" ELSE "init", dts, n + 1)
CountInit(dts) == Cardinality({n \in 1..Len(dts) : dts[n] = "init"})
WarmUp == T.cfg.window + 2        \* steps 0 .. window+1 are taken before the rule first applies

StepHistoryOK(ph, ni) == /\ ph # "bad"
                         /\ (T.cfg.adaptive => ni <= WarmUp)
                         /\ (~T.cfg.adaptive => ph = "init")

---------------------------------------------------------------------------
Init == /\ tid \in 1..Len(Batch) /\ l = 1 /\ ninit = 0 /\ dtphase = "init" /\ nsteps = 0 /\ seenReq = FALSE
        /\ epoch = 0 /\ reqSince = FALSE /\ histOK = TRUE
        /\ ok = <<TRUE, TRUE, TRUE, TRUE, TRUE, TRUE, TRUE, TRUE>>

Upd(n, b) == [ok EXCEPT ![n] = ok[n] /\ b]

Ctor == /\ l <= NEv /\ Ev.kind = "ctor"
        /\ (Guarded => BalancedAccepted(Ev))
        /\ ok' = Upd(1, BalancedAccepted(Ev))
        /\ l' = l + 1 /\ UNCHANGED <<tid, ninit, dtphase, nsteps, seenReq>> /\ UNCHANGED hist

Frame0 == /\ l <= NEv /\ Ev.kind = "frame0"
          /\ (Guarded => Ev.init)
          /\ ok' = Upd(2, Ev.init)
          /\ histOK' = (histOK /\ EpochOf(Ev) = epoch)
          /\ l' = l + 1 /\ UNCHANGED <<tid, ninit, dtphase, nsteps, seenReq, epoch, reqSince>>

Cons == /\ l <= NEv /\ Ev.kind = "cons" /\ Ev.step >= 1
        /\ (Guarded => CellOutflowEqualsInjectionAt(Ev) /\ TerminalInflowEqualsRequestedAt(Ev))
        /\ ok' = [ok EXCEPT ![3] = ok[3] /\ CellOutflowEqualsInjectionAt(Ev),
                            ![4] = ok[4] /\ TerminalInflowEqualsRequestedAt(Ev)]
        /\ seenReq' = (seenReq \/ \E n \in 1..Len(Ev.terms) : Ev.terms[n].req # 0)
        /\ reqSince' = (reqSince \/ \E n \in 1..Len(Ev.terms) : Ev.terms[n].req # 0)
        /\ histOK' = (histOK /\ EpochOf(Ev) = epoch)
        /\ l' = l + 1 /\ UNCHANGED <<tid, ninit, dtphase, nsteps, epoch>>

Stat == /\ l <= NEv /\ Ev.kind = "stat"
        /\ LET ph == Phase(dtphase, Ev.dts, 1)
               ni == ninit + CountInit(Ev.dts)
           IN /\ (Guarded => BitwiseClauseAt(Ev) /\ StepHistoryOK(ph, ni) /\ StationaryToRoundingAt(Ev))
              /\ ok' = [ok EXCEPT ![5] = ok[5] /\ ExactlyStationaryAt(Ev), ![6] = ok[6] /\ StepHistoryOK(ph, ni),
                                  ![7] = ok[7] /\ StationaryToRoundingAt(Ev),
                                  ![8] = ok[8] /\ ExactlyStationaryModKnownAt(Ev)]
              /\ dtphase' = ph /\ ninit' = ni /\ nsteps' = nsteps + Len(Ev.dts)
        /\ l' = l + 1 /\ UNCHANGED <<tid, seenReq>> /\ UNCHANGED hist

\* the terminals of the meshed Device were edited without re-meshing: the frames that follow are judged against the NEW terminals
Edit == /\ l <= NEv /\ Ev.kind = "edit"
        /\ epoch' = epoch + 1 /\ reqSince' = FALSE
        /\ histOK' = (histOK /\ Ev.changed > 0)
        /\ l' = l + 1 /\ UNCHANGED <<tid, ninit, dtphase, nsteps, seenReq, ok>>

Query == /\ l <= NEv /\ Ev.kind = "query"
         /\ l' = l + 1 /\ UNCHANGED <<tid, ninit, dtphase, nsteps, seenReq, ok>> /\ UNCHANGED hist

\* end of the run: an adaptive undriven run that is long enough has reached dt_max
Finish == /\ l = NEv + 1
          /\ LET reached == (T.cfg.adaptive /\ ~T.cfg.driven /\ nsteps > WarmUp) => dtphase = "max"
             IN /\ (Guarded => reached)
                /\ ok' = Upd(6, reached)
          /\ l' = l + 1 /\ UNCHANGED <<tid, ninit, dtphase, nsteps, seenReq>> /\ UNCHANGED hist

Next == Ctor \/ Frame0 \/ Cons \/ Stat \/ Edit \/ Query \/ Finish
Spec == Init /\ [][Next]_vars

---------------------------------------------------------------------------
\* the property clauses as invariants over everything consumed so far
BalancedAssignmentsAccepted == ok[1]
FrameZeroIsInitialState == ok[2]
CellOutflowEqualsInjection == ok[3]
TerminalInflowEqualsRequested == ok[4]
ExactlyStationary == ok[5]
StepGrowsToMax == ok[6]
StationaryToRounding == ok[7]
ExactlyStationaryModKnown == ok[8]

Done == l = NEv + 2
\* non-vacuity of a driven run's trace: some checked frame carried a requested current
NonVacuous == (Done /\ T.cfg.driven) => seenReq
\* non-vacuity of a history of terminal edits: the trace holds the announced number of edits, each of them moved the terminal
\* over other boundary edges, every frame was judged against the terminals in force at its solve, and a driven solve followed
\* the last edit
EditsReached == Done => /\ epoch = Edits
                        /\ histOK
                        /\ (Edits > 0 => reqSince)

Bit(b) == IF b THEN 0 ELSE 1
Diagnosis == Done => PrintT(<<"CLAUSES", tid, Bit(ok[1]), Bit(ok[2]), Bit(ok[3]), Bit(ok[4]), Bit(ok[5]), Bit(ok[6]), Bit(ok[7]), Bit(ok[8])>>)
Accepted == Done => PrintT(<<"ACCEPT", tid>>)
Progress == PrintT(<<"AT", tid, l>>)
=============================================================================
