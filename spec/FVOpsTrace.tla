---------------------------- MODULE FVOpsTrace ----------------------------
(***************************************************************************)
(* Trace validation for FVOps (code -> spec).  A trace is what the REAL    *)
(* finite-volume code (tdgl.finite_volume.operators) produced on one mesh: *)
(*                                                                         *)
(* kind "exact": an integer mesh instance (exported by TLC from the FVOps  *)
(*   universe: mi, pat; or given explicitly: mi = 0) was injected through  *)
(*   Mesh(...)/EdgeMesh(...); every event carries a dense matrix / vector  *)
(*   produced by the code (src "code": build_* and MeshOperators) or by    *)
(*   the reference implementation harness/refops.py (src "ref"), as exact  *)
(*   Gaussian rationals.  TLC compares every entry with the definition of  *)
(*   FVOps and evaluates the identities of C03 / C04 on the code's own     *)
(*   matrices.                                                             *)
(* kind "float": a generated floating-point mesh; the events carry the     *)
(*   abstraction of DESIGN.md 4.3: residuals of "code = formula" and of    *)
(*   the identities as integers (quanta of 1e-13 of the scale), the kernel *)
(*   dimension and the number of connected components.                     *)
(*                                                                         *)
(* Strict = TRUE: a mismatch disables the action (the trace is rejected).  *)
(* Strict = FALSE (diagnosis): everything is recorded and the clauses are  *)
(* invariants, so that TLC names the clause that fails.                    *)
(***************************************************************************)
EXTENDS FVOps, IOUtils, TLCExt

CONSTANTS Strict, FloatTol

Batch == JsonDeserialize(IOEnv.TRACE_FILE)

VARIABLES tid, l, cm, cq, chi, js, seen, bad
tvars == <<vars, tid, l, cm, cq, chi, js, seen, bad>>

T == Batch[tid]
Ev == T.ev[l]
Exact == T.kind = "exact"

\* the operators as ASSEMBLED by MeshOperators.build_operators() (mu_laplacian, mu_boundary_laplacian, mu_gradient,
\* divergence), once per documented value of the sparse_solver option
AsmPaths == {"asm:superlu", "asm:umfpack", "asm:pardiso", "asm:cupy"}
ScalarOps == {"div", "grad", "lap", "neumann"}
\* MeshOperators with a non-empty set of fixed (terminal) sites: psi pinned there (fix_psi = TRUE, terminal_psi a number)
\* or not (fix_psi = FALSE, terminal_psi = None); first build and refresh in place
PinPaths == {"pin:build", "pin:refresh", "nopin:build", "nopin:refresh"}
CovOps == {"covgrad", "covlap"}
\* the mesh written with Mesh.to_hdf5 and read back with Mesh.from_hdf5 (what Device.from_hdf5 / Solution.from_hdf5 hand out)
RestoredPaths == {"restored"}
VarPaths == AsmPaths \cup PinPaths \cup RestoredPaths
OpNames == {"div", "grad", "lap", "neumann", "covgrad", "covlap", "covgrad_r", "covlap_r", "covgrad2", "covlap2"}
              \cup {o \o "@" \o p : o \in ScalarOps, p \in AsmPaths}
              \cup {o \o "@" \o p : o \in CovOps, p \in PinPaths}
              \cup {o \o "@" \o p : o \in ScalarOps \cup CovOps, p \in RestoredPaths}
\* where a recorded matrix is kept: built from scratch / refreshed in place / assembled for a solver option
Slot(op, path) == IF path = "refresh" THEN op \o "_r" ELSE IF path \in VarPaths THEN op \o "@" \o path ELSE op
SeqSet(s) == {s[n] : n \in 1..Len(s)}
None == <<>>

\* the mesh of the trace: an instance of the FVOps universe, or explicit
TM == IF T.mi > 0 THEN Instance(T.mi, T.pat) ELSE T.mesh
SameMesh(A, B) == /\ A.n = B.n /\ A.edges = B.edges /\ A.bidx = B.bidx /\ A.pos = B.pos /\ A.dir = B.dir
                  /\ A.len = B.len /\ A.dual = B.dual /\ A.area = B.area

\* a matrix with a bottom entry (denominator 0: not a small rational) matches nothing and is not kept for the identities
Storable(m) == IF \A i \in DOMAIN m : \A k \in DOMAIN m[i] : m[i][k][3] > 0 THEN m ELSE None

SpecMat(M, op, q) == CASE op = "div" -> Div(M) [] op = "grad" -> Grad(M) [] op = "lap" -> Lap(M)
                       [] op = "neumann" -> NeumannB(M) [] op = "covgrad" -> CovGrad(M, q)
                       [] op = "covlap" -> CovLap(M, q)

TInit == /\ tid \in 1..Len(Batch) /\ l = 1
         /\ mi = Batch[tid].mi /\ pat = Batch[tid].pat /\ qs = <<>> /\ g = <<0, 0>> /\ stage = "trace"
         /\ cm = [o \in OpNames |-> None] /\ cq = None /\ chi = None /\ js = <<>> /\ seen = {} /\ bad = {}
         /\ (Batch[tid].kind = "exact" =>
               \A M \in {IF Batch[tid].mi > 0 THEN Instance(Batch[tid].mi, Batch[tid].pat) ELSE Batch[tid].mesh} :
                  /\ WellFormed(M) /\ SameMesh(M, Batch[tid].mesh))

IsEv(e) == l <= Len(T.ev) /\ Ev.ev = e /\ l' = l + 1 /\ UNCHANGED <<vars, tid>>
Tag(s) == seen' = seen \cup {s}
\* in strict mode a false clause disables the action; otherwise it is recorded in `bad`
Require(name, ok) == IF Strict THEN ok /\ UNCHANGED bad ELSE bad' = (IF ok THEN bad ELSE bad \cup {name})

\* ---- exact instances ----------------------------------------------------
\* a matrix produced for the un-gauged configuration
TOp == /\ IsEv("op") /\ Exact /\ chi = None
       /\ Ev.op \in {"div", "grad", "lap", "neumann", "covgrad", "covlap"}
       /\ (Ev.path \in AsmPaths => Ev.op \in ScalarOps /\ Ev.src = "code")
       /\ (Ev.path \in RestoredPaths => Ev.src = "code")
       /\ (Ev.path \in PinPaths => /\ Ev.op \in CovOps /\ Ev.src = "code"
                                   /\ Len(Ev.fixed) > 0 /\ \A M \in {TM} : SeqSet(Ev.fixed) \subseteq Sites(M))
       /\ \A M \in {TM} : Require("CodeMatchesSpec:" \o Ev.op \o (IF Ev.path \in VarPaths THEN "@" \o Ev.path ELSE ""),
                                  Ev.m = (IF Ev.op = "covlap" /\ Ev.path \in {"pin:build", "pin:refresh"}
                                          THEN CovLapPinned(M, Ev.q, SeqSet(Ev.fixed)) ELSE SpecMat(M, Ev.op, Ev.q)))
       /\ IF Ev.src = "code"
          THEN /\ cm' = [cm EXCEPT ![Slot(Ev.op, Ev.path)] = Storable(Ev.m)]
               /\ IF Ev.op \in {"covgrad", "covlap"} THEN (cq = None \/ cq = Ev.q) /\ cq' = Ev.q ELSE UNCHANGED cq
          ELSE UNCHANGED <<cm, cq>>
       /\ Tag(<<Ev.op, Ev.src, Ev.path>>) /\ UNCHANGED <<chi, js>>

\* supercurrent of a given order parameter (Gaussian integers) on every edge
TJs == /\ IsEv("js") /\ Exact /\ chi = None /\ (cq = None \/ cq = Ev.q)
       /\ \A M \in {TM} : Require("CodeMatchesSpec:js", Ev.v = Supercurrent(M, Ev.q, Ev.psi))
       /\ IF Ev.src = "code" THEN js' = Append(js, [psi |-> Ev.psi, v |-> Ev.v]) /\ cq' = Ev.q ELSE UNCHANGED <<js, cq>>
       /\ Tag(<<"js", Ev.src, "-">>) /\ UNCHANGED <<cm, chi>>

\* the gauge function chi = c pi/2 applied from here on (psi -> psi exp(i chi), A.e -> A.e + chi_j - chi_i)
TGauge == /\ IsEv("gauge") /\ Exact /\ chi = None /\ cq # None
          /\ \A M \in {TM} : Len(Ev.c) = M.n /\ \A i \in 1..M.n : Ev.c[i] \in 0..3
          /\ chi' = Ev.c /\ Tag(<<"gauge", "-", "-">>) /\ UNCHANGED <<cm, cq, js, bad>>

\* covariant operators produced by the code for the transformed vector potential
TGaugedOp == /\ IsEv("gop") /\ Exact /\ chi # None /\ Ev.op \in {"covgrad", "covlap"} /\ cm[Ev.op \o "_r"] # None
             /\ \A M \in {TM} :
                  /\ Ev.q = GaugeQ(M, cq, chi)
                  /\ Require("CodeMatchesSpec:gauged " \o Ev.op, Ev.m = SpecMat(M, Ev.op, Ev.q))
             /\ cm' = [cm EXCEPT ![Ev.op \o "2"] = Storable(Ev.m)]
             /\ Tag(<<"gop", Ev.op, Ev.path>>) /\ UNCHANGED <<cq, chi, js>>

\* supercurrent of the transformed order parameter in the transformed potential
TGaugedJs == /\ IsEv("gjs") /\ Exact /\ chi # None /\ Ev.n \in 1..Len(js)
             /\ \A M \in {TM} :
                  /\ Ev.q = GaugeQ(M, cq, chi) /\ Ev.psi = GaugePsi(M, js[Ev.n].psi, chi)
                  /\ Require("SupercurrentGaugeInvariant", Ev.v = js[Ev.n].v)
             /\ Tag(<<"gjs", "-", "-">>) /\ UNCHANGED <<cm, cq, chi, js>>

\* geometric instances: what Mesh.from_triangulation computed from the integer coordinates
TGeom == /\ IsEv("geom") /\ Exact
         /\ \A M \in {TM} : Require("GeometryMatchesInstance", Ev.len = M.len /\ Ev.dual = M.dual /\ Ev.area = M.area)
         /\ Ev.src \in {"code", "ref"}         \* Mesh.from_triangulation / refops.geometry (the first-principles weights)
         /\ Tag(<<"geom", Ev.src, "-">>) /\ UNCHANGED <<cm, cq, chi, js>>

\* ---- float meshes -------------------------------------------------------
ScalarFacts == {"div_code_eq_formula", "grad_code_eq_formula", "lap_code_eq_formula", "neumann_code_eq_formula",
                "lap_eq_div_grad", "weighted_div_sums_to_zero", "boundary_flux_integrates", "weighted_lap_symmetric",
                "weighted_lap_max_eigenvalue", "lap_annihilates_constants", "grad_exact_on_linear",
                "assembled_divergence_eq_formula", "assembled_mu_gradient_eq_formula",
                "assembled_mu_laplacian_eq_formula", "assembled_boundary_eq_formula",
                "assembled_lap_eq_div_grad", "assembled_weighted_lap_symmetric", "assembled_lap_annihilates_constants",
                "restored_operators_eq_formula", "restored_grad_exact_on_linear", "restored_boundary_flux_integrates",
                \* weights recomputed from the raw site coordinates and triangles (refops.geometry), not read back from the mesh
                "edge_length_eq_first_principles", "dual_length_eq_first_principles", "cell_area_eq_first_principles",
                "boundary_edges_eq_first_principles", "operators_eq_formula_first_principles",
                "fp_weighted_div_sums_to_zero", "fp_weighted_lap_symmetric", "fp_boundary_flux_integrates"}
CovFacts == {"covgrad_code_eq_formula", "covlap_code_eq_formula", "covgrad_refresh_eq_formula", "covlap_refresh_eq_formula",
             "covlap_hermitian", "supercurrent_code_eq_formula",
             "unpinned_covlap_eq_formula", "unpinned_covlap_hermitian", "pinned_covlap_eq_formula", "pinned_paths_covgrad_eq_formula",
             "fp_covlap_hermitian"}
GaugeFacts == {"covgrad_covariant", "covlap_covariant", "supercurrent_invariant", "modulus_invariant"}
Needed(group) == CASE group = "scalar" -> ScalarFacts [] group = "cov" -> CovFacts [] group = "gauge" -> GaugeFacts

TFacts == /\ IsEv("facts") /\ ~Exact /\ Ev.group \in {"scalar", "cov", "gauge"}
          /\ Needed(Ev.group) \subseteq DOMAIN Ev.facts
          /\ \A k \in DOMAIN Ev.facts : Ev.facts[k] \in Nat
          /\ (Ev.group = "scalar" => /\ T.comps >= 1
                                      \* the first-principles weights were compared on most of the mesh, and on reflex
                                      \* boundary sites (holes, notches) where the film has them
                                      /\ Ev.wc * 10 >= Ev.nsites * 8
                                      /\ (T.reflex => Ev.reflex_wc > 0))
          /\ (Ev.group = "cov" => Ev.nfixed > 0)          \* the pinned / unpinned operators had sites to pin
          /\ Require(IF \A k \in DOMAIN Ev.facts : Ev.facts[k] <= FloatTol THEN "KernelIsConstants" ELSE "FloatFactsWithinTolerance",
                     /\ \A k \in DOMAIN Ev.facts : Ev.facts[k] <= FloatTol
                     /\ (Ev.group = "scalar" => Ev.kdim = T.comps))
          /\ Tag(<<"facts", Ev.group, "-">>) /\ UNCHANGED <<cm, cq, chi, js>>

TNext == TOp \/ TJs \/ TGauge \/ TGaugedOp \/ TGaugedJs \/ TGeom \/ TFacts
TSpec == TInit /\ [][TNext]_tvars

-----------------------------------------------------------------------------
AtEnd == l = Len(T.ev) + 1
Have(ops) == \A o \in ops : cm[o] # None

\* profile "gauge" (C04): the covariant operators, built and refreshed, the supercurrent and their gauge transforms;
\* profile "full" (C03): in addition every scalar operator, every assembly route, pinned / unpinned, restored meshes
RequiredGauge == {<<"covgrad", "code", "build">>, <<"covlap", "code", "build">>,
                  <<"covgrad", "code", "refresh">>, <<"covlap", "code", "refresh">>,
                  <<"covgrad", "ref", "formula">>, <<"covlap", "ref", "formula">>,
                  <<"js", "code", "-">>, <<"js", "ref", "-">>, <<"gauge", "-", "-">>,
                  <<"gop", "covgrad", "refresh">>, <<"gop", "covlap", "refresh">>, <<"gjs", "-", "-">>}
RequiredExact == IF T.profile = "gauge" THEN RequiredGauge ELSE
                  RequiredGauge \cup
                  {<<"div", "code", "build">>, <<"grad", "code", "build">>, <<"lap", "code", "build">>,
                  <<"neumann", "code", "build">>,
                  <<"div", "ref", "formula">>, <<"grad", "ref", "formula">>, <<"lap", "ref", "formula">>,
                  <<"neumann", "ref", "formula">>}
                    \cup {<<o, "code", p>> : o \in ScalarOps, p \in AsmPaths}
                    \cup {<<o, "code", p>> : o \in CovOps, p \in PinPaths}
                    \cup {<<o, "code", p>> : o \in ScalarOps \cup CovOps, p \in RestoredPaths}
RequiredFloat == {<<"facts", "scalar", "-">>, <<"facts", "cov", "-">>, <<"facts", "gauge", "-">>}
Complete == IF Exact THEN /\ T.profile \in {"full", "gauge"} /\ RequiredExact \subseteq seen
                          /\ ((T.geo /\ T.profile = "full") => {<<"geom", "code", "-">>, <<"geom", "ref", "-">>} \subseteq seen)
            ELSE RequiredFloat \subseteq seen

\* acceptance: the whole trace was consumed, nothing was missing, no clause failed
Accepted == AtEnd => (Complete /\ bad = {} /\ PrintT(<<"ACCEPT", tid>>))
Progress == PrintT(<<"AT", tid, l>>)

\* the clauses, evaluated on the matrices the CODE produced (diagnosis names the failing clause)
NothingBad == bad = {}
TrLapIsDivGrad == (AtEnd /\ Exact /\ Have({"lap", "div", "grad"})) =>
                     \A M \in {TM} : LapIsDivGradOn(M, cm["lap"], cm["div"], cm["grad"])
TrWeightedDivSumsToZero == (AtEnd /\ Exact /\ Have({"div"})) => \A M \in {TM} : WeightedDivSumsToZeroOn(M, cm["div"])
TrBoundaryFluxIntegrates == (AtEnd /\ Exact /\ Have({"neumann"})) => \A M \in {TM} : BoundaryFluxIntegratesOn(M, cm["neumann"])
TrWeightedLapSymmetric == (AtEnd /\ Exact /\ Have({"lap"})) => \A M \in {TM} : WeightedSymmetricOn(M, cm["lap"])
TrWeightedLapNegSemiDef == (AtEnd /\ Exact /\ T.heavy /\ Have({"lap"})) =>
                              \A M \in {TM} : /\ NegSemiDefOnVectorsOn(M, cm["lap"])
                                              /\ (M.n <= 6 => NegSemiDefByMinorsOn(M, cm["lap"]))
TrKernelIsConstants == (AtEnd /\ Exact /\ Have({"lap"})) =>
                          \A M \in {TM} : /\ AnnihilatesConstantsOn(M, cm["lap"])
                                          /\ (T.heavy => KernelOnVectorsOn(M, cm["lap"]))
                                          /\ ((T.heavy /\ M.n <= 6) => KernelIsConstantsByMinorsOn(M, cm["lap"]))
\* what build_operators() assembled, for every sparse_solver option, obeys the identities as well
TrAssembledObeyIdentities ==
  (AtEnd /\ Exact) => \A M \in {TM} : \A p \in AsmPaths \cup RestoredPaths :
     /\ Have({"lap@" \o p, "div@" \o p, "grad@" \o p}) => LapIsDivGradOn(M, cm["lap@" \o p], cm["div@" \o p], cm["grad@" \o p])
     /\ Have({"lap@" \o p}) => /\ WeightedSymmetricOn(M, cm["lap@" \o p]) /\ AnnihilatesConstantsOn(M, cm["lap@" \o p])
     /\ Have({"div@" \o p}) => WeightedDivSumsToZeroOn(M, cm["div@" \o p])
     /\ Have({"neumann@" \o p}) => BoundaryFluxIntegratesOn(M, cm["neumann@" \o p])
     /\ Have({"grad@" \o p}) => GradExactOnLinearOn(M, cm["grad@" \o p])
TrGradExactOnLinear == (AtEnd /\ Exact /\ Have({"grad"})) => \A M \in {TM} : GradExactOnLinearOn(M, cm["grad"])
TrCovLapHermitian == (AtEnd /\ Exact) => \A M \in {TM} : \A o \in {"covlap", "covlap_r", "covlap2", "covlap@restored",
                                                                        "covlap@nopin:build", "covlap@nopin:refresh"} :
                                                cm[o] # None => WeightedHermitianOn(M, cm[o])
TrGaugeCovariant == (AtEnd /\ Exact /\ chi # None /\ Have({"covgrad_r", "covlap_r", "covgrad2", "covlap2"})) =>
                       \A M \in {TM} : /\ GradCovariantOn(M, cm["covgrad_r"], cm["covgrad2"], chi)
                                       /\ LapCovariantOn(M, cm["covlap_r"], cm["covlap2"], chi)

\* diagnosis (Strict = FALSE): the names of all clauses that are false at the end of a trace
FailingClauses ==
  bad \cup (IF TrLapIsDivGrad THEN {} ELSE {"LapIsDivGrad"})
      \cup (IF TrWeightedDivSumsToZero THEN {} ELSE {"WeightedDivSumsToZero"})
      \cup (IF TrBoundaryFluxIntegrates THEN {} ELSE {"BoundaryFluxIntegrates"})
      \cup (IF TrWeightedLapSymmetric THEN {} ELSE {"WeightedLapSymmetric"})
      \cup (IF TrWeightedLapNegSemiDef THEN {} ELSE {"WeightedLapNegSemiDef"})
      \cup (IF TrKernelIsConstants THEN {} ELSE {"KernelIsConstants"})
      \cup (IF TrGradExactOnLinear THEN {} ELSE {"GradExactOnLinear"})
      \cup (IF TrCovLapHermitian THEN {} ELSE {"CovLapHermitian"})
      \cup (IF TrGaugeCovariant THEN {} ELSE {"GaugeCovariant"})
      \cup (IF TrAssembledObeyIdentities THEN {} ELSE {"AssembledOperatorsObeyIdentities"})
Report == AtEnd => PrintT(<<"CLAUSES", tid, FailingClauses>>)
=============================================================================
