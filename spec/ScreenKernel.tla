---------------------------- MODULE ScreenKernel ----------------------------
(***************************************************************************)
(* The screening kernel (tdgl/solver/screening.py, get_A_induced_numba):   *)
(*                                                                         *)
(*      A[i, k] = sum_j  K[j, k] * area[j] / |r_i - r_j|                   *)
(*                                                                         *)
(* with r_j the mesh sites (sources), r_i the edge centres (evaluation     *)
(* points), K the sheet current on the sites, area the (scaled) site       *)
(* areas.  The sum is transcribed here on EXACT instances: integer         *)
(* coordinates whose site-to-point distances are all integers (Pythagorean *)
(* triples), integer currents and areas; results are exact rationals       *)
(* <<num, den>>.                                                           *)
(*                                                                         *)
(* Two uses.                                                               *)
(*  GSpec  enumerates instances (through Next, one source per step) and    *)
(*         prints each with its expected values (Emit); at the leaves the  *)
(*         algebraic facts the property relies on are checked: the result  *)
(*         is linear in the currents, the area enters as a weight of the   *)
(*         source current (dropping it is visible), the order of summation *)
(*         does not matter, and the sum has no absolute length scale       *)
(*         (ScaleCovariant: points * c, areas * c^2 => result * c).        *)
(*  TSpec  validates what the REAL kernel (and the numpy reference used by *)
(*         the abstraction of natural runs) returned on such instances:    *)
(*         the harness maps every returned float to the integer numerator  *)
(*         over the common denominator L (relative 1e-12, BOT otherwise)   *)
(*         and Check requires equality with the sum evaluated here.        *)
(*         Random (non-lattice) instances arrive as `random` records: the  *)
(*         mismatch between the real kernel and the reference in units of  *)
(*         1e-15 of the largest entry, bounded by RandomAgree.             *)
(***************************************************************************)
EXTENDS Integers, Sequences, FiniteSets, TLC, Json, IOUtils, TLCExt

CONSTANTS NSites,            \* sources per generated instance
          KIdx,              \* indices into KTable: currents offered per source
          Areas,             \* areas offered per source
          RandTol            \* bound for random instances, units of 1e-15

Abs(x) == IF x < 0 THEN -x ELSE x
RECURSIVE Gcd(_, _)
Gcd(a, b) == IF b = 0 THEN a ELSE Gcd(b, a % b)
Norm(n, d) == IF n = 0 THEN <<0, 1>> ELSE LET g == Gcd(Abs(n), d) IN <<n \div g, d \div g>>
RAdd(a, b) == Norm(a[1] * b[2] + b[1] * a[2], a[2] * b[2])
RScale(c, a) == Norm(c * a[1], a[2])

\* |p - q| for lattice points at integer distance (CHOOSE fails, and TLC says so, if it is not an integer)
Dist(p, q) == LET d2 == (p[1] - q[1]) * (p[1] - q[1]) + (p[2] - q[2]) * (p[2] - q[2])
              IN CHOOSE r \in 1..200 : r * r = d2

\* geometries: sources and evaluation points with all mutual distances integer
Geoms == <<
  [sites |-> << <<5, 0>>, <<-9, 0>>, <<16, 0>>, <<-5, 0>>, <<9, 0>>, <<-16, 0>> >>,
   evals |-> << <<0, 12>>, <<0, -12>> >>],
  [sites |-> << <<10, 8>>, <<3, 7>>, <<12, -8>>, <<15, 19>>, <<1, -4>>, <<7, 9>> >>,      \* offsets (3,4) (-4,3) (5,-12) (8,15) (-6,-8) (0,5)
   evals |-> << <<7, 4>> >>],
  [sites |-> << <<0, 3>>, <<4, 6>>, <<0, 0>>, <<-4, -6>>, <<7, 0>>, <<0, -3>> >>,
   evals |-> << <<4, 0>>, <<-4, 0>> >>]
>>
KTable == << <<1, 0>>, <<-2, 3>>, <<0, -1>>, <<3, 2>>, <<2, 2>> >>

VARIABLES g, src, tid, l
vars == <<g, src, tid, l>>

-----------------------------------------------------------------------------
(* the sum *)
RECURSIVE SumUpTo(_, _, _, _, _, _)
\* sum over sources 1..n of K[j][k] * area[j] / |e - sites[j]|, as a normalised rational
SumUpTo(n, e, sites, K, area, k) ==
  IF n = 0 THEN <<0, 1>>
  ELSE RAdd(SumUpTo(n - 1, e, sites, K, area, k), Norm(K[n][k] * area[n], Dist(e, sites[n])))
RECURSIVE SumDownFrom(_, _, _, _, _, _, _)
SumDownFrom(j, n, e, sites, K, area, k) ==
  IF j > n THEN <<0, 1>>
  ELSE RAdd(Norm(K[j][k] * area[j], Dist(e, sites[j])), SumDownFrom(j + 1, n, e, sites, K, area, k))
A(e, sites, K, area, k) == SumUpTo(Len(K), e, sites, K, area, k)

-----------------------------------------------------------------------------
(* generator *)
GInit == g \in 1..Len(Geoms) /\ src = <<>> /\ tid = 0 /\ l = 0
GNext == /\ Len(src) < NSites
         /\ \E ki \in KIdx, a \in Areas : src' = Append(src, [K |-> KTable[ki], a |-> a])
         /\ UNCHANGED <<g, tid, l>>
GSpec == GInit /\ [][GNext]_vars

Leaf == Len(src) = NSites
GSites == SubSeq(Geoms[g].sites, 1, NSites)
GK == [j \in 1..Len(src) |-> src[j].K]
GArea == [j \in 1..Len(src) |-> src[j].a]
Expected == [i \in 1..Len(Geoms[g].evals) |-> [k \in 1..2 |-> A(Geoms[g].evals[i], GSites, GK, GArea, k)]]
Emit == Leaf => PrintT(ToJson([g |-> g, sites |-> GSites, evals |-> Geoms[g].evals, K |-> GK, area |-> GArea,
                               A |-> Expected]))

\* facts checked at the leaves
Linear == Leaf => \A i \in 1..Len(Geoms[g].evals), k \in 1..2 :
            A(Geoms[g].evals[i], GSites, [j \in 1..NSites |-> <<3 * GK[j][1], 3 * GK[j][2]>>], GArea, k)
              = RScale(3, Expected[i][k])
AreaIsWeight == Leaf => \A i \in 1..Len(Geoms[g].evals), k \in 1..2 :
            A(Geoms[g].evals[i], GSites, [j \in 1..NSites |-> <<GArea[j] * GK[j][1], GArea[j] * GK[j][2]>>],
              [j \in 1..NSites |-> 1], k) = Expected[i][k]
OrderIndependent == Leaf => \A i \in 1..Len(Geoms[g].evals), k \in 1..2 :
            SumDownFrom(1, NSites, Geoms[g].evals[i], GSites, GK, GArea, k) = Expected[i][k]
\* coordinates scaled by c and areas by c^2 scale the result by c: the sum has no absolute length scale
\* (the harness runs the instances at coordinate scales 2^-30 .. 2^10)
ScalePt(c, p) == <<c * p[1], c * p[2]>>
ScaleCovariant == Leaf => \A c \in {2, 3} : \A i \in 1..Len(Geoms[g].evals), k \in 1..2 :
            A(ScalePt(c, Geoms[g].evals[i]), [j \in 1..NSites |-> ScalePt(c, GSites[j])], GK,
              [j \in 1..NSites |-> c * c * GArea[j]], k) = RScale(c, Expected[i][k])
\* sanity of the instance family: somewhere the area weight matters (the family can see a dropped weight)
AreaNeverMatters == Leaf => \A i \in 1..Len(Geoms[g].evals), k \in 1..2 :
            A(Geoms[g].evals[i], GSites, GK, [j \in 1..NSites |-> 1], k) = Expected[i][k]

-----------------------------------------------------------------------------
(* validation of what the real kernel returned *)
Batch == JsonDeserialize(IOEnv.TRACE_FILE)
T == Batch[tid]
TInit == tid \in 1..Len(Batch) /\ l = 1 /\ g = 0 /\ src = <<>>

\* numerator over the common denominator L
RECURSIVE NumUpTo(_, _, _, _, _, _, _)
NumUpTo(n, e, sites, K, area, k, L) ==
  IF n = 0 THEN 0
  ELSE NumUpTo(n - 1, e, sites, K, area, k, L) + K[n][k] * area[n] * (L \div Dist(e, sites[n]))
CommonDen(L, sites, evals) == \A i \in 1..Len(evals), j \in 1..Len(sites) : L % Dist(evals[i], sites[j]) = 0

CheckExact == /\ l = 1 /\ T.kind = "exact"
              /\ CommonDen(T.L, T.sites, T.evals)
              /\ \A i \in 1..Len(T.evals), k \in 1..2 :
                    LET want == NumUpTo(Len(T.sites), T.evals[i], T.sites, T.K, T.area, k, T.L) IN
                      /\ T.got[i][k] = want          \* the real numba kernel
                      /\ T.ref[i][k] = want          \* the numpy reference of the harness
              /\ l' = 2 /\ UNCHANGED <<g, src, tid>>
CheckRandom == /\ l = 1 /\ T.kind = "random" /\ l' = 2 /\ UNCHANGED <<g, src, tid>>
TNext == CheckExact \/ CheckRandom
TSpec == TInit /\ [][TNext]_vars

RandomAgree == (tid > 0 /\ T.kind = "random") => T.q <= RandTol
Accepted == (tid > 0 /\ l = 2) => PrintT(<<"ACCEPT", tid>>)
Progress == PrintT(<<"AT", tid, l>>)
=============================================================================
