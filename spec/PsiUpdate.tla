------------------------------ MODULE PsiUpdate ------------------------------
(***************************************************************************)
(* Per-site implicit Euler update of the generalised TDGL equation (L2).   *)
(*                                                                         *)
(* docs/background.rst, eqs. quad-1, z, w, quad-2, quad-root, psi-sol:     *)
(*      psi' + z |psi'|^2 = w                                    (quad-1)  *)
(* with s = |psi'|^2 real and >= 0.  Taking the squared modulus of         *)
(* psi' = w - z s gives                                                    *)
(*      |z|^2 s^2 - (2c + 1) s + |w|^2 = 0 ,  c = Re(w conj z)   (quad-2)  *)
(* The documentation selects the root that stays finite when z -> 0        *)
(* (gamma = 0 or psi = 0); that is the SMALLER root of quad-2, i.e.        *)
(*      2 |z|^2 s <= 2c + 1 .                                              *)
(*                                                                         *)
(* Everything below is exact: z, w are Gaussian rationals with the common  *)
(* denominator Den (= 4), given by their integer numerators:               *)
(*      z = (zr + i zi)/Den ,  w = (wr + i wi)/Den ,  |z|, |w| <= R/Den    *)
(* Integer forms (Den = 4):                                                *)
(*      nz = zr^2 + zi^2  = 16 |z|^2        nw = 16 |w|^2                  *)
(*      N1 = 2 (wr zr + wi zi) + 16  = 16 (2c + 1)                         *)
(*      DN = N1^2 - 4 nz nw          = 256 D ,  D = (2c+1)^2 - 4|z|^2|w|^2 *)
(***************************************************************************)
EXTENDS Integers, Sequences, FiniteSets, TLC

CONSTANTS R,          \* radius of the grid in numerator units (8 <=> |.| <= 2)
          SMax,       \* candidate roots s = k/16, k \in 0..SMax, for the brute-force lemma
          Emit        \* TRUE: print one vector per grid point (spec -> code)

Den == 4
Den2 == Den * Den          \* 16
Den4 == Den2 * Den2        \* 256

Nums == (0 - R)..R
Norm(a, b) == a * a + b * b
Disk == {ab \in Nums \X Nums : Norm(ab[1], ab[2]) <= R * R}

Abs(x) == IF x < 0 THEN 0 - x ELSE x

\* integer square root by search (arguments are < 2^15 here)
ISqrt(n) == CHOOSE r \in 0..(2 * R * R + Den2 + 1) : r * r <= n /\ (r + 1) * (r + 1) > n
IsSquare(n) == n >= 0 /\ ISqrt(n) * ISqrt(n) = n

---------------------------------------------------------------------------
\* the quantities of the documentation, scaled to integers

NZ(zr, zi) == Norm(zr, zi)
NW(wr, wi) == Norm(wr, wi)
N1(zr, zi, wr, wi) == 2 * (wr * zr + wi * zi) + Den2
DN(zr, zi, wr, wi) == N1(zr, zi, wr, wi) * N1(zr, zi, wr, wi) - 4 * NZ(zr, zi) * NW(wr, wi)

\* a real s >= 0 with |w - z s|^2 = s exists
Solvable(zr, zi, wr, wi) == DN(zr, zi, wr, wi) >= 0 /\ N1(zr, zi, wr, wi) > 0

\* Accept for a candidate given as exact rationals: s = sn/sd (sd > 0), p = (pr + i pi)/pd (pd > 0)
\*   SquaredModulus:  s = |p|^2                <=>  sn pd^2 = sd (pr^2 + pi^2)
\*   Equation:        p + z s = w  (both parts) <=>  4 sd pr + zr sn pd = wr sd pd   (x Den sd pd)
\*   Physical branch: 2 |z|^2 s <= 2c + 1       <=>  2 nz sn <= N1 sd
EqSquaredModulus(pr, pi, pd, sn, sd) == sn * pd * pd = sd * (pr * pr + pi * pi)
EqEquation(zr, zi, wr, wi, pr, pi, pd, sn, sd) ==
   /\ Den * sd * pr + zr * sn * pd = wr * sd * pd
   /\ Den * sd * pi + zi * sn * pd = wi * sd * pd
PhysicalBranch(zr, zi, wr, wi, sn, sd) == 2 * NZ(zr, zi) * sn <= N1(zr, zi, wr, wi) * sd
Accept(zr, zi, wr, wi, pr, pi, pd, sn, sd) ==
   /\ sn >= 0 /\ sd > 0 /\ pd > 0
   /\ EqSquaredModulus(pr, pi, pd, sn, sd)
   /\ EqEquation(zr, zi, wr, wi, pr, pi, pd, sn, sd)
   /\ PhysicalBranch(zr, zi, wr, wi, sn, sd)

\* the documented root (quad-root, psi-sol) when sqrt(D) is rational:  r = 16 sqrt(D)
\*   s = 2|w|^2 / ((2c+1) + sqrt D) = 2 nw / (N1 + r)
\*   p = w - z s = (w_num (N1 + r) - z_num 2 nw) / (4 (N1 + r))
RootSn(zr, zi, wr, wi) == 2 * NW(wr, wi)
RootSd(zr, zi, wr, wi) == N1(zr, zi, wr, wi) + ISqrt(DN(zr, zi, wr, wi))
RootPr(zr, zi, wr, wi) == wr * RootSd(zr, zi, wr, wi) - zr * RootSn(zr, zi, wr, wi)
RootPi(zr, zi, wr, wi) == wi * RootSd(zr, zi, wr, wi) - zi * RootSn(zr, zi, wr, wi)
RootPd(zr, zi, wr, wi) == Den * RootSd(zr, zi, wr, wi)
\* the other root of quad-2 (z # 0):  s2 = ((2c+1) + sqrt D) / (2 |z|^2) = (N1 + r) / (2 nz)
OtherSn(zr, zi, wr, wi) == N1(zr, zi, wr, wi) + ISqrt(DN(zr, zi, wr, wi))
OtherSd(zr, zi, wr, wi) == 2 * NZ(zr, zi)

\* classification of a grid point
Class(zr, zi, wr, wi) ==
   IF NZ(zr, zi) = 0 THEN "z0"                         \* gamma = 0 or psi = 0: linear equation
   ELSE IF NW(wr, wi) = 0 THEN "w0"                    \* new psi = 0
   ELSE IF DN(zr, zi, wr, wi) < 0 THEN "none"          \* no solution: the update must be refused
   ELSE IF DN(zr, zi, wr, wi) = 0 THEN "tangent"       \* double root
   ELSE "two"                                          \* two roots, the smaller one is physical
Classes == {"z0", "w0", "none", "tangent", "two"}

\* vector level: a multi-site update is refused iff some site has no solution
Refuse(sites) == \E n \in 1..Len(sites) : ~Solvable(sites[n][1], sites[n][2], sites[n][3], sites[n][4])

---------------------------------------------------------------------------
\* enumeration of the grid through Next (so that all workers share the leaves)

VARIABLES stage, zr, zi, wr, wi
vars == <<stage, zr, zi, wr, wi>>

Init == stage = 0 /\ zr = 0 /\ zi = 0 /\ wr = 0 /\ wi = 0

PickZ == /\ stage = 0
         /\ \E ab \in Disk : zr' = ab[1] /\ zi' = ab[2]
         /\ stage' = 1 /\ UNCHANGED <<wr, wi>>
PickW == /\ stage = 1
         /\ \E ab \in Disk : wr' = ab[1] /\ wi' = ab[2]
         /\ stage' = 2 /\ UNCHANGED <<zr, zi>>
Next == PickZ \/ PickW
Spec == Init /\ [][Next]_vars

Leaf == stage = 2
cls == Class(zr, zi, wr, wi)
dn == DN(zr, zi, wr, wi)
n1 == N1(zr, zi, wr, wi)
nz == NZ(zr, zi)
nw == NW(wr, wi)

---------------------------------------------------------------------------
\* lemmas, evaluated at every grid point

TypeOK == stage \in 0..2 /\ <<zr, zi>> \in Disk /\ <<wr, wi>> \in Disk

\* D >= 0 already implies 2c + 1 > 0: testing the discriminant alone decides solvability
DiscriminantDecides == Leaf => (dn >= 0 => n1 > 0)
\* the classes partition the grid and agree with Solvable
ClassesAgree == Leaf => /\ cls \in Classes
                        /\ (cls = "none") = ~Solvable(zr, zi, wr, wi)
                        /\ (cls \in {"z0", "w0"} => dn > 0)
\* |z||w| < 1/4  (<=> nz nw < 16)  =>  D > 0   (tiny magnitudes are always solvable)
SmallProductSolvable == Leaf => (nz * nw < Den2 => dn > 0)
\* sharper:  |z||w| < 1/2  =>  D >= 1 - 4|z||w|   <=>  Den4 - dn <= 0  \/  (Den4 - dn)^2 <= 16 * 256 nz nw
DiscriminantLowerBound ==
   Leaf => (nz * nw < 4 * Den2 => (Den4 - dn <= 0 \/ (Den4 - dn) * (Den4 - dn) <= 16 * Den4 * nz * nw))
\* the documented root satisfies Accept exactly (whenever its square root is rational)
DocumentedRootAccepted ==
   (Leaf /\ IsSquare(dn)) =>
       Accept(zr, zi, wr, wi, RootPr(zr, zi, wr, wi), RootPi(zr, zi, wr, wi), RootPd(zr, zi, wr, wi),
              RootSn(zr, zi, wr, wi), RootSd(zr, zi, wr, wi))
\* uniqueness of the physical root: the other root of quad-2 solves the equation too but is on the
\* branch that diverges as z -> 0, unless the roots coincide (tangent)
OtherRootNotPhysical ==
   (Leaf /\ IsSquare(dn) /\ nz > 0) =>
       LET sn == OtherSn(zr, zi, wr, wi)  sd == OtherSd(zr, zi, wr, wi)
           \* p2 = w - z s2 = (w_num sd - z_num sn) / (4 sd)
           pr == wr * sd - zr * sn   pi == wi * sd - zi * sn   pd == Den * sd
       IN /\ EqSquaredModulus(pr, pi, pd, sn, sd)
          /\ EqEquation(zr, zi, wr, wi, pr, pi, pd, sn, sd)
          /\ (PhysicalBranch(zr, zi, wr, wi, sn, sd) <=> dn = 0)
\* brute force on candidate roots s = k/16 (independent of the discriminant algebra):
\* with p := w - z s  (= (16 w_num - z_num k)/64),  |p|^2 = s  is possible only at solvable points,
\* and a physical candidate is the documented root
CandidateS == 0..SMax
GridRootImpliesSolvable ==
   Leaf => \A k \in CandidateS :
             LET pr == Den2 * wr - zr * k   pi == Den2 * wi - zi * k   pd == Den * Den2
             IN EqSquaredModulus(pr, pi, pd, k, Den2) =>
                  /\ Solvable(zr, zi, wr, wi)
                  /\ IsSquare(dn)
                  /\ (PhysicalBranch(zr, zi, wr, wi, k, Den2) =>
                         k * RootSd(zr, zi, wr, wi) = Den2 * RootSn(zr, zi, wr, wi))
\* temporal gauge: mu -> mu + const rotates z and w by the same unit (here: by i); classes, s and the
\* rotated root are unchanged
QuarterTurnInvariant ==
   Leaf => /\ DN(0 - zi, zr, 0 - wi, wr) = dn /\ N1(0 - zi, zr, 0 - wi, wr) = n1
           /\ Class(0 - zi, zr, 0 - wi, wr) = cls

\* coverage: every class occurs (checked through expected violations of these)
NoNone == Leaf => cls # "none"
NoTangent == Leaf => cls # "tangent"
NoTwoIrrational == Leaf => ~(cls = "two" /\ ~IsSquare(dn))

---------------------------------------------------------------------------
\* spec -> code: one vector per grid point
\*   <<"V", zr, zi, wr, wi, class, N1, DN, r (or -1)>>
Emitted == (Leaf /\ Emit) =>
              PrintT(<<"V", zr, zi, wr, wi, cls, n1, dn, IF IsSquare(dn) THEN ISqrt(dn) ELSE 0 - 1>>)
=============================================================================
