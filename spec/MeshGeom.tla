------------------------------ MODULE MeshGeom ------------------------------
(***************************************************************************)
(* C07 - mesh geometry is the Delaunay/Voronoi dual of the device domain.  *)
(*                                                                         *)
(* A mesh is a pair (P, T): P a sequence of integer points, T a sequence   *)
(* of triangles (triples of indices into P).  Everything the finite-volume *)
(* code derives from a triangulation is defined here exactly:              *)
(*   edges            = the sides of the triangles                         *)
(*   boundary         = edges with exactly one incident triangle           *)
(*   W(i,j)           = (cot alpha + cot beta) / 2   = dual length / length*)
(*   Area(i)          = 1/4 sum_j |e_ij|^2 W(i,j)    = Voronoi cell area   *)
(* as exact rationals <<num, den>> (cot = dot / cross, so no square roots  *)
(* are needed for dual/edge ratios and for areas).                         *)
(*   WellCentred(i): every interior edge at i is locally Delaunay          *)
(*   (cot alpha + cot beta >= 0) and no boundary edge of a triangle at i   *)
(*   is encroached (the angle opposite to it is not obtuse).  There the    *)
(*   circumcentric cell IS the Voronoi region clipped to the domain.       *)
(* Theorems checked on every instance: AreasTile (the cells tile the       *)
(* domain), Euler (V - E + T = 1 - holes), positive orientation, edge      *)
(* incidence in {1,2}, manifold boundary.                                  *)
(*                                                                         *)
(* Instances (enumerated through Next): sub-complexes of acute integer     *)
(* lattices (basis u, v; each cell split by the short diagonal): blocks,   *)
(* strips, every edge-connected manifold subset of the 2x2 block (fans,    *)
(* L-shapes, reflex corners, ...), a ring with a hole; two placements.     *)
(* Right-angled lattices are excluded: their circumcentres coincide and    *)
(* Mesh.from_triangulation refuses them ("Malformed Voronoi cell").        *)
(*                                                                         *)
(* The second half (GenAll) states C07 for GENERATED meshes, recorded as     *)
(* one-state traces of quantised integers with incidence witnesses.        *)
(***************************************************************************)
EXTENDS Integers, Sequences, FiniteSets, TLC, Json

CONSTANTS BasisIds,     \* which lattice bases (see Basis)
          Families,     \* subset of {"block", "subset", "ring"}
          Offsets       \* which placements (see Offset)

VARIABLES mesh          \* [P, T, name] or the empty record before the choice

Abs(x) == IF x < 0 THEN -x ELSE x
Min2(a, b) == IF a < b THEN a ELSE b
Max2(a, b) == IF a < b THEN b ELSE a

----------------------------------------------------------------------------
\* exact rationals <<num, den>>, den > 0, always normalised
RECURSIVE GCD(_, _)
GCD(a, b) == IF b = 0 THEN a ELSE GCD(b, a % b)
RNorm(n, d) == IF n = 0 THEN <<0, 1>>
               ELSE LET g == GCD(Abs(n), Abs(d))
                        s == IF d < 0 THEN -1 ELSE 1
                    IN  <<s * (n \div g), s * (d \div g)>>
RAdd(a, b) == RNorm(a[1] * b[2] + b[1] * a[2], a[2] * b[2])
RMul(a, k) == RNorm(a[1] * k, a[2])
RDiv(a, k) == RNorm(a[1], a[2] * k)
RECURSIVE RSum(_, _)
RSum(f, S) == IF S = {} THEN <<0, 1>> ELSE LET x == CHOOSE x \in S : TRUE IN RAdd(f[x], RSum(f, S \ {x}))
RECURSIVE ISum(_, _)
ISum(f, S) == IF S = {} THEN 0 ELSE LET x == CHOOSE x \in S : TRUE IN f[x] + ISum(f, S \ {x})
RECURSIVE NSum(_, _, _)
NSum(f, lo, hi) == IF hi < lo THEN 0                                        \* sum of f[lo..hi], depth log n
                   ELSE IF lo = hi THEN f[lo]
                   ELSE LET mid == (lo + hi) \div 2 IN NSum(f, lo, mid) + NSum(f, mid + 1, hi)
\* floor(|n| * Q / d) with the sign of n, without leaving 32 bits (d * Q < 2^31)
Quant(r, Q) == LET n == Abs(r[1])
                   v == (n \div r[2]) * Q + ((n % r[2]) * Q) \div r[2]
               IN  IF r[1] < 0 THEN -v ELSE v

----------------------------------------------------------------------------
\* geometry of a mesh (P, T)
Sub(p, q) == <<p[1] - q[1], p[2] - q[2]>>
Dot(u, v) == u[1] * v[1] + u[2] * v[2]
CrossV(u, v) == u[1] * v[2] - u[2] * v[1]
Orient(P, t) == CrossV(Sub(P[t[2]], P[t[1]]), Sub(P[t[3]], P[t[1]]))       \* twice the signed area
Side(a, b) == <<Min2(a, b), Max2(a, b)>>
Sides(t) == {Side(t[1], t[2]), Side(t[2], t[3]), Side(t[3], t[1])}
EdgeSet(T) == UNION {Sides(T[k]) : k \in 1 .. Len(T)}
TrisOf(T, e) == {k \in 1 .. Len(T) : e \in Sides(T[k])}
Opp(t, e) == CHOOSE v \in {t[1], t[2], t[3]} : v # e[1] /\ v # e[2]
\* cot of the angle of triangle t opposite to its side e is CotNum / Orient
CotNum(P, t, e) == LET k == Opp(t, e) IN Dot(Sub(P[e[1]], P[k]), Sub(P[e[2]], P[k]))
Len2(P, e) == LET d == Sub(P[e[2]], P[e[1]]) IN Dot(d, d)
IsBoundary(T, e) == Cardinality(TrisOf(T, e)) = 1
W(P, T, e) == LET ks == TrisOf(T, e)
                  f == [k \in ks |-> RNorm(CotNum(P, T[k], e), 2 * Orient(P, T[k]))]
              IN  RSum(f, ks)
EdgesAt(T, i) == {e \in EdgeSet(T) : e[1] = i \/ e[2] = i}
Area(P, T, i) == LET es == EdgesAt(T, i)
                     f == [e \in es |-> RDiv(RMul(W(P, T, e), Len2(P, e)), 4)]
                 IN  RSum(f, es)
TrisAt(T, i) == {k \in 1 .. Len(T) : i \in {T[k][1], T[k][2], T[k][3]}}
WellCentred(P, T, i) ==
  \A k \in TrisAt(T, i) : \A e \in Sides(T[k]) :
     IF IsBoundary(T, e) THEN CotNum(P, T[k], e) >= 0                         \* unencroached boundary edge
     ELSE (e[1] = i \/ e[2] = i) => W(P, T, e)[1] >= 0                         \* locally Delaunay
StrictlyWellCentred(P, T, i) ==
  \A k \in TrisAt(T, i) : \A e \in Sides(T[k]) : (IsBoundary(T, e) \/ e[1] = i \/ e[2] = i) => CotNum(P, T[k], e) >= 0

BoundaryEdges(T) == {e \in EdgeSet(T) : IsBoundary(T, e)}
BoundarySites(T) == UNION {{e[1], e[2]} : e \in BoundaryEdges(T)}
\* number of closed boundary curves = connected components of the boundary graph
RECURSIVE Comp(_, _, _)
Comp(Es, seen, front) == IF front = {} THEN seen
                         ELSE LET nxt == UNION {{e[1], e[2]} : e \in {e \in Es : e[1] \in front \/ e[2] \in front}} \ seen
                              IN  Comp(Es, seen \cup nxt, nxt)
RECURSIVE Loops(_, _)
Loops(Es, Vs) == IF Vs = {} THEN 0
                 ELSE LET v == CHOOSE v \in Vs : TRUE IN 1 + Loops(Es, Vs \ Comp(Es, {v}, {v}))
Holes(T) == Loops(BoundaryEdges(T), BoundarySites(T)) - 1

\* ---- theorems
Sites(P) == 1 .. Len(P)
OrientationPositive(P, T) == \A k \in 1 .. Len(T) : Orient(P, T[k]) > 0
IncidenceOneOrTwo(T) == \A e \in EdgeSet(T) : Cardinality(TrisOf(T, e)) \in {1, 2}
Manifold(T) == \A i \in BoundarySites(T) : Cardinality({e \in BoundaryEdges(T) : e[1] = i \/ e[2] = i}) = 2
EulerHolds(P, T) == Len(P) - Cardinality(EdgeSet(T)) + Len(T) = 1 - Holes(T)
AreasTileHolds(P, T) == LET a == [i \in Sites(P) |-> Area(P, T, i)]
                            o == [k \in 1 .. Len(T) |-> Orient(P, T[k])]
                        IN  RSum(a, Sites(P)) = RNorm(ISum(o, 1 .. Len(T)), 2)
AllWellCentred(P, T) == \A i \in Sites(P) : WellCentred(P, T, i)
\* in an acute mesh every weight and every cell area is positive
PositiveWeights(P, T) == (\A e \in EdgeSet(T) : W(P, T, e)[1] > 0) /\ (\A i \in Sites(P) : Area(P, T, i)[1] > 0)

----------------------------------------------------------------------------
\* instances: sub-complexes of acute lattices
Basis(b) == CASE b = 1 -> <<4, 0, 2, 3>> [] b = 2 -> <<4, 0, 1, 3>> [] b = 3 -> <<4, 1, 1, 4>>
              [] b = 4 -> <<5, 0, 2, 4>> [] b = 5 -> <<3, -1, 2, 3>> [] b = 6 -> <<6, 0, 3, 5>>
Offset(o) == CASE o = 1 -> <<0, 0>> [] o = 2 -> <<-7, 5>> [] o = 3 -> <<11, -2>>
\* lattice block of m x n cells: point (i, j), 0 <= i <= m, 0 <= j <= n, has index j*(m+1)+i+1
PIdx(m, i, j) == j * (m + 1) + i + 1
BlockP(b, o, m, n) == [p \in 1 .. (m + 1) * (n + 1) |->
                         LET i == (p - 1) % (m + 1)
                             j == (p - 1) \div (m + 1)
                             B == Basis(b)
                         IN  <<Offset(o)[1] + i * B[1] + j * B[3], Offset(o)[2] + i * B[2] + j * B[4]>>]
\* triangle 2c-1 / 2c of cell c = j*m+i+1: lower (p00, p10, p01), upper (p10, p11, p01)
BlockT(m, n) == [q \in 1 .. 2 * m * n |->
                   LET c == (q + 1) \div 2
                       i == (c - 1) % m
                       j == (c - 1) \div m
                   IN  IF q % 2 = 1 THEN <<PIdx(m, i, j), PIdx(m, i + 1, j), PIdx(m, i, j + 1)>>
                       ELSE <<PIdx(m, i + 1, j), PIdx(m, i + 1, j + 1), PIdx(m, i, j + 1)>>]
\* keep the triangles in `keep` (a set of indices into T) and renumber the points that are used
RECURSIVE SetToSeq(_)
SetToSeq(S) == IF S = {} THEN <<>> ELSE LET x == CHOOSE x \in S : \A y \in S : x <= y IN <<x>> \o SetToSeq(S \ {x})
Restrict(P, T, keep) ==
  LET ks == SetToSeq(keep)
      used == UNION {{T[k][1], T[k][2], T[k][3]} : k \in keep}
      us == SetToSeq(used)
      rank == [p \in used |-> Cardinality({q \in used : q <= p})]
  IN  [P |-> [r \in 1 .. Len(us) |-> P[us[r]]],
       T |-> [r \in 1 .. Len(ks) |-> <<rank[T[ks[r]][1]], rank[T[ks[r]][2]], rank[T[ks[r]][3]]>>]]
\* triangles sharing a side
Adjacent(T, a, b) == Sides(T[a]) \cap Sides(T[b]) # {}
RECURSIVE TReach(_, _, _, _)
TReach(T, S, seen, front) == IF front = {} THEN seen
                             ELSE LET nxt == {b \in S \ seen : \E a \in front : Adjacent(T, a, b)}
                                  IN  TReach(T, S, seen \cup nxt, nxt)
EdgeConnected(T, S) == S # {} /\ LET a == CHOOSE a \in S : TRUE IN TReach(T, S, {a}, {a}) = S

Acute(b) == LET B == Basis(b)
                u == <<B[1], B[2]>>
                v == <<B[3], B[4]>>
            IN  CrossV(u, v) > 0 /\ Dot(u, v) > 0 /\ Dot(u, Sub(u, v)) > 0 /\ Dot(v, Sub(v, u)) > 0

Candidates ==
  (IF "block" \in Families
   THEN {[fam |-> "block", m |-> m, n |-> n, keep |-> 1 .. 2 * m * n] : m \in 1 .. 7, n \in 1 .. 3} ELSE {})
  \cup (IF "subset" \in Families THEN {[fam |-> "subset", m |-> 2, n |-> 2, keep |-> S] : S \in SUBSET (1 .. 8)} ELSE {})
  \cup (IF "ring" \in Families THEN {[fam |-> "ring", m |-> 3, n |-> 3, keep |-> (1 .. 18) \ {9, 10}]} ELSE {})

Init == mesh = [name |-> "none"]
\* two steps (placement, then shape) so that TLC's workers share the enumeration
Place == /\ mesh.name = "none"
         /\ \E b \in BasisIds, o \in Offsets : Acute(b) /\ mesh' = [name |-> "placed", b |-> b, o |-> o]
Choose ==
  /\ mesh.name = "placed"
  /\ \E c \in Candidates :
       /\ (c.m + 1) * (c.n + 1) <= 16 /\ (c.fam = "block" => c.m >= c.n)
       /\ Cardinality(c.keep) >= 2 /\ EdgeConnected(BlockT(c.m, c.n), c.keep)   \* (a single triangle is refused by the code: squeeze())
       /\ LET r == Restrict(BlockP(mesh.b, mesh.o, c.m, c.n), BlockT(c.m, c.n), c.keep) IN
            /\ Manifold(r.T)
            /\ mesh' = [name |-> c.fam, b |-> mesh.b, o |-> mesh.o, m |-> c.m, n |-> c.n, keep |-> c.keep, P |-> r.P, T |-> r.T]
Next == Place \/ Choose
Spec == Init /\ [][Next]_mesh

Chosen == mesh.name \notin {"none", "placed"}
InvOrientation == Chosen => OrientationPositive(mesh.P, mesh.T)
InvIncidence == Chosen => IncidenceOneOrTwo(mesh.T)
InvEuler == Chosen => EulerHolds(mesh.P, mesh.T)
InvAreasTile == Chosen => AreasTileHolds(mesh.P, mesh.T)
InvWellCentred == Chosen => AllWellCentred(mesh.P, mesh.T) /\ PositiveWeights(mesh.P, mesh.T)
InvRingHasHole == (Chosen /\ mesh.name = "ring") => Holes(mesh.T) = 1
\* design canary: the cells do NOT tile when the boundary cells are not completed (sum over interior sites only)
CanaryInteriorCellsTile ==
  Chosen => LET P == mesh.P
                T == mesh.T
                I == Sites(P) \ BoundarySites(T)
                a == [i \in I |-> Area(P, T, i)]
                o == [k \in 1 .. Len(T) |-> Orient(P, T[k])]
            IN  RSum(a, I) = RNorm(ISum(o, 1 .. Len(T)), 2)

\* expected values of an instance, for the exact binding
ESeq(T) == SetToSeq({e[1] * 1000 + e[2] : e \in EdgeSet(T)})
Expected(P, T) ==
  LET es == ESeq(T) IN
  [P |-> P, T |-> T, holes |-> Holes(T),
   E |-> [r \in 1 .. Len(es) |-> LET e == <<es[r] \div 1000, es[r] % 1000>> IN
            [i |-> e[1], j |-> e[2], b |-> IsBoundary(T, e), w |-> W(P, T, e), len2 |-> Len2(P, e)]],
   A |-> [i \in Sites(P) |-> Area(P, T, i)],
   WC |-> [i \in Sites(P) |-> WellCentred(P, T, i)]]
Emit == Chosen => PrintT(ToJson([name |-> mesh.name, b |-> mesh.b, o |-> mesh.o, m |-> mesh.m, n |-> mesh.n,
                                 exp |-> Expected(mesh.P, mesh.T)]))

----------------------------------------------------------------------------
\* Exact binding: what Mesh.from_triangulation computed on an instance (record `ob`) against the model.
\* Floats arrive quantised: ratio and area at Q per unit, rounded to nearest.
QNear(obs, r, Q) == LET v == Quant(r, Q) IN obs - v >= -1 /\ obs - v <= 2
ExactEdgesMatch(P, T, ob) ==
  /\ Len(ob.E) = Cardinality(EdgeSet(T))
  /\ \A r \in 1 .. Len(ob.E) : Side(ob.E[r][1], ob.E[r][2]) \in EdgeSet(T)
  /\ \A r, s \in 1 .. Len(ob.E) : r # s => Side(ob.E[r][1], ob.E[r][2]) # Side(ob.E[s][1], ob.E[s][2])
ExactBoundaryMatch(P, T, ob) ==
  /\ \A r \in 1 .. Len(ob.E) : ob.B[r] = IsBoundary(T, Side(ob.E[r][1], ob.E[r][2]))
  /\ \A i \in Sites(P) : ob.BS[i] = (i \in BoundarySites(T))
\* edge vectors, lengths and centres are those of the site pairs (exact integers; len2 quantised)
ExactEdgeVectors(P, T, ob) ==
  \A r \in 1 .. Len(ob.E) :
     LET i == ob.E[r][1]
         j == ob.E[r][2] IN
     /\ ob.D[r] = Sub(P[j], P[i])
     /\ ob.C2[r] = <<P[i][1] + P[j][1], P[i][2] + P[j][2]>>
     /\ QNear(ob.L2[r], <<Len2(P, Side(i, j)), 1>>, ob.Q)
EdgeRegular(P, T, e) == IF IsBoundary(T, e) THEN \A k \in TrisOf(T, e) : CotNum(P, T[k], e) >= 0 ELSE W(P, T, e)[1] >= 0
ExactWeights(P, T, ob, vals) ==
  \A r \in 1 .. Len(ob.E) :
     LET e == Side(ob.E[r][1], ob.E[r][2]) IN EdgeRegular(P, T, e) => QNear(vals[r], W(P, T, e), ob.Q)
ExactAreas(P, T, ob, vals) == \A i \in Sites(P) : WellCentred(P, T, i) => QNear(vals[i], Area(P, T, i), ob.Q)
ExactWCFlags(P, T, ob) == /\ \A i \in Sites(P) : ob.refWC[i] = WellCentred(P, T, i)
                          /\ \A r \in 1 .. Len(ob.E) : ob.refER[r] = EdgeRegular(P, T, Side(ob.E[r][1], ob.E[r][2]))
\* ob.R, ob.A: the code (Mesh.from_triangulation); ob.refW, ob.refA: the harness' reference numerics, validated here
ExactAll(P, T, ob) == /\ ob.exc = "none"
                      /\ ExactEdgesMatch(P, T, ob) /\ ExactBoundaryMatch(P, T, ob) /\ ExactEdgeVectors(P, T, ob)
                      /\ ExactWeights(P, T, ob, ob.R) /\ ExactAreas(P, T, ob, ob.A)
                      /\ ExactWeights(P, T, ob, ob.refW) /\ ExactAreas(P, T, ob, ob.refA) /\ ExactWCFlags(P, T, ob)

----------------------------------------------------------------------------
\* Generated meshes (Device.make_mesh): one-state traces.  g.P quantised coordinates (1e-3 per unit, centred),
\* g.T triangles, g.E / g.B / g.BS what the code reports (edges, boundary flags of edges and of sites),
\* g.ET incidence witness (triangles of each edge), g.OS / g.OE outline membership of sites / edge midpoints,
\* g.A cell areas (quanta^2), g.OUT outlines (film first, then holes), g.SITE / g.EDGE per-site / per-edge
\* records against the reference formulas, g.TERM terminal records.
GSide(g, r) == Side(g.E[r][1], g.E[r][2])
GenOrientation(g) == \A k \in 1 .. Len(g.T) : Orient(g.P, g.T[k]) > 0
\* the witness is sound (every listed triangle has the edge as a side, no repeats) and complete (3 T incidences)
GenIncidence(g) ==
  /\ Len(g.ET) = Len(g.E)
  /\ \A r \in 1 .. Len(g.E) : /\ g.E[r][1] < g.E[r][2]
                              /\ Len(g.ET[r]) \in {1, 2}
                              /\ \A x \in 1 .. Len(g.ET[r]) : GSide(g, r) \in Sides(g.T[g.ET[r][x]])
                              /\ (Len(g.ET[r]) = 2 => g.ET[r][1] # g.ET[r][2])
  /\ \A r \in 2 .. Len(g.E) : g.E[r - 1][1] < g.E[r][1] \/ (g.E[r - 1][1] = g.E[r][1] /\ g.E[r - 1][2] < g.E[r][2])
  /\ NSum([r \in 1 .. Len(g.E) |-> Len(g.ET[r])], 1, Len(g.E)) = 3 * Len(g.T)
GenBoundaryFlags(g) ==
  /\ \A r \in 1 .. Len(g.E) : g.B[r] = (Len(g.ET[r]) = 1)
  /\ \A i \in 1 .. Len(g.P) : g.BS[i] = (\E r \in 1 .. Len(g.E) : g.B[r] /\ (g.E[r][1] = i \/ g.E[r][2] = i))
\* boundary sites and edges are exactly those on the film and hole outlines
GenBoundaryIsOutline(g) ==
  /\ \A i \in 1 .. Len(g.P) : g.BS[i] = g.OS[i]
  /\ \A r \in 1 .. Len(g.E) : g.B[r] = g.OE[r]
GenEuler(g) == Len(g.P) - Len(g.E) + Len(g.T) = 1 - g.holes
\* shoelace (twice the signed area) of a closed outline given as a sequence of points
Shoelace2(o) == NSum([k \in 1 .. Len(o) |-> LET p == o[k]
                                                 q == o[(k % Len(o)) + 1]
                                             IN  p[1] * q[2] - q[1] * p[2]], 1, Len(o))
Domain2(g) == Abs(Shoelace2(g.OUT[1])) - NSum([h \in 2 .. Len(g.OUT) |-> Abs(Shoelace2(g.OUT[h]))], 2, Len(g.OUT))
\* the triangles tile film minus holes (tolerance: perimeter x 1 quantum); so do the cells when every site is
\* well centred (theorem AreasTile; elsewhere the property does not constrain the cells)
GenTiling(g) ==
  /\ Abs(NSum([k \in 1 .. Len(g.T) |-> Orient(g.P, g.T[k])], 1, Len(g.T)) - Domain2(g)) <= 2 * g.PER
  /\ (\A i \in 1 .. Len(g.SITE) : g.SITE[i].wc)
        => Abs(2 * NSum([i \in 1 .. Len(g.A) |-> g.A[i]], 1, Len(g.A)) - Domain2(g)) <= 2 * g.PER + Len(g.A)
\* per site: cell area = cotangent (clipped Voronoi) area wherever the mesh is well centred
GenCellAreas(g) == \A i \in 1 .. Len(g.SITE) : g.SITE[i].wc => Abs(g.SITE[i].a - g.SITE[i].c) <= g.tol
\* per edge: dual/edge ratio = (cot + cot)/2 where well centred; vectors, centres, lengths are those of the site pair
GenDualLengths(g) == \A r \in 1 .. Len(g.EDGE) : g.EDGE[r].wc => Abs(g.EDGE[r].r - g.EDGE[r].w) <= g.tol
GenEdgeVectors(g) ==
  \A r \in 1 .. Len(g.EDGE) :
     LET p == g.P[g.E[r][1]]
         q == g.P[g.E[r][2]]
         x == g.EDGE[r] IN
     /\ Abs(x.dx - (q[1] - p[1])) <= 2 /\ Abs(x.dy - (q[2] - p[2])) <= 2
     /\ Abs(x.cx2 - (q[1] + p[1])) <= 2 /\ Abs(x.cy2 - (q[2] + p[2])) <= 2
     /\ Abs(x.len * x.len - (x.dx * x.dx + x.dy * x.dy)) <= 4 * x.len + 8
\* terminal length = covered boundary length, within one boundary edge at each end
GenTerminals(g) == \A k \in 1 .. Len(g.TERM) : Abs(g.TERM[k].len - g.TERM[k].cover) <= 2 * g.TERM[k].maxedge + 2
\* non-vacuity of the per-site clause: most sites of a generated mesh are well centred
GenMostlyWellCentred(g) == 2 * Cardinality({i \in 1 .. Len(g.SITE) : g.SITE[i].wc}) >= Len(g.SITE)

\* placement of a mesh relative to the device it belongs to (used for histories of Device operations, DevHeap)
GenTrianglesTile(g) == Abs(NSum([k \in 1 .. Len(g.T) |-> Orient(g.P, g.T[k])], 1, Len(g.T)) - Domain2(g)) <= 2 * g.PER
GenTrianglesInside(g) == \A k \in 1 .. Len(g.TIN) : g.TIN[k]      \* every triangle (centroid) lies in film minus holes
GenPlaced(g) == /\ GenOrientation(g) /\ GenBoundaryIsOutline(g) /\ GenEuler(g) /\ GenTrianglesTile(g)
                /\ GenTrianglesInside(g) /\ GenTerminals(g)

\* The domain THE USER SPECIFIED: when film and holes are plain primitives, g.ANA holds what the harness derived from the
\* numbers it passed to them (rectangle w x h centred at c, tilted counter-clockwise by `angle` about (0,0); ellipse a, b
\* with n vertices), by its own formulas - not from device.film.points:
\*   corners  the rectangle corners (quantised): each must be a boundary site of the mesh
\*   bres     for every boundary site, its residual against each analytic outline (rectangle: signed distance in quanta;
\*            ellipse: (x/a)^2+(y/b)^2-1 in 1e-6, which lies in [cos^2(pi/n)-1, 0] on the inscribed polygon)
\*   ain      every site lies in the analytic film and in no analytic hole
\*   area2    twice the analytic area (w h; n/2 a b sin(2 pi/n)) of film minus holes
\*   tcover   length of the analytic film outline inside each analytic terminal
\*   nholes   the number of holes the user specified (Euler characteristic of film minus holes = 1 - nholes)
\* An outline given vertex by vertex (possibly NON-CONVEX: C-shaped annular sectors, L / U / plus shapes, as film or hole) is its
\* own reference: corners = all its vertices, residual = signed distance to its segments (negative inside, crossing number),
\* area = shoelace.  A hole must be left out whatever its shape - also when its centroid lies outside the hole itself.
AnaEuler(g) == Len(g.P) - Len(g.E) + Len(g.T) = 1 - g.ANA.nholes
AnaCorners(g) ==
  \A c \in 1 .. Len(g.ANA.corners) :
     \E i \in 1 .. Len(g.P) : g.BS[i] /\ Abs(g.P[i][1] - g.ANA.corners[c][1]) <= 2 /\ Abs(g.P[i][2] - g.ANA.corners[c][2]) <= 2
AnaBoundaryOnOutline(g) ==
  /\ Len(g.ANA.bres) = NSum([i \in 1 .. Len(g.BS) |-> IF g.BS[i] THEN 1 ELSE 0], 1, Len(g.BS))
  /\ \A r \in 1 .. Len(g.ANA.bres) :
        LET e == g.ANA.bres[r] IN
        /\ g.BS[e.i] /\ (r > 1 => g.ANA.bres[r - 1].i < e.i)
        /\ \E k \in 1 .. Len(e.res) : g.ANA.lo[k] <= e.res[k] /\ e.res[k] <= g.ANA.hi[k]
AnaSitesInDomain(g) == (\A i \in 1 .. Len(g.ANA.ain) : g.ANA.ain[i]) /\ Len(g.ANA.ain) = Len(g.P)
AnaArea(g) == Abs(NSum([k \in 1 .. Len(g.T) |-> Orient(g.P, g.T[k])], 1, Len(g.T)) - g.ANA.area2) <= 2 * g.PER + 4
AnaTerminals(g) == \A k \in 1 .. Len(g.ANA.tcover) : Abs(g.TERM[k].len - g.ANA.tcover[k]) <= 2 * g.TERM[k].maxedge + 2
GenAnalytic(g) ==
  g.ANA.have => /\ AnaEuler(g) /\ AnaCorners(g) /\ AnaBoundaryOnOutline(g) /\ AnaSitesInDomain(g) /\ AnaArea(g) /\ AnaTerminals(g)

GenAll(g) == /\ GenOrientation(g) /\ GenIncidence(g) /\ GenBoundaryFlags(g) /\ GenBoundaryIsOutline(g) /\ GenEuler(g)
             /\ GenTiling(g) /\ GenTrianglesInside(g) /\ GenCellAreas(g) /\ GenDualLengths(g) /\ GenEdgeVectors(g) /\ GenTerminals(g)
             /\ GenAnalytic(g)
\* (GenMostlyWellCentred is a vacuity measure, not a clause of C07: coarse strips may have no well-centred site at all;
\*  the check requires it in aggregate over all generated meshes)
=============================================================================
