--------------------------- MODULE PsiUpdateTrace ---------------------------
(***************************************************************************)
(* Trace validation for PsiUpdate (code -> spec).                          *)
(*                                                                         *)
(* One trace = one call of the REAL TDGLSolver.solve_for_psi_squared on a  *)
(* multi-site vector.  T.refused says whether the call returned None;      *)
(* T.ev[n] is the observation at site n:                                   *)
(*   kind  "grid"  the inputs realise the grid point (zr,zi,wr,wi)/4       *)
(*         "free"  a grid point on the tangent D = 0 realised only to      *)
(*                 rounding: the verdict of such a site is not determined  *)
(*         "small" |z||w| < 1/4 (tiny magnitudes outside the grid):        *)
(*                 solvable by lemma SmallProductSolvable                  *)
(*         "near"  a tangent grid point perturbed so that the EXACT        *)
(*                 discriminant of the documented z, w of the realised     *)
(*                 float inputs has relative size 1e-9 .. 1e-12 (orders    *)
(*                 above rounding): its class is the exact sign, dpos      *)
(*                 (by DiscriminantDecides D > 0 decides solvability)      *)
(*         "insitu" a site of an update (or of one attempt) of a REAL run:  *)
(*                 z, w are the documented ones of psi^n, mu^n, epsilon,   *)
(*                 dt and the covariant Laplacian in force; dpos = exact   *)
(*                 sign of their discriminant (where |D|/(2c+1)^2 >= 1e-9) *)
(*         "history" a site of one call of a HISTORY of calls made by one  *)
(*                 caller on its own argument buffers (per buffer: one     *)
(*                 array rewritten in place, a new view of one block of    *)
(*                 memory, or a new array per call; between calls some of  *)
(*                 psi, mu, epsilon, the Laplacian entries, dt, gamma, u   *)
(*                 change).  The property quantifies over inputs, so the   *)
(*                 call is judged exactly like an isolated one: z, w are   *)
(*                 the documented ones of the numbers in the buffers at    *)
(*                 the time of THIS call, dpos the exact sign of their     *)
(*                 discriminant; what was asked before is not an input.    *)
(*   e1    |p + z s - w| in quanta (quantum = T.quantum of the scale)      *)
(*   e2    |s - |p|^2|   in quanta                                         *)
(*   br    2|z|^2 s <= 2c+1 (with the same tolerance)                      *)
(*   fin   p, s finite, s real and >= 0                                    *)
(*   sq    round(s * SScale)  (compared with the exact root when sqrt(D)   *)
(*         is rational)                                                    *)
(* With Guarded = TRUE the clauses guard the actions (a trace is accepted  *)
(* iff every clause holds at every site); with Guarded = FALSE everything  *)
(* is consumed and the clauses are evaluated as invariants, so that TLC    *)
(* names the clause a rejected trace violates.                             *)
(***************************************************************************)
EXTENDS PsiUpdate, Json, IOUtils, TLCExt

CONSTANTS Guarded, Tol, SScale, STol

Batch == JsonDeserialize(IOEnv.TRACE_FILE)

VARIABLES tid, l
tvars == <<vars, tid, l>>

T == Batch[tid]
NSites == Len(T.ev)
E(n) == T.ev[n]

OnGrid(n) == E(n).kind \in {"grid", "free"}
SolvableAt(n) == \/ E(n).kind = "small"
                 \/ E(n).kind = "near" /\ E(n).dpos
                 \/ E(n).kind = "insitu" /\ E(n).dpos
                 \/ E(n).kind = "history" /\ E(n).dpos
                 \/ OnGrid(n) /\ Solvable(E(n).zr, E(n).zi, E(n).wr, E(n).wi)
VerdictFree(n) == E(n).kind = "free"

\* clauses of the property at one answered site
EquationAt(n) == E(n).fin /\ E(n).e1 >= 0 /\ E(n).e1 <= Tol
SquaredModulusAt(n) == E(n).fin /\ E(n).e2 >= 0 /\ E(n).e2 <= Tol
BranchAt(n) == E(n).br
ExactRootAt(n) ==
   (OnGrid(n) /\ SolvableAt(n) /\ IsSquare(DN(E(n).zr, E(n).zi, E(n).wr, E(n).wi))) =>
       LET sd == RootSd(E(n).zr, E(n).zi, E(n).wr, E(n).wi)
           sn == RootSn(E(n).zr, E(n).zi, E(n).wr, E(n).wi)
       IN E(n).sq >= 0 /\ E(n).sq <= 100 * SScale /\ Abs(E(n).sq * sd - sn * SScale) <= STol * sd
SiteOK(n) == T.refused \/ (SolvableAt(n) /\ EquationAt(n) /\ SquaredModulusAt(n) /\ BranchAt(n) /\ ExactRootAt(n))

\* the verdict of the call
RefusalOK == IF T.refused
             THEN \E n \in 1..NSites : ~SolvableAt(n) \/ VerdictFree(n)
             ELSE \A n \in 1..NSites : SolvableAt(n)

TInit == /\ Init /\ tid \in 1..Len(Batch) /\ l = 1

Site == /\ l <= NSites
        /\ (Guarded => SiteOK(l))
        /\ l' = l + 1 /\ UNCHANGED <<vars, tid>>
Verdict == /\ l = NSites + 1
           /\ (Guarded => RefusalOK)
           /\ l' = l + 1 /\ UNCHANGED <<vars, tid>>
TNext == Site \/ Verdict
TSpec == TInit /\ [][TNext]_tvars

Seen == 1..(IF l - 1 < NSites THEN l - 1 ELSE NSites)
\* the property clauses (C02), evaluated on everything consumed so far
AnsweredImpliesEquation == \A n \in Seen : T.refused \/ EquationAt(n)
AnsweredImpliesSquaredModulus == \A n \in Seen : T.refused \/ SquaredModulusAt(n)
AnsweredIsPhysicalBranch == \A n \in Seen : T.refused \/ (BranchAt(n) /\ ExactRootAt(n))
AnsweredOnlyWhereSolvable == \A n \in Seen : T.refused \/ SolvableAt(n)
RefusedIffSomeSiteUnsolvable == (l = NSites + 2) => RefusalOK

\* diagnosis of rejected traces (Guarded = FALSE): TLC names the clauses a complete trace violates
\* one line per trace: <<"CLAUSES", tid, b1..b5>>, b = 1 iff the clause is violated, in the order
\* Equation, SquaredModulus, PhysicalBranch, OnlyWhereSolvable, RefusedIffSomeSiteUnsolvable
Bit(b) == IF b THEN 0 ELSE 1
Diagnosis == (l = NSites + 2) =>
   PrintT(<<"CLAUSES", tid, Bit(AnsweredImpliesEquation), Bit(AnsweredImpliesSquaredModulus),
            Bit(AnsweredIsPhysicalBranch), Bit(AnsweredOnlyWhereSolvable), Bit(RefusedIffSomeSiteUnsolvable)>>)

Accepted == (l = NSites + 2) => PrintT(<<"ACCEPT", tid>>)
Progress == PrintT(<<"AT", tid, l>>)
=============================================================================
