-------------------------- MODULE MonitorChannelGen --------------------------
(* Behaviours of MonitorChannel exported as schedules (who moves: 1 = writer, 0 = reader) for the controller that  *)
(* interleaves the real solver and the real monitor (harness/monitor.py).  Run with -simulate; every finished      *)
(* behaviour is printed once as JSON.                                                                              *)
EXTENDS MonitorChannel, Json

VARIABLE sched
gvars == <<vars, sched>>

GInit == Init /\ gui /\ sched = <<>>      \* (the schedule does not depend on how the monitor ends)
GNext == \/ Writer /\ sched' = Append(sched, 1)
         \/ Reader /\ sched' = Append(sched, 0)
GSpec == GInit /\ [][GNext]_gvars

Finished == WDone /\ rstat \in {"exited", "crashed"}
Export == Finished => PrintT(ToJson([saves |-> nsaves, sched |-> sched, rstat |-> rstat, shown |-> lastDisplay # <<>>]))
=============================================================================
