--------------------------- MODULE MonitorChannel ---------------------------
(***************************************************************************)
(* The live-monitor channel of py-tdgl: a second HDF5 file ("<output>.tmp")  *)
(* that the solver (WRITER, tdgl/solver/runner.py: DataHandler, Runner)      *)
(* keeps overwriting with the latest saved frame in SWMR mode, and that the *)
(* monitor (READER, tdgl/visualization/monitor.py: monitor_solution, a      *)
(* separate process started by the runner) polls while the simulation runs. *)
(*                                                                         *)
(* One action per operation on the shared file, in the order the code       *)
(* performs them; the two processes interleave freely.  Versions: every     *)
(* dataset of the group data/-1 carries the number of the save that wrote   *)
(* it (0 = the placeholder written when the file is created).               *)
(*                                                                         *)
(* Mechanism switches select the code's mechanism (TRUE) or a plausible      *)
(* wrong one (FALSE); the wrong ones are design canaries: TLC must find the  *)
(* violation.                                                               *)
(***************************************************************************)
EXTENDS Naturals, Sequences, FiniteSets, TLC

CONSTANTS
    DataKeys,        \* sequence: the per-save datasets in the order the writer writes them (psi, mu, ...)
    FixedKeys,       \* set: datasets written once at top level (epsilon, applied_vector_potential when static)
    Fields,          \* sequence: the order in which TDGLData.from_hdf5 reads the fields
    SavesSet,        \* set of possible numbers of saves of a run (>= 1)
    K,               \* save_every: step label of save n is (n-1)*K
    Quantities,      \* number of panels: from_hdf5 passes per display cycle
    MCreateBeforeSwmr,   \* TRUE: SWMR mode is switched on after the first save created every dataset
    MDataBeforeLabel,    \* TRUE: a save writes the data first and step/time/dt last
    MLaunchAfterSwmr,    \* TRUE: the monitor is launched after SWMR mode is on
    MLabelBeforeData     \* TRUE: the reader reads step/time/dt first and the data afterwards

NoV == 99            \* no pending value
LabelKeys == <<"step", "time", "dt">>
Range(s) == {s[i] : i \in DOMAIN s}
DataSet == Range(DataKeys)
AllKeys == DataSet \cup Range(LabelKeys) \cup FixedKeys \cup {"device", "group"}

VARIABLES
    gui,         \* the monitor runs on a GUI backend (closing the figure raises SystemExit); FALSE: headless (agg)
    svals,       \* svals[v]: the step label stored by save v (multiples of K; the final save may fall in between)
    nsaves,      \* number of saves of this run
    wops,        \* the writer's program: sequence of [op, key, v]
    wi,          \* next operation of the writer
    werr,        \* "none" or the error the writer hit
    fexists, fopen, fswmr,   \* the path exists / the writer has it open / SWMR write mode
    objs,        \* objects present in the file
    flushed,     \* version of each dataset a reader is guaranteed to see
    pend,        \* version written but not yet flushed (NoV: none)
    launched,    \* the monitor process has been started
    rstat,       \* "none", "starting", "running", "exited", "crashed"
    rwhy,        \* why the reader crashed
    rpc,         \* reader program counter
    rprev,       \* step VALUE the reader displayed last (prev_step)
    rlabel,      \* versions behind the label of the cycle in progress: [step, time, dt]
    rq, rf,      \* panel and field index within the cycle
    rshown,      \* rshown[q][key]: version read for panel q
    lastDisplay  \* the last completed display cycle, or <<>>

vars == <<gui, svals, nsaves, wops, wi, werr, fexists, fopen, fswmr, objs, flushed, pend, launched, rstat, rwhy, rpc, rprev, rlabel,
          rq, rf, rshown, lastDisplay>>
wvars == <<gui, svals, nsaves, wops, wi, werr, fexists, fopen, fswmr, objs, flushed, pend, launched>>
rvars == <<rwhy, rpc, rprev, rlabel, rq, rf, rshown, lastDisplay>>

-----------------------------------------------------------------------------
(* The writer's program, read off DataHandler.__enter__, TDGLSolver.solve,   *)
(* DataHandler.save_fixed_values, Runner._run_stage, DataHandler._save_time_step *)
(* and DataHandler.close.                                                    *)

Op(o, k, v) == [op |-> o, key |-> k, v |-> v]
SeqMap(F(_), s) == [i \in DOMAIN s |-> F(s[i])]
RECURSIVE Flatten(_)
Flatten(ss) == IF ss = <<>> THEN <<>> ELSE Head(ss) \o Flatten(Tail(ss))

EnterOps == <<Op("create", "group", 0), Op("create", "step", 0), Op("create", "time", 0), Op("create", "dt", 0), Op("create", "device", 0)>>
FixedOps(fixedSeq) == SeqMap(LAMBDA k : Op("create", k, 1), fixedSeq)
DataOps(n) == Flatten(SeqMap(LAMBDA k : <<Op(IF n = 1 THEN "create" ELSE "write", k, n), Op("flush", k, n)>>, DataKeys))
LabelOps(n) == Flatten(SeqMap(LAMBDA k : <<Op("write", k, n), Op("flush", k, n)>>, LabelKeys))
SaveOps(n) == IF MDataBeforeLabel THEN DataOps(n) \o LabelOps(n) ELSE LabelOps(n) \o DataOps(n)
SwmrLaunch(mon) == <<Op("swmr", "-", 0)>> \o (IF mon THEN <<Op("launch", "-", 0)>> ELSE <<>>)
RECURSIVE SavesFrom(_, _)
SavesFrom(n, last) == IF n > last THEN <<>> ELSE SaveOps(n) \o SavesFrom(n + 1, last)
CloseOps == <<Op("fflush", "-", 0), Op("close", "-", 0), Op("remove", "-", 0)>>

Program(n, fixedSeq, mon) ==
    EnterOps \o FixedOps(fixedSeq)
    \o (IF MCreateBeforeSwmr
          THEN SaveOps(1) \o (IF MLaunchAfterSwmr THEN SwmrLaunch(mon) ELSE <<Op("launch", "-", 0), Op("swmr", "-", 0)>>)
          ELSE SwmrLaunch(mon) \o SaveOps(1))
    \o SavesFrom(2, n) \o CloseOps

\* some enumeration of a set as a sequence (the order of fixed keys does not matter to any property)
RECURSIVE SetToSeq(_)
SetToSeq(S) == IF S = {} THEN <<>> ELSE LET x == CHOOSE y \in S : TRUE IN <<x>> \o SetToSeq(S \ {x})

-----------------------------------------------------------------------------
StepVal(v) == IF v = 0 THEN 0 ELSE svals[v]
\* A reader sees what is in the file: the flushed version, or already the pending one (an unflushed write may have
\* reached the file).  Seeing the pending version is a fact about the file, so it stays visible: Saw records it.
Visible(k) == {flushed[k]} \cup (IF pend[k] # NoV THEN {pend[k]} ELSE {})
Saw(k, v) == flushed' = [flushed EXCEPT ![k] = v]
NoShown == [q \in 1..Quantities |-> [k \in DataSet |-> 0]]

InitWith(n, fixedSeq, mon, sv, g) ==
    /\ gui = g /\ svals = sv
    /\ nsaves = n
    /\ wops = Program(n, fixedSeq, mon)
    /\ wi = 1 /\ werr = "none"
    /\ fexists = TRUE /\ fopen = TRUE /\ fswmr = FALSE
    /\ objs = {}
    /\ flushed = [k \in AllKeys |-> 0] /\ pend = [k \in AllKeys |-> NoV]
    /\ launched = FALSE
    /\ rstat = "none" /\ rwhy = "-" /\ rpc = "open" /\ rprev = 0
    /\ rlabel = <<0, 0, 0>> /\ rq = 1 /\ rf = 1 /\ rshown = NoShown /\ lastDisplay = <<>>

\* saves at multiples of K, and a final save that may fall one step after the last multiple
Labels(n) == {[v \in 1..n |-> (v - 1) * K]} \cup
             (IF n >= 2 /\ K > 1 THEN {[v \in 1..n |-> IF v = n THEN (n - 2) * K + 1 ELSE (v - 1) * K]} ELSE {})
Init == \E n \in SavesSet : \E sv \in Labels(n) : \E g \in BOOLEAN : InitWith(n, SetToSeq(FixedKeys), TRUE, sv, g)

-----------------------------------------------------------------------------
(* WRITER *)

WDone == wi > Len(wops)
CloseAt == Len(wops) - 2          \* index of "fflush": where an error exit resumes (DataHandler.__exit__ -> close)

WCreate(o) ==
    /\ o.op = "create"
    \* HDF5's SWMR rule: no object may be created once the file is in SWMR-write mode.  The library used here does
    \* not refuse the call (checked against the real library), readers are simply not guaranteed to see the object:
    \* the rule is a discipline of the writer, recorded in werr and stated as WriterObeysSwmr.
    /\ werr' = IF fswmr THEN "create-in-swmr" ELSE werr
    /\ objs' = objs \cup {o.key}
    /\ flushed' = [flushed EXCEPT ![o.key] = o.v]
    /\ wi' = wi + 1 /\ UNCHANGED pend
    /\ UNCHANGED <<fexists, fopen, fswmr, launched, rstat>>

WWrite(o) ==
    /\ o.op = "write"
    /\ IF o.key \notin objs
         THEN /\ werr' = "write-missing" /\ wi' = CloseAt /\ UNCHANGED pend
         ELSE /\ pend' = [pend EXCEPT ![o.key] = o.v] /\ wi' = wi + 1 /\ UNCHANGED werr
    /\ UNCHANGED <<fexists, fopen, fswmr, objs, flushed, launched, rstat>>

WFlush(o) ==
    /\ o.op = "flush"
    /\ flushed' = [flushed EXCEPT ![o.key] = IF pend[o.key] # NoV THEN pend[o.key] ELSE @]
    /\ pend' = [pend EXCEPT ![o.key] = NoV]
    /\ wi' = wi + 1
    /\ UNCHANGED <<werr, fexists, fopen, fswmr, objs, launched, rstat>>

FlushAll ==
    /\ flushed' = [k \in AllKeys |-> IF pend[k] # NoV THEN pend[k] ELSE flushed[k]]
    /\ pend' = [k \in AllKeys |-> NoV]

WSwmr(o) ==
    /\ o.op = "swmr"
    /\ fswmr' = TRUE /\ FlushAll /\ wi' = wi + 1
    /\ UNCHANGED <<werr, fexists, fopen, objs, launched, rstat>>

WLaunch(o) ==
    /\ o.op = "launch"
    /\ launched' = TRUE /\ rstat' = "starting" /\ wi' = wi + 1
    /\ UNCHANGED <<werr, fexists, fopen, fswmr, objs, flushed, pend>>

WFileFlush(o) ==
    /\ o.op = "fflush"
    /\ FlushAll /\ wi' = wi + 1
    /\ UNCHANGED <<werr, fexists, fopen, fswmr, objs, launched, rstat>>

WClose(o) ==
    /\ o.op = "close"
    /\ fopen' = FALSE /\ fswmr' = FALSE /\ wi' = wi + 1
    /\ UNCHANGED <<werr, fexists, objs, flushed, pend, launched, rstat>>

WRemove(o) ==
    /\ o.op = "remove"
    /\ fexists' = FALSE /\ wi' = wi + 1
    /\ UNCHANGED <<werr, fopen, fswmr, objs, flushed, pend, launched, rstat>>

Writer ==
    /\ ~WDone
    /\ LET o == wops[wi] IN
         WCreate(o) \/ WWrite(o) \/ WFlush(o) \/ WSwmr(o) \/ WLaunch(o) \/ WFileFlush(o) \/ WClose(o) \/ WRemove(o)
    /\ UNCHANGED <<gui, svals, nsaves, wops>>
    /\ UNCHANGED rvars

-----------------------------------------------------------------------------
(* READER *)

\* what no reader action touches (a read may reveal that a pending write reached the file: see Saw)
RFrame == UNCHANGED <<gui, svals, nsaves, wops, wi, werr, fexists, fopen, fswmr, objs, pend, launched>>

Crash(why) == rstat' = "crashed" /\ rwhy' = why

ROpen ==
    /\ RFrame
    /\ rstat = "starting"
    /\ IF ~fexists THEN Crash("open-missing")                     \* the run ended before the monitor came up
       ELSE IF fopen /\ ~fswmr THEN Crash("open-not-swmr")        \* HDF5: file not open for SWMR writing
       ELSE rstat' = "running" /\ UNCHANGED rwhy
    /\ rpc' = "device"
    /\ UNCHANGED <<flushed, rprev, rlabel, rq, rf, rshown, lastDisplay>>

RDevice ==
    /\ RFrame
    /\ rstat = "running" /\ rpc = "device"
    /\ IF "device" \in objs THEN rpc' = "exists" /\ UNCHANGED <<rstat, rwhy>>
       ELSE Crash("missing-device") /\ UNCHANGED rpc
    /\ UNCHANGED <<flushed, rprev, rlabel, rq, rf, rshown, lastDisplay>>

RExists ==      \* while True: if os.path.exists(h5path): update() else: close the figure (-> sys.exit)
    /\ RFrame
    /\ rstat = "running" /\ rpc = "exists"
    /\ IF fexists THEN rpc' = (IF MLabelBeforeData THEN "step" ELSE "field") /\ UNCHANGED rstat
       ELSE \* plt.close(fig): a GUI backend fires close_event -> sys.exit(0); without a window nothing happens and
            \* the loop comes straight back here (a busy loop that never ends)
            IF gui THEN rstat' = "exited" /\ UNCHANGED rpc ELSE UNCHANGED <<rstat, rpc>>
    /\ rq' = 1 /\ rf' = 1
    /\ UNCHANGED <<flushed, rwhy, rprev, rlabel, rshown, lastDisplay>>

ReadLabel(i, next) ==
    /\ IF LabelKeys[i] \in objs
         THEN \E v \in Visible(LabelKeys[i]) :
                /\ rlabel' = [rlabel EXCEPT ![i] = v] /\ Saw(LabelKeys[i], v)
                /\ IF i = 1
                     THEN IF StepVal(v) = rprev
                            THEN rpc' = "exists" /\ UNCHANGED rprev    \* nothing new: sleep
                            ELSE rpc' = next /\ rprev' = StepVal(v)
                     ELSE rpc' = next /\ UNCHANGED rprev
                /\ UNCHANGED <<rstat, rwhy>>
         ELSE Crash("missing-label") /\ UNCHANGED <<flushed, rpc, rlabel, rprev>>

Complete ==
    lastDisplay' = [label |-> rlabel, shown |-> rshown']

RStep ==
    /\ RFrame
    /\ rstat = "running" /\ rpc = "step"
    /\ ReadLabel(1, "time")
    /\ UNCHANGED <<rq, rf, rshown, lastDisplay>>
RTime ==
    /\ RFrame
    /\ rstat = "running" /\ rpc = "time"
    /\ ReadLabel(2, "dt")
    /\ UNCHANGED <<rq, rf, rshown, lastDisplay>>
RDt ==
    /\ RFrame
    /\ rstat = "running" /\ rpc = "dt"
    /\ ReadLabel(3, IF MLabelBeforeData THEN "field" ELSE "exists")
    /\ IF MLabelBeforeData THEN UNCHANGED lastDisplay ELSE lastDisplay' = [label |-> rlabel', shown |-> rshown]
    /\ UNCHANGED <<rq, rf, rshown>>

RField ==       \* one field of TDGLData.from_hdf5(h5file, -1), for panel rq
    /\ RFrame
    /\ rstat = "running" /\ rpc = "field"
    /\ LET k == Fields[rf]
           lastField == rf = Len(Fields)
           lastPanel == rq = Quantities
       IN /\ IF k \in FixedKeys \/ k \notin DataSet
               THEN \* top-level dataset (`if key in h5file`) or a field this model does not track
                    UNCHANGED <<rshown, flushed>>
               ELSE IF k \in objs
                      THEN \E v \in Visible(k) : rshown' = [rshown EXCEPT ![rq][k] = v] /\ Saw(k, v)
                      ELSE rshown' = [rshown EXCEPT ![rq][k] = NoV] /\ UNCHANGED flushed   \* the field loads as None
          /\ rf' = IF lastField THEN 1 ELSE rf + 1
          /\ rq' = IF lastField /\ ~lastPanel THEN rq + 1 ELSE IF lastField THEN 1 ELSE rq
          /\ IF lastField /\ \E d \in DataSet : rshown'[rq][d] = NoV
               THEN \* get_plot_data falls through and returns None: the unpacking raises
                    Crash("missing-data") /\ UNCHANGED <<rpc, lastDisplay>>
               ELSE /\ UNCHANGED <<rstat, rwhy>>
                    /\ IF lastField /\ lastPanel
                         THEN IF MLabelBeforeData THEN rpc' = "exists" /\ Complete
                                                  ELSE rpc' = "step" /\ UNCHANGED lastDisplay
                         ELSE UNCHANGED <<rpc, lastDisplay>>
    /\ UNCHANGED <<rprev, rlabel>>

Reader == ROpen \/ RDevice \/ RExists \/ RStep \/ RTime \/ RDt \/ RField

Next == Writer \/ Reader
Spec == Init /\ [][Next]_vars /\ WF_vars(Writer) /\ WF_vars(Reader)

-----------------------------------------------------------------------------
(* PROPERTIES *)

TypeOK ==
    /\ gui \in BOOLEAN /\ nsaves \in SavesSet /\ wi \in 1..(Len(wops) + 1)
    /\ werr \in {"none", "create-in-swmr", "write-missing"}
    /\ fexists \in BOOLEAN /\ fopen \in BOOLEAN /\ fswmr \in BOOLEAN /\ launched \in BOOLEAN
    /\ objs \subseteq AllKeys
    /\ rstat \in {"none", "starting", "running", "exited", "crashed"}
    /\ rpc \in {"open", "device", "exists", "step", "time", "dt", "field"}
    /\ rq \in 1..Quantities /\ rf \in 1..Len(Fields)

\* the writer never trips over HDF5's SWMR rules (no object is created once SWMR mode is on)
WriterObeysSwmr == werr = "none"

\* the monitor can only fail in one way: it came up after the run had already finished and removed the channel
ReaderOnlyFailsLate == rstat = "crashed" => rwhy = "open-missing"

\* whenever the reader is running, the writer had switched SWMR mode on before it opened the file
ReaderSeesSwmr == rstat = "running" /\ fopen => fswmr

\* every dataset shown in a completed display is at least as new as the frame the title names
DisplayFresh ==
    lastDisplay # <<>> =>
        LET lv == lastDisplay.label[1] IN
        \A q \in 1..Quantities : \A k \in DataSet : lastDisplay.shown[q][k] >= lv

\* the title never goes back
LabelMonotone == [][rprev' >= rprev]_vars

\* versions a reader can see never decrease
FlushedMonotone == [][\A k \in AllKeys : flushed'[k] >= flushed[k]]_vars

\* when the writer is done the channel is gone
ChannelRemoved == WDone => ~fexists /\ ~fopen

\* NOT guaranteed by the design (documented non-properties; TLC exhibits the counterexamples):
\*   all panels of one display come from one frame, and the title names exactly the frame shown
PanelsSameFrame ==
    lastDisplay # <<>> => \A q1, q2 \in 1..Quantities : \A k \in DataSet : lastDisplay.shown[q1][k] = lastDisplay.shown[q2][k]
TitleNamesShownFrame ==
    lastDisplay # <<>> => \A q \in 1..Quantities : \A k \in DataSet : lastDisplay.shown[q][k] = lastDisplay.label[1]

\*   and the time and dt in the title belong to the step in the title (the writer stores step, time, dt one after the
\*   other, step first; a reader that looks in between shows step n with the time of an older frame)
TitleConsistent ==
    lastDisplay # <<>> => lastDisplay.label[2] >= lastDisplay.label[1] /\ lastDisplay.label[3] >= lastDisplay.label[1]

\* liveness: the monitor does not outlive the channel for ever
ReaderTerminates == gui => <>(WDone /\ rstat \in {"none", "exited", "crashed"})
\* NOT guaranteed (documented non-property): on a backend without a window the monitor process never ends
ReaderTerminatesHeadless == <>(WDone /\ rstat \in {"none", "exited", "crashed"})
-----------------------------------------------------------------------------
(* values for configuration files (cfg files cannot hold tuples) *)
MC_Data2 == <<"psi", "mu">>
MC_Fields3 == <<"epsilon", "psi", "mu">>
\* the real writer (static drive) and the real TDGLData field order
MC_DataReal == <<"psi", "mu", "supercurrent", "normal_current", "induced_vector_potential">>
MC_FieldsReal == <<"epsilon", "psi", "mu", "applied_vector_potential", "induced_vector_potential", "supercurrent", "normal_current">>
\* time-dependent disorder: epsilon travels with every frame
MC_DataDynEps == <<"psi", "mu", "supercurrent", "normal_current", "induced_vector_potential", "epsilon">>
=============================================================================
