---------------------------- MODULE FieldKernels ----------------------------
(***************************************************************************)
(* Fields and potentials from sheet currents (C20): exact Biot-Savart and  *)
(* Coulomb-kernel sums on lattice instances whose distances are            *)
(* Pythagorean, so that every value is a rational with a fixed small       *)
(* denominator, and the relations the property states.                     *)
(*                                                                         *)
(* An instance is one evaluation point and up to K current elements; an    *)
(* element is [d, a, j1, j2]: d = evaluation point - element position      *)
(* (integer vector of integer length), a = its area, j1, j2 = two sheet    *)
(* current densities (Jx, Jy) living on the same elements.  In units of    *)
(* mu0/(4 pi) (SI: metres, A/m):                                           *)
(*   Bx =  sum a Jy dz / r^3      By = - sum a Jx dz / r^3                 *)
(*   Bz =  sum a (Jx dy - Jy dx) / r^3          (tdgl/em.py:153-249)       *)
(*   A  =  sum a J / r             (solution.py:836-860, screening.py)     *)
(* Values are integers over the common denominators L3 = lcm(r^3),         *)
(* L1 = lcm(r).                                                            *)
(* Field-unit conversion (convert_field, em.py:14-69) is exponent algebra: *)
(* a field unit is [kind "H"|"B", e] = 10^e A/m or 10^e T, B = mu0 H.      *)
(***************************************************************************)
EXTENDS Integers, Sequences, FiniteSets, TLC

CONSTANTS MaxC,        \* displacement components in -MaxC..MaxC
          K,           \* at most K current elements
          JPairs,      \* pairs <<j1, j2>> of current densities <<Jx, Jy>> an element may carry (supercurrent, normal current)
          Areas,       \* element areas
          Coefs,       \* coefficients <<alpha, beta>> for the linear combination
          MSignZ,      \* TRUE: Bz = Jx dy - Jy dx      (FALSE: the '+' variant, a design canary)
          MMu0Side     \* TRUE: H -> B multiplies by mu0 (FALSE: divides, a design canary)

Roots == 1..(2 * MaxC)
Norm2(d) == d[1] * d[1] + d[2] * d[2] + d[3] * d[3]
IsPyth(d) == \E r \in Roots : r * r = Norm2(d)
RootDef(d) == CHOOSE r \in Roots : r * r = Norm2(d)
Comp == (-MaxC)..MaxC
Disp == {d \in Comp \X Comp \X Comp : IsPyth(d)}
RootTab == [d \in Disp |-> RootDef(d)]
Root(d) == RootTab[d]

RECURSIVE Gcd(_, _)
Gcd(a, b) == IF b = 0 THEN a ELSE Gcd(b, a % b)
Lcm(a, b) == (a * b) \div Gcd(a, b)
RECURSIVE LcmUpTo(_, _)
LcmUpTo(n, p) == IF n = 0 THEN 1 ELSE Lcm(LcmUpTo(n - 1, p), IF p = 3 THEN n * n * n ELSE n)
\* common denominators for lengths 1..6 (MaxC <= 4 keeps every r <= 6): 216000 and 60
ASSUME MaxC <= 4
RMax == 6
L3 == LcmUpTo(RMax, 3)
L1 == LcmUpTo(RMax, 1)
Cube(r) == r * r * r

RECURSIVE SumSeq(_)
SumSeq(s) == IF Len(s) = 0 THEN 0 ELSE Head(s) + SumSeq(Tail(s))
Over(el, F(_)) == SumSeq([n \in 1..Len(el) |-> F(el[n])])

\* numerators over L3 (fields) and L1 (potential); J(e) selects the current density of an element
W3(e) == e.a * (L3 \div Cube(Root(e.d)))
W1(e) == e.a * (L1 \div Root(e.d))
BxNum(el, J(_)) == LET F(e) == W3(e) * J(e)[2] * e.d[3] IN Over(el, F)
ByNum(el, J(_)) == LET F(e) == -(W3(e) * J(e)[1] * e.d[3]) IN Over(el, F)
BzNum(el, J(_)) ==
  LET F(e) == IF MSignZ THEN W3(e) * (J(e)[1] * e.d[2] - J(e)[2] * e.d[1])
                        ELSE W3(e) * (J(e)[1] * e.d[2] + J(e)[2] * e.d[1]) IN Over(el, F)
BvecNum(el, J(_)) == <<BxNum(el, J), ByNum(el, J), BzNum(el, J)>>
ANum(el, J(_)) == LET Fx(e) == W1(e) * J(e)[1]
                      Fy(e) == W1(e) * J(e)[2] IN <<Over(el, Fx), Over(el, Fy)>>

J1(e) == e.j1
J2(e) == e.j2
JC(c, e) == <<c[1] * e.j1[1] + c[2] * e.j2[1], c[1] * e.j1[2] + c[2] * e.j2[2]>>

\* the closed forms the binding is anchored on (measured on the real kernels): a unit source Jx = 1, area 1 at the
\* origin, seen from (0,3,4) and (3,0,4)
Unit(d) == <<[d |-> d, a |-> 1, j1 |-> <<1, 0>>, j2 |-> <<0, 1>>]>>
AnchorValuesDef ==
  /\ BzNum(Unit(<<0, 3, 4>>), J1) * 125 = 3 * L3 /\ BzNum(Unit(<<3, 0, 4>>), J1) = 0
  /\ BvecNum(Unit(<<0, 3, 4>>), J1) = <<0, -(4 * L3) \div 125, (3 * L3) \div 125>>
  /\ BvecNum(Unit(<<3, 0, 4>>), J1) = <<0, -(4 * L3) \div 125, 0>>
  /\ BzNum(Unit(<<3, 0, 4>>), J2) * 125 = -(3 * L3)          \* a unit Jy: Bz = -Jy dx / r^3
  /\ ANum(Unit(<<0, 3, 4>>), J1) = <<L1 \div 5, 0>>

AnchorTab == [x \in {0} |-> AnchorValuesDef]       \* constant: evaluated once
AnchorValues == AnchorTab[0]

(* ------------------------------------------------------------------ field units *)
FieldUnits == [kind : {"H", "B"}, e : {-9, -6, -4, -3, 0, 3, 6}]
\* converting the NUMBER x given in unit u into unit v multiplies it by 10^ten * mu0^mu
Conv(u, v) == [ten |-> u.e - v.e,
               mu  |-> IF u.kind = v.kind THEN 0
                       ELSE IF (u.kind = "H") = MMu0Side THEN 1 ELSE -1]
Then(c1, c2) == [ten |-> c1.ten + c2.ten, mu |-> c1.mu + c2.mu]
Ident == [ten |-> 0, mu |-> 0]
\* physical meaning: a number x in unit u is x * 10^e * (mu0^-1 if kind = "B") A/m
Phys(u) == [ten |-> u.e, mu |-> IF u.kind = "B" THEN -1 ELSE 0]

(* ------------------------------------------------------------------ the current loop *)
(* "The closed-form vector potential of a current loop matches numerical quadrature for all loop radii / positions".       *)
(* A(r) = mu0 I / 4 pi * G(r),  G = \oint dl' / |r - r'|.  An observation is a sequence of points, each component of the  *)
(* closed form (a) and of the quadrature (b) quantised to 1e-9 of the point's scale (harness/fields.py: loop_scale: the    *)
(* size of the quadrature value, floored by the potential 1e-8 of the coordinates' magnitude off the axis), and the       *)
(* number of components the closed form returned as NaN or inf.  The environment chooses the regime of the points:        *)
(*   on_axis    rho = 0 (the loop centre included): the potential vanishes by symmetry                                     *)
(*   near_axis  rho / R = 10^rexp, rexp in -12..-3  (m = 4 R rho / ((R + rho)^2 + z^2) -> 0)                                *)
(*   far_field  |r - c| / R = 10^rexp >= 200        (m -> 0 as well)                                                       *)
(*   generic    rho / R in 0.05..12, at least 0.2 R from the wire                                                          *)
LoopRegimes == {"on_axis", "near_axis", "far_field", "generic"}
LoopRexp(regime) == CASE regime = "near_axis" -> (-12)..(-3)
                      [] regime = "far_field" -> 2..7
                      [] OTHER -> {0}
AbsI(x) == IF x < 0 THEN -x ELSE x
\* NaN / inf is not a value of the potential: no tolerance accepts it
LoopFinite(nonfinite) == nonfinite = 0
LoopWithin(a, b, tol) == Len(a) = Len(b) /\ Len(a) > 0 /\ \A j \in 1..Len(a) : AbsI(a[j] - b[j]) <= tol
\* the oracle's own statement on the axis: the quadrature is exactly zero there (every component)
LoopAxisVanishes(regime, b) == regime = "on_axis" => \A j \in 1..Len(b) : b[j] = 0
LoopMatchesQuadrature(regime, a, b, nonfinite, tol) ==
  /\ LoopFinite(nonfinite) /\ LoopAxisVanishes(regime, b) /\ LoopWithin(a, b, tol)

VARIABLES mode, el, co, fu, fv, fw
vars == <<mode, el, co, fu, fv, fw>>

Elem == {[d |-> d, a |-> a, j1 |-> p[1], j2 |-> p[2]] : d \in Disp, a \in Areas, p \in JPairs}
\* bounds used by the check (cfg files cannot hold tuples)
QuickJPairs == {<<<<1, 0>>, <<0, 1>>>>, <<<<2, -1>>, <<1, 1>>>>}
ThoroughJPairs == QuickJPairs \cup {<<<<0, 1>>, <<-1, 2>>>>, <<<<-2, 0>>, <<1, -1>>>>}
QuickCoef1 == {<<2, -3>>}
QuickCoefs == {<<1, 1>>, <<2, -3>>}
ThoroughCoefs == QuickCoefs \cup {<<-1, 0>>, <<0, 5>>}
UH == [kind |-> "H", e |-> 0]
Init == mode = "start" /\ el = <<>> /\ co = <<1, 1>> /\ fu = UH /\ fv = UH /\ fw = UH

\* instances grow one element at a time (all elements lie in one plane: same dz)
AddElement ==
  /\ mode \in {"start", "inst"} /\ Len(el) < K
  /\ \E e \in Elem : /\ Len(el) > 0 => e.d[3] = el[1].d[3]
                     /\ el' = Append(el, e)
  /\ (IF Len(el) = 0 THEN co' \in Coefs ELSE co' = co)
  /\ mode' = "inst" /\ UNCHANGED <<fu, fv, fw>>
PickUnits ==
  /\ mode = "start" /\ mode' = "units"
  /\ fu' \in FieldUnits /\ fv' \in FieldUnits /\ fw' \in FieldUnits /\ UNCHANGED <<el, co>>
Next == AddElement \/ PickUnits
Spec == Init /\ [][Next]_vars

(* ------------------------------------------------------------------ properties (relations of C20) *)
JCo(e) == JC(co, e)
\* the field and the potential are linear in the currents
Linear ==
  LET b1 == BvecNum(el, J1)   b2 == BvecNum(el, J2)   bc == BvecNum(el, JCo)
      a1 == ANum(el, J1)      a2 == ANum(el, J2)      ac == ANum(el, JCo) IN
  /\ BzNum(el, JCo) = co[1] * BzNum(el, J1) + co[2] * BzNum(el, J2)
  /\ \A c \in 1..3 : bc[c] = co[1] * b1[c] + co[2] * b2[c]
  /\ \A c \in 1..2 : ac[c] = co[1] * a1[c] + co[2] * a2[c]
\* the scalar (z only) form is the z component of the vector form
ScalarEqualsVectorZ == BvecNum(el, J1)[3] = BzNum(el, J1) /\ BvecNum(el, J2)[3] = BzNum(el, J2)
\* the total (return_sum) is the sum of the parts: supercurrent j1 + normal current j2 live on the same elements
TotalIsSumOfParts ==
  LET JT(e) == <<e.j1[1] + e.j2[1], e.j1[2] + e.j2[2]>>
      b1 == BvecNum(el, J1)   b2 == BvecNum(el, J2)   bt == BvecNum(el, JT)
      a1 == ANum(el, J1)      a2 == ANum(el, J2)      at == ANum(el, JT) IN
  /\ \A c \in 1..3 : bt[c] = b1[c] + b2[c]
  /\ \A c \in 1..2 : at[c] = a1[c] + a2[c]
\* a sheet in the plane z = 0 seen from the mirrored point: Bz equal, Bx and By reversed
MirrorSymmetry ==
  LET M(e) == [e EXCEPT !.d[3] = -e.d[3]]
      mel == [n \in 1..Len(el) |-> M(el[n])] IN
  /\ BzNum(mel, J1) = BzNum(el, J1) /\ BxNum(mel, J1) = -BxNum(el, J1) /\ ByNum(mel, J1) = -ByNum(el, J1)
\* H <-> B
HBRoundTrip == mode = "units" => Then(Conv(fu, fv), Conv(fv, fu)) = Ident
HBTransitive == mode = "units" => Then(Conv(fu, fv), Conv(fv, fw)) = Conv(fu, fw)
\* a conversion preserves the physical value: number * Phys(unit) is unchanged
HBPreservesValue == mode = "units" => LET c == Conv(fu, fv) IN
                       c.ten + Phys(fv).ten = Phys(fu).ten /\ c.mu + Phys(fv).mu = Phys(fu).mu

\* instances for the binding (a deterministic sample)
RECURSIVE Mix(_)
Mix(s) == IF Len(s) = 0 THEN 7 ELSE (31 * Mix(Tail(s)) + 5 * Head(s).d[1] + 3 * Head(s).d[2] + Head(s).d[3] + Head(s).a + Head(s).j1[1]) % 1009
EmitInst == (mode = "inst" /\ Mix(el) % 29 = 0) => PrintT(<<"INST", el, co>>)
=============================================================================
