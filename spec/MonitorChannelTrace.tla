------------------------- MODULE MonitorChannelTrace -------------------------
(***************************************************************************)
(* Validation of what the REAL solver process and the REAL monitor process  *)
(* did on one real HDF5 file in SWMR mode, operation by operation, in the    *)
(* global order in which a controller released them (harness/monitor.py),    *)
(* against MonitorChannel.                                                   *)
(*                                                                         *)
(* A trace is [saves, fixed, mon, svals, gui, ev]; events                   *)
(*  [p |-> "W", op, key]            one writer operation on the channel      *)
(*  [p |-> "W", op |-> "done", ok]  tdgl.solve ended as set up (1) or not (0) *)
(*  [p |-> "R", op |-> "open", ok]  h5py.File(..., swmr=True) succeeded?     *)
(*  [p |-> "R", op |-> "device", ok]                                         *)
(*  [p |-> "R", op |-> "exists", ok]   os.path.exists(channel)               *)
(*  [p |-> "R", op |-> "read", key, top, vs, val, missing]                   *)
(*        vs = the versions whose written content equals what was read       *)
(*        (content hashes; equal contents give several candidates),          *)
(*        val = the integer read for "step", top = 1 for a top-level dataset *)
(*  [p |-> "R", op |-> "done", how]    "exit" (sys.exit) or "raised"         *)
(***************************************************************************)
EXTENDS MonitorChannel, Json, IOUtils, TLCExt

Batch == JsonDeserialize(IOEnv.TRACE_FILE)

VARIABLES tid, l
tvars == <<vars, tid, l>>

T == Batch[tid]
Ev == T.ev[l]
InSeq(x, s) == \E i \in DOMAIN s : s[i] = x

TInit == /\ tid \in 1..Len(Batch) /\ l = 1
         /\ InitWith(T.saves, T.fixed, T.mon = 1, T.svals, T.gui = 1)

TWriter ==
    /\ Ev.p = "W" /\ Ev.op # "done"
    /\ ~WDone /\ wops[wi].op = Ev.op /\ wops[wi].key = Ev.key
    /\ Writer

TWriterDone ==
    /\ Ev.p = "W" /\ Ev.op = "done"
    /\ WDone /\ Ev.ok = 1          \* tdgl.solve ended the way the run was set up to end (returned, or raised the injected error)
    /\ UNCHANGED vars

TOpen ==
    /\ Ev.p = "R" /\ Ev.op = "open"
    /\ ROpen /\ (Ev.ok = 1 <=> rstat' = "running")

TDevice ==
    /\ Ev.p = "R" /\ Ev.op = "device"
    /\ RDevice /\ (Ev.ok = 1 <=> rstat' = "running")

TExists ==
    /\ Ev.p = "R" /\ Ev.op = "exists"
    /\ RExists /\ (Ev.ok = 1 <=> fexists)

TReadLabel ==
    /\ Ev.p = "R" /\ Ev.op = "read" /\ Ev.top = 0 /\ Ev.key \in Range(LabelKeys)
    /\ \/ Ev.key = "step" /\ RStep /\ (Ev.missing = 0 => InSeq(rlabel'[1], Ev.vs) /\ Ev.val = StepVal(rlabel'[1]))
       \/ Ev.key = "time" /\ RTime /\ (Ev.missing = 0 => InSeq(rlabel'[2], Ev.vs))
       \/ Ev.key = "dt" /\ RDt /\ (Ev.missing = 0 => InSeq(rlabel'[3], Ev.vs))
    /\ (Ev.missing = 1 <=> rstat' = "crashed")

TReadField ==
    /\ Ev.p = "R" /\ Ev.op = "read" /\ rpc = "field"
    /\ Ev.key = Fields[rf]
    /\ (Ev.top = 1 <=> Ev.key \in FixedKeys)
    /\ RField
    /\ (Ev.top = 0 /\ Ev.key \in DataSet /\ Ev.missing = 0) => InSeq(rshown'[rq][Ev.key], Ev.vs)
    /\ (Ev.top = 0 /\ Ev.key \in DataSet) => (Ev.missing = 1 <=> rshown'[rq][Ev.key] = NoV)

TReaderDone ==
    /\ Ev.p = "R" /\ Ev.op = "done"
    /\ rstat \in {"exited", "crashed"} /\ (Ev.how = "exit" <=> rstat = "exited")
    /\ UNCHANGED vars

TNext ==
    /\ l <= Len(T.ev)
    /\ (TWriter \/ TWriterDone \/ TOpen \/ TDevice \/ TExists \/ TReadLabel \/ TReadField \/ TReaderDone)
    /\ l' = l + 1 /\ UNCHANGED tid

TSpec == TInit /\ [][TNext]_tvars

Accepted == (l = Len(T.ev) + 1) => PrintT(<<"ACCEPT", tid>>)
Progress == PrintT(<<"AT", tid, l>>)
=============================================================================
