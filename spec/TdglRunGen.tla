----------------------------- MODULE TdglRunGen -----------------------------
(* Behaviour export: every terminal state of TdglRun is printed as the script of   *)
(* environment choices that leads to it (replayed against the real code).          *)
EXTENDS TdglRun, Json
Emit == (pc \in {"returned", "rejected"}) =>
          PrintT(ToJson([cfg |-> cfg, tdts |-> tdts, simdts |-> simdts, flog |-> flog]))
=============================================================================
