-------------------------------- MODULE Units --------------------------------
(***************************************************************************)
(* Unit handling of py-tdgl as exponent algebra (C08; the H <-> B part is  *)
(* used by C20).                                                           *)
(*                                                                         *)
(* A unit system is three powers of ten relative to SI: length (um, nm,    *)
(* mm), field (mT, uT, T), current (uA, nA, mA).  One PHYSICAL problem is  *)
(* fixed: coherence length XI, London depth LAM, thickness D (metres),     *)
(* height Z0 of the film plane above z = 0 (metres; Layer.z0, 0 by default *)
(* and therefore a dimension of its own: a conversion lost on z0 alone is  *)
(* invisible on every flat device),                                        *)
(* applied field B (tesla), terminal current I (ampere), and a             *)
(* dimensionless mesh (coordinates S, terminal length L, cell area AR in   *)
(* units of xi).  In unit system u the user types the NUMBERS              *)
(*     xiN = XI / 10^l, BN = B / 10^f, IN = I / 10^c, ...                  *)
(* Every quantity the solver builds from them is a MONOMIAL                *)
(*     10^a * XI^b * LAM^c * ... * Phi0^p * mu0^q * pi^r * 2^s             *)
(* and is represented by its exponent vector.  The operators below         *)
(* transcribe tdgl/device/device.py (Bc2, A0, Lambda, K0),                 *)
(* tdgl/solver/solver.py (A_scale, J_scale, screening weights),            *)
(* tdgl/sources/constant.py (ConstantField) and                            *)
(* tdgl/solution/solution.py (output scale K0) — a pint quantity is        *)
(* number * 10^unit, `.magnitude` is the bare number.                      *)
(*                                                                         *)
(* DimensionlessInputsInvariant: the dimensionless numbers the solver      *)
(* integrates, and the physical outputs, are the same monomial in every    *)
(* unit system (all 27 x 27 pairs), and it is the documented one.          *)
(* FluxPerTriangle: on integer triangles, with the symmetric gauge         *)
(* evaluated at edge centres, the oriented sum of link exponents is        *)
(* B * area exactly.                                                       *)
(***************************************************************************)
EXTENDS Integers, Sequences, FiniteSets, TLC

CONSTANTS
  MAScaleXi,      \* A_scale divides by the coherence-length NUMBER                     (solver.py:175-185)
  MAreasXi2,      \* screening weights multiply the dimensionless areas by xi^2         (solver.py:306-309)
  MAreasPerLen,   \* ... and the prefactor is converted to 1/length_units
  MJFactor,       \* exponent of two in J_scale: 2 (a factor 4)                         (solver.py:251-256)
  MK0OutUnits,    \* the output scale K0 is converted to current_units / length_units   (solution.py:184-196)
  MSheetZMeter,   \* the height z0 of the current sheet is converted to metres like x, y     (em.py biot_savart_2d)
  TriN            \* integer triangles with coordinates in 0..TriN

Lens == {-9, -6, -3}      \* nm, um, mm
Flds == {-6, -3, 0}       \* uT, mT, T
Curs == {-9, -6, -3}      \* nA, uA, mA
UnitSystems == [l : Lens, f : Flds, c : Curs]

Basis == {"ten", "XI", "LAM", "D", "SIG", "B", "I", "S", "L", "AR", "Phi0", "mu0", "pi", "two", "Z0"}
One == [k \in Basis |-> 0]
Gen(k, n) == [One EXCEPT ![k] = n]
Mul(a, b) == [k \in Basis |-> a[k] + b[k]]
Pow(a, n) == [k \in Basis |-> n * a[k]]
Inv(a) == Pow(a, -1)
Div(a, b) == Mul(a, Inv(b))
Ten(n) == Gen("ten", n)
RECURSIVE Prod(_)
Prod(s) == IF Len(s) = 0 THEN One ELSE Mul(Head(s), Prod(Tail(s)))

(* ------------------------------------------------------------------ what the user types in unit system u *)
xiN(u)  == Mul(Gen("XI", 1), Ten(-u.l))
lamN(u) == Mul(Gen("LAM", 1), Ten(-u.l))
dN(u)   == Mul(Gen("D", 1), Ten(-u.l))
sigN(u) == Mul(Gen("SIG", 1), Ten(u.l))                \* conductivity typed in siemens / length_units (SIG is in S/m)
BN(u)   == Mul(Gen("B", 1), Ten(-u.f))
z0N(u)  == Mul(Gen("Z0", 1), Ten(-u.l))                \* Layer.z0 / Device.translate(dz=...): the height of the film, typed in length_units
curN(u)   == Mul(Gen("I", 1), Ten(-u.c))

(* ------------------------------------------------------------------ device.py *)
xiQ(u)  == Mul(xiN(u), Ten(u.l))                       \* coherence_length = number * ureg(length_units)
lamQ(u) == Mul(lamN(u), Ten(u.l))
dQ(u)   == Mul(dN(u), Ten(u.l))
LambdaQ(u) == Div(Pow(lamQ(u), 2), dQ(u))              \* Lambda = lambda^2 / d
sigQ(u) == Mul(sigN(u), Ten(-u.l))                     \* conductivity = number * siemens / length_units
Bc2(u) == Prod(<<Gen("Phi0", 1), Gen("two", -1), Gen("pi", -1), Pow(xiQ(u), -2)>>)      \* Phi_0 / (2 pi xi^2)
A0(u)  == Mul(Bc2(u), xiQ(u))                                                          \* xi Bc2
K0(u)  == Prod(<<Gen("two", 2), xiQ(u), Bc2(u), Gen("mu0", -1), Inv(LambdaQ(u))>>)     \* 4 xi Bc2 / (mu0 Lambda)

(* ------------------------------------------------------------------ solver.py *)
\* A_scale = (field_units * length_units / (Bc2 * xi * length_units)).to_base_units().magnitude,  xi = the NUMBER
AScale(u) == Div(Mul(Ten(u.f), Ten(u.l)),
                 Prod(<<Bc2(u), IF MAScaleXi THEN xiN(u) ELSE One, Ten(u.l)>>))
\* positions handed to the applied potential: xi (number) * dimensionless mesh coordinate, in length_units
PosN(u) == Mul(xiN(u), Gen("S", 1))
\* ConstantField: symmetric gauge B r / 2 evaluated in SI, returned as a number in field_units * length_units
ANum(u) == Div(Prod(<<Mul(BN(u), Ten(u.f)), Mul(PosN(u), Ten(u.l)), Gen("two", -1)>>), Mul(Ten(u.f), Ten(u.l)))
DimA(u) == Mul(AScale(u), ANum(u))                     \* the dimensionless vector potential on an edge
\* oriented sum round a triangle of A_dimless . e_dimless:  A_scale * (BN * area number) / xi number
DimFlux(u) == Div(Prod(<<AScale(u), BN(u), Pow(xiN(u), 2), Gen("AR", 1)>>), xiN(u))

\* J_scale = 4 * ((current_units / length_units) / K0).to_base_units()
JScale(u) == Prod(<<Gen("two", MJFactor), Ten(u.c), Ten(-u.l), Inv(K0(u))>>)
CurScaled(u) == Mul(JScale(u), curN(u))                  \* what solver.current_func(t) returns
LenN(u) == Mul(xiN(u), Gen("L", 1))                    \* terminal length, a number in length_units
DimJ(u) == Div(CurScaled(u), LenN(u))                  \* the boundary condition of update_mu_boundary

\* A_scale = (mu_0 / (4 pi) * K0 / A0).to(1 / length_units);  areas = A_scale.magnitude * mesh.areas * xi**2
ScreenPref(u) == Prod(<<Gen("mu0", 1), Gen("two", -2), Gen("pi", -1), K0(u), Inv(A0(u)),
                        IF MAreasPerLen THEN Ten(u.l) ELSE One>>)
ScreenW(u) == Prod(<<ScreenPref(u), Gen("AR", 1), IF MAreasXi2 THEN Pow(xiN(u), 2) ELSE One>>)
DistN(u) == Mul(xiN(u), Gen("S", 1))                   \* distances between sites / edge centres: numbers in length_units
DimScreen(u) == Div(ScreenW(u), DistN(u))              \* one term of the induced potential per unit current density

(* ------------------------------------------------------------------ solution.py *)
\* K0 = device.K0.to(current_units / length_units): a number; as a physical quantity again: * 10^(c - l)
K0OutN(u) == IF MK0OutUnits THEN Mul(K0(u), Ten(u.l - u.c)) ELSE Mul(K0(u), Ten(-6 - u.c))
PhysOut(u) == Mul(K0OutN(u), Ten(u.c - u.l))           \* Solution.current_density converted to A / m, per unit dimensionless current

(* ------------------------------------------------------------------ em.py, biot_savart_2d (called by Solution.field_at_position) *)
\* "a sheet of current located at vertical position z0 (in units of length_units) ... positions (in units of length_units)":
\* everything is converted to metres before the kernel runs:  x, y (sites = xi number * S), the areas, and the height z0
SheetXY(u)   == Mul(PosN(u), Ten(u.l))
SheetArea(u) == Prod(<<Gen("AR", 1), Pow(xiN(u), 2), Ten(2 * u.l)>>)
SheetZ(u)    == Mul(z0N(u), IF MSheetZMeter THEN Ten(u.l) ELSE One)
\* solver.py: the z handed to the applied vector potential with the edge centres is the NUMBER layer.z0 (in length_units, like x and y)
SolverZ(u)   == z0N(u)
AppliedZ(u)  == Mul(SolverZ(u), Ten(u.l))              \* ... i.e. this physical height

(* ------------------------------------------------------------------ the documented quantities (docs/background.rst) *)
Bc2Phys == Prod(<<Gen("Phi0", 1), Gen("two", -1), Gen("pi", -1), Gen("XI", -2)>>)
K0Phys  == Prod(<<Gen("two", 2), Gen("XI", 1), Bc2Phys, Gen("mu0", -1), Gen("LAM", -2), Gen("D", 1)>>)
A0Phys  == Mul(Bc2Phys, Gen("XI", 1))
Ref == [ DimA      |-> Prod(<<Gen("B", 1), Gen("S", 1), Gen("XI", 1), Gen("two", -1), Inv(A0Phys)>>),     \* A / A0, A = B r / 2
         DimFlux   |-> Prod(<<Gen("two", 1), Gen("pi", 1), Gen("B", 1), Gen("AR", 1), Gen("XI", 2), Gen("Phi0", -1)>>),  \* 2 pi flux / Phi0
         DimJ      |-> Prod(<<Gen("two", 2), Gen("I", 1), Inv(K0Phys), Gen("XI", -1), Gen("L", -1)>>),    \* 4 I / (K0 * length)
         DimScreen |-> Prod(<<Gen("mu0", 1), Gen("two", -2), Gen("pi", -1), K0Phys, Inv(A0Phys), Gen("XI", 1), Gen("AR", 1), Gen("S", -1)>>),
         PhysOut   |-> K0Phys,
         SheetXY   |-> Mul(Gen("XI", 1), Gen("S", 1)),                                            \* metres
         SheetArea |-> Mul(Gen("XI", 2), Gen("AR", 1)),
         SheetZ    |-> Gen("Z0", 1),                                                              \* the film lies in the plane z = Z0 (metres)
         AppliedZ  |-> Gen("Z0", 1) ]
Dimless(u) == [DimA |-> DimA(u), DimFlux |-> DimFlux(u), DimJ |-> DimJ(u), DimScreen |-> DimScreen(u), PhysOut |-> PhysOut(u),
               SheetXY |-> SheetXY(u), SheetArea |-> SheetArea(u), SheetZ |-> SheetZ(u), AppliedZ |-> AppliedZ(u)]
\* the observable scales of one solver (what the binding measures), by name
\* tau0 = mu0 sigma lambda^2,  V0 = xi (K0 / d) / sigma                                   (device.py:170-200)
Tau0(u) == Prod(<<Gen("mu0", 1), sigQ(u), Pow(lamQ(u), 2)>>)
V0(u)   == Prod(<<xiQ(u), K0(u), Inv(dQ(u)), Inv(sigQ(u))>>)
Scales(u) == [xi |-> xiQ(u), lambda |-> lamQ(u), Lambda |-> LambdaQ(u), A0 |-> A0(u), tau0 |-> Tau0(u), V0 |-> V0(u),
              AScale |-> AScale(u), CurScaled |-> CurScaled(u), ScreenW |-> ScreenW(u), K0 |-> K0(u), K0OutN |-> K0OutN(u),
              Bc2 |-> Bc2(u), DimFlux |-> DimFlux(u), DimJ |-> DimJ(u), SheetZ |-> SheetZ(u), SolverZ |-> SolverZ(u)]
ScaleNames == {"xi", "lambda", "Lambda", "A0", "tau0", "V0", "AScale", "CurScaled", "ScreenW", "K0", "K0OutN", "Bc2", "DimFlux", "DimJ",
               "SheetZ", "SolverZ"}

(* ------------------------------------------------------------------ integer triangles, symmetric gauge at edge centres *)
Pts == (0..TriN) \X (0..TriN)
Area2(t) == (t[2][1] - t[1][1]) * (t[3][2] - t[1][2]) - (t[3][1] - t[1][1]) * (t[2][2] - t[1][2])      \* twice the signed area
\* 4/B times the link exponent of the edge p -> q:  A(centre) . (q - p),  A = B/2 (-y, x),  centre = (p + q)/2,
\* with the gauge origin at o2/2 (the code centres the coordinates on the bounding box of the evaluation points)
E4(p, q, o2) == (p[1] + q[1] - o2[1]) * (q[2] - p[2]) - (p[2] + q[2] - o2[2]) * (q[1] - p[1])
TriE4(t, o2) == <<E4(t[1], t[2], o2), E4(t[2], t[3], o2), E4(t[3], t[1], o2)>>

VARIABLES mode, u1, u2, tri, org
vars == <<mode, u1, u2, tri, org>>

U0 == [l |-> -6, f |-> -3, c |-> -6]
T0 == <<<<0, 0>>, <<1, 0>>, <<0, 1>>>>
Init == mode = "start" /\ u1 = U0 /\ u2 = U0 /\ tri = T0 /\ org = <<0, 0>>
PickUnits == /\ mode = "start" /\ mode' = "units"
             /\ u1' \in UnitSystems /\ u2' \in UnitSystems /\ UNCHANGED <<tri, org>>
PickTriangle == /\ mode = "start" /\ mode' = "tri"
                /\ \E a, b, c \in Pts : tri' = <<a, b, c>> /\ Area2(<<a, b, c>>) # 0
                /\ org' \in {0, TriN, 2 * TriN - 1} \X {0, 1, 2 * TriN}
                /\ UNCHANGED <<u1, u2>>
Next == PickUnits \/ PickTriangle
Spec == Init /\ [][Next]_vars

(* ------------------------------------------------------------------ properties *)
Quantities == {"DimA", "DimFlux", "DimJ", "DimScreen", "PhysOut", "SheetXY", "SheetArea", "SheetZ", "AppliedZ"}
\* the same physical problem gives the same dimensionless numbers (and physical outputs) in every unit system ...
DimensionlessInputsInvariant == mode # "tri" => \A q \in Quantities : Dimless(u1)[q] = Dimless(u2)[q]
\* ... namely the documented ones
MatchesReference == mode # "tri" => \A q \in Quantities : Dimless(u1)[q] = Ref[q]
\* gauge phase round a triangle = B * area, whatever the gauge origin
FluxPerTriangle == LET e == TriE4(tri, org) IN e[1] + e[2] + e[3] = 2 * Area2(tri)
\* dimensionless statement of the same: 2 pi flux / Phi0
FluxIsTwoPiFluxQuanta == mode # "tri" => DimFlux(u1) = Ref.DimFlux

\* expected values for the binding
EmitUnits == (mode = "units" /\ u1 = u2) => PrintT(<<"UNITS", u1.l, u1.f, u1.c, Scales(u1)>>)
\* a sample of the exact triangle instances, replayed into the real symmetric-gauge code
EmitTri == (mode = "tri" /\ (7 * tri[1][1] + 5 * tri[2][2] + 3 * tri[3][1] + tri[3][2] + org[1]) % 23 = 0)
             => PrintT(<<"TRI", tri, org, TriE4(tri, org)>>)
=============================================================================
