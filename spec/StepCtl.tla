------------------------------ MODULE StepCtl ------------------------------
(***************************************************************************)
(* One call of TDGLSolver.update (tdgl/solver/solver.py) as a state        *)
(* machine, and the sequence of such calls that a run makes:               *)
(*                                                                         *)
(*   Begin     update() entered                                            *)
(*   Test      top of the screening loop: `screening_error < tolerance`    *)
(*             -> finish; `screening_iteration > max_iterations_per_step`  *)
(*             -> RuntimeError; iteration 0 takes dt = tentative_dt, later *)
(*             iterations keep dt                                          *)
(*   Links     operators.set_link_exponents(A_applied + A_induced)         *)
(*             (screening only, every iteration)                           *)
(*   Refuse    one call of solve_for_psi_squared that returns None:        *)
(*             non-adaptive or retries > max_solve_retries -> RuntimeError,*)
(*             otherwise dt <- dt * multiplier and one more attempt        *)
(*   Answer    one call of solve_for_psi_squared that returns a state;     *)
(*             delta = max |d|psi|^2| of that state                        *)
(*   Induced   get_induced_vector_potential: kernel evaluation + Polyak    *)
(*             step + relative error                                       *)
(*   Finish    d_psi_sq_vals.append(delta), window rule for the next       *)
(*             tentative step, update() returns dt                         *)
(*                                                                         *)
(*   StageRestart  end of thermalisation (skip_time > 0): the step index    *)
(*             restarts at 0, everything the solver object holds persists  *)
(*                                                                         *)
(* "Windowed mean" across the restart.  docs/background.rst defines the    *)
(* rule for iteration n > N_window of a stage as the mean over             *)
(* D_{n}, ..., D_{n-N+1}: since n >= N+1 these are all steps of the        *)
(* CURRENT stage.  The code averages the last N entries of the persistent  *)
(* list d_psi_sq_vals; n+1 >= N+2 entries have been appended since the     *)
(* restart when it does, so it averages the same numbers: thermalisation   *)
(* entries can never enter a window of the recorded stage, and what        *)
(* thermalisation leaves behind is only tentative_dt, which stays put      *)
(* during the second warm-up.  The property (TentativeFollowsWindowRule)   *)
(* is written on the ghost list `dstep` of the current stage only, the     *)
(* mechanism on the persistent list `dpsi`; TLC checks that they agree.    *)
(* (Consequence: clearing d_psi_sq_vals at the restart is unobservable.)   *)
(*                                                                         *)
(* Environment (explicit nondeterminism): which attempts are refused, the  *)
(* delta of every answer, the kernel output of every screening iteration.  *)
(*                                                                         *)
(* Arithmetic (DESIGN.md 3.2): every quantity is a dyadic fixed-point      *)
(* integer.  Times are counted in units of 2^-FT, deltas in units of       *)
(* 2^-FD, vector potentials in units of 2^-FA (any fixed scale).  dt_init, *)
(* dt_max, the multiplier, alpha, the tolerance are powers of two, beta is *)
(* a multiple of 1/4.  The environment is restricted (WindowOk) so that    *)
(* every window sum that the rule divides by is 0 or a power of two; every *)
(* division in the module is exact and asserted to be so (ExactDiv), so    *)
(* the integers ARE the reals they stand for: no rounding in the model.    *)
(* General rationals are not used: normalised <<num,den>> pairs overflowed *)
(* TLC's 32-bit integers after four steps.                                 *)
(*                                                                         *)
(* Every action is the conjunction of a control part (XCtl: pc, counters,  *)
(* convergence flag) and a numeric part (XNum: step sizes, potentials).    *)
(* StepCtlTrace validates scripted executions of the real code against the *)
(* full actions and natural executions (arbitrary floats) against the      *)
(* control parts plus relation flags computed by the abstraction.          *)
(*                                                                         *)
(* The M* constants are mechanism switches.  All FALSE is the mechanism of *)
(* the code as it stands and as docs/background.rst describes it; a TRUE   *)
(* switch is a seeded design error used as a canary: the named property    *)
(* must then be violated.                                                  *)
(***************************************************************************)
EXTENDS Integers, Sequences, FiniteSets, TLC, Json

CONSTANTS
  Adaptives, Screenings,     \* subsets of BOOLEAN: options.adaptive, options.include_screening
  Windows,                   \* options.adaptive_window (powers of two)
  RetrySet,                  \* options.max_solve_retries
  MulExps,                   \* adaptive_time_step_multiplier = 2^-mulexp
  InitEs, MaxE4s,            \* dt_init = 2^-inite, dt_max = 2^-maxe with maxe = m - 4, m \in MaxE4s (cfg files hold no
                             \* negative numbers); maxe <= inite, may be negative
  Deltas,                    \* possible max|d|psi|^2| of an answer, in units of 2^-FD
  MaxIters,                  \* options.max_iterations_per_step
  TolExps,                   \* screening_tolerance = 2^-tolexp
  AlphaExps,                 \* screening_step_size alpha = 2^-alphaexp
  BetaQs,                    \* screening_step_drag beta = betaq/4, betaq in 1..4
  Kicks,                     \* indices into KickTable: kernel output = current iterate + kick
  Thermals,                  \* subset of BOOLEAN: a thermalisation stage precedes the recorded stage (skip_time > 0)
  MaxSteps, MaxThermal, MaxRefusals,     \* exploration bounds: steps of the recorded stage, of the thermalisation stage, refusals
  MSliceExtra,               \* window slice [-window-1:] instead of [-window:]
  MClipInit,                 \* clip the tentative step to dt_init instead of dt_max
  MNeverRaise,               \* retry counter that never trips
  MMulFirst,                 \* multiplier applied once more than there were refusals
  MTestPrev,                 \* convergence test on the error of the previous iteration
  MReturnUnconverged,        \* return instead of raise when the iteration limit is hit
  MWarmupRule,               \* window rule applied during warm-up
  MGlobalStepCount,          \* warm-up counted over the whole run (no second warm-up after the stage restart)
  MResetTentative,           \* tentative step reset to dt_init at the stage restart
  MErrOnIncrement,           \* convergence measured on the increment Anew - A (previous iterate) instead of on the returned iterate
  MEntryPerIteration         \* one window entry per call of adaptive_euler_step (per screening iteration) instead of per solve step

FT == 24
MaxEs == {m - 4 : m \in MaxE4s}
FD == 16
Abs(x) == IF x < 0 THEN -x ELSE x
Min(a, b) == IF a < b THEN a ELSE b
ExactDiv(x, d) == IF x % d = 0 THEN x \div d ELSE Assert(FALSE, <<"inexact division: bounds too wide", x, d>>)
IsPow2(n) == n > 0 /\ \E k \in 0..30 : n = 2^k
Log2(n) == CHOOSE k \in 0..30 : 2^k = n
SetMin(S) == CHOOSE x \in S : \A y \in S : x <= y
RECURSIVE SeqSum(_)
SeqSum(sq) == IF sq = <<>> THEN 0 ELSE sq[1] + SeqSum(Tail(sq))
LastN(sq, n) == SubSeq(sq, Len(sq) - n + 1, Len(sq))

\* kernel increments (vector potential units); two edge classes, x component (the y component is 0)
KickTable == << <<0, 0>>, <<4096, 0>>, <<262144, 262144>>, <<262144, -262144>>, <<-262144, 4096>>, <<0, 8192>> >>
Zero == <<0, 0>>
VAdd(a, b) == <<a[1] + b[1], a[2] + b[2]>>
VSub(a, b) == <<a[1] - b[1], a[2] - b[2]>>

VARIABLES
  cfg,                       \* the configuration (a constant of the behaviour)
  stage,                     \* 1 = thermalisation (options.skip_time > 0), 2 = the recorded stage
  \* ---- control
  pc,                        \* "begin", "test", "links", "euler", "induced", "finish", "raised"
  step,                      \* state["step"] of the call
  s,                         \* screening_iteration
  retries,                   \* retries made in the current adaptive_euler_step
  nref,                      \* refusals so far (all steps)
  why,                       \* which RuntimeError: "none", "euler", "screening"
  conv, prevconv,            \* screening_error < tolerance (last, one before)
  kcalls,                    \* kernel evaluations so far
  \* ---- numeric
  dt,                        \* the time step in use
  adt,                       \* dt of the attempt that was answered
  tent,                      \* solver.tentative_dt
  dpsi,                      \* solver.d_psi_sq_vals (the last Window+1 entries)
  nent,                      \* number of window entries appended so far (whole run, both stages)
  dstep,                     \* ghost: max|d|psi|^2| of every completed SOLVE STEP (last answer of the step against the
                             \* step's old |psi|^2) IN THE CURRENT STAGE, last Window+1 entries; what the documented rule averages
  delta,                     \* max|d|psi|^2| of the last answer
  Aind, vel, knew,           \* Polyak iterate, velocity, last kernel output
  linkA,                     \* induced potential the operators were last refreshed with
  hist                       \* environment choices so far (the replay script)

cvars == <<cfg, stage, pc, step, s, retries, nref, why, conv, prevconv, kcalls>>
nvars == <<dt, adt, tent, dpsi, dstep, nent, delta, Aind, vel, knew, linkA, hist>>
vars == <<cvars, nvars>>
View == <<cfg, stage, pc, step, s, retries, nref, why, conv, prevconv, kcalls, dt, adt, tent, dpsi, dstep, nent, delta, Aind, vel, knew, linkA>>

Adaptive == cfg.adaptive
Screening == cfg.screening
Window == cfg.window
MaxRetries == cfg.retries
MulDen == 2^cfg.mulexp
DtInit == 2^(FT - cfg.inite)
DtMax == IF Adaptive THEN 2^(FT - cfg.maxe) ELSE DtInit     \* self.dt_max = dt_max if adaptive else dt_init
MaxIter == cfg.maxiter
TolDen == 2^cfg.tolexp
AlphaDen == 2^cfg.alphaexp
BetaQ == cfg.betaq

Canonical(c) ==   \* screening parameters do not matter without screening, nor adaptive ones without adaptivity
  /\ c.maxe <= c.inite
  /\ (~c.screening => /\ c.maxiter = SetMin(MaxIters) /\ c.tolexp = SetMin(TolExps)
                      /\ c.alphaexp = SetMin(AlphaExps) /\ c.betaq = SetMin(BetaQs))
  /\ (~c.adaptive => /\ c.window = SetMin(Windows) /\ c.retries = SetMin(RetrySet)
                     /\ c.mulexp = SetMin(MulExps) /\ c.maxe = SetMin(MaxEs))
CfgSpace == {c \in [thermal : Thermals, adaptive : Adaptives, screening : Screenings, window : Windows, retries : RetrySet,
                    mulexp : MulExps, inite : InitEs, maxe : MaxEs, maxiter : MaxIters, tolexp : TolExps,
                    alphaexp : AlphaExps, betaq : BetaQs] : Canonical(c)}

\* the floor max(1e-10, mean): with a zero mean the rule gives 1/2 (dt + dt_init * 1e10) >= 2^32 dt_init >= dt_max
ASSUME \A i \in InitEs, m \in MaxEs : i - m <= 32 /\ i <= FT - 2 /\ m >= -3
ASSUME \A w \in Windows : IsPow2(w)

InitWith(c) ==
  /\ cfg = c /\ stage = (IF c.thermal THEN 1 ELSE 2) /\ pc = "begin" /\ step = 0 /\ s = 0 /\ retries = 0 /\ nref = 0 /\ why = "none"
  /\ conv = FALSE /\ prevconv = FALSE /\ kcalls = 0
  /\ dt = 2^(FT - c.inite) /\ adt = 2^(FT - c.inite) /\ tent = 2^(FT - c.inite)
  /\ dpsi = <<>> /\ dstep = <<>> /\ nent = 0 /\ delta = 0 /\ Aind = Zero /\ vel = Zero /\ knew = Zero /\ linkA = Zero /\ hist = <<>>
Init == \E c \in CfgSpace : InitWith(c)

-----------------------------------------------------------------------------
(* Begin *)
BeginCtl == /\ pc = "begin" /\ step < (IF stage = 1 THEN MaxThermal ELSE MaxSteps)
            /\ pc' = "test" /\ s' = 0 /\ conv' = FALSE /\ prevconv' = FALSE /\ retries' = 0
            /\ UNCHANGED <<cfg, stage, step, nref, why, kcalls>>
BeginNum == /\ vel' = Zero                       \* velocity = [0.0]; A_induced_vals = [A_induced]
            /\ UNCHANGED <<dt, adt, tent, dpsi, dstep, nent, delta, Aind, knew, linkA, hist>>
Begin == BeginCtl /\ BeginNum

(* Test: top of `for screening_iteration in itertools.count()` *)
Converged == IF MTestPrev THEN prevconv ELSE conv
GoesOn == ~Converged /\ s <= MaxIter
TestCtl == /\ pc = "test"
           /\ IF Converged THEN pc' = "finish" /\ UNCHANGED why
              ELSE IF s > MaxIter
                     THEN IF MReturnUnconverged THEN pc' = "finish" /\ UNCHANGED why
                          ELSE pc' = "raised" /\ why' = "screening"
                     ELSE pc' = (IF Screening THEN "links" ELSE "euler") /\ UNCHANGED why
           /\ retries' = 0
           /\ UNCHANGED <<cfg, stage, step, s, nref, conv, prevconv, kcalls>>
TestNum == /\ dt' = IF GoesOn /\ s = 0 THEN tent ELSE dt     \* `if screening_iteration == 0: dt = self.tentative_dt`
           /\ UNCHANGED <<adt, tent, dpsi, dstep, nent, delta, Aind, vel, knew, linkA, hist>>
Test == TestCtl /\ TestNum

(* Links *)
LinksCtl == /\ pc = "links" /\ pc' = "euler" /\ UNCHANGED <<cfg, stage, step, s, retries, nref, why, conv, prevconv, kcalls>>
LinksNum == /\ linkA' = Aind /\ UNCHANGED <<dt, adt, tent, dpsi, dstep, nent, delta, Aind, vel, knew, hist>>
Links == LinksCtl /\ LinksNum

(* Refuse: solve_for_psi_squared returned None *)
Raising == ~Adaptive \/ (retries > MaxRetries /\ ~MNeverRaise)
RefuseCtl == /\ pc = "euler" /\ nref < MaxRefusals /\ nref' = nref + 1
             /\ IF Raising THEN pc' = "raised" /\ why' = "euler" /\ UNCHANGED retries
                ELSE pc' = "euler" /\ retries' = retries + 1 /\ UNCHANGED why
             /\ UNCHANGED <<cfg, stage, step, s, conv, prevconv, kcalls>>
RefuseNum == /\ dt' = IF Raising THEN dt ELSE ExactDiv(dt, MulDen)
             /\ hist' = Append(hist, [t |-> "R", d |-> 0, k |-> Zero])
             /\ UNCHANGED <<adt, tent, dpsi, dstep, nent, delta, Aind, vel, knew, linkA>>
Refuse == RefuseCtl /\ RefuseNum

(* Answer: solve_for_psi_squared returned a state *)
SliceLen == Window + (IF MSliceExtra THEN 1 ELSE 0)
Trim(sq) == IF Len(sq) > Window + 1 THEN LastN(sq, Window + 1) ELSE sq
WinSlice(sq) == LastN(sq, Min(SliceLen, Len(sq)))         \* python: d_psi_sq_vals[-n:]
RuleApplies == Adaptive /\ ((IF MGlobalStepCount THEN nent > Window ELSE step > Window) \/ MWarmupRule)
\* environment restriction: the sum the rule would divide by is 0 or a power of two
SumOk(sq) == LET sm == SeqSum(sq) IN (sm = 0 \/ IsPow2(sm)) /\ IsPow2(Len(sq))
WindowOk(d) == RuleApplies =>
                 /\ SumOk(WinSlice(Append(dpsi, d)))                       \* what the mechanism will average
                 /\ (Len(dstep) + 1 >= Window => SumOk(LastN(Append(dstep, d), Window)))   \* what the documented rule averages
AnswerCtl == /\ pc = "euler" /\ pc' = (IF Screening THEN "induced" ELSE "finish")
             /\ UNCHANGED <<cfg, stage, step, s, retries, nref, why, conv, prevconv, kcalls>>
AnswerNum(d) == /\ WindowOk(d) /\ delta' = d /\ adt' = dt
                /\ dt' = IF MMulFirst THEN ExactDiv(dt, MulDen) ELSE dt
                /\ hist' = Append(hist, [t |-> "A", d |-> d, k |-> Zero])
                /\ dpsi' = IF MEntryPerIteration /\ Adaptive THEN Trim(Append(dpsi, d)) ELSE dpsi
                /\ UNCHANGED <<tent, dstep, nent, Aind, vel, knew, linkA>>
Answer(d) == AnswerCtl /\ AnswerNum(d)

(* Induced: kernel evaluation an, then
     dA = an - A;  v' = (1 - beta) v + alpha dA;  A' = A + v';
     error = max_i |an_i - A'_i| / max(|A'_i|, 1e-20)                                   *)
PolyakV(an) == [i \in 1..2 |-> ExactDiv((4 - BetaQ) * vel[i], 4) + ExactDiv(an[i] - Aind[i], AlphaDen)]
ErrSmall(dA, a2) == \A i \in 1..2 : IF a2[i] = 0 THEN dA[i] = 0
                                    ELSE Abs(dA[i]) <= (Abs(a2[i]) - 1) \div TolDen     \* |dA| * 2^tolexp < |A'|
InducedCtl(c) == /\ pc = "induced" /\ pc' = "test" /\ s' = s + 1 /\ kcalls' = kcalls + 1
                 /\ prevconv' = conv /\ conv' = c
                 /\ UNCHANGED <<cfg, stage, step, retries, nref, why>>
InducedNum(an) == LET v2 == PolyakV(an) IN
                  /\ knew' = an /\ vel' = <<v2[1], v2[2]>> /\ Aind' = VAdd(Aind, <<v2[1], v2[2]>>)
                  /\ hist' = Append(hist, [t |-> "K", d |-> 0, k |-> an])
                  /\ UNCHANGED <<dt, adt, tent, dpsi, dstep, nent, delta, linkA>>
NewIterate(an) == LET v2 == PolyakV(an) IN VAdd(Aind, <<v2[1], v2[2]>>)
\* with a given kernel output (trace validation) ...
\* the error is the relative mismatch between the kernel output and the iterate that is RETURNED (A' = A + v'), so an
\* accepted step is self-consistent to the tolerance.  (Before /repo 2699d13 it was measured on the increment
\* Anew - A: the test then also passed when the iterate crossed the fixed point with momentum, and A + v' was returned
\* far from the kernel output; kept as the seeded switch MErrOnIncrement.)
Mismatch(an) == IF MErrOnIncrement THEN VSub(an, Aind) ELSE VSub(an, NewIterate(an))
InducedWith(an) == InducedCtl(ErrSmall(Mismatch(an), NewIterate(an))) /\ InducedNum(an)
\* ... and with the environment's choice: current iterate + kick
Induced(k) == /\ InducedCtl(ErrSmall(Mismatch(VAdd(Aind, KickTable[k])), NewIterate(VAdd(Aind, KickTable[k]))))
              /\ InducedNum(VAdd(Aind, KickTable[k]))

(* Finish: window rule (solver.py: `if step > window: new_dt = dt_init / max(1e-10, mean(vals[-window:]));
   tentative_dt = clip(0.5 * (new_dt + dt), 0, dt_max)`), return dt *)
Cap == IF MClipInit THEN DtInit ELSE DtMax
Rule(dtv, sq) ==
  LET sl == WinSlice(sq)
      sm == SeqSum(sl)
      xe == (FT - cfg.inite) + Log2(Len(sl)) + FD - Log2(sm)      \* dt_init / mean = 2^xe time units
  IN IF sm = 0 THEN Cap
     ELSE IF xe >= Log2(Cap) + 1 THEN Cap                          \* 1/2 (dt + X) >= X / 2 >= cap
     ELSE Min(ExactDiv(dtv + 2^xe, 2), Cap)
FinishCtl == /\ pc = "finish" /\ pc' = "begin" /\ step' = step + 1
             /\ UNCHANGED <<cfg, stage, s, retries, nref, why, conv, prevconv, kcalls>>
FinishNum == /\ IF Adaptive
                  THEN /\ dpsi' = IF MEntryPerIteration THEN dpsi ELSE Trim(Append(dpsi, delta))
                       /\ dstep' = Trim(Append(dstep, delta)) /\ nent' = nent + 1
                       /\ tent' = IF RuleApplies THEN Rule(dt, IF MEntryPerIteration THEN dpsi ELSE Append(dpsi, delta)) ELSE tent
                  ELSE UNCHANGED <<dpsi, dstep, nent, tent>>
             /\ UNCHANGED <<dt, adt, delta, Aind, vel, knew, linkA, hist>>
Finish == FinishCtl /\ FinishNum

(* StageRestart: Runner.run ends the 'Thermalizing' stage (time >= skip_time, at least one step since skip_time > 0)
   and starts 'Simulating': state["step"] and the time restart at 0.  The solver object persists, so tentative_dt and
   d_psi_sq_vals carry over, and so do the values (psi, induced potential); `step > window` is evaluated on the
   restarted index, so the recorded stage has a warm-up of its own during which tentative_dt stays what
   thermalisation left.  (Runner also keeps its own dt, the "previous step" handed to update, which update overwrites
   with tentative_dt before use.) *)
StageRestartCtl == /\ pc = "begin" /\ stage = 1 /\ step >= 1 /\ stage' = 2 /\ step' = 0
                   /\ UNCHANGED <<cfg, pc, s, retries, nref, why, conv, prevconv, kcalls>>
StageRestartNum == /\ tent' = IF MResetTentative THEN DtInit ELSE tent
                   /\ dstep' = <<>>                                   \* ghost: the documented list of THIS stage starts empty
                   /\ hist' = Append(hist, [t |-> "S", d |-> 0, k |-> Zero])
                   /\ UNCHANGED <<dt, adt, dpsi, nent, delta, Aind, vel, knew, linkA>>
StageRestart == StageRestartCtl /\ StageRestartNum

Next == Begin \/ StageRestart \/ Test \/ Links \/ Refuse \/ (\E d \in Deltas : Answer(d)) \/ (\E k \in Kicks : Induced(k)) \/ Finish
Spec == Init /\ [][Next]_vars

Terminal == pc = "raised" \/ (pc = "begin" /\ stage = 2 /\ step = MaxSteps)
\* behaviour export: the script of environment choices of every complete behaviour
Emit == Terminal => PrintT(ToJson([cfg |-> cfg, hist |-> hist, raised |-> why]))

-----------------------------------------------------------------------------
(* Properties.  C12 *)
DtPositive == dt > 0 /\ tent > 0 /\ adt > 0
DtAtMostMax == dt <= DtMax /\ tent <= DtMax
NonAdaptiveDtIsInit == ~Adaptive => (dt = DtInit /\ tent = DtInit)
RetriesBounded == retries <= MaxRetries + 1

\* the first attempt of a step is made with the tentative step
FirstAttemptUsesTentative == [][(pc = "test" /\ pc' \in {"links", "euler"} /\ s = 0) => dt' = tent]_vars
\* dt changes only there and in a retry: it is kept across screening iterations
DtKeptAcrossScreeningIterations ==
  [][(dt' # dt) => ((pc = "test" /\ s = 0) \/ (pc = "euler" /\ nref' = nref + 1))]_vars
\* each refusal that is retried multiplies dt by the configured factor, exactly once
RetryMultiplies == [][(pc = "euler" /\ nref' = nref + 1 /\ pc' # "raised")
                        => (dt' * MulDen = dt /\ retries' = retries + 1)]_vars
\* a refusal raises iff the run is not adaptive or max_solve_retries + 1 retries were already made
RetriesExhaustedRaises == [][(pc = "euler" /\ nref' = nref + 1)
                               => ((pc' = "raised") <=> (~Adaptive \/ retries > MaxRetries))]_vars
\* the step that is returned is the one of the attempt that was answered
ReturnedDtIsAnswered == (pc = "finish") => dt = adt

\* documented rule (docs/background.rst, eq. dt-tentative), written independently of `Rule`:
\*   delta_n = 1/N sum_{l=0}^{N-1} D_{n-l};   dt* = min(1/2 (dt_n + dt_init / delta_n), dt_max),  n > N
DocWindowSum(sq) == LET n == Len(sq) IN SeqSum([l \in 1..Window |-> sq[n - l + 1]])
DocRuleHolds(t2, dtv, sq) ==
  LET sm == DocWindowSum(sq)
      top == 2^(FT - cfg.maxe)
  IN IF sm = 0 THEN t2 = top
     ELSE LET xe == (FT - cfg.inite) + Log2(Window) + FD - Log2(sm) IN     \* dt_init * N / sum
          IF xe >= (FT - cfg.maxe) + 1 THEN t2 = top
          ELSE 2 * t2 = Min(dtv + 2^xe, 2 * top)
TentativeFollowsWindowRule ==
  [][(pc = "finish" /\ pc' = "begin") =>
        IF Adaptive /\ step > Window THEN DocRuleHolds(tent', dt, dstep') ELSE tent' = tent]_vars
TentativeChangesOnlyAtFinish == [][(tent' # tent) => pc = "finish"]_vars

(* C13 *)
AcceptedStepConverged == (pc = "finish" /\ Screening) => conv
IterationsBounded == s <= MaxIter + 1
NonConvergenceRaises == [][(pc = "test" /\ ~conv /\ s > MaxIter) => pc' = "raised" /\ why' = "screening"]_vars
ConvergedStops == [][(pc = "test" /\ conv) => pc' = "finish"]_vars
\* v' = (1 - beta) v + alpha (Anew - A),  A' = A + v'   (scaled by 4 * AlphaDen to stay in the integers)
PolyakUpdate == [][(pc = "induced" /\ pc' = "test") =>
                     \A i \in 1..2 : /\ 4 * AlphaDen * vel'[i] = (4 - BetaQ) * AlphaDen * vel[i] + 4 * (knew'[i] - Aind[i])
                                     /\ Aind'[i] = Aind[i] + vel'[i]]_vars
\* the exit test is the relative mismatch between the kernel output and the new (returned) iterate
ErrorIsRelativeMismatch == [][(pc = "induced" /\ pc' = "test") =>
                                (conv' <=> ErrSmall(VSub(knew', Aind'), Aind'))]_vars
\* hence what an accepted step returns reproduces the kernel output to the tolerance
AcceptedIterateIsSelfConsistent == (pc = "finish" /\ Screening /\ kcalls > 0) => ErrSmall(VSub(knew, Aind), Aind)
NoScreeningNoInduced == ~Screening => (kcalls = 0 /\ Aind = Zero /\ vel = Zero)
LinksFollowIterate == (pc = "euler" /\ Screening) => linkA = Aind
VelocityRestartsEachStep == [][(pc = "begin" /\ pc' = "test") => vel' = Zero]_vars

TypeOK == /\ pc \in {"begin", "test", "links", "euler", "induced", "finish", "raised", "dead"}   \* "dead": trace module, after the raise was observed
          /\ why \in {"none", "euler", "screening"} /\ (pc \in {"raised", "dead"} <=> why # "none")
          /\ stage \in {1, 2} /\ step >= 0 /\ retries >= 0 /\ s >= 0 /\ Len(dpsi) <= Window + 1 /\ Len(dstep) <= Window + 1
=============================================================================
