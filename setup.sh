#!/bin/sh
# Offline setup: parse every specification module with SANY and byte-compile the harness.
set -e
cd "$(dirname "$0")"
for f in spec/*.tla; do
  m=$(basename "$f" .tla)
  (cd spec && java -cp /opt/veriftools/tla/tla2tools.jar:/opt/veriftools/tla/CommunityModules-deps.jar tla2sany.SANY "$m.tla" >/tmp/sany_$m.log 2>&1) || { cat /tmp/sany_$m.log; exit 1; }
  rm -f /tmp/sany_$m.log
done
/venv/bin/python -m compileall -q harness checks >/dev/null
mkdir -p evidence replays
echo "setup ok"
