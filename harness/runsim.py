"""Concretisation and abstraction for the TdglRun specification.

`replay(script)` runs the REAL TDGLSolver.solve (DataHandler, Runner, frame writer,
Solution assembly, Solution.times / dynamics) on a tiny meshed device, with the physics
replaced by a scripted update function that uses the step sizes chosen by the TLA+
behaviour and raises the faults the behaviour injects.  What the code did is recorded as
a TdglRunTrace trace (events: open, save, update, close, return).

Encoding (all dyadic, hence exact in binary floating point):
  tick = 2^-4;  the dt used by the update with record id u is  ticks*tick + u*EPS, EPS = 2^-30
  so a record's dt identifies its uid, and a frame time identifies exactly which steps it sums.
  record ids: recorded stage n -> n; thermal n -> 500+n; interrupted ("ghost") +1000.
  content id: number of updates applied, stored in psi (all sites = content).
"""
from __future__ import annotations

import json
import os
import shutil
import tempfile
from pathlib import Path

import h5py
import numpy as np

TICK = 2.0 ** -4
EPS = 2.0 ** -30
BOT = -999  # abstraction failure marker; no specification action accepts it

FILEMAP = {"out.h5": "o0", "out.h5.tmp": "t0", "out-1.h5": "o1", "out-1.h5.tmp": "t1",
           "out-2.h5": "o2", "out-2.h5.tmp": "t2", "out-3.h5": "o3", "out-3.h5.tmp": "t3"}
TEMPMAP = {"output.h5": "o0", "output.h5.tmp": "t0"}
NAMES = ["o0", "t0", "o1", "t1", "o2", "t2", "o3", "t3"]
FOREIGN_BYTES = b"\x89HDF\r\n\x1a\nforeign file, do not touch" * 7

_DEV = {}


def tiny_device(tdgl, probes=0, terminals=False):
    key = (probes, terminals)
    if key in _DEV:
        return _DEV[key]
    from tdgl.geometry import box

    layer = tdgl.Layer(coherence_length=1, london_lambda=2, thickness=0.1)
    film = tdgl.Polygon("film", points=box(3, 2, points=16))
    terms = []
    if terminals:
        terms = [tdgl.Polygon("source", points=box(0.1, 2, center=(-1.5, 0))),
                 tdgl.Polygon("drain", points=box(0.1, 2, center=(1.5, 0)))]
    pp = {0: None, 1: [(0.2, 0.1)], 2: [(-1, 0), (1, 0)], 3: [(-1, 0), (0, 0.3), (1, 0)]}[probes]
    d = tdgl.Device("tiny", layer=layer, film=film, terminals=terms, probe_points=pp)
    d.make_mesh(max_edge_length=0.9)
    _DEV[key] = d
    return d


def code_uid(u):
    """record id used on the Python side -> uid of the specification"""
    if u >= 1500:
        return -(1000 + (u - 1500))
    if u >= 1000:
        return u
    if u >= 500:
        return -(u - 500)
    return u


def dt_value(ticks, code):
    return ticks * TICK + code * EPS


def dt_decode(x):
    """dt value -> (ticks, code) or None"""
    if not np.isfinite(x) or x <= 0:
        return None
    ticks = int(round(x / TICK))
    r = (x - ticks * TICK) / EPS
    code = int(round(r))
    if abs(r - code) > 1e-6 or ticks <= 0 or code < 0 or abs(x - ticks * TICK) > TICK / 4:
        return None
    return ticks, code


def filemap_for(outname="out.h5"):
    """relative path -> model name for the candidate names of a requested output path: the documented
    rule is <stem>[-n]<ext> for n = 1, 2, ... next to the requested file, each with a .tmp companion."""
    stem, ext = os.path.splitext(outname)
    m = {}
    for sidx in range(4):
        o = outname if sidx == 0 else f"{stem}-{sidx}{ext}"
        m[os.path.normpath(o)] = f"o{sidx}"
        m[os.path.normpath(o + ".tmp")] = f"t{sidx}"
    return m


def fs_state(sandbox: Path, tempd: Path, out_mode: str, foreign, filemap=None):
    """Abstract file-system state over the model names."""
    filemap = FILEMAP if filemap is None else filemap
    st = {n: "absent" for n in NAMES}
    openfds = set()
    for fd in os.listdir("/proc/self/fd"):
        try:
            openfds.add(os.readlink(f"/proc/self/fd/{fd}"))
        except OSError:
            pass
    unexpected = []
    if out_mode == "path":
        files = [p for p in sandbox.rglob("*") if p.is_file() and tempd not in p.parents]
        for p in files:
            rel = os.path.normpath(str(p.relative_to(sandbox)))
            n = filemap.get(rel)
            if n is None:
                unexpected.append(rel)
                continue
            if n in foreign:
                st[n] = "foreign" if p.read_bytes() == FOREIGN_BYTES else "modified"
            else:
                st[n] = "open" if str(p) in openfds else "closed"
        if any(tempd.iterdir()):
            unexpected.append("tempdir-used")
    else:
        for p in sandbox.iterdir():
            if p != tempd:
                unexpected.append(p.name)
        for d in tempd.iterdir():
            if d.is_dir():
                for p in d.iterdir():
                    n = TEMPMAP.get(p.name)
                    if n is None:
                        unexpected.append(p.name)
                    else:
                        st[n] = "open" if str(p) in openfds else "closed"
            else:
                unexpected.append(d.name)
    if unexpected:
        st["unexpected"] = sorted(unexpected)
    return st


def abstract_rs(rs_group_or_dict, k):
    """Abstract the running state handed to / stored by the writer into a list of K uids
    (0 = empty slot).  All columns must agree on which slots are filled; otherwise BOT."""
    cols = {}
    for name in rs_group_or_dict:
        cols[name] = np.atleast_1d(np.array(rs_group_or_dict[name]))
    if "dt" not in cols:
        return [BOT]
    dt = cols["dt"].reshape(-1)
    if dt.size != k:
        return [BOT] * max(1, dt.size)
    out = []
    for j in range(k):
        if dt[j] == 0:
            out.append(0)
            continue
        dec = dt_decode(float(dt[j]))
        out.append(code_uid(dec[1]) if dec else BOT)
    # cross-check the other columns: value = code + index/16 per probe row
    for name, arr in cols.items():
        if name == "dt":
            continue
        a = arr.reshape(-1, k) if arr.size % k == 0 and arr.size else None
        if a is None:
            return [BOT] * k
        for j in range(k):
            for r in range(a.shape[0]):
                want = 0.0 if out[j] == 0 else _col_value(name, _uid_code(out[j]), r)
                if out[j] != BOT and a[r, j] != want:
                    out[j] = BOT
    return out


def _uid_code(uid):
    if uid <= -1000:
        return 1500 + (-uid - 1000)
    if uid < 0:
        return 500 - uid
    return uid


def _col_value(name, code, row):
    if name == "screening_iterations":
        return float(code)
    if name == "mu":
        return code + row / 16.0
    if name == "theta":
        return float(np.angle(np.exp(1j * (0.001 * code + 0.1 * row))))
    return float(code)


ALLOWED_ROOT = {"data", "mesh", "solution", "version_info", "applied_vector_potential", "epsilon"}


def read_frames(h5, k, dts_by_code):
    """Abstract the frames of an output file (open handle or path)."""
    frames = []
    close = False
    if not isinstance(h5, (h5py.File, h5py.Group)):
        h5 = h5py.File(h5, "r")
        close = True
    try:
        # the documented layout of an output file: anything else at the root (scratch groups, half-written frames parked
        # outside "data", ...) is content that is not "exactly the frames recorded"
        extra = sorted(set(h5.keys()) - ALLOWED_ROOT) if getattr(h5, "name", "/") == "/" else []
        stray = [{"idx": BOT, "step": BOT, "time": BOT, "content": BOT, "hasrs": False, "rs": [], "complete": False,
                  "extra": extra}] if extra else []
        if "data" not in h5:
            return stray
        keys = list(h5["data"])
        for n, key in enumerate(keys):
            g = h5["data"][key]
            fr = {"idx": int(key) if key.lstrip("-").isdigit() else BOT}
            complete = True
            for a in ("step", "time", "dt", "timestamp"):
                if a not in g.attrs:
                    complete = False
            fr["step"] = int(g.attrs["step"]) if "step" in g.attrs else BOT
            fr["time"] = abstract_time(float(g.attrs["time"]), dts_by_code) if "time" in g.attrs else BOT
            need = ["psi", "mu", "supercurrent", "normal_current", "induced_vector_potential"]
            for d in need:
                if d not in g:
                    complete = False
            if "psi" in g:
                psi = np.array(g["psi"])
                fr["content"] = content_of(psi, np.array(g["mu"]) if "mu" in g else None)
            else:
                fr["content"] = BOT
            step = fr["step"]
            if "running_state" in g:
                fr["hasrs"] = True
                fr["rs"] = abstract_rs(g["running_state"], k)
            else:
                fr["hasrs"] = False
                fr["rs"] = []
                if step != 0:
                    complete = False
            if fr["idx"] != n:
                fr["content"] = BOT
            fr["complete"] = complete
            frames.append(fr)
        frames.extend(stray)
    finally:
        if close:
            h5.close()
    return frames


def content_of(psi, mu):
    """content id: psi = content + 1 everywhere (the initial psi = 1 is content 0), mu = content"""
    c = psi.flat[0]
    if not (np.all(psi == c) and c.imag == 0 and c.real == int(c.real) and c.real >= 1):
        return BOT
    if mu is not None and not np.all(mu == c.real - 1):
        return BOT
    return int(c.real) - 1


NO_ACC = {"acc": 0, "cur": 0, "ltcum": [], "lcur": [], "lclosest": []}


def accessor_view(sol, dts_by_code):
    """What the returned Solution's documented accessors report, beyond `times` and the raw per-step arrays:
    DynamicsData.time, the frame cursor (Solution.solve_step / load_tdgl_data, addressed from the front and
    from the back), closest_solve_step; the derived per-step accessors (voltage, phase_difference, time_slice,
    closest_time, mean_voltage) must be the documented projections of the records (else ltcum is unmatchable)."""
    try:
        dyn = sol.dynamics
        t = np.atleast_1d(np.asarray(dyn.time, dtype=float))
        ltcum = [abstract_time(float(x), dts_by_code) for x in t]
        dt = np.atleast_1d(np.asarray(dyn.dt, dtype=float))
        ok = True
        if len(t):
            a, b = len(t) // 3, max(len(t) // 3, (2 * len(t)) // 3)
            ok &= list(dyn.time_slice(t[a], t[b])) == list(range(a, b + 1))
            ok &= list(dyn.time_slice()) == list(range(len(t)))
            ok &= all(int(dyn.closest_time(float(x))) == j for j, x in enumerate(t))
            if len(t) > 1:
                ok &= int(dyn.closest_time(0.75 * t[0] + 0.25 * t[1])) == 0
        mu = None if dyn.mu is None else np.asarray(dyn.mu, dtype=float).reshape(-1, len(t))
        th = None if dyn.theta is None else np.asarray(dyn.theta, dtype=float).reshape(-1, len(t))
        if mu is not None and mu.shape[0] >= 2 and len(t):
            r = mu.shape[0] - 1
            ok &= np.array_equal(np.asarray(dyn.voltage()), mu[0] - mu[1])
            ok &= np.array_equal(np.asarray(dyn.voltage(r, 0)), mu[r] - mu[0])
            ok &= np.array_equal(np.asarray(dyn.phase_difference(0, r)), th[0] - th[r])
            v = mu[0] - mu[1]
            want = float(np.sum(v * dt) / np.sum(dt))
            got = float(dyn.mean_voltage())
            ok &= abs(got - want) <= 1e-12 * max(1.0, abs(want))
            a, b = len(t) // 4, max(len(t) // 4, len(t) // 2)
            sl = slice(a, b + 1)
            want = float(np.sum(v[sl] * dt[sl]) / np.sum(dt[sl]))
            got = float(dyn.mean_voltage(0, 1, tmin=t[a], tmax=t[b]))
            ok &= abs(got - want) <= 1e-12 * max(1.0, abs(want))
        if not ok:
            ltcum = [BOT]
        times = np.atleast_1d(sol.times)
        lclosest = [int(sol.closest_solve_step(float(x))) for x in times]
        if len(times) > 1 and int(sol.closest_solve_step(0.6 * times[-1] + 0.4 * times[-2])) != len(times) - 1:
            lclosest = [BOT]
        lo, hi = int(sol.data_range[0]), int(sol.data_range[1])
        nfr = hi - lo + 1
        lcur = []
        on_disk = bool(sol.saved_on_disk)       # a solution written to a temporary directory has no file to move a cursor in
        for f in (range(nfr) if on_disk else ()):
            idx = f if f % 2 == 0 else f - nfr          # addressed from the front and from the back
            sol.solve_step = idx
            d = sol.tdgl_data
            st = d.state
            if int(sol.solve_step) != f or int(d.step) != f:
                lcur.append([BOT, BOT, BOT])
                continue
            lcur.append([int(st["step"]), abstract_time(float(st["time"]), dts_by_code), content_of(np.asarray(d.psi), np.asarray(d.mu))])
        if on_disk:
            sol.solve_step = -1
        return {"acc": 1, "cur": 1 if on_disk else 0, "ltcum": ltcum, "lcur": lcur, "lclosest": lclosest}
    except Exception as e:      # noqa: BLE001 - an accessor that raises on a loadable solution is an observation
        return {"acc": 1, "cur": 1, "ltcum": [BOT], "lcur": [], "lclosest": [], "acc_exc": type(e).__name__ + ": " + str(e)[:200]}


def abstract_time(t, dts_by_code):
    """time -> ticks; exact consistency with the sum of step sizes is checked separately
    through the specification (time = sum of ticks); the residual must be a sum of codes."""
    ticks = int(round(t / TICK))
    if abs(t - ticks * TICK) > TICK / 4 or t < 0:
        return BOT
    r = (t - ticks * TICK) / EPS
    if r != int(r):          # not a sum of step sizes handed out by the scripted update
        return BOT
    return ticks


class Script:
    """Environment choices of one TdglRun behaviour."""

    def __init__(self, cfg, tdts, simdts, flog, probes=0, screening=False, progress=0, prior=None, fault_shape=0,
                 outname="out.h5", warn_error=False, pause=None):
        self.cfg = cfg
        self.tdts = list(tdts)
        self.simdts = list(simdts)
        self.flog = [dict(f) for f in flog]
        self.probes = probes
        self.screening = screening
        self.progress = progress
        # history: an earlier run of the same process written to the SAME output path and removed with
        # os.remove before this run starts (dict(k, solveT, simdts)); state must not leak between runs
        self.prior = prior
        self.fault_shape = fault_shape
        # the requested output path (relative to the run's working directory, or "ABS:<rel>" for an absolute path)
        self.outname = outname
        # environment: run with every warning turned into an error (python -W error / pytest -W error)
        self.warn_error = warn_error
        # pause_on_interrupt (the package default): a KeyboardInterrupt inside the loop asks the user; fault kind
        # "KIR" is answered "continue", kind "KI" is answered "no" (the ordinary way of cancelling a run).
        # None: on exactly when the behaviour contains a resume.
        self.pause = any(f.get("kind") == "KIR" for f in self.flog) if pause is None else bool(pause)

    def key(self):
        return (tuple(sorted((k, str(v)) for k, v in self.cfg.items())), tuple(self.tdts), tuple(self.simdts),
                tuple(tuple(sorted(f.items())) for f in self.flog), self.probes, self.screening, self.progress,
                json.dumps(self.prior, sort_keys=True), self.fault_shape, self.outname, self.warn_error)

    def to_json(self):
        return {"cfg": self.cfg, "tdts": self.tdts, "simdts": self.simdts, "flog": self.flog,
                "probes": self.probes, "screening": self.screening, "progress": self.progress, "prior": self.prior, "fault_shape": self.fault_shape, "outname": self.outname, "warn_error": self.warn_error}


class _FaultyDict(dict):
    """dict whose items() raises after the first item (fault inside the frame writer)."""

    def __init__(self, d, exc):
        super().__init__(d)
        self._exc = exc

    def items(self):
        first = True
        for kv in super().items():
            if not first:
                raise self._exc
            first = False
            yield kv


class Boom(RuntimeError):
    pass


class _Hang(BaseException):
    """raised by the alarm of the hang guard (BaseException: the code under test catches OSError, of which
    TimeoutError is a subclass, in its file-name search loop)"""


class _WeirdError(Exception):
    """user-defined error without arguments whose str() is empty"""

    def __str__(self):
        return ""


def replay(tdgl, script: Script, base_tmp: str | None = None):
    """Run the real solve with scripted physics; return the recorded trace (dict)."""
    from tdgl.solver import runner as runner_mod
    from tdgl.solver.solver import TDGLSolver

    if script.prior is not None:
        return _replay_with_prior(tdgl, script, base_tmp)
    return _replay(tdgl, script, base_tmp)


def _replay_with_prior(tdgl, script, base_tmp):
    """Run the prior script and the main script in ONE sandbox directory with the same relative and
    absolute output path; the prior's output is removed with os.remove in between."""
    sandbox = Path(tempfile.mkdtemp(prefix="sbxh", dir=base_tmp))
    try:
        pr = script.prior
        prior = Script(dict(k=pr["k"], solveT=pr["solveT"], skipT=0, out="path", foreign=[], bad="none"), [], pr["simdts"], pr.get("flog", []),
                       probes=script.probes, screening=script.screening, progress=script.progress)
        _replay(tdgl, prior, base_tmp, sandbox=sandbox, keep=True)
        for p in list(sandbox.iterdir()):
            if p.is_file():
                os.remove(p)
        main = Script(script.cfg, script.tdts, script.simdts, script.flog, script.probes, script.screening, script.progress)
        return _replay(tdgl, main, base_tmp, sandbox=sandbox, keep=True)
    finally:
        shutil.rmtree(sandbox, ignore_errors=True)


def _replay(tdgl, script, base_tmp=None, sandbox=None, keep=False):
    from tdgl.solver import runner as runner_mod
    from tdgl.solver.solver import TDGLSolver

    cfg = script.cfg
    k = cfg["k"]
    foreign = list(cfg.get("foreign", []))
    if sandbox is None:
        sandbox = Path(tempfile.mkdtemp(prefix="sbx", dir=base_tmp))
    tempd = sandbox / "tmpd"
    tempd.mkdir(exist_ok=True)
    outrel = script.outname[4:] if script.outname.startswith("ABS:") else script.outname
    fmap = filemap_for(outrel)
    requested = str(sandbox / outrel) if script.outname.startswith("ABS:") else outrel
    for n in foreign:
        fname = [f for f, m in fmap.items() if m == n][0]
        (sandbox / fname).parent.mkdir(parents=True, exist_ok=True)
        (sandbox / fname).write_bytes(FOREIGN_BYTES)
    events = []
    trace = {"cfg": {"k": k, "solveT": cfg["solveT"], "skipT": cfg["skipT"], "out": cfg["out"],
                     "foreign": foreign, "bad": "none"}, "ev": events}
    device = tiny_device(tdgl, script.probes)
    opts = tdgl.SolverOptions(
        solve_time=cfg["solveT"] * TICK, skip_time=cfg["skipT"] * TICK, dt_init=TICK, dt_max=10.0,
        adaptive=True, save_every=k, progress_interval=script.progress, pause_on_interrupt=script.pause,
        output_file=(requested if cfg["out"] == "path" else None), include_screening=script.screening,
        field_units="mT", current_units="uA",
    )
    st = {"n": 0, "thermal_n": 0, "sim_n": 0, "applied": 0, "saves": 0, "in_sim": cfg["skipT"] == 0, "injected": []}
    dts_by_code = {}
    faults = script.flog
    used_fault = [False] * len(faults)

    def pending_fault(where_set, i):
        stage = "sim" if st["in_sim"] else "thermal"
        for n, f in enumerate(faults):
            if not used_fault[n] and f["where"] in where_set and f["i"] == i and f["stage"] == stage:
                # faults fire in the order the behaviour lists them
                if all(used_fault[:n]):
                    used_fault[n] = True
                    return f
        return None

    def make_fault(kind):
        """The exception object injected for a fault; errors come in several shapes (with and without
        arguments, builtin and user-defined): a stopped run must be cleaned up whatever the error looks like."""
        st["last_kind"] = kind
        if kind in ("KI", "KIR"):
            exc = KeyboardInterrupt()
        else:
            shapes = [lambda: Boom("injected fault"), lambda: Boom(), lambda: AssertionError(), lambda: MemoryError(),
                      lambda: ValueError(), lambda: OSError(5, "injected I/O error"), lambda: _WeirdError()]
            exc = shapes[script.fault_shape % len(shapes)]()
        st["injected"].append(exc)
        return exc

    def raise_kind(kind):
        raise make_fault(kind)

    def scripted_update(state, running_state, dt, *, psi, mu, supercurrent, normal_current,
                        induced_vector_potential, applied_vector_potential=None, epsilon=None):
        i = int(state["step"])
        in_sim = st["in_sim"]
        if in_sim:
            n = st["sim_n"] + 1
            ticks = script.simdts[n - 1] if n <= len(script.simdts) else 1
            code = n
        else:
            n = st["thermal_n"] + 1
            ticks = script.tdts[n - 1] if n <= len(script.tdts) else 1
            code = 500 + n
        f = pending_fault({"update"}, i)
        if f is not None and f["at"] == "pre":
            events.append({"ev": "update", "i": i, "outcome": f["kind"], "at": "pre"})
            raise_kind(f["kind"])
        ghost = f is not None
        if ghost:
            code += 1000
            ticks = 1
        used = dt_value(ticks, code)
        dts_by_code[code] = used
        running_state.append("dt", used)
        if script.probes:
            running_state.append("mu", [_col_value("mu", code, r) for r in range(script.probes)])
            running_state.append("theta", [_col_value("theta", code, r) for r in range(script.probes)])
        if script.screening:
            running_state.append("screening_iterations", code)
        if ghost:
            events.append({"ev": "update", "i": i, "outcome": f["kind"], "at": "post"})
            raise_kind(f["kind"])
        if in_sim:
            st["sim_n"] = n
        else:
            st["thermal_n"] = n
        st["applied"] += 1
        c = st["applied"]
        events.append({"ev": "update", "i": i, "outcome": "ok", "at": "", "dt": ticks,
                       "uid": code_uid(code), "content": c})
        return (used, np.full_like(psi, c + 1), np.full_like(mu, float(c)), supercurrent, normal_current,
                induced_vector_potential)

    DH = runner_mod.DataHandler
    orig_enter, orig_exit, orig_save = DH.__enter__, DH.__exit__, DH.save_time_step

    def w_enter(self):
        try:
            r = orig_enter(self)
        except BaseException as e:
            events.append({"ev": "open", "serial": BOT, "fs": fs_state(sandbox, tempd, cfg["out"], foreign, fmap),
                           "exc": type(e).__name__})
            raise
        if cfg["out"] == "path":
            try:
                rel = os.path.normpath(os.path.relpath(os.path.abspath(self.output_path or ""), sandbox))
            except ValueError:
                rel = "?"
            serial = {v: int(v[1]) for v in fmap.values()}.get(fmap.get(rel, "?"), BOT) if fmap.get(rel, "?").startswith("o") else BOT
        else:
            serial = 0 if os.path.basename(self.output_path or "") == "output.h5" else BOT
        events.append({"ev": "open", "serial": serial, "fs": fs_state(sandbox, tempd, cfg["out"], foreign, fmap)})
        return r

    def w_save(self, state, data, running_state):
        st["in_sim"] = True
        i = int(state["step"])
        ev = {"ev": "save", "step": i, "time": abstract_time(float(state["time"]), dts_by_code),
              "hasrs": running_state is not None,
              "rs": abstract_rs(running_state, k) if running_state is not None else []}
        ev["content"] = content_of(np.asarray(data["psi"]), np.asarray(data["mu"]))
        f = pending_fault({"save", "final"}, i)
        if f is not None and f["at"] == "pre":
            ev.update(outcome=f["kind"], at="pre")
            events.append(ev)
            raise_kind(f["kind"])
        try:
            if f is not None:
                exc = make_fault(f["kind"])
                orig_save(self, state, _FaultyDict(data, exc), running_state)
            else:
                orig_save(self, state, data, running_state)
        except BaseException as e:
            injected = any(e is x for x in st["injected"])
            kind = ((f["kind"] if (injected and f is not None) else "KI") if isinstance(e, KeyboardInterrupt)
                    else ("Err" if injected else "Exc:" + type(e).__name__))
            ev.update(outcome=kind, at="mid")
            events.append(ev)
            raise
        ev.update(outcome="ok", at="")
        events.append(ev)

    def w_exit(self, et, ev_, tb):
        frames = None
        try:
            frames = read_frames(self.output_file, k, dts_by_code)
        except Exception as e:  # unreadable through the open handle
            frames = [{"idx": BOT, "step": BOT, "time": BOT, "content": BOT, "hasrs": False, "rs": [],
                       "complete": False, "exc": repr(e)}]
        try:
            return orig_exit(self, et, ev_, tb)
        finally:
            events.append({"ev": "close", "fs": fs_state(sandbox, tempd, cfg["out"], foreign, fmap), "frames": frames})

    from tdgl.solution.solution import Solution as _Solution
    orig_save_mesh, orig_to_hdf5 = DH.save_mesh, _Solution.to_hdf5

    def outer_fault(where):
        for n, f in enumerate(faults):
            if not used_fault[n] and f["where"] == where and all(used_fault[:n]):
                used_fault[n] = True
                events.append({"ev": "fault", "where": where, "outcome": f["kind"], "at": f["at"]})
                raise_kind(f["kind"])

    def w_save_mesh(self, mesh):
        outer_fault("run")
        return orig_save_mesh(self, mesh)

    def w_to_hdf5(self, *a, **kw):
        outer_fault("assemble")
        return orig_to_hdf5(self, *a, **kw)

    cwd = os.getcwd()
    old_tempdir = tempfile.tempdir
    result, exc_name, sol = "pending", "", None
    ltimes, luids, drange = [], [], []
    accv = dict(NO_ACC)
    try:
        os.chdir(sandbox)
        tempfile.tempdir = str(tempd)
        DH.__enter__, DH.__exit__, DH.save_time_step = w_enter, w_exit, w_save
        DH.save_mesh, _Solution.to_hdf5 = w_save_mesh, w_to_hdf5
        import signal

        def _on_alarm(signum, frame):
            raise _Hang()
        old_handler = signal.signal(signal.SIGALRM, _on_alarm)
        signal.alarm(int(os.environ.get("VERIF_HANG_S", "120")))
        import warnings as _warnings
        wctx = _warnings.catch_warnings()
        wctx.__enter__()
        if script.warn_error:
            _warnings.simplefilter("error")
        import builtins as _builtins
        orig_input = _builtins.input

        def _answer(prompt=""):
            # the user at the prompt: "continue" after a KIR fault, "no" (in several spellings) after a KI fault;
            # a prompt nobody provoked is answered "no" and recorded (no action of the specification matches it)
            st["prompts"] = st.get("prompts", 0) + 1
            kind = st.pop("last_kind", None)
            if kind == "KIR":
                return ["y", "Y", "yes", "Yes please"][st["prompts"] % 4]
            if kind is None:
                events.append({"ev": "fault", "where": "prompt", "outcome": "unprovoked", "at": "prompt"})
            return ["n", "", "N", "no", "q"][st["prompts"] % 5]
        _builtins.input = _answer
        orig_cls_update = TDGLSolver.update

        def _scripted_method(self, *args, **kw2):
            return scripted_update(*args, **kw2)
        try:
            # through the PUBLIC entry point tdgl.solve(): the wrapper around TDGLSolver.solve() is part of what a user
            # runs (the scripted physics is installed on the class for the duration of the call)
            TDGLSolver.update = _scripted_method
            sol = tdgl.solve(device, opts)
            result = "none" if sol is None else "solution"
        except _Hang:
            # the call did not return: no action of the specification matches this result
            result, exc_name = "hang", "no return within the time limit (run loop or file-name search does not terminate)"
        except KeyboardInterrupt:
            result, exc_name = "raised", "KeyboardInterrupt"
        except Exception as e:
            result, exc_name = "raised", type(e).__name__ + ": " + str(e)[:200]
            if st["injected"] and not any(e is x for x in st["injected"]) and any(not isinstance(x, KeyboardInterrupt) for x in st["injected"]) \
                    and not exc_name.startswith(("ValueError: need at least", "TypeError", "KeyError")):
                # the error that reached the caller is not the one that stopped the run: "the error propagates"
                result = "raised-other"
        finally:
            wctx.__exit__(None, None, None)
            signal.alarm(0)
            signal.signal(signal.SIGALRM, old_handler)
            _builtins.input = orig_input
            TDGLSolver.update = orig_cls_update
            DH.__enter__, DH.__exit__, DH.save_time_step = orig_enter, orig_exit, orig_save
            DH.save_mesh, _Solution.to_hdf5 = orig_save_mesh, orig_to_hdf5
        if sol is not None:
            try:
                times = sol.times
                ltimes = [abstract_time(float(x), dts_by_code) for x in np.atleast_1d(times)]
                dyn = sol.dynamics
                for x in np.atleast_1d(dyn.dt):
                    dec = dt_decode(float(x))
                    luids.append(code_uid(dec[1]) if dec else BOT)
                # other columns must line up with dt
                for name, arr in (("mu", dyn.mu), ("theta", dyn.theta), ("screening_iterations", dyn.screening_iterations)):
                    if arr is None:
                        continue
                    a = np.asarray(arr).reshape(-1, len(luids)) if len(luids) and np.asarray(arr).size % len(luids) == 0 else None
                    if a is None:
                        luids = [BOT] * max(1, len(luids))
                        break
                    for j, u in enumerate(luids):
                        for r in range(a.shape[0]):
                            if u != BOT and a[r, j] != _col_value(name, _uid_code(u), r):
                                luids[j] = BOT
                drange = [int(sol.data_range[0]), int(sol.data_range[1])]
            except Exception as e:
                result, exc_name = "raised", "on-load " + type(e).__name__ + ": " + str(e)[:200]
            if result == "solution":
                accv = accessor_view(sol, dts_by_code)
        ret = {"ev": "return", "result": result, "exc": exc_name, "ltimes": ltimes, "luids": luids,
               "range": drange, "fs": fs_state(sandbox, tempd, cfg["out"], foreign, fmap)}
        ret.update(accv)
        # independent re-read of the closed output file
        if cfg["out"] == "path":
            closed = [f for f, m in fmap.items() if m.startswith("o") and ret["fs"].get(m) == "closed"]
            ret["reread"] = {}
            for fn in closed:
                try:
                    ret["reread"][fmap[fn]] = read_frames(str(sandbox / fn), k, dts_by_code)
                except Exception as e:
                    ret["reread"][fmap[fn]] = "unreadable: " + repr(e)[:100]
        events.append(ret)
    finally:
        tempfile.tempdir = old_tempdir
        os.chdir(cwd)
        if not keep:
            shutil.rmtree(sandbox, ignore_errors=True)
    return trace


def normalise_for_tlc(trace):
    """Project a recorded trace onto the fields the trace specification reads (TLC's JSON
    reader needs homogeneous, total records) and fold the independent re-read into the
    close event: if the closed output file does not hold exactly the frames seen through
    the handle, the close event's frames are replaced by a marker no model state equals."""
    out = {"cfg": trace["cfg"], "coarse": bool(trace.get("coarse", False)), "ev": []}
    reread_bad = False
    ret = trace["ev"][-1] if trace["ev"] and trace["ev"][-1]["ev"] == "return" else None
    closes = [e for e in trace["ev"] if e["ev"] == "close"]
    if ret is not None and closes and "reread" in ret:
        want = closes[-1].get("frames", [])
        for name, fr in ret["reread"].items():
            # every closed output must be readable; the one that holds frames must hold
            # exactly the frames seen through the handle before it was closed
            if not isinstance(fr, list):
                reread_bad = True
            elif fr and fr != want:
                reread_bad = True
        if want and not any(isinstance(fr, list) and fr == want for fr in ret["reread"].values()):
            reread_bad = True
    for e in trace["ev"]:
        if e["ev"] == "open":
            out["ev"].append({"ev": "open", "serial": e["serial"], "fs": _fs(e["fs"])})
        elif e["ev"] == "save":
            out["ev"].append({"ev": "save", "outcome": e["outcome"], "at": e["at"], "step": e["step"],
                              "time": e["time"], "content": e["content"], "hasrs": e["hasrs"], "rs": e["rs"]})
        elif e["ev"] == "update":
            out["ev"].append({"ev": "update", "outcome": e["outcome"], "at": e["at"], "i": e["i"],
                              "dt": e.get("dt", 0), "uid": e.get("uid", 0), "content": e.get("content", 0)})
        elif e["ev"] == "close":
            frames = [{"step": f["step"], "time": f["time"], "content": f["content"], "hasrs": f["hasrs"],
                       "rs": f["rs"], "complete": f["complete"]} for f in e.get("frames", [])]
            if reread_bad:
                frames = frames + [{"step": BOT, "time": BOT, "content": BOT, "hasrs": False, "rs": [], "complete": False}]
            out["ev"].append({"ev": "close", "fs": _fs(e["fs"]), "frames": frames})
        elif e["ev"] == "return":
            out["ev"].append({"ev": "return", "result": e["result"], "ltimes": e["ltimes"], "luids": e["luids"],
                              "range": e["range"], "fs": _fs(e["fs"]), "acc": e.get("acc", 0), "cur": e.get("cur", 0), "ltcum": e.get("ltcum", []),
                              "lcur": e.get("lcur", []), "lclosest": e.get("lclosest", [])})
        elif e["ev"] == "reject":
            out["ev"].append({"ev": "reject", "phase": e["phase"], "cls": e["cls"]})
        elif e["ev"] == "fault":
            out["ev"].append({"ev": "fault", "where": e["where"], "outcome": e["outcome"], "at": e["at"]})
    return out


def _fs(fs):
    d = {n: fs.get(n, "absent") for n in NAMES}
    if "unexpected" in fs:
        d["o0"] = "unexpected:" + ",".join(fs["unexpected"])
    return d
