"""Small meshed devices shared by the checks (built with the real tdgl API, cached per process)."""
from __future__ import annotations

_CACHE = {}


def make(tdgl, kind="bar", *, mel=0.8, smooth=0, probes=2, length_units="um", xi=1.0, lam=2.0, d=0.1,
         gamma=10.0, scale=1.0, term_psi_note=None):
    """kind: 'film' (no terminals), 'bar' (2 terminals), 'barhole' (2 terminals + hole),
    'tee' (3 terminals), 'cross' (4 terminals), 'ring' (no terminals, hole)."""
    key = (kind, mel, smooth, probes, length_units, xi, lam, d, gamma, scale)
    if key in _CACHE:
        return _CACHE[key]
    from tdgl.geometry import box, circle

    s = scale
    layer = tdgl.Layer(coherence_length=xi * s, london_lambda=lam * s, thickness=d * s, gamma=gamma)
    W, H = 5.0 * s, 3.0 * s
    film = tdgl.Polygon("film", points=box(W, H, points=48))
    holes, terms = [], []
    if kind in ("barhole", "ring"):
        holes = [tdgl.Polygon("hole", points=circle(0.6 * s, points=16, center=(0.2 * s, 0.1 * s)))]
    if kind in ("bar", "barhole", "tee", "cross"):
        terms = [tdgl.Polygon("source", points=box(0.1 * s, H, center=(-W / 2, 0))),
                 tdgl.Polygon("drain", points=box(0.1 * s, H, center=(W / 2, 0)))]
    if kind in ("tee", "cross"):
        terms.append(tdgl.Polygon("top", points=box(1.5 * s, 0.1 * s, center=(0, H / 2))))
    if kind == "cross":
        terms.append(tdgl.Polygon("bottom", points=box(1.5 * s, 0.1 * s, center=(0.3 * s, -H / 2))))
    pp = {0: None, 2: [(-1.5 * s, 0.0), (1.5 * s, 0.0)], 3: [(-1.5 * s, 0.0), (0.0, 0.8 * s), (1.5 * s, 0.0)]}[probes]
    dev = tdgl.Device(kind, layer=layer, film=film, holes=holes, terminals=terms, probe_points=pp,
                      length_units=length_units)
    dev.make_mesh(max_edge_length=mel * s, smooth=smooth)
    _CACHE[key] = dev
    return dev


def balanced_currents(kind, amp=1.0):
    if kind in ("bar", "barhole"):
        return {"source": amp, "drain": -amp}
    if kind == "tee":
        return {"source": amp, "drain": -0.4 * amp, "top": -0.6 * amp}
    if kind == "cross":
        return {"source": amp, "drain": -0.5 * amp, "top": -0.25 * amp, "bottom": -0.25 * amp}
    return None
